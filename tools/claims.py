# Table of claims; exec'd by gen_manifest.py. Texts say what is decided and what is not.
COMMON_NOTE = ("Trusted: go/types, go/ssa, go/cfg, CHA/VTA (x/tools v0.29.0); go-cty v1.16.3 semantics as read; "
               "rules are keyed to resolved functions/types/fields, an anchor that no longer resolves fails closed. ")

claim("C01", "constant-table extraction from the syntax tree + comparison with a spec oracle",
      "Decides only the finite tables conformance rests on (operator precedence levels and their Impl functions, unary table, keyword literals, escape table, left-associative parse shape) for all inputs at once; evaluation semantics themselves are value-level and not decided.",
      COMMON_NOTE + "Oracle tables transcribed from hclsyntax/spec.md; the Ragel scanner is trusted.", "DESIGN.md §4 C01")
claim("C02", "dominance / must-pass-through rules on the CFG with resolved callees",
      "Decides that every insertion into a native body's attribute map is guarded by a duplicate test whose found edge raises an error, that parsed blocks are appended unfiltered in order, and that quoted labels go through the escape decoder; layout independence is not decided.",
      COMMON_NOTE, "DESIGN.md §4 C02")
claim("C04", "sibling cross-check + write-set analysis of the four Body implementations",
      "Decides hidden-set discipline (fresh superset maps, receiver never mutated, remainder carries every state field, all three readers honour hidden state, Content built on PartialContent); ordering and the two-step law as value equality are not decided.",
      COMMON_NOTE, "DESIGN.md §4 C04")
claim("C06", "SSA information-flow (marks vs content labels) over every evaluator return",
      "Decides the mark discipline on every path of every evaluator: content that reaches or selects an error-free result has its marks on that result (Rq1/Rq2) and mark-carrying fields are propagated (Rq3). Necessary for non-interference, not sufficient: losses inside cty/functions or hidden by merges are not decided.",
      COMMON_NOTE + "May-analysis on marks; classification table of cty methods is part of the trusted base.", "DESIGN.md §3 E-flow, §4 C06")
claim("C07", "sibling cross-check: evaluated fields vs walked fields, bound names vs child scopes",
      "Decides 'whatever is evaluated is walked under the same scope' for hclsyntax nodes, JSON expressions, hcldec specs and dynblock walkers on every path; correctness of the reported traversal steps is not decided.",
      COMMON_NOTE, "DESIGN.md §4 C07")
claim("C08", "symbolic type-term comparison of fresh decode() returns with impliedType()",
      "Decides that every fresh value a Spec.decode returns (absent/empty/unknown/error branches) has the type term of that spec's impliedType(); values assembled from decoded children are not decided.",
      COMMON_NOTE, "DESIGN.md §4 C08")
claim("C09", "reachable write-set analysis + decision-table evaluation of spaceAfterToken",
      "Decides that nothing reachable from the formatter writes any Token field but SpacesBefore or restructures a token slice, that WriteTo emits only spaces and token bytes, and (thorough) that the spacing decision table never glues word-like tokens nor spaces template content; idempotence is not decided.",
      COMMON_NOTE, "DESIGN.md §4 C09")
claim("C10", "linear-use (exactly-once consumption) analysis of inputTokens partitions over SSA",
      "Decides that every token partition made by the hclwrite loader is consumed exactly once on every path; alignment of hclsyntax ranges with token boundaries is not decided.",
      COMMON_NOTE, "DESIGN.md §3 E-linear, §4 C10")
claim("C11", "writer/reader escape-table inversion + keyword exclusion, extracted from syntax",
      "Decides that the generator's escape table is inverted by the reader's and covers the must-escape set, that bare keys exclude parser keywords, and that traversal generation is exhaustive; number formatting and value equality are not decided.",
      COMMON_NOTE, "DESIGN.md §4 C11")
claim("C12", "path rules (refresh-after-replace) + paired-update sibling rules on hclwrite",
      "Decides that cached node handles are refreshed after ReplaceWith, that children/items parallel structures are updated in pairs and that constructors set every handle; model equality of serialised output is not decided.",
      COMMON_NOTE, "DESIGN.md §4 C12")
claim("C13", "must-pass-through on the CFG + constant tables + forbidden-callee reachability",
      "Decides the trailing-data check on every return of both JSON entry points, the accepted keyword set, the literal mapping table, absence of float64 on the number path and that every failing parse return carries an error; language equivalence with JSON is not decided.",
      COMMON_NOTE, "DESIGN.md §4 C13")
claim("C14", "linear-form normalisation of the position arithmetic in emitToken",
      "Decides only emitToken's bookkeeping equations and EOF emission; tiling by the Ragel automaton and node range fidelity are not decided.",
      COMMON_NOTE, "DESIGN.md §4 C14")
claim("C15", "acquire/release typestate on the CFG + progress in parser loops + unmarked typestate + literal lint",
      "Decides for every input at once: newline-stack balance on every path of every parser function (the parser's only designed panic), token progress in every token-parser loop, absence of marked-value panics in evaluation/decoding, severity+summary on every diagnostic literal, and structural determinism of the parsing entry points. Index/nil/type-assertion panics on damaged input are not decided.",
      COMMON_NOTE + "cty's list of methods that panic on marked values is re-derived from the cty sources on every run.", "DESIGN.md §4 C15")
claim("C17", "lock-guard (lockset) analysis + lock pairing + reachable shared-write-set analysis",
      "Decides, independent of schedule, that the only shared state written from evaluation/content/variables/decode entry points is AnonSymbolExpr.values under its lock, keyed by the caller's context; equality of concurrent and sequential results beyond isolation is not decided.",
      COMMON_NOTE + "Freshness is decided by local definitions and summaries (no points-to analysis available).", "DESIGN.md §4 C17")
claim("C18", "sibling agreement across block specs + path rules on expandBlocks",
      "Decides that every block produced by expansion gets an expanded child body with the right iteration, that order is loop order, that labels/attributes are evaluated in the iterator scope, and that all block specs treat unknown bodies alike; value equality with the written-out body is not decided.",
      COMMON_NOTE, "DESIGN.md §4 C18")
claim("C19", "SSA information-flow: evaluated content must not reach Diagnostic.Summary/Detail",
      "Decides that no string computed from the content of an evaluated operand reaches a diagnostic message in any evaluator or decoder, and that the text writer prints values only under an IsMarked guard; cty conversion and function error texts are trusted/out of scope.",
      COMMON_NOTE, "DESIGN.md §3 E-flow, §4 C19")
claim("C20", "sibling cross-check of static accessors vs Value + inverse keyword/type tables",
      "Decides that AsTraversal/ExprList/ExprMap/ExprCall expose exactly the fields Value evaluates and that keyword and type-constructor tables are mutually inverse; equality of TraverseAbs and Value results is not decided.",
      COMMON_NOTE, "DESIGN.md §4 C20")

na("C03", "cross-syntax equality of decoded configurations relates the outputs of two unrelated algorithms under all schemas; no code shape decides it (shape-level parts are claimed under C04 and C13)")
na("C05", "soundness of unknown/refined results w.r.t. every concretisation is arithmetic on value ranges and cty semantics; the one shape-like clause needs path-sensitive flag reasoning that would false-alarm")
na("C16", "reflection-driven round trip of run-time values across gohcl/hclwrite/hclsyntax; nothing structural of its own (its dependencies are decided under C11 and C12)")
