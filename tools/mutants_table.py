# Table of positive controls (MUST) and behaviour-preserving rewrites (KEEP); see tools/mutants.py.
# mut(id, property, kind, file, old, new, rule)

# ---- C01 ----------------------------------------------------------------------------------------
mut("c01-prec-merge", "C01", "MUST", "hclsyntax/expression_ops.go",
    "\t\t\tTokenPlus:  OpAdd,\n\t\t\tTokenMinus: OpSubtract,\n\t\t},\n\t\t{\n", "\t\t\tTokenPlus:  OpAdd,\n\t\t\tTokenMinus: OpSubtract,\n", "optable")
mut("c01-op-swapped", "C01", "MUST", "hclsyntax/expression_ops.go",
    "TokenGreaterThanEq: OpGreaterThanOrEqual,", "TokenGreaterThanEq: OpGreaterThan,", "optable")
mut("c01-impl-swapped", "C01", "MUST", "hclsyntax/expression_ops.go",
    "Impl: stdlib.ModuloFunc,", "Impl: stdlib.DivideFunc,", "optable")
mut("c01-right-assoc", "C01", "MUST", "hclsyntax/parser.go",
    "rhs, rhsDiags = p.parseBinaryOps(remaining)", "rhs, rhsDiags = p.parseBinaryOps(ops)", "assoc")
mut("c01-unary-captures", "C01", "MUST", "hclsyntax/parser.go",
    "operand, diags := p.parseExpressionWithTraversals()\n\t\treturn &UnaryOpExpr{\n\t\t\tOp:  OpNegate,",
    "operand, diags := p.ParseExpression()\n\t\treturn &UnaryOpExpr{\n\t\t\tOp:  OpNegate,", "unary")
mut("c01-paren-pop-early", "C01", "MUST", "hclsyntax/parser.go",
    "\t\tclose := p.Peek()\n\t\tif close.Type != TokenCParen {", "\t\tp.PopIncludeNewlines()\n\t\tp.PushIncludeNewlines(false)\n\t\tclose := p.Peek()\n\t\tif close.Type != TokenCParen {", "")
mut("c01-escape-r", "C01", "MUST", "hclsyntax/parser.go",
    "case 'r':\n\t\t\t\tret = append(ret, '\\r')", "case 'r':\n\t\t\t\tret = append(ret, '\\n')", "escapes")
mut("c01-keep-remaining-inline", "C01", "KEEP", "hclsyntax/parser.go",
    "lhs, lhsDiags := p.parseBinaryOps(remaining)", "lhs, lhsDiags := p.parseBinaryOps(ops[1:])", "")
mut("c01-keep-demorgan", "C01", "KEEP", "hclsyntax/expression.go",
    "autoUpgrade := !(sourceTy.IsTupleType() || sourceTy.IsListType() || sourceTy.IsSetType())",
    "autoUpgrade := !sourceTy.IsTupleType() && !sourceTy.IsListType() && !sourceTy.IsSetType()", "")
mut("c01-keep-collection", "C01", "KEEP", "hclsyntax/expression.go",
    "autoUpgrade := !(sourceTy.IsTupleType() || sourceTy.IsListType() || sourceTy.IsSetType())",
    "autoUpgrade := !(sourceTy.IsTupleType() || (sourceTy.IsCollectionType() && !sourceTy.IsMapType()))", "")
mut("c01-upgrade-object", "C01", "MUST", "hclsyntax/expression.go",
    "autoUpgrade := !(sourceTy.IsTupleType() || sourceTy.IsListType() || sourceTy.IsSetType())",
    "autoUpgrade := !(sourceTy.IsTupleType() || sourceTy.IsListType() || sourceTy.IsSetType() || sourceTy.IsObjectType())", "splat.upgrade")

# ---- C02 ----------------------------------------------------------------------------------------
mut("c02-last-wins", "C02", "MUST", "hclsyntax/parser.go",
    "\t\t\t\t} else {\n\t\t\t\t\tattrs[titem.Name] = titem\n\t\t\t\t}", "\t\t\t\t}\n\t\t\t\tattrs[titem.Name] = titem", "dup.reject")
mut("c02-dup-warning", "C02", "MUST", "hclsyntax/parser.go",
    "\t\t\t\t\t\tSeverity: hcl.DiagError,\n\t\t\t\t\t\tSummary:  \"Attribute redefined\",", "\t\t\t\t\t\tSeverity: hcl.DiagWarning,\n\t\t\t\t\t\tSummary:  \"Attribute redefined\",", "dup.reject")
mut("c02-blocks-prepend", "C02", "MUST", "hclsyntax/parser.go",
    "blocks = append(blocks, titem)", "blocks = append(Blocks{titem}, blocks...)", "blocks.order")
mut("c02-blocks-dedupe", "C02", "MUST", "hclsyntax/parser.go",
    "blocks = append(blocks, titem)", "if len(blocks) == 0 || blocks[len(blocks)-1].Type != titem.Type || len(titem.Labels) > 0 {\n\t\t\t\t\tblocks = append(blocks, titem)\n\t\t\t\t}", "blocks.order")
mut("c02-label-raw-ident", "C02", "MUST", "hclsyntax/parser.go",
    "label, labelRange := string(tok.Bytes), tok.Range", "label, labelRange := blockType, tok.Range", "item.fields")
mut("c02-type-from-label", "C02", "MUST", "hclsyntax/structure.go",
    "Type:   b.Type,\n\t\tLabels: b.Labels,", "Type:   b.Type,\n\t\tLabels: b.Labels[:0:0],", "ashcl.fields")
mut("c02-newline-always", "C02", "MUST", "hclsyntax/peeker.go",
    "\t\tcase TokenNewline:\n\t\t\tif !p.includingNewlines() {\n\t\t\t\tcontinue\n\t\t\t}", "\t\tcase TokenNewline:\n\t\t\tif !p.includingNewlines() && i == 0 {\n\t\t\t\tcontinue\n\t\t\t}", "layout.filter")
mut("c02-comment-first-byte", "C02", "MUST", "hclsyntax/peeker.go",
    "tok.Bytes[len(tok.Bytes)-1] == '\\n' {", "tok.Bytes[0] == '#' {", "layout.filter")
mut("c02-keep-hassuffix", "C02", "KEEP", "hclsyntax/peeker.go",
    "if len(tok.Bytes) > 0 && tok.Bytes[len(tok.Bytes)-1] == '\\n' {", "if bytes.HasSuffix(tok.Bytes, []byte(\"\\n\")) {", "")
