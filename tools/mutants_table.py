# Table of positive controls (MUST) and behaviour-preserving rewrites (KEEP); see tools/mutants.py.
# mut(id, property, kind, file, old, new, rule)

# ---- C01 ----------------------------------------------------------------------------------------
mut("c01-prec-merge", "C01", "MUST", "hclsyntax/expression_ops.go",
    "\t\t\tTokenPlus:  OpAdd,\n\t\t\tTokenMinus: OpSubtract,\n\t\t},\n\t\t{\n", "\t\t\tTokenPlus:  OpAdd,\n\t\t\tTokenMinus: OpSubtract,\n", "optable")
mut("c01-op-swapped", "C01", "MUST", "hclsyntax/expression_ops.go",
    "TokenGreaterThanEq: OpGreaterThanOrEqual,", "TokenGreaterThanEq: OpGreaterThan,", "optable")
mut("c01-impl-swapped", "C01", "MUST", "hclsyntax/expression_ops.go",
    "Impl: stdlib.ModuloFunc,", "Impl: stdlib.DivideFunc,", "optable")
mut("c01-right-assoc", "C01", "MUST", "hclsyntax/parser.go",
    "rhs, rhsDiags = p.parseBinaryOps(remaining)", "rhs, rhsDiags = p.parseBinaryOps(ops)", "assoc")
mut("c01-unary-captures", "C01", "MUST", "hclsyntax/parser.go",
    "operand, diags := p.parseExpressionWithTraversals()\n\t\treturn &UnaryOpExpr{\n\t\t\tOp:  OpNegate,",
    "operand, diags := p.ParseExpression()\n\t\treturn &UnaryOpExpr{\n\t\t\tOp:  OpNegate,", "unary")
mut("c01-paren-pop-early", "C01", "MUST", "hclsyntax/parser.go",
    "\t\tclose := p.Peek()\n\t\tif close.Type != TokenCParen {", "\t\tp.PopIncludeNewlines()\n\t\tp.PushIncludeNewlines(false)\n\t\tclose := p.Peek()\n\t\tif close.Type != TokenCParen {", "")
mut("c01-escape-r", "C01", "MUST", "hclsyntax/parser.go",
    "case 'r':\n\t\t\t\tret = append(ret, '\\r')", "case 'r':\n\t\t\t\tret = append(ret, '\\n')", "escapes")
mut("c01-keep-remaining-inline", "C01", "KEEP", "hclsyntax/parser.go",
    "lhs, lhsDiags := p.parseBinaryOps(remaining)", "lhs, lhsDiags := p.parseBinaryOps(ops[1:])", "")
mut("c01-keep-demorgan", "C01", "KEEP", "hclsyntax/expression.go",
    "autoUpgrade := !(sourceTy.IsTupleType() || sourceTy.IsListType() || sourceTy.IsSetType())",
    "autoUpgrade := !sourceTy.IsTupleType() && !sourceTy.IsListType() && !sourceTy.IsSetType()", "")
mut("c01-keep-collection", "C01", "KEEP", "hclsyntax/expression.go",
    "autoUpgrade := !(sourceTy.IsTupleType() || sourceTy.IsListType() || sourceTy.IsSetType())",
    "autoUpgrade := !(sourceTy.IsTupleType() || (sourceTy.IsCollectionType() && !sourceTy.IsMapType()))", "")
mut("c01-upgrade-object", "C01", "MUST", "hclsyntax/expression.go",
    "autoUpgrade := !(sourceTy.IsTupleType() || sourceTy.IsListType() || sourceTy.IsSetType())",
    "autoUpgrade := !(sourceTy.IsTupleType() || sourceTy.IsListType() || sourceTy.IsSetType() || sourceTy.IsObjectType())", "splat.upgrade")

# ---- C02 ----------------------------------------------------------------------------------------
mut("c02-last-wins", "C02", "MUST", "hclsyntax/parser.go",
    "\t\t\t\t} else {\n\t\t\t\t\tattrs[titem.Name] = titem\n\t\t\t\t}", "\t\t\t\t}\n\t\t\t\tattrs[titem.Name] = titem", "dup.reject")
mut("c02-dup-warning", "C02", "MUST", "hclsyntax/parser.go",
    "\t\t\t\t\t\tSeverity: hcl.DiagError,\n\t\t\t\t\t\tSummary:  \"Attribute redefined\",", "\t\t\t\t\t\tSeverity: hcl.DiagWarning,\n\t\t\t\t\t\tSummary:  \"Attribute redefined\",", "dup.reject")
mut("c02-blocks-prepend", "C02", "MUST", "hclsyntax/parser.go",
    "blocks = append(blocks, titem)", "blocks = append(Blocks{titem}, blocks...)", "blocks.order")
mut("c02-blocks-dedupe", "C02", "MUST", "hclsyntax/parser.go",
    "blocks = append(blocks, titem)", "if len(blocks) == 0 || blocks[len(blocks)-1].Type != titem.Type || len(titem.Labels) > 0 {\n\t\t\t\t\tblocks = append(blocks, titem)\n\t\t\t\t}", "blocks.order")
mut("c02-label-raw-ident", "C02", "MUST", "hclsyntax/parser.go",
    "label, labelRange := string(tok.Bytes), tok.Range", "label, labelRange := blockType, tok.Range", "item.fields")
mut("c02-type-from-label", "C02", "MUST", "hclsyntax/structure.go",
    "Type:   b.Type,\n\t\tLabels: b.Labels,", "Type:   b.Type,\n\t\tLabels: b.Labels[:0:0],", "ashcl.fields")
mut("c02-newline-always", "C02", "MUST", "hclsyntax/peeker.go",
    "\t\tcase TokenNewline:\n\t\t\tif !p.includingNewlines() {\n\t\t\t\tcontinue\n\t\t\t}", "\t\tcase TokenNewline:\n\t\t\tif !p.includingNewlines() && i == 0 {\n\t\t\t\tcontinue\n\t\t\t}", "layout.filter")
mut("c02-comment-first-byte", "C02", "MUST", "hclsyntax/peeker.go",
    "tok.Bytes[len(tok.Bytes)-1] == '\\n' {", "tok.Bytes[0] == '#' {", "layout.filter")
mut("c02-keep-hassuffix", "C02", "KEEP", "hclsyntax/peeker.go",
    "if len(tok.Bytes) > 0 && tok.Bytes[len(tok.Bytes)-1] == '\\n' {", "if bytes.HasSuffix(tok.Bytes, []byte(\"\\n\")) {", "")

# ---- C04 ----------------------------------------------------------------------------------------
mut("c04-hidden-alias", "C04", "MUST", "hclsyntax/structure.go",
    "\tif b.hiddenAttrs != nil {\n\t\tfor k, v := range b.hiddenAttrs {\n\t\t\thiddenAttrs[k] = v\n\t\t}\n\t}",
    "\tif b.hiddenAttrs != nil {\n\t\thiddenAttrs = b.hiddenAttrs\n\t}", "hidden.fresh")
mut("c04-remain-drops-endrange", "C04", "MUST", "hclsyntax/structure.go",
    "\t\tSrcRange: b.SrcRange,\n\t\tEndRange: b.EndRange,\n\t}\n\n\treturn &hcl.BodyContent{", "\t\tSrcRange: b.SrcRange,\n\t}\n\n\treturn &hcl.BodyContent{", "remainder.complete")
mut("c04-just-ignores-hidden", "C04", "MUST", "hclsyntax/structure.go",
    "\t\tif _, hidden := b.hiddenAttrs[name]; hidden {\n\t\t\tcontinue\n\t\t}\n\t\tattrs[name] = attr.AsHCLAttribute()", "\t\tattrs[name] = attr.AsHCLAttribute()", "hidden.honoured")
mut("c04-merged-required", "C04", "MUST", "merged.go",
    "mergedAttrS.Required = false", "mergedAttrS.Required = attrS.Required", "merged.required")
mut("c04-keep-rename", "C04", "KEEP", "hclsyntax/structure.go",
    "\tif b.hiddenAttrs != nil {\n\t\tfor k, v := range b.hiddenAttrs {\n\t\t\thiddenAttrs[k] = v\n\t\t}\n\t}",
    "\tfor name := range b.hiddenAttrs {\n\t\thiddenAttrs[name] = struct{}{}\n\t}", "")

# ---- C12 ----------------------------------------------------------------------------------------
mut("c12-replace-not-refreshed", "C12", "MUST", "hclwrite/ast_attribute.go",
    "a.name = a.name.ReplaceWith(nameObj)", "a.name.ReplaceWith(nameObj)", "replace.refresh")
mut("c12-remove-block-keeps-item", "C12", "MUST", "hclwrite/ast_body.go",
    "\t\t\tn.Detach()\n\t\t\tb.items.Remove(n)\n\t\t\treturn true", "\t\t\tn.Detach()\n\t\t\treturn true", "paired")
mut("c12-labels-clear-items", "C12", "MUST", "hclwrite/ast_block.go",
    "\tbl.children.Clear()\n\tbl.items.Clear()", "\tbl.children.Clear()", "paired")
mut("c12-keep-swap-order", "C12", "KEEP", "hclwrite/ast_body.go",
    "\tnode.Detach()\n\tb.items.Remove(node)\n\treturn node.content.(*Attribute)", "\tb.items.Remove(node)\n\tnode.Detach()\n\treturn node.content.(*Attribute)", "")

# ---- C13 ----------------------------------------------------------------------------------------
mut("c13-trailing-dropped", "C13", "MUST", "json/parser.go",
    "func parseExpression(buf []byte, filename string, start hcl.Pos) (node, hcl.Diagnostics) {\n\ttokens := scan(buf, pos{Filename: filename, Pos: start})\n\tp := newPeeker(tokens)\n\tnode, diags := parseValue(p)\n\tif len(diags) == 0 && p.Peek().Type != tokenEOF {",
    "func parseExpression(buf []byte, filename string, start hcl.Pos) (node, hcl.Diagnostics) {\n\ttokens := scan(buf, pos{Filename: filename, Pos: start})\n\tp := newPeeker(tokens)\n\tnode, diags := parseValue(p)\n\tif len(diags) == 0 && p.Peek().Type != tokenEOF && false {", "trailing")
mut("c13-keyword-nan", "C13", "MUST", "json/parser.go",
    "\tcase \"undefined\", \"NaN\", \"Infinity\":\n\t\treturn nil, hcl.Diagnostics{", "\tcase \"undefined\", \"NaN\", \"Infinity\":\n\t\treturn &nullVal{SrcRange: tok.Range}, hcl.Diagnostics{", "keywords")
mut("c13-keep-trailing-split", "C13", "KEEP", "json/parser.go",
    "func parseExpression(buf []byte, filename string, start hcl.Pos) (node, hcl.Diagnostics) {\n\ttokens := scan(buf, pos{Filename: filename, Pos: start})\n\tp := newPeeker(tokens)\n\tnode, diags := parseValue(p)\n\tif len(diags) == 0 && p.Peek().Type != tokenEOF {",
    "func parseExpression(buf []byte, filename string, start hcl.Pos) (node, hcl.Diagnostics) {\n\ttokens := scan(buf, pos{Filename: filename, Pos: start})\n\tp := newPeeker(tokens)\n\tnode, diags := parseValue(p)\n\tif len(diags) != 0 {\n\t\treturn node, diags\n\t}\n\tif next := p.Peek(); next.Type != tokenEOF {", "")

# ---- C17 ----------------------------------------------------------------------------------------
mut("c17-unlocked-write", "C17", "MUST", "hclsyntax/expression.go",
    "func (e *AnonSymbolExpr) clearValue(ctx *hcl.EvalContext) {\n\te.valuesLock.Lock()\n\tdefer e.valuesLock.Unlock()\n", "func (e *AnonSymbolExpr) clearValue(ctx *hcl.EvalContext) {\n\te.valuesLock.RLock()\n\tdefer e.valuesLock.RUnlock()\n", "guard")
mut("c17-lock-not-released", "C17", "MUST", "hclsyntax/expression.go",
    "func (e *AnonSymbolExpr) setValue(ctx *hcl.EvalContext, val cty.Value) {\n\te.valuesLock.Lock()\n\tdefer e.valuesLock.Unlock()\n", "func (e *AnonSymbolExpr) setValue(ctx *hcl.EvalContext, val cty.Value) {\n\te.valuesLock.Lock()\n\tif ctx != nil {\n\t\tdefer e.valuesLock.Unlock()\n\t}\n", "pair.lock")
mut("c17-keep-explicit-unlock", "C17", "KEEP", "hclsyntax/expression.go",
    "\tif e.values == nil {\n\t\treturn\n\t}\n\tif ctx == nil {\n\t\tpanic(\"can't clearValue for a nil EvalContext\")\n\t}\n\tdelete(e.values, ctx)\n}",
    "\tif ctx == nil {\n\t\tpanic(\"can't clearValue for a nil EvalContext\")\n\t}\n\tif e.values != nil {\n\t\tdelete(e.values, ctx)\n\t}\n}", "")

# ---- C15 known ------------------------------------------------------------------------------------
mut("c15-known-objkey-guard-dropped", "C15", "MUST", "hclsyntax/expression.go",
    "\t\tif !key.IsKnown() {\n\t\t\tknown = false\n\t\t\tcontinue\n\t\t}\n\n\t\tkeyStr := key.AsString()",
    "\t\tif !key.IsKnown() {\n\t\t\tknown = false\n\t\t}\n\n\t\tkeyStr := key.AsString()", "known")
mut("c15-known-shortcircuit-order", "C15", "MUST", "hclsyntax/expression_ops.go",
    "\t\t\tcase lhs.IsKnown() && lhs.True():\n\t\t\t\treturn cty.True, lhsDiags\n\t\t\tcase rhs.IsKnown() && rhs.True():",
    "\t\t\tcase lhs.IsKnown() && lhs.True():\n\t\t\t\treturn cty.True, lhsDiags\n\t\t\tcase rhs.True():", "known")
mut("c15-keep-known-first-case-falls-out", "C15", "KEEP", "hclsyntax/expression_ops.go",
    "\t\t\t\t// If the LHS has an error, the RHS might too. Don't\n\t\t\t\t// short-circuit so both diags get collected.\n\t\t\t\treturn cty.NilVal, nil\n\n\t\t\t// for ||,",
    "\n\t\t\t// for ||,", "known")
mut("c15-known-json-null-guard-continues", "C15", "MUST", "json/structure.go",
    "\t\t\t\t\tDetail:      \"Cannot use null value as an object key.\",\n\t\t\t\t\tSubject:     &jsonAttr.NameRange,\n\t\t\t\t\tExpression:  valExpr,\n\t\t\t\t\tEvalContext: ctx,\n\t\t\t\t})\n\t\t\t\tcontinue\n",
    "\t\t\t\t\tDetail:      \"Cannot use null value as an object key.\",\n\t\t\t\t\tSubject:     &jsonAttr.NameRange,\n\t\t\t\t\tExpression:  valExpr,\n\t\t\t\t\tEvalContext: ctx,\n\t\t\t\t})\n", "known")
mut("c15-keep-known-demorgan", "C15", "KEEP", "hclsyntax/expression_ops.go",
    "\t\t\tcase !lhs.IsKnown() && rhs.False():\n\t\t\t\treturn cty.UnknownVal(cty.Bool).RefineNotNull(), lhsDiags\n\t\t\tcase !rhs.IsKnown() && lhs.False():\n\t\t\t\treturn cty.UnknownVal(cty.Bool).RefineNotNull(), rhsDiags\n\t\t\t}\n\n\t\t\treturn cty.NilVal, nil\n\t\t},\n\t}\n\tOpLogicalAnd",
    "\t\t\tcase !(lhs.IsKnown() || !rhs.False()):\n\t\t\t\treturn cty.UnknownVal(cty.Bool).RefineNotNull(), lhsDiags\n\t\t\tcase !(rhs.IsKnown() || !lhs.False()):\n\t\t\t\treturn cty.UnknownVal(cty.Bool).RefineNotNull(), rhsDiags\n\t\t\t}\n\n\t\t\treturn cty.NilVal, nil\n\t\t},\n\t}\n\tOpLogicalAnd", "")

# ---- C14 ------------------------------------------------------------------------------------------
mut("c14-start-col-off-by-one", "C14", "MUST", "hclsyntax/token.go",
    "start.Column += startOfs + f.StartByte - f.Pos.Byte", "start.Column += startOfs + f.StartByte - f.Pos.Byte + 1", "linform")
mut("c14-end-byte-start", "C14", "MUST", "hclsyntax/token.go",
    "end.Byte = endOfs + f.StartByte", "end.Byte = endOfs", "linform")
mut("c14-crlf-two-lines", "C14", "MUST", "hclsyntax/token.go",
    "(len(seq) == 2 && seq[0] == '\\r' && seq[1] == '\\n')", "(len(seq) == 2 && seq[1] == '\\n')", "linform")
mut("c14-cr-is-newline", "C14", "MUST", "hclsyntax/token.go",
    "(len(seq) == 1 && seq[0] == '\\n')", "(len(seq) == 1 && (seq[0] == '\\n' || seq[0] == '\\r'))", "linform")
mut("c14-column-not-reset", "C14", "MUST", "hclsyntax/token.go",
    "\t\t\tend.Line++\n\t\t\tend.Column = 1\n", "\t\t\tend.Line++\n\t\t\tend.Column = 0\n", "linform")
mut("c14-pos-not-threaded", "C14", "MUST", "hclsyntax/token.go",
    "\tf.Pos = end\n", "\tf.Pos = start\n", "linform")
mut("c14-bytes-whole", "C14", "MUST", "hclsyntax/token.go",
    "\t\tBytes: f.Bytes[startOfs:endOfs],", "\t\tBytes: f.Bytes[startOfs:],", "linform")
mut("c14-keep-locals", "C14", "KEEP", "hclsyntax/token.go",
    "\tend := start\n\tend.Byte = endOfs + f.StartByte\n", "\tendByte := endOfs + f.StartByte\n\tend := start\n\tend.Byte = endByte\n", "")
mut("c14-keep-demorgan", "C14", "KEEP", "hclsyntax/token.go",
    "\t\tif (len(seq) == 1 && seq[0] == '\\n') || (len(seq) == 2 && seq[0] == '\\r' && seq[1] == '\\n') {\n\t\t\tend.Line++\n\t\t\tend.Column = 1\n\t\t} else {\n\t\t\tend.Column++\n\t\t}",
    "\t\tisLF := len(seq) == 1 && seq[0] == '\\n'\n\t\tisCRLF := len(seq) == 2 && seq[0] == '\\r' && seq[1] == '\\n'\n\t\tif !isLF && !isCRLF {\n\t\t\tend.Column++\n\t\t} else {\n\t\t\tend.Line++\n\t\t\tend.Column = 1\n\t\t}", "")

# ---- C07 / C18 dyn.filter polarity ------------------------------------------------------------------
mut("c07-filter-inverted", "C07", "MUST", "ext/dynblock/variables.go",
    "\t\t\t\t\tours := traversal.RootName() == iteratorName\n\t\t\t\t\t_, inherited := blockIt.Inherited[traversal.RootName()]\n\n\t\t\t\t\tif !ours && !inherited {",
    "\t\t\t\t\tours := traversal.RootName() == iteratorName\n\t\t\t\t\t_, inherited := blockIt.Inherited[traversal.RootName()]\n\n\t\t\t\t\tif ours || inherited {", "dyn.filter")

# ---- C05 (converse clause) --------------------------------------------------------------------------
mut("c05-objkey-error-dropped", "C05", "MUST", "hclsyntax/expression.go",
    "\t\t\t\tSummary:     \"Incorrect key type\",\n\t\t\t\tDetail:      fmt.Sprintf(\"Can't use this value as a key: %s.\", err.Error()),\n\t\t\t\tSubject:     item.KeyExpr.Range().Ptr(),\n\t\t\t\tExpression:  item.KeyExpr,\n\t\t\t\tEvalContext: ctx,\n\t\t\t})\n\t\t\tknown = false\n\t\t\tcontinue",
    "\t\t\t\tSummary:     \"Incorrect key type\",\n\t\t\t\tDetail:      fmt.Sprintf(\"Can't use this value as a key: %s.\", err.Error()),\n\t\t\t\tSubject:     item.KeyExpr.Range().Ptr(),\n\t\t\t\tExpression:  item.KeyExpr,\n\t\t\t\tEvalContext: ctx,\n\t\t\t})\n\t\t\tcontinue\n\t\t}\n\t\tif key.Type() != cty.String {\n\t\t\tknown = false\n\t\t\tcontinue", "unknown.origin")
mut("c05-splat-dyn-before-null", "C05", "MUST", "hclsyntax/expression.go",
    "\tif sourceVal.IsNull() {\n\t\tif autoUpgrade {", "\tif sourceTy == cty.DynamicPseudoType {\n\t\treturn cty.DynamicVal.WithSameMarks(sourceVal), diags\n\t}\n\tif sourceVal.IsNull() {\n\t\tif autoUpgrade {", "unknown.origin")
mut("c05-keep-flag-demorgan", "C05", "KEEP", "hclsyntax/expression.go",
    "\t\tif !key.IsKnown() {\n\t\t\tknown = false\n\t\t\tcontinue\n\t\t}\n\n\t\tkeyStr := key.AsString()", "\t\tif key.IsKnown() == false {\n\t\t\tknown = false\n\t\t\tcontinue\n\t\t}\n\n\t\tkeyStr := key.AsString()", "")

# ---- renamed anchors (resolved by signature through hclcheck/anchors.json) ------------------------------
# mut(id, property, "RENAME", package directory, old identifier, new identifier)
mut("rename-spaceAfterToken", "C09", "RENAME", "hclwrite", "spaceAfterToken", "wantsSpaceAfter")
mut("rename-emitToken", "C14", "RENAME", "hclsyntax", "emitToken", "emit")
mut("rename-scanNumber", "C13", "RENAME", "json", "scanNumber", "scanNumberToken")
mut("rename-parseBinaryOps", "C01", "RENAME", "hclsyntax", "parseBinaryOps", "parseBinaryOperators")
mut("rename-nextToken", "C02", "RENAME", "hclsyntax", "nextToken", "advance")
mut("rename-expandBlocks", "C18", "RENAME", "ext/dynblock", "expandBlocks", "expandAllBlocks")
mut("rename-clearValue", "C17", "RENAME", "hclsyntax", "clearValue", "forgetValue")
mut("rename-valueStr", "C19", "RENAME", ".", "valueStr", "describeValue")
mut("rename-recover", "C01", "RENAME", "hclsyntax", "recoverOver", "skipOver")
mut("rename-recover-c15", "C15", "RENAME", "hclsyntax", "recoverAfterBodyItem", "skipToNextItem")
mut("rename-includingNewlines", "C02", "RENAME", "hclsyntax", "includingNewlines", "newlinesSignificant")
mut("rename-prepareBodyVal", "C08", "RENAME", "hcldec", "prepareBodyVal", "withBodyMarks")
mut("rename-prepareBodyVal-c06", "C06", "RENAME", "hcldec", "prepareBodyVal", "withBodyMarks")
mut("rename-parseTraversalStep", "C10", "RENAME", "hclwrite", "parseTraversalStep", "loadTraversalStep")
mut("rename-escapeQuotedStringLit", "C11", "RENAME", "hclwrite", "escapeQuotedStringLit", "escapeStringLit")
mut("rename-getType", "C20", "RENAME", "ext/typeexpr", "getType", "typeFromExpr")
mut("rename-mergedContent", "C04", "RENAME", ".", "mergedContent", "contentOfAll")
mut("rename-variablesNeeded", "C07", "RENAME", "hcldec", "variablesNeeded", "neededVariables")
mut("rename-detach", "C12", "RENAME", "hclwrite", "Detach", "Unlink")

# ---- C15 bounded.index ---------------------------------------------------------------------------
mut("c15-bounds-recover-guard-dropped", "C15", "MUST", "hclsyntax/parser.go",
    "\t\t\tif len(open) > 0 {\n\t\t\t\topen = open[:len(open)-1]\n\t\t\t}\n\n\t\tcase TokenTemplateSeqEnd:",
    "\t\t\topen = open[:len(open)-1]\n\n\t\tcase TokenTemplateSeqEnd:", "bounded.index")
mut("c15-bounds-validident-order", "C15", "MUST", "hclsyntax/public.go",
    "return len(tokens) == 2 && tokens[0].Type == TokenIdent && tokens[1].Type == TokenEOF",
    "return tokens[0].Type == TokenIdent && len(tokens) == 2 && tokens[1].Type == TokenEOF", "bounded.index")
mut("c15-bounds-newline-guard-dropped", "C15", "MUST", "hclwrite/format.go",
    "if len(tok.Bytes) > 0 && tok.Bytes[len(tok.Bytes)-1] == '\\n' {\n\t\t\treturn true",
    "if tok.Bytes[len(tok.Bytes)-1] == '\\n' {\n\t\t\treturn true", "bounded.index")
mut("c15-bounds-comment-cell-weaker", "C15", "KEEP", "hclwrite/format.go",
    "if len(line.lead) > 1 && line.lead[len(line.lead)-1].Type == hclsyntax.TokenComment {",
    "if n := len(line.lead); n >= 2 && line.lead[n-1].Type == hclsyntax.TokenComment {", "")
# intended as MUST; the check is right to stay silent: an earlier `len(line.lead) == 0 → continue` still dominates
mut("c15-bounds-comment-cell-zero", "C15", "KEEP", "hclwrite/format.go",
    "if len(line.lead) > 1 && line.lead[len(line.lead)-1].Type == hclsyntax.TokenComment {",
    "if len(line.lead) >= 0 && line.lead[len(line.lead)-1].Type == hclsyntax.TokenComment {", "")
mut("c15-bounds-keep-hoisted-top", "C15", "KEEP", "hclwrite/format.go",
    "\t\t\tfor closed > 0 && len(indents) > 0 {\n\t\t\t\tswitch {\n\n\t\t\t\tcase closed > indents[len(indents)-1]:\n\t\t\t\t\tclosed -= indents[len(indents)-1]\n\t\t\t\t\tindents = indents[:len(indents)-1]",
    "\t\t\tfor closed > 0 && len(indents) != 0 {\n\t\t\t\ttop := len(indents) - 1\n\t\t\t\tswitch {\n\n\t\t\t\tcase closed > indents[top]:\n\t\t\t\t\tclosed -= indents[top]\n\t\t\t\t\tindents = indents[:top]", "")
mut("c15-bounds-json-scan-guard", "C15", "MUST", "json/scanner.go",
    "\t\tfirst := buf[0]\n", "\t\tfirst := buf[0]\n\t\t_ = buf[1]\n", "bounded.index")
mut("c15-bounds-var-scan-leq", "C15", "MUST", "json/scanner.go",
    "\tfor i = 0; i < len(buf); i++ {\n\t\tb := buf[i]\n\t\tswitch {\n\t\tcase isAlphabetical(b) || b == '_':",
    "\tfor i = 0; i <= len(buf); i++ {\n\t\tb := buf[i]\n\t\tswitch {\n\t\tcase isAlphabetical(b) || b == '_':", "bounded.index")
mut("c15-bounds-var-hangs-off", "C15", "MUST", "hclwrite/parser.go",
    "\t\tif i >= len(toks) {\n\t\t\t// The range \"hangs off\" the end of the token sequence\n\t\t\treturn start, len(toks)\n\t\t}\n",
    "\t\tif i > len(toks) {\n\t\t\t// The range \"hangs off\" the end of the token sequence\n\t\t\treturn start, len(toks)\n\t\t}\n", "bounded.index")
mut("c15-bounds-var-after-token", "C15", "MUST", "hclwrite/format.go",
    "\t\t\tif i < (len(line.lead) - 1) {\n\t\t\t\tafter = line.lead[i+1]",
    "\t\t\tif i < len(line.lead) {\n\t\t\t\tafter = line.lead[i+1]", "bounded.index")
mut("c15-bounds-var-keep-restated", "C15", "KEEP", "hclwrite/format.go",
    "\t\t\tif i < (len(line.lead) - 1) {\n\t\t\t\tafter = line.lead[i+1]",
    "\t\t\tif next := i + 1; next <= len(line.lead)-1 {\n\t\t\t\tafter = line.lead[next]", "")
mut("c15-bounds-var-param-guard", "C15", "MUST", "hclsyntax/expression.go",
    "\t\t\ti := terr.Index\n\t\t\tvar param *function.Parameter\n\t\t\tif i < len(params) {",
    "\t\t\ti := terr.Index\n\t\t\tvar param *function.Parameter\n\t\t\tif i <= len(params) {", "bounded.index")
mut("c15-bounds-var-keep-flipped", "C15", "KEEP", "hclsyntax/expression.go",
    "\t\t\ti := terr.Index\n\t\t\tvar param *function.Parameter\n\t\t\tif i < len(params) {\n\t\t\t\tparam = &params[i]\n\t\t\t} else {\n\t\t\t\tparam = varParam\n\t\t\t}",
    "\t\t\ti := terr.Index\n\t\t\tparam := varParam\n\t\t\tif n := len(params); n > i {\n\t\t\t\tparam = &params[i]\n\t\t\t}", "")

# ---- C13 string.delims ---------------------------------------------------------------------------
mut("c13-delims-quote-only", "C13", "MUST", "json/scanner.go",
    'bytes.IndexAny(buf[i+1:i+advance], "\\"\\\\")', 'bytes.IndexAny(buf[i+1:i+advance], "\\"")', "string.delims")
mut("c13-delims-keep-two-searches", "C13", "KEEP", "json/scanner.go",
    'if j := bytes.IndexAny(buf[i+1:i+advance], "\\"\\\\"); j >= 0 {\n\t\t\t\tadvance = j + 1\n\t\t\t}',
    'rest := buf[i+1 : i+advance]\n\t\t\tif j := bytes.IndexByte(rest, \'"\'); j >= 0 {\n\t\t\t\tadvance = j + 1\n\t\t\t\trest = rest[:j]\n\t\t\t}\n\t\t\tif j := bytes.IndexByte(rest, \'\\\\\'); j >= 0 {\n\t\t\t\tadvance = j + 1\n\t\t\t}', "")

# ---- C04 append.shared / remainder.threaded (positive controls: zero sites on the tree) ---------------
mut("c04-append-shared-labels", "C04", "MUST", "json/structure.go",
    "\t\t\tdiags = append(diags, b.unpackBlock(p.Value, typeName, typeRange, labelsLeft[1:], labelsUsed, labelRanges, blocks)...)",
    "\t\t\tdiags = append(diags, b.unpackBlock(p.Value, typeName, typeRange, labelsLeft[1:], append(labelsUsed[:len(labelsUsed)-1], pk), labelRanges, blocks)...)", "append.shared")
mut("c04-remainder-not-threaded", "C04", "MUST", "ext/dynblock/unknown_body.go",
    "remain = unknownBody{template: remain, valueMarks: b.valueMarks}", "remain = unknownBody{template: b.template, valueMarks: b.valueMarks}", "remainder.threaded")
# ---- C06 marks.accumulate -------------------------------------------------------------------------
mut("c06-marks-overwritten", "C06", "MUST", "hclsyntax/expression_template.go",
    "allMarks = append(allMarks, strValMarks)", "allMarks = []cty.ValueMarks{strValMarks}", "marks.accumulate")
# ---- C07 vars.everyitem ---------------------------------------------------------------------------
mut("c07-filter-break", "C07", "MUST", "ext/dynblock/expr_wrap.go",
    "\t\tif rootName == e.i.IteratorName {\n\t\t\tcontinue\n\t\t}", "\t\tif rootName == e.i.IteratorName {\n\t\t\tbreak\n\t\t}", "vars.everyitem")
# ---- C10 lex.origin -------------------------------------------------------------------------------
mut("c10-lex-origin", "C10", "MUST", "hclwrite/parser.go",
    "hclsyntax.LexConfig(src, filename, start)", "hclsyntax.LexConfig(src, filename, hcl.Pos{Line: 1, Column: 1})", "lex.origin")
# ---- C11 escape.fastpath --------------------------------------------------------------------------
mut("c11-fastpath-percent", "C11", "MUST", "hclwrite/generate.go",
    "\tbuf := make([]byte, 0, len(s))\n\tfor i, r := range s {",
    "\tplain := true\n\tfor i := 0; i < len(s); i++ {\n\t\tif c := s[i]; c < 0x20 || c >= 0x7f || c == '\"' || c == '\\\\' || c == '$' {\n\t\t\tplain = false\n\t\t\tbreak\n\t\t}\n\t}\n\tif plain {\n\t\treturn []byte(s)\n\t}\n\tbuf := make([]byte, 0, len(s))\n\tfor i, r := range s {", "escape.fastpath")
mut("c11-keep-fastpath-complete", "C11", "KEEP", "hclwrite/generate.go",
    "\tbuf := make([]byte, 0, len(s))\n\tfor i, r := range s {",
    "\tplain := true\n\tfor i := 0; i < len(s); i++ {\n\t\tif c := s[i]; c < 0x20 || c >= 0x7f || c == '\"' || c == '\\\\' || c == '$' || c == '%' {\n\t\t\tplain = false\n\t\t\tbreak\n\t\t}\n\t}\n\tif plain {\n\t\treturn []byte(s)\n\t}\n\tbuf := make([]byte, 0, len(s))\n\tfor i, r := range s {", "")
# ---- C17 call.ctx ---------------------------------------------------------------------------------
mut("c17-userfunc-shared-ctx", "C17", "MUST", "ext/userfunc/decode.go",
    "\t\t\tctx = ctx.NewChild()\n\t\t\tctx.Variables = make(map[string]cty.Value)",
    "\t\t\tif len(params) > 0 || ctx == nil {\n\t\t\t\tctx = ctx.NewChild()\n\t\t\t\tctx.Variables = make(map[string]cty.Value)\n\t\t\t}", "call.ctx")
# ---- C18 unknown.noerror / unknownbody ------------------------------------------------------------
mut("c18-foreach-dynamic-rejected", "C18", "MUST", "ext/dynblock/expand_spec.go",
    "if !unmarkedEachVal.CanIterateElements() && unmarkedEachVal.Type() != cty.DynamicPseudoType {", "if !unmarkedEachVal.CanIterateElements() {", "unknown.noerror")
# ---- C20 accessor.nil -----------------------------------------------------------------------------
mut("c20-exprlist-nil-when-empty", "C20", "MUST", "hclsyntax/expression.go",
    "\tret := make([]hcl.Expression, len(e.Exprs))\n\tfor i, expr := range e.Exprs {\n\t\tret[i] = expr\n\t}\n\treturn ret",
    "\tvar ret []hcl.Expression\n\tfor _, expr := range e.Exprs {\n\t\tret = append(ret, expr)\n\t}\n\treturn ret", "accessor.nil")

# ---- C11 barekey (E-condeval) ---------------------------------------------------------------------
mut("c11-barekey-no-valid", "C11", "MUST", "hclwrite/generate.go",
    'if hclsyntax.ValidIdentifier(eKey.AsString()) && eKey.AsString() != "for" {', 'if eKey.AsString() != "for" {', "barekey")
mut("c11-barekey-for-bare", "C11", "MUST", "hclwrite/generate.go",
    'if hclsyntax.ValidIdentifier(eKey.AsString()) && eKey.AsString() != "for" {', 'if hclsyntax.ValidIdentifier(eKey.AsString()) {', "barekey")
mut("c11-barekey-keep-nested", "C11", "KEEP", "hclwrite/generate.go",
    'if hclsyntax.ValidIdentifier(eKey.AsString()) && eKey.AsString() != "for" {', 'if k := eKey.AsString(); !(k == "for" || !hclsyntax.ValidIdentifier(k)) {', "")

# ---- rules added after round-5 seeds -----------------------------------------------------------------
mut("c01-strip-sticky", "C01", "MUST", "hclsyntax/parser_template.go",
    "\t\tltrim := ltrimNext\n\t\tltrimNext = false\n", "\t\tltrim := ltrimNext\n", "strip.adjacent")
mut("c05-flag-set-back", "C05", "MUST", "hclsyntax/expression.go",
    "\t\tkeyStr := key.AsString()\n\n\t\tvals[keyStr] = val\n", "\t\tkeyStr := key.AsString()\n\t\tknown = true\n\n\t\tvals[keyStr] = val\n", "unknown.flag")
mut("c05-flag-keep-conj", "C05", "KEEP", "hclsyntax/expression.go",
    "\t\tif !key.IsKnown() {\n\t\t\tknown = false\n\t\t\tcontinue\n\t\t}\n\n\t\tkeyStr := key.AsString()",
    "\t\tknown = known && key.IsKnown()\n\t\tif !key.IsKnown() {\n\t\t\tcontinue\n\t\t}\n\n\t\tkeyStr := key.AsString()", "")
mut("c06-foreach-marks-nil", "C06", "MUST", "ext/dynblock/expand_body.go",
    "\t\t\t\t\t\tblock.Body = b.expandChild(block.Body, i, marks)", "\t\t\t\t\t\tblock.Body = b.expandChild(block.Body, i, nil)", "foreach.marks")
mut("c06-foreach-marks-outer", "C06", "MUST", "ext/dynblock/expand_body.go",
    "\t\t\t\t\t\ttemplate:   b.expandChild(block.Body, i, marks),", "\t\t\t\t\t\ttemplate:   b.expandChild(block.Body, i, b.valueMarks),", "foreach.marks")
mut("c07-pop-guarded", "C07", "MUST", "hclsyntax/variables.go",
    "\t\tw.localScopes = w.localScopes[:len(w.localScopes)-1]", "\t\tif last := len(w.localScopes) - 1; last > 0 {\n\t\t\tw.localScopes = w.localScopes[:last]\n\t\t}", "scope.pushpop")
mut("c11-rune-one-byte", "C11", "MUST", "hclwrite/generate.go",
    "func appendRune(b []byte, r rune) []byte {\n", "func appendRune(b []byte, r rune) []byte {\n\tif r <= 0xFF {\n\t\treturn append(b, byte(r))\n\t}\n", "byte(rune)")
mut("c11-rune-keep-ascii", "C11", "KEEP", "hclwrite/generate.go",
    "func appendRune(b []byte, r rune) []byte {\n", "func appendRune(b []byte, r rune) []byte {\n\tif r < 0x80 {\n\t\treturn append(b, byte(r))\n\t}\n", "")
mut("c12-append-newline-items-only", "C12", "MUST", "hclwrite/ast_body.go",
    "func (b *Body) appendItem(c nodeContent) *node {\n\tb.terminateLastLine()\n", "func (b *Body) appendItem(c nodeContent) *node {\n\tif len(b.items) > 0 {\n\t\tb.terminateLastLine()\n\t}\n", "append.newline")
mut("c12-append-newline-always", "C12", "MUST", "hclwrite/ast_body.go",
    "\t\tif !tokenIsNewline(toks[len(toks)-1]) {\n\t\t\tb.AppendNewline()\n\t\t}\n\t\treturn", "\t\tb.AppendNewline()\n\t\treturn", "append.newline")
mut("c12-loader-normalises", "C12", "MUST", "hclwrite/ast_body.go",
    "func (b *Body) appendItemNode(nn *node) *node {\n\tnn.assertUnattached()\n", "func (b *Body) appendItemNode(nn *node) *node {\n\tnn.assertUnattached()\n\tb.terminateLastLine()\n", "append.newline")
mut("c12-mutator-returns-nil", "C12", "MUST", "hclwrite/ast_body.go",
    "\tattr := b.GetAttribute(name)\n\texpr := NewExpressionRaw(tokens)\n\tif attr != nil {\n\t\tattr.expr = attr.expr.ReplaceWith(expr)\n\t} else {",
    "\tattr := b.GetAttribute(name)\n\texpr := NewExpressionRaw(tokens)\n\tif attr != nil {\n\t\tattr.expr = attr.expr.ReplaceWith(expr)\n\t\treturn nil\n\t} else {", "mutator.result")
mut("c19-label-guard-stripped", "C19", "MUST", "ext/dynblock/expand_spec.go",
    "\t\tvar convErr error\n\t\tlabelVal, convErr = convert.Convert(labelVal, cty.String)", "\t\tbareVal, _ := labelVal.Unmark()\n\t\tlabelVal, convErr := convert.Convert(bareVal, cty.String)", "iter.marks")
mut("c19-cond-placeholder-described", "C19", "MUST", "hclsyntax/expression.go",
    "\t\tif diags.HasErrors() {\n\t\t\t// A result expression that failed yields a placeholder, whose\n\t\t\t// type can differ from the other result's only as a consequence\n\t\t\t// of that failure: its own errors are what there is to report.\n\t\t\treturn cty.DynamicVal, diags\n\t\t}\n\n\t\t// The detailed description",
    "\t\t// The detailed description", "taint")
mut("c19-cond-keep-two-tests", "C19", "KEEP", "hclsyntax/expression.go",
    "\t\tif diags.HasErrors() {\n\t\t\t// A result expression that failed",
    "\t\tif trueDiags.HasErrors() || falseDiags.HasErrors() {\n\t\t\t// A result expression that failed", "")

# ---- rules of DESIGN §9.16-9.17 ------------------------------------------------------------------------
mut("c08-implied-one-level", "C08", "MUST", "hcldec/spec.go",
    "\tret := s.Nested.impliedType()\n\tfor range s.LabelNames {\n\t\tret = cty.Map(ret)\n\t}\n\treturn ret\n", "\treturn cty.Map(s.Nested.impliedType())\n", "labels.depth")
mut("c08-keep-implied-counting-loop", "C08", "KEEP", "hcldec/spec.go",
    "\tfor range s.LabelNames {\n\t\tret = cty.Map(ret)\n\t}\n\treturn ret\n", "\tfor i := 0; i < len(s.LabelNames); i++ {\n\t\tret = cty.Map(ret)\n\t}\n\treturn ret\n", "")
mut("c08-nested-labels-from-one", "C08", "MUST", "hcldec/spec.go",
    "decode(childBlock.Body, childLabels[len(s.LabelNames):], ctx, s.Nested, false)", "decode(childBlock.Body, childLabels[1:], ctx, s.Nested, false)", "labels.consumed", nth=2)
mut("c08-keep-nested-labels-local", "C08", "KEEP", "hcldec/spec.go",
    "decode(childBlock.Body, childLabels[len(s.LabelNames):], ctx, s.Nested, false)", "decode(childBlock.Body, childLabels[len(s.LabelNames):len(childLabels)], ctx, s.Nested, false)", "", nth=1)
mut("c14-range-from-startrange", "C14", "MUST", "hclsyntax/parser.go",
    "\t\tSrcRange: hcl.RangeBetween(startRange, falseExpr.Range()),", "\t\tSrcRange: hcl.RangeBetween(condExpr.StartRange(), falseExpr.Range()),", "range.start")
mut("c14-keep-diag-startrange", "C14", "KEEP", "hclsyntax/parser.go",
    "\t\t\tContext:  hcl.RangeBetween(startRange, colon.Range).Ptr(),", "\t\t\tContext:  hcl.RangeBetween(condExpr.StartRange(), colon.Range).Ptr(),", "")
mut("c10-close-token-is-comma", "C10", "MUST", "hclsyntax/parser.go",
    "\t\t\t// A trailing comma after the last argument gets us in here.\n\t\t\tcloseTok = p.Read() // eat closing paren", "\t\t\t// A trailing comma after the last argument gets us in here.\n\t\t\tcloseTok = sep\n\t\t\tp.Read() // eat closing paren", "token.kind")
mut("c12-accessor-counts-reads", "C12", "MUST", "hclwrite/ast_block.go",
    "func (bl *blockLabels) Current() []string {\n", "func (bl *blockLabels) Current() []string {\n\tbl.items.Add(nil)\n", "accessor.readonly")

# ---- rules of DESIGN §9.18 -----------------------------------------------------------------------------
mut("c07-visit-stops-at-blockspec", "C07", "MUST", "hcldec/public.go",
    "\t\t\t\t\tret[blockS.Type] = nested\n\t\t\t\t}\n\t\t\t}\n\t\t}\n", "\t\t\t\t\tret[blockS.Type] = nested\n\t\t\t\t}\n\t\t\t}\n\t\t\treturn\n\t\t}\n", "visit.recurse")
mut("c07-keep-visit-two-sites", "C07", "KEEP", "hcldec/public.go",
    "\t\tif bs, ok := s.(blockSpec); ok {\n\t\t\tfor _, blockS := range bs.blockHeaderSchemata() {",
    "\t\tbs, ok := s.(blockSpec)\n\t\tif !ok {\n\t\t\ts.visitSameBodyChildren(visit)\n\t\t\treturn\n\t\t}\n\t\t{\n\t\t\tfor _, blockS := range bs.blockHeaderSchemata() {", "")
mut("c13-entry-strips-bom", "C13", "MUST", "json/public.go",
    "\trootNode, diags := parseFileContent(src, filename, start)", "\tif len(src) >= 3 && src[0] == 0xef && src[1] == 0xbb && src[2] == 0xbf {\n\t\tsrc = src[3:]\n\t}\n\trootNode, diags := parseFileContent(src, filename, start)", "entry.verbatim")
mut("c13-keep-entry-local", "C13", "KEEP", "json/public.go",
    "\trootNode, diags := parseFileContent(src, filename, start)", "\tbuf := src\n\trootNode, diags := parseFileContent(buf, filename, start)", "")
mut("c15-must-parse-number", "C15", "MUST", "json/parser.go",
    "\tnv, err := cty.ParseNumberVal(string(num))", "\tnv, err := cty.MustParseNumberVal(string(num)), error(nil)", "must.calls")
mut("c15-runelen-unchecked", "C15", "MUST", "hclsyntax/parser.go",
    "\t\t\t\tif l == -1 {", "\t\t\t\tif num > utf8.MaxRune {", "runelen.guard")
mut("c15-keep-runelen-negative", "C15", "KEEP", "hclsyntax/parser.go",
    "\t\t\t\tif l == -1 {", "\t\t\t\tif l < 0 {", "")
mut("c09-format-trims", "C09", "MUST", "hclwrite/public.go",
    "\ttokens.WriteTo(buf)\n\treturn buf.Bytes()", "\ttokens.WriteTo(buf)\n\treturn bytes.TrimRight(buf.Bytes(), \" \")", "output.buffer")
mut("c09-keep-format-local", "C09", "KEEP", "hclwrite/public.go",
    "\ttokens.WriteTo(buf)\n\treturn buf.Bytes()", "\ttokens.WriteTo(buf)\n\tout := buf.Bytes()\n\treturn out", "")
mut("c14-read-skips-ahead", "C14", "MUST", "hclsyntax/peeker.go",
    "\tret, nextIdx := p.nextToken()\n\tp.NextIndex = nextIdx\n\treturn ret", "\tret, nextIdx := p.nextToken()\n\tif nextIdx < len(p.Tokens)-1 && p.Tokens[nextIdx].Type == TokenComment {\n\t\tnextIdx++\n\t}\n\tp.NextIndex = nextIdx\n\treturn ret", "peeker.index")
mut("c14-relative-range-from-steps", "C14", "MUST", "hclsyntax/parser.go",
    "\tcase *RelativeTraversalExpr:\n\t\ttexpr.Traversal = append(texpr.Traversal, next)\n\t\ttexpr.SrcRange = hcl.RangeBetween(texpr.SrcRange, rng)", "\tcase *RelativeTraversalExpr:\n\t\ttexpr.SrcRange = hcl.RangeBetween(texpr.SrcRange, texpr.Traversal.SourceRange())\n\t\ttexpr.Traversal = append(texpr.Traversal, next)", "range.param")
mut("c18-label-count-only-empty", "C18", "MUST", "ext/dynblock/expand_spec.go",
    "\t\t} else if len(labelExprs) < len(blockS.LabelNames) {", "\t\t} else if len(labelExprs) == 0 {", "label.count")
mut("c18-keep-label-count-neq", "C18", "KEEP", "ext/dynblock/expand_spec.go",
    "\t\t} else if len(labelExprs) < len(blockS.LabelNames) {", "\t\t} else if len(labelExprs) != len(blockS.LabelNames) {", "")
mut("c19-userfunc-param-unmarked", "C19", "MUST", "ext/userfunc/decode.go",
    "\t\t\t\tAllowMarked: true,\n\t\t\t})", "\t\t\t})", "userfunc.marks")

# ---- C03 sibling agreement of the native and JSON bodies --------------------------------------------
mut("c03-json-required-dropped", "C03", "MUST", "json/structure.go",
    "\t\tif !attrS.Required {\n\t\t\tcontinue\n\t\t}\n\t\tif _, defined := content.Attributes[attrS.Name]; !defined {",
    "\t\tif _, defined := content.Attributes[attrS.Name]; !defined && false {", "required.reported")
mut("c03-json-required-inverted", "C03", "MUST", "json/structure.go",
    "\t\tif !attrS.Required {\n\t\t\tcontinue\n\t\t}", "\t\tif attrS.Required {\n\t\t\tcontinue\n\t\t}", "required.reported")
mut("c03-native-required-dropped", "C03", "MUST", "hclsyntax/structure.go",
    "\t\t\tif attrS.Required {\n\t\t\t\tdiags = append(diags, &hcl.Diagnostic{\n\t\t\t\t\tSeverity: hcl.DiagError,", "\t\t\tif attrS.Required {\n\t\t\t\tdiags = append(diags, &hcl.Diagnostic{\n\t\t\t\t\tSeverity: hcl.DiagWarning,", "required.reported")
mut("c03-json-dup-overwrites", "C03", "MUST", "json/structure.go",
    "\t\t\t\t\tContext:  jsonAttr.Range().Ptr(),\n\t\t\t\t})\n\t\t\t\tcontinue\n", "\t\t\t\t\tContext:  jsonAttr.Range().Ptr(),\n\t\t\t\t})\n", "dup.reported")
mut("c03-json-dup-silent", "C03", "MUST", "json/structure.go",
    "if existing, exists := attrs[name]; exists {\n\t\t\tdiags = append(diags, &hcl.Diagnostic{\n\t\t\t\tSeverity: hcl.DiagError,",
    "if existing, exists := attrs[name]; exists {\n\t\t\tdiags = append(diags, &hcl.Diagnostic{\n\t\t\t\tSeverity: hcl.DiagWarning,", "dup.reported")
mut("c03-native-too-few-labels", "C03", "MUST", "hclsyntax/structure.go",
    "if len(block.Labels) < len(blockS.LabelNames) {", "if len(block.Labels) == 0 && len(blockS.LabelNames) > 0 {", "labels.exact")
mut("c03-json-labels-skip-two", "C03", "MUST", "json/structure.go",
    "typeName, typeRange, labelsLeft[1:], labelsUsed, labelRanges, blocks)", "typeName, typeRange, labelsLeft[len(labelsLeft):], labelsUsed, labelRanges, blocks)", "labels.exact")
mut("c03-json-comment-extraneous", "C03", "MUST", "json/structure.go",
    "\t\tk := attr.Name\n\t\tif k == \"//\" {", "\t\tk := attr.Name\n\t\tif k == \"#\" {", "comment.skipped")
mut("c03-json-comment-attribute", "C03", "MUST", "json/structure.go",
    "\t\tname := jsonAttr.Name\n\t\tif name == \"//\" {", "\t\tname := jsonAttr.Name\n\t\tif name == \"//\" && len(obj.Attrs) > 1 {", "comment.skipped")
mut("c03-keep-required-positive", "C03", "KEEP", "json/structure.go",
    "\t\tif !attrS.Required {\n\t\t\tcontinue\n\t\t}\n\t\tif _, defined := content.Attributes[attrS.Name]; !defined {",
    "\t\tif _, defined := content.Attributes[attrS.Name]; attrS.Required && !defined {", "")
mut("c03-keep-labels-neq", "C03", "KEEP", "json/structure.go",
    "\tif len(labelsLeft) > 0 {\n\t\tlabelName := labelsLeft[0]", "\tif len(labelsLeft) != 0 {\n\t\tlabelName := labelsLeft[0]", "")
mut("rename-unpackBlock", "C03", "RENAME", "json", "unpackBlock", "unpackBlocks")

# ---- C16 gohcl: tables, kinds, panics and indexing of the decoder -----------------------------------
mut("c16-panic-on-missing-attr", "C16", "MUST", "gohcl/decode.go",
    "\t\tif attr == nil {\n\t\t\tif !exprType.AssignableTo(field.Type) {\n\t\t\t\tcontinue\n\t\t\t}",
    "\t\tif attr == nil {\n\t\t\tif field.Type.Kind() == reflect.Chan {\n\t\t\t\tpanic(\"missing attribute for channel field\")\n\t\t\t}\n\t\t\tif !exprType.AssignableTo(field.Type) {\n\t\t\t\tcontinue\n\t\t\t}", "decode.panics")
mut("c16-dup-block-unguarded", "C16", "MUST", "gohcl/decode.go",
    "if len(blocks) > 1 && !isSlice {", "if len(blocks) != 1 && !isSlice {", "decode.index")
mut("c16-encoder-ignores-labels", "C16", "MUST", "gohcl/encode.go",
    "\tlabels := make([]string, len(tags.Labels))\n\tfor i, lf := range tags.Labels {\n\t\tlv := rv.Field(lf.FieldIndex)\n\t\t// We just stringify whatever we find. It should always be a string\n\t\t// but if not then we'll still do something reasonable.\n\t\tlabels[i] = fmt.Sprintf(\"%s\", lv.Interface())\n\t}",
    "\tvar labels []string", "tags.agree")
mut("c16-encoder-no-slices", "C16", "MUST", "gohcl/encode.go",
    "if elemTy.Kind() == reflect.Slice || elemTy.Kind() == reflect.Array {", "if elemTy.Kind() == reflect.Array {", "kinds.agree")
mut("c16-keep-kind-switch", "C16", "KEEP", "gohcl/encode.go",
    "if elemTy.Kind() == reflect.Slice || elemTy.Kind() == reflect.Array {\n\t\t\t\tisSeq = true\n\t\t\t\telemTy = elemTy.Elem()\n\t\t\t}",
    "switch elemTy.Kind() {\n\t\t\tcase reflect.Slice, reflect.Array:\n\t\t\t\tisSeq = true\n\t\t\t\telemTy = elemTy.Elem()\n\t\t\t}", "")
mut("c16-keep-len-zero-first", "C16", "KEEP", "gohcl/decode.go",
    "if len(blocks) > 1 && !isSlice {", "if !isSlice && len(blocks) >= 2 {", "")
mut("rename-decodeBodyToStruct", "C16", "RENAME", "gohcl", "decodeBodyToStruct", "decodeBodyIntoStruct")

# ---- rules of round 7 (DESIGN §9.21) ------------------------------------------------------------------
mut("c01-for-filter-true-skips", "C01", "MUST", "hclsyntax/expression.go",
    "\t\t\t\tif includeUnmarked.False() {\n\t\t\t\t\t// Skip this element\n\t\t\t\t\tcontinue\n\t\t\t\t}\n\t\t\t}\n\n\t\t\tkeyRaw, keyDiags := e.KeyExpr.Value(childCtx)",
    "\t\t\t\tif includeUnmarked.False() {\n\t\t\t\t\t// Skip this element\n\t\t\t\t\tknown = known && true\n\t\t\t\t}\n\t\t\t}\n\n\t\t\tkeyRaw, keyDiags := e.KeyExpr.Value(childCtx)", "for.filter")
mut("c01-keep-for-filter-true-form", "C01", "KEEP", "hclsyntax/expression.go",
    "\t\t\t\tif includeUnmarked.False() {\n\t\t\t\t\t// Skip this element\n\t\t\t\t\tcontinue\n\t\t\t\t}\n\t\t\t}\n\n\t\t\tkeyRaw, keyDiags := e.KeyExpr.Value(childCtx)",
    "\t\t\t\tif skip := includeUnmarked.False(); skip {\n\t\t\t\t\tcontinue\n\t\t\t\t}\n\t\t\t}\n\n\t\t\tkeyRaw, keyDiags := e.KeyExpr.Value(childCtx)", "")
mut("c01-op-result-own", "C01", "MUST", "hclsyntax/expression_ops.go",
    "\treturn result.WithMarks(lhsMarks, rhsMarks), diags\n}\n\nfunc (e *BinaryOpExpr) Range()",
    "\tif e.Op == OpEqual && lhsVal.RawEquals(rhsVal) {\n\t\treturn cty.True.WithMarks(lhsMarks, rhsMarks), diags\n\t}\n\treturn result.WithMarks(lhsMarks, rhsMarks), diags\n}\n\nfunc (e *BinaryOpExpr) Range()", "op.impl")
mut("c01-keep-op-result-local", "C01", "KEEP", "hclsyntax/expression_ops.go",
    "\treturn result.WithMarks(lhsMarks, rhsMarks), diags\n}\n\nfunc (e *BinaryOpExpr) Range()",
    "\tmarked := result.WithMarks(lhsMarks, rhsMarks)\n\tret := marked\n\treturn ret, diags\n}\n\nfunc (e *BinaryOpExpr) Range()", "")
mut("c17-splat-shared-child", "C17", "MUST", "hclsyntax/expression.go",
    "\t\tchiCtx := ctx.NewChild()\n", "\t\tchiCtx := ctx.NewChild().Parent()\n", "ctx.fresh")
mut("c17-keep-splat-child-var", "C17", "KEEP", "hclsyntax/expression.go",
    "\t\tchiCtx := ctx.NewChild()\n", "\t\tvar chiCtx *hcl.EvalContext\n\t\tchiCtx = ctx.NewChild()\n", "")
mut("c20-json-traversal-prefilter", "C20", "MUST", "json/structure.go",
    "\t\ttraversal, diags := hclsyntax.ParseTraversalAbs([]byte(v.Value), v.SrcRange.Filename, v.SrcRange.Start)\n\t\tif diags.HasErrors() {\n\t\t\treturn nil\n\t\t}\n\t\treturn traversal",
    "\t\tif len(v.Value) > 0 && v.Value[0] == '\"' {\n\t\t\treturn nil\n\t\t}\n\t\ttraversal, diags := hclsyntax.ParseTraversalAbs([]byte(v.Value), v.SrcRange.Filename, v.SrcRange.Start)\n\t\tif diags.HasErrors() {\n\t\t\treturn nil\n\t\t}\n\t\treturn traversal", "json.traversal")
mut("c18-schema-own", "C18", "MUST", "ext/dynblock/expand_body.go",
    "rawContent, _, diags := b.original.PartialContent(extSchema)", "_ = extSchema\n\trawContent, _, diags := b.original.PartialContent(schema)", "schema.extended")
mut("c06-unknown-body-unmarked", "C06", "MUST", "hcldec/spec.go",
    "return prepareBodyVal(cty.UnknownVal(s.impliedType().WithoutOptionalAttributesDeep()), childBlock.Body), diags\n\t\t}\n\t}\n\tval, _, childDiags",
    "return cty.UnknownVal(s.impliedType().WithoutOptionalAttributesDeep()), diags\n\t\t}\n\t}\n\tval, _, childDiags", "bodymarks.unknown")
mut("c04-native-justattrs-ignores-hidden-blocks", "C04", "MUST", "hclsyntax/structure.go",
    "\t\tif _, hidden := b.hiddenBlocks[example.Type]; hidden {\n\t\t\t// already consumed by an earlier PartialContent call\n\t\t\tcontinue\n\t\t}\n", "", "hidden.honoured")
mut("rename-extendSchema", "C18", "RENAME", "ext/dynblock", "extendSchema", "schemaWithDynamic")
mut("rename-setValue", "C17", "RENAME", "hclsyntax", "setValue", "bindValue")
mut("rename-numberLitValue", "C11", "RENAME", "hclsyntax", "numberLitValue", "numberTokenValue")
mut("rename-parseTemplateParts", "C11", "RENAME", "hclsyntax", "parseTemplateParts", "parseTemplateTokens")
mut("rename-prepareBodyVal", "C06", "RENAME", "hcldec", "prepareBodyVal", "withBodyMarks")
