#!/bin/sh
# usage: tools/mutest.sh <patch.diff> <Cxx> [tier]  — run a check against a scratch copy of /repo with the patch applied.
set -u
PATCH="$(readlink -f "$1")"; PROP="$2"; TIER="${3:-quick}"
V="$(cd "$(dirname "$0")/.." && pwd)"
S="$(mktemp -d /tmp/mut.XXXXXX)"
rsync -a --exclude .git /repo/ "$S/repo/"
mkdir -p "$S/verif"; cp "$V/known_findings.txt" "$S/verif/" 2>/dev/null
if ! (cd "$S/repo" && patch -p1 -s --no-backup-if-mismatch < "$PATCH" >/dev/null 2>&1); then
  # the seed was written against the pinned tree; a version rebased onto the fix: commits may sit next to it
  RB="$(dirname "$PATCH")/patch.rebased.diff"
  rm -rf "$S/repo"; rsync -a --exclude .git /repo/ "$S/repo/"
  if [ ! -f "$RB" ] || ! (cd "$S/repo" && patch -p1 -s --no-backup-if-mismatch < "$RB"); then echo "PATCH DID NOT APPLY"; rm -rf "$S"; exit 3; fi
fi
[ -x "$V/bin/hclcheck" ] || "$V/check" "$PROP" quick >/dev/null 2>&1
cp "${HCLCHECK_BIN:-$V/bin/hclcheck}" "$S/hclcheck"
GOPROXY=off GOWORK=off "$S/hclcheck" -property "$PROP" -tier "$TIER" -repo "$S/repo" -verif "$S/verif" | grep -v "^  \[ok\]" | sed "s#$S/##g"
rc=$?
rm -rf "$S"
exit $rc
