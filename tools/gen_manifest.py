#!/usr/bin/env python3
"""Generates /verif/MANIFEST.json from the table below (kept next to the checks so
that the manifest is valid at all times). Run: python3 tools/gen_manifest.py"""
import json, os, subprocess, sys

HERE = os.path.dirname(os.path.dirname(os.path.abspath(__file__)))

# property -> (technique, level text, level note, design ref)
CLAIMS = {}
NA = {}

def claim(pid, technique, text, note, ref):
    CLAIMS[pid] = dict(technique=technique, text=text, note=note, ref=ref)

def na(pid, reason):
    NA[pid] = reason

exec(open(os.path.join(HERE, "tools", "claims.py")).read())

implemented = subprocess.run([os.path.join(HERE, "bin", "hclcheck"), "-list"], capture_output=True, text=True).stdout.split()

checks = []
not_applicable = []
for i in range(1, 21):
    pid = "C%02d" % i
    if pid in CLAIMS and pid in implemented:
        c = CLAIMS[pid]
        checks.append({
            "property_id": pid,
            "quick_cmd": "./check %s quick" % pid,
            "thorough_cmd": "./check %s thorough" % pid,
            "evidence_file": "/verif/evidence/%s.json" % pid,
            "replay_cmd_template": "cat {path}",
            "engine": "hclcheck",
            "level_claimed": {"category": "other", "text": c["text"], "design_ref": c["ref"]},
            "level_note": c["note"],
            "technique": c["technique"],
        })
    elif pid in NA:
        not_applicable.append({"property_id": pid, "reason": NA[pid]})
    else:
        not_applicable.append({"property_id": pid, "reason": "static check designed (DESIGN.md §4 %s) but not implemented in this revision; not claimed until it is" % pid})

manifest = {
    "version": 1,
    "setup_cmd": "cd /verif/hclcheck && GOFLAGS=-mod=vendor GOPROXY=off GOWORK=off go build -o /verif/bin/hclcheck .",
    "hooks": {
        "guard": "verif",
        "enable": "no hooks: the checks are static and execute no repository code; nothing in /repo is guarded",
        "baseline_off_cmd": "cd /repo && go test -vet=off -count=1 ./...",
        "source_commits": [],
        "add_only": True,
    },
    "engines": [{
        "name": "hclcheck",
        "path": "/verif/hclcheck",
        "serves_properties": [c["property_id"] for c in checks],
        "kind_free_text": "repository-specific static analyser (go/packages + go/types + go/ssa + go/cfg + CHA/VTA call graph from golang.org/x/tools v0.29.0, vendored); rules in rules_cXX.go, shared engines in pair.go, flow.go, unmarked.go, effects.go, linear.go",
    }],
    "checks": checks,
    "not_applicable": not_applicable,
    "notes": "Static analysis only. Every check loads and type-checks /repo's current working tree on every run and decides structural necessary conditions of the property (level 'other'); each evidence file states what is decided and what is not. Known genuine defects are listed in /verif/known_findings.txt and printed as KNOWN-FINDING lines. See DESIGN.md.",
}
json.dump(manifest, open(os.path.join(HERE, "MANIFEST.json"), "w"), indent=1)
print("claimed:", [c["property_id"] for c in checks])
print("not applicable:", [n["property_id"] for n in not_applicable])
