#!/bin/bash
# usage: tools/seed_matrix.sh [Cxx ...]  — run each seeded change against the check of the property it breaks
# (only for properties that have a registered check); prints CAUGHT / MISSED per seed.
V="$(cd "$(dirname "$0")/.." && pwd)"
HAVE="$("$V/bin/hclcheck" -list)"
one() {
  d="$1"; id="$(basename "$d")"; prop="${id%-*}"
  echo "$HAVE" | grep -qx "$prop" || { echo "$id  no-check"; return; }
  if grep -q neutralised_by_fix "$d/meta.json" 2>/dev/null; then echo "$id  NEUTRALISED (no longer breaks the property after a fix: commit, see meta.json)"; return; fi
  out="$("$V/tools/mutest.sh" "$d/patch.diff" "$prop" 2>&1)"
  if echo "$out" | grep -q "PATCH DID NOT APPLY"; then echo "$id  PATCH-DOES-NOT-APPLY"; return; fi
  n=$(echo "$out" | grep -c "^VIOLATION")
  rules=$(echo "$out" | grep -v "^VIOLATION\|^KNOWN\|^    \|^C[0-9][0-9] \|^note:" | sed 's/^[^ ]* \([a-zA-Z0-9.]*\): .*/\1/' | sort | uniq -c | tr '\n' ' ')
  if [ "$n" -gt 0 ]; then echo "$id  CAUGHT ($n) $rules"; return; fi
  # not caught by the check of its own property: does the check of a neighbouring property report it?
  all="$("$V/tools/mutest.sh" "$d/patch.diff" all 2>&1)"
  others=$(echo "$all" | grep "^VIOLATION" | sed 's/.*property=\([A-Z0-9]*\).*/\1/' | sort -u | tr '\n' ' ')
  if [ -n "$others" ]; then echo "$id  MISSED by $prop, caught by: $others"; else echo "$id  MISSED"; fi
}
if [ $# -gt 0 ]; then SEL="$*"; else SEL=""; fi
for d in "$V"/seeded/C*-${SEED_LETTERS:-?}; do
  id="$(basename "$d")"; prop="${id%-*}"
  if [ -n "$SEL" ]; then echo " $SEL " | grep -q " $prop " || continue; fi
  one "$d" &
  while [ "$(jobs -r | wc -l)" -ge 6 ]; do sleep 0.3; done
done
wait
