#!/bin/bash
# usage: tools/refactor_matrix.sh [dir ...]  — replay behaviour-preserving refactorings (refactors/*/patch.diff, written by
# sub-agents that saw only the repository; each passed the whole suite) against every check; every check must stay silent.
V="$(cd "$(dirname "$0")/.." && pwd)"
[ $# -gt 0 ] || set -- "$V"/refactors/*/
S="$(mktemp -d /tmp/rfm.XXXXXX)"; mkdir -p "$S/verif"; cp "$V/known_findings.txt" "$S/verif/"; cp "$V/bin/hclcheck" "$S/hclcheck"  # a private copy: the binary may be rebuilt meanwhile
bad=0
for d in "$@"; do d="$(readlink -f "$d")"
  id="$(basename "$d")"
  rm -rf "$S/repo"; rsync -a --exclude .git /repo/ "$S/repo/"
  if ! (cd "$S/repo" && patch -p1 -s --no-backup-if-mismatch < "$d/patch.diff" >/dev/null 2>&1); then echo "$id  DOES-NOT-APPLY"; continue; fi
  out="$(GOPROXY=off GOWORK=off "$S/hclcheck" -property all -tier quick -repo "$S/repo" -verif "$S/verif" 2>&1)"
  if [ $? -eq 0 ]; then echo "$id  silent"; else bad=$((bad+1)); echo "$id  ALARM"; echo "$out" | grep -v "KNOWN-FINDING\|^C[0-9][0-9] quick\|^VIOLATION" | sed "s#$S/##g; s/^/      /" | cut -c1-400; fi
done
rm -rf "$S"
echo "$bad alarms"
