#!/bin/bash
# usage: tools/refactor_matrix.sh [dir ...]  — replay behaviour-preserving refactorings (refactors/*/patch.diff, written by
# sub-agents that saw only the repository; each passed the whole suite) against every check; every check must stay silent.
# RFM_JOBS (default 4) patches are replayed at a time, each in its own scratch copy.
V="$(cd "$(dirname "$0")/.." && pwd)"
[ $# -gt 0 ] || set -- "$V"/refactors/*/
S="$(mktemp -d /tmp/rfm.XXXXXX)"; mkdir -p "$S/verif"; cp "$V/known_findings.txt" "$S/verif/"; cp "${HCLCHECK_BIN:-$V/bin/hclcheck}" "$S/hclcheck"  # a private copy: the binary may be rebuilt meanwhile
one() { d="$(readlink -f "$1")"
  id="$(basename "$d")"; R="$S/$id"
  mkdir -p "$R/verif"; cp "$S/verif/known_findings.txt" "$R/verif/"; rsync -a --exclude .git /repo/ "$R/repo/"
  if ! (cd "$R/repo" && patch -p1 -s --no-backup-if-mismatch < "$d/patch.diff" >/dev/null 2>&1); then echo "$id  DOES-NOT-APPLY"; rm -rf "$R"; return; fi
  out="$(GOPROXY=off GOWORK=off "$S/hclcheck" -property all -tier quick -repo "$R/repo" -verif "$R/verif" 2>&1)"
  if [ $? -eq 0 ]; then echo "$id  silent"; else { echo "$id  ALARM"; echo "$out" | grep -v "KNOWN-FINDING\|^C[0-9][0-9] quick\|^VIOLATION" | sed "s#$R/##g; s/^/      /" | cut -c1-400; } ; fi
  rm -rf "$R"
}
for d in "$@"; do
  one "$d" > "$S/out.$(basename "$(readlink -f "$d")")" 2>&1 &
  while [ "$(jobs -r | wc -l)" -ge "${RFM_JOBS:-4}" ]; do sleep 0.5; done
done
wait
cat "$S"/out.* 
bad=$(cat "$S"/out.* | grep -c "  ALARM$")
rm -rf "$S"
echo "$bad alarms"
