#!/usr/bin/env python3
"""Positive controls for the checkers: small hand-written edits of /repo, each breaking one rule
instance. For every mutant: apply it in a scratch copy of /repo's working tree, make sure the
package still compiles, run the property's check against the copy and require a violation of the
named rule (MUST) — or, for behaviour-preserving rewrites (KEEP), require that the check stays
silent.  Nothing is run from the mutated tree except `go build`/`go vet`-free compilation.

usage: tools/mutants.py [-k substring] [Cxx ...]
"""
import json, os, re, shutil, subprocess, sys, tempfile

V = os.path.dirname(os.path.dirname(os.path.abspath(__file__)))
REPO = os.environ.get("VERIF_REPO", "/repo")

# (id, property, kind, file, old, new, rule)   kind: MUST = must be reported under `rule`; KEEP = must stay silent
M = []
def mut(id, prop, kind, file, old, new, rule="", nth=0):
    # nth > 0: the anchor text occurs several times; edit the nth occurrence (1-based)
    M.append(dict(id=id, prop=prop, kind=kind, file=file, old=old, new=new, rule=rule, nth=nth))

exec(open(os.path.join(V, "tools", "mutants_table.py")).read())

def main():
    args = sys.argv[1:]
    sub = None
    if args[:1] == ["-k"]:
        sub = args[1]; args = args[2:]
    props = set(args)
    sel = [m for m in M if (not props or m["prop"] in props) and (not sub or sub in m["id"])]
    scratch = tempfile.mkdtemp(prefix="mutants.", dir="/tmp")
    repo = os.path.join(scratch, "repo"); verif = os.path.join(scratch, "verif")
    os.makedirs(verif)
    shutil.copy(os.path.join(V, "known_findings.txt"), verif)
    subprocess.check_call(["rsync", "-a", "--exclude", ".git", REPO + "/", repo + "/"])
    checker = os.path.join(scratch, "hclcheck"); shutil.copy(os.environ.get("HCLCHECK_BIN") or os.path.join(V, "bin", "hclcheck"), checker)
    env = dict(os.environ, GOFLAGS="-mod=mod", GOPROXY="off", GOWORK="off")
    bad = 0
    try:
        for m in sel:
            if m["kind"] == "RENAME":
                # rename an identifier throughout one package directory (behaviour-preserving)
                d = os.path.join(repo, m["file"])
                saved = {}
                for fn_ in os.listdir(d):
                    if fn_.endswith(".go"):
                        fp = os.path.join(d, fn_); t = open(fp).read()
                        t2 = re.sub(r"\b" + re.escape(m["old"]) + r"\b", m["new"], t)
                        if t2 != t:
                            saved[fp] = t; open(fp, "w").write(t2)
                try:
                    b = subprocess.run(["go", "build", "./" + m["file"]], cwd=repo, env=env, capture_output=True, text=True)
                    if b.returncode != 0 or not saved:
                        print(f"{m['id']:28} NOBUILD {b.stderr.strip().splitlines()[:2]}"); bad += 1; continue
                    r = subprocess.run([checker, "-property", m["prop"], "-tier", "quick", "-repo", repo, "-verif", verif, "-v"], capture_output=True, text=True, env=env)
                    lines = [l for l in r.stdout.splitlines() if "[violation]" in l or "[undecided]" in l or "checker failure" in l]
                    if r.returncode == 0:
                        print(f"{m['id']:28} silent  (renamed {m['old']} -> {m['new']})")
                    else:
                        print(f"{m['id']:28} FALSE-ALARM {lines[:2]}"); bad += 1
                finally:
                    for fp, t in saved.items():
                        open(fp, "w").write(t)
                continue
            path = os.path.join(repo, m["file"])
            src = open(path).read()
            if m["nth"]:
                if src.count(m["old"]) < m["nth"]:
                    print(f"{m['id']:28} STALE   (anchor text occurs {src.count(m['old'])} times in {m['file']})"); bad += 1; continue
                pos = -1
                for _ in range(m["nth"]):
                    pos = src.index(m["old"], pos + 1)
                open(path, "w").write(src[:pos] + m["new"] + src[pos + len(m["old"]):])
            elif src.count(m["old"]) != 1:
                print(f"{m['id']:28} STALE   (anchor text occurs {src.count(m['old'])} times in {m['file']})"); bad += 1; continue
            else:
                open(path, "w").write(src.replace(m["old"], m["new"]))
            try:
                pkg = "./" + os.path.dirname(m["file"]) if os.path.dirname(m["file"]) else "."
                b = subprocess.run(["go", "build", pkg], cwd=repo, env=env, capture_output=True, text=True)
                if b.returncode != 0:
                    print(f"{m['id']:28} NOBUILD {b.stderr.strip().splitlines()[:2]}"); bad += 1; continue
                r = subprocess.run([checker, "-property", m["prop"], "-tier", "quick", "-repo", repo, "-verif", verif, "-v"],
                                   capture_output=True, text=True, env=env)
                lines = [l for l in r.stdout.splitlines() if "[violation]" in l or "[undecided]" in l or "checker failure" in l]
                hit = [l for l in lines if m["rule"] in l]
                if m["kind"] == "MUST":
                    if r.returncode == 1 and hit:
                        print(f"{m['id']:28} caught  ({len(lines)}) {hit[0].strip()[:150]}")
                    else:
                        print(f"{m['id']:28} MISSED  rc={r.returncode} {lines[:2]}"); bad += 1
                else:
                    if r.returncode == 0:
                        print(f"{m['id']:28} silent  (behaviour-preserving rewrite)")
                    else:
                        print(f"{m['id']:28} FALSE-ALARM {lines[:2]}"); bad += 1
            finally:
                open(path, "w").write(src)
    finally:
        shutil.rmtree(scratch, ignore_errors=True)
    print(f"{len(sel)} mutants, {bad} not as expected")
    sys.exit(1 if bad else 0)

main()
