#!/bin/sh
# usage: tools/verify_refactor.sh <dir with patch.diff>  — the refactoring applies to /repo's working tree, is gofmt-clean,
# builds, and the whole existing suite passes with it. Prints one line.
D="$(readlink -f "$1")"; ID="$(basename "$D")"; WT="/tmp/vr/$ID"
export GOFLAGS=-mod=mod GOPROXY=off
rm -rf "$WT"; mkdir -p "$WT"; rsync -a --exclude .git /repo/ "$WT/"; trap 'rm -rf "$WT"' EXIT
cd "$WT" || exit 1
patch -p1 -s --no-backup-if-mismatch < "$D/patch.diff" >/dev/null 2>&1 || { echo "$ID DOES-NOT-APPLY"; exit 0; }
files=$(grep '^+++ b/' "$D/patch.diff" | sed 's#^+++ b/##')
fmt=$(gofmt -l $files 2>/dev/null | wc -l)
go build ./... >/dev/null 2>&1 || { echo "$ID BUILD-FAILS"; exit 0; }
fails=$(go test -vet=off -count=1 ./... 2>&1 | grep -c "^FAIL\|^--- FAIL\|^panic:")
echo "$ID gofmt_dirty=$fmt suite_failures=$fails"
