#!/bin/sh
# usage: tools/verify_seed.sh <seed-dir>   (contains patch.diff, demo_test.go, meta.json)
# Confirms in a scratch copy of /repo's working tree: demo passes without the patch; with the patch the tree
# builds, the demo fails and the whole existing suite passes. Prints one summary line.
D="$(readlink -f "$1")"
ID="$(basename "$(dirname "$D")")-$(basename "$D")"
WT="/tmp/vs/$ID"
export GOFLAGS=-mod=mod GOPROXY=off
rm -rf "$WT"; mkdir -p "$WT"
rsync -a --exclude .git /repo/ "$WT/" || { echo "$ID copy-failed"; exit 1; }
cleanup() { rm -rf "$WT"; }
trap cleanup EXIT
DEMO=$(python3 -c "import json,sys; print(json.load(open('$D/meta.json'))['demo_path'])")
PKG="./$(dirname "$DEMO")/"
cd "$WT" || exit 1
cp "$D/demo_test.go" "$DEMO"
NAME=$(grep -o "func Test[A-Za-z0-9_]*" "$DEMO" | head -1 | sed 's/func //')
base=$(go test -vet=off -count=1 -run "^$NAME\$" "$PKG" 2>&1 | tail -1 | cut -c1-60)
rm -f "$DEMO"
if ! patch -p1 -s --no-backup-if-mismatch < "$D/patch.diff" >/dev/null 2>&1; then
  cd /; rm -rf "$WT"; mkdir -p "$WT"; rsync -a --exclude .git /repo/ "$WT/"; cd "$WT"
  if [ ! -f "$D/patch.rebased.diff" ] || ! patch -p1 -s --no-backup-if-mismatch < "$D/patch.rebased.diff" >/dev/null 2>&1; then echo "$ID PATCH-DOES-NOT-APPLY"; exit 0; fi
fi
if ! go build ./... >/dev/null 2>&1; then echo "$ID BUILD-FAILS"; exit 0; fi
suite=$(go test -vet=off -count=1 ./... 2>&1 | grep -c "^FAIL\|^--- FAIL\|^panic:")
cp "$D/demo_test.go" "$DEMO"
mut=$(go test -vet=off -count=1 -run "^$NAME\$" "$PKG" 2>&1 | grep -c "^--- FAIL\|^FAIL\|panic:")
echo "$ID base=[$base] suite_failures=$suite demo_fails_with_patch=$mut"
