package main

import (
	"encoding/json"
	"go/ast"
	"go/constant"
	"go/token"
	"go/types"
	"sort"
	"strings"

	"golang.org/x/tools/go/packages"
	"golang.org/x/tools/go/ssa"
)

// pkgFuncs returns every source function of the module packages whose short name
// is in pkgs (nil = all module packages), including methods and closures, in a
// deterministic order.
func (p *Program) pkgFuncs(pkgs ...string) []*ssa.Function {
	want := map[string]bool{}
	for _, s := range pkgs {
		want[s] = true
	}
	var out []*ssa.Function
	for fn := range p.AllFuncs() {
		if fn.Synthetic != "" && fn.Parent() == nil {
			// wrappers, bound-method thunks, init: skip (package init is kept)
			if fn.Name() != "init" {
				continue
			}
		}
		if fn.Origin() != nil && fn.Origin() != fn {
			continue // instantiations: the generic origin is analysed
		}
		pk := fnPkg(fn)
		if pk == nil || !strings.HasPrefix(pk.Path(), modPath) {
			continue
		}
		if len(want) > 0 && !want[shortPkg(pk.Path())] {
			continue
		}
		if len(fn.Blocks) == 0 {
			continue
		}
		out = append(out, fn)
	}
	sort.Slice(out, func(i, j int) bool {
		pi, pj := out[i].Pos(), out[j].Pos()
		if pi != pj {
			return pi < pj
		}
		return FuncName(out[i]) < FuncName(out[j])
	})
	return out
}

// namedOf strips pointers and returns the named type, if any.
func namedOf(t types.Type) *types.Named {
	for {
		switch x := t.(type) {
		case *types.Pointer:
			t = x.Elem()
		case *types.Named:
			return x
		case *types.Alias:
			t = types.Unalias(x)
		default:
			return nil
		}
	}
}

// isNamed reports whether t (after stripping pointers) is the named type pkgPath.name.
func isNamed(t types.Type, pkgPath, name string) bool {
	n := namedOf(t)
	if n == nil || n.Obj().Name() != name {
		return false
	}
	if n.Obj().Pkg() == nil {
		return pkgPath == ""
	}
	return n.Obj().Pkg().Path() == pkgPath
}

const ctyPath = "github.com/zclconf/go-cty/cty"

func isCtyValue(t types.Type) bool {
	if _, ok := t.(*types.Pointer); ok {
		return false
	}
	return isNamed(t, ctyPath, "Value")
}
func isCtyMarks(t types.Type) bool { return isNamed(t, ctyPath, "ValueMarks") }

// isMethod reports whether fn is the method pkgPath.(recv).name (pointer or value).
func isMethod(fn *ssa.Function, pkgPath, recv, name string) bool {
	if fn == nil || fn.Name() != name || fn.Signature.Recv() == nil {
		return false
	}
	return isNamed(fn.Signature.Recv().Type(), pkgPath, recv)
}

func isFunc(fn *ssa.Function, pkgPath, name string) bool {
	if fn == nil || fn.Name() != name || fn.Signature.Recv() != nil || fn.Parent() != nil {
		return false
	}
	pk := fnPkg(fn)
	return pk != nil && pk.Path() == pkgPath
}

// typesFuncIs reports whether obj is pkgPath.[recv.]name.
func typesFuncIs(obj *types.Func, pkgPath, recv, name string) bool {
	if obj == nil || obj.Name() != name || obj.Pkg() == nil || obj.Pkg().Path() != pkgPath {
		return false
	}
	sig := obj.Type().(*types.Signature)
	if recv == "" {
		return sig.Recv() == nil
	}
	return sig.Recv() != nil && isNamed(sig.Recv().Type(), pkgPath, recv)
}

// calleeObj resolves the called function object of an AST call (static calls and
// method calls, including interface methods).
func calleeObj(info *types.Info, call *ast.CallExpr) *types.Func {
	fun := ast.Unparen(call.Fun)
	switch f := fun.(type) {
	case *ast.Ident:
		if o, ok := info.Uses[f].(*types.Func); ok {
			return o
		}
	case *ast.SelectorExpr:
		if sel, ok := info.Selections[f]; ok {
			if o, ok := sel.Obj().(*types.Func); ok {
				return o
			}
			return nil
		}
		if o, ok := info.Uses[f.Sel].(*types.Func); ok {
			return o
		}
	case *ast.IndexExpr:
		if id, ok := f.X.(*ast.Ident); ok {
			if o, ok := info.Uses[id].(*types.Func); ok {
				return o
			}
		}
	}
	return nil
}

// funcObjName renders "pkg.Recv.Name" for a types.Func.
func funcObjName(o *types.Func) string {
	if o == nil {
		return ""
	}
	pn := ""
	if o.Pkg() != nil {
		pn = shortPkg(o.Pkg().Path())
	}
	sig := o.Type().(*types.Signature)
	if r := sig.Recv(); r != nil {
		if n := namedOf(r.Type()); n != nil {
			return pn + "." + n.Obj().Name() + "." + o.Name()
		}
		return pn + ".?." + o.Name()
	}
	return pn + "." + o.Name()
}

// eachFuncDecl visits every function declaration of the given module packages.
func (p *Program) eachFuncDecl(pkgSuffixes []string, f func(pkg *packages.Package, fd *ast.FuncDecl)) {
	var pkgs []*packages.Package
	if pkgSuffixes == nil {
		pkgs = p.ModPkgs
	} else {
		for _, s := range pkgSuffixes {
			if pk := p.Pkg(s); pk != nil {
				pkgs = append(pkgs, pk)
			}
		}
	}
	for _, pkg := range pkgs {
		for _, file := range pkg.Syntax {
			for _, d := range file.Decls {
				if fd, ok := d.(*ast.FuncDecl); ok && fd.Body != nil {
					f(pkg, fd)
				}
			}
		}
	}
}

// declName renders "pkg.(Recv).Name" for a FuncDecl.
func declName(pkg *packages.Package, fd *ast.FuncDecl) string {
	pn := shortPkg(pkg.PkgPath)
	if fd.Recv != nil && len(fd.Recv.List) > 0 {
		return pn + "." + recvTypeName(fd.Recv.List[0].Type) + "." + fd.Name.Name
	}
	return pn + "." + fd.Name.Name
}

// fieldOf returns the struct field selected by a selector expression, if any.
func fieldOf(info *types.Info, e ast.Expr) *types.Var {
	se, ok := ast.Unparen(e).(*ast.SelectorExpr)
	if !ok {
		return nil
	}
	if sel, ok := info.Selections[se]; ok && sel.Kind() == types.FieldVal {
		if v, ok := sel.Obj().(*types.Var); ok {
			return v
		}
	}
	return nil
}

// constString returns the constant string value of e, if it has one.
func constString(info *types.Info, e ast.Expr) (string, bool) {
	tv, ok := info.Types[e]
	if !ok || tv.Value == nil {
		return "", false
	}
	if tv.Value.Kind() == constant.String {
		return constant.StringVal(tv.Value), true
	}
	return "", false
}

func posOf(n ast.Node) token.Pos {
	if n == nil {
		return token.NoPos
	}
	return n.Pos()
}

func exprStr(e ast.Expr) string { return types.ExprString(e) }

// isNewFunc: fn is a declared function of its package that the reference tree (anchors.json) does
// not know — a helper introduced since (typically extracted from an anchored function).
func (p *Program) isNewFunc(fn *ssa.Function) bool {
	if fn == nil || fn.Parent() != nil || fn.Synthetic != "" || fnPkg(fn) == nil || !strings.HasPrefix(fnPkg(fn).Path(), modPath) {
		return false
	}
	if anchorTable == nil {
		anchorTable = map[string]map[string]string{}
		_ = json.Unmarshal(anchorJSON, &anchorTable)
	}
	suffix := strings.TrimPrefix(strings.TrimPrefix(fnPkg(fn).Path(), modPath), "/")
	known, ok := anchorTable[suffix]
	if !ok {
		return false
	}
	k, _ := funcKeyAndSig(fn)
	if _, old := known[k]; old {
		return false
	}
	// a renamed anchor is not new
	for _, to := range Renamed {
		if to == k {
			return false
		}
	}
	return true
}

// expandedFuncs: root, its closures, and — transitively — the helpers of the same package that the
// reference tree does not know (code that a refactoring moved out of root), in a stable order.
func (p *Program) expandedFuncs(root *ssa.Function) []*ssa.Function {
	var out []*ssa.Function
	seen := map[*ssa.Function]bool{}
	var walk func(f *ssa.Function)
	walk = func(f *ssa.Function) {
		if f == nil || seen[f] || len(f.Blocks) == 0 {
			return
		}
		seen[f] = true
		out = append(out, f)
		for _, a := range f.AnonFuncs {
			walk(a)
		}
		for _, b := range f.Blocks {
			for _, ins := range b.Instrs {
				if cc, ok := ins.(ssa.CallInstruction); ok {
					if k := staticCallee(cc.Common()); k != nil && fnPkg(k) == fnPkg(root) && p.isNewFunc(k) {
						walk(k)
					}
				}
			}
		}
	}
	walk(root)
	return out
}
