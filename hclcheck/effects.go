package main

import (
	"fmt"
	"go/token"
	"go/types"
	"sort"
	"strings"

	"golang.org/x/tools/go/ssa"
)

// E-effects: reachable write-set on shared state.
//
// "Fresh" means: the memory directly reachable through the value (pointee, backing
// array, map buckets) was allocated by this invocation or by a callee that returns
// only fresh memory, so no other goroutine can hold it yet. Everything else
// (receivers and parameters of entry points, anything loaded from a field of a
// non-fresh object, elements of collections, package variables) is "shared".
// The engine enumerates every write (store through a field/index address, map
// update/delete, copy destination, in-place append, sort) in a set of functions
// and classifies its target. No points-to analysis is available (x/tools v0.29.0
// has no go/pointer): freshness is decided by local definitions plus summaries
// (fresh-returning functions, parameters fresh at all call sites), to a fixed
// point from the optimistic assumption.

type effWrite struct {
	fn     *ssa.Function
	pos    token.Pos
	kind   string // store, mapupdate, delete, copy, append, sort, clear
	target string // description of the written location (type.field / map / slice)
	field  *types.Var
	rootT  types.Type // type of the outermost object written (nil if unknown)
	fresh  bool
	why    string
}

type effEngine struct {
	p           *Program
	scope       map[*ssa.Function]bool
	roots       map[*ssa.Function]bool
	paramShared map[*ssa.Parameter]string // parameter -> reason it is shared
	retShared   map[*ssa.Function]string
	retSharedAt map[*ssa.Function]map[int]string // per result index
	memo        map[ssa.Value]int
	memoWhy     map[ssa.Value]string
	active      map[ssa.Value]bool
	// qmemo caches verdicts within one top-level query (they may rest on the coinductive
	// "a value being decided is fresh" assumption; every combinator is a conjunction, so a false
	// verdict of an assumed value propagates to the top and the cached verdicts are discarded
	// with the query). Without it, cells with many `x = append(x, …)` stores are re-traversed
	// once per load: exponential.
	qmemo  map[ssa.Value]effVerdict
	qdepth int
}

type effVerdict struct {
	ok  bool
	why string
}

func newEffEngine(p *Program, scope map[*ssa.Function]bool, roots map[*ssa.Function]bool) *effEngine {
	e := &effEngine{p: p, scope: scope, roots: roots, paramShared: map[*ssa.Parameter]string{}, retShared: map[*ssa.Function]string{}, retSharedAt: map[*ssa.Function]map[int]string{}}
	// Parameters of roots (called from outside with shared objects) are shared.
	for fn := range roots {
		for _, par := range fn.Params {
			if pointerLike(par.Type()) {
				e.paramShared[par] = "parameter of an entry point"
			}
		}
	}
	var fns []*ssa.Function
	for fn := range scope {
		fns = append(fns, fn)
	}
	sort.Slice(fns, func(i, j int) bool { return fns[i].Pos() < fns[j].Pos() })
	cg := p.CallGraph()
	for iter := 0; iter < 30; iter++ {
		changed := false
		e.memo = map[ssa.Value]int{}
		e.memoWhy = map[ssa.Value]string{}
		e.active = map[ssa.Value]bool{}
		for _, fn := range fns {
			// return summary
			{
				for _, b := range fn.Blocks {
					ret, ok := b.Instrs[len(b.Instrs)-1].(*ssa.Return)
					if !ok {
						continue
					}
					for ri, r := range ret.Results {
						if !pointerLike(r.Type()) {
							continue
						}
						if _, done := e.retSharedAt[fn][ri]; done {
							continue
						}
						if ok, why := e.Fresh(r); !ok {
							if _, have := e.retShared[fn]; !have {
								e.retShared[fn] = why
							}
							if e.retSharedAt[fn] == nil {
								e.retSharedAt[fn] = map[int]string{}
							}
							e.retSharedAt[fn][ri] = why
							changed = true
						}
					}
				}
			}
			// parameters: shared if some call site passes a shared value
			node := cg.Nodes[fn]
			for i, par := range fn.Params {
				if _, done := e.paramShared[par]; done || !pointerLike(par.Type()) {
					continue
				}
				if node == nil || len(node.In) == 0 {
					if fn.Parent() == nil && (fn.Object() == nil || fn.Object().Exported() || fn.Signature.Recv() != nil) {
						e.paramShared[par] = "no known callers (exported)"
						changed = true
					}
					continue
				}
				for _, in := range node.In {
					if in.Site == nil {
						continue
					}
					if !e.scope[in.Caller.Func] {
						// called from outside the analysed set: unknown argument
						if inModule(in.Caller.Func) {
							continue // other module code (e.g. writers, tools) is not an evaluation path
						}
						continue
					}
					args := in.Site.Common().Args
					ai := i
					if in.Site.Common().IsInvoke() {
						ai = i - 1
						if ai < 0 {
							if ok, why := e.Fresh(in.Site.Common().Value); !ok {
								e.paramShared[par] = "receiver shared at " + p.Position(in.Site.Pos()) + ": " + why
								changed = true
							}
							continue
						}
					}
					if ai >= len(args) {
						continue
					}
					if ok, why := e.Fresh(args[ai]); !ok {
						e.paramShared[par] = "shared argument at " + p.Position(in.Site.Pos()) + ": " + why
						changed = true
						break
					}
				}
			}
		}
		if !changed {
			break
		}
	}
	e.memo = map[ssa.Value]int{}
	e.memoWhy = map[ssa.Value]string{}
	e.active = map[ssa.Value]bool{}
	return e
}

// pointerLike: values through which memory can be written.
func pointerLike(t types.Type) bool {
	switch u := t.Underlying().(type) {
	case *types.Pointer, *types.Slice, *types.Map, *types.Chan, *types.Interface, *types.Signature:
		return true
	case *types.Struct:
		if isCtyValue(t) {
			return false // cty values are immutable
		}
		for i := 0; i < u.NumFields(); i++ {
			if pointerLike(u.Field(i).Type()) {
				return true
			}
		}
	case *types.Array:
		return pointerLike(u.Elem())
	case *types.Tuple:
		for i := 0; i < u.Len(); i++ {
			if pointerLike(u.At(i).Type()) {
				return true
			}
		}
	}
	return false
}

// Fresh decides whether v is fresh (see package comment).
func (e *effEngine) Fresh(v ssa.Value) (bool, string) {
	switch e.memo[v] {
	case 2:
		return true, ""
	case 3:
		return false, e.memoWhy[v]
	}
	if e.active[v] {
		return true, "cycle"
	}
	if r, ok := e.qmemo[v]; ok {
		return r.ok, r.why
	}
	if e.qmemo == nil {
		e.qmemo = map[ssa.Value]effVerdict{}
	}
	e.active[v] = true
	e.qdepth++
	ok, why := e.fresh(v)
	e.qdepth--
	delete(e.active, v)
	e.qmemo[v] = effVerdict{ok, why}
	if e.qdepth == 0 {
		// top-level query: the verdict rests on no assumption
		if ok {
			e.memo[v] = 2
		} else {
			e.memo[v] = 3
			e.memoWhy[v] = why
		}
		e.qmemo = nil
	}
	return ok, why
}

func (e *effEngine) fresh(v ssa.Value) (bool, string) {
	switch x := v.(type) {
	case *ssa.Alloc, *ssa.MakeMap, *ssa.MakeSlice, *ssa.MakeChan, *ssa.MakeClosure, *ssa.Const, *ssa.Function, *ssa.Builtin:
		return true, "fresh allocation"
	case *ssa.FreeVar:
		return true, "captured local"
	case *ssa.Global:
		return false, "package variable " + x.Name()
	case *ssa.Parameter:
		if why, sh := e.paramShared[x]; sh {
			return false, "parameter " + x.Name() + " of " + FuncName(x.Parent()) + " (" + why + ")"
		}
		return true, "parameter fresh at all call sites"
	case *ssa.Phi:
		for _, ed := range x.Edges {
			if ok, why := e.Fresh(ed); !ok {
				return false, why
			}
		}
		return true, "phi"
	case *ssa.FieldAddr:
		return e.Fresh(x.X)
	case *ssa.IndexAddr:
		return e.Fresh(x.X)
	case *ssa.Slice:
		return e.Fresh(x.X)
	case *ssa.ChangeType:
		return e.Fresh(x.X)
	case *ssa.Convert:
		return e.Fresh(x.X)
	case *ssa.ChangeInterface:
		return e.Fresh(x.X)
	case *ssa.MakeInterface:
		return e.Fresh(x.X)
	case *ssa.TypeAssert:
		return e.Fresh(x.X)
	case *ssa.SliceToArrayPointer:
		return e.Fresh(x.X)
	case *ssa.Field:
		return e.Fresh(x.X)
	case *ssa.Extract:
		if call, ok := x.Tuple.(*ssa.Call); ok {
			// a static module callee with a per-result summary: only this result counts
			if cal := staticCallee(&call.Call); cal != nil && inModule(cal) {
				if _, any := e.retShared[cal]; any {
					if why, sh := e.retSharedAt[cal][x.Index]; sh {
						return false, "result of " + FuncName(cal) + " (" + why + ")"
					}
					if !e.scope[cal] {
						return true, "result of " + FuncName(cal)
					}
					return true, "fresh result #" + fmt.Sprint(x.Index) + " of " + FuncName(cal)
				}
			}
			return e.callFresh(call)
		}
		if ta, ok := x.Tuple.(*ssa.TypeAssert); ok {
			return e.Fresh(ta.X)
		}
		if lk, ok := x.Tuple.(*ssa.Lookup); ok {
			return e.elemFresh(lk.X, lk.Parent())
		}
		if _, ok := x.Tuple.(*ssa.Next); ok {
			return false, "element yielded by range"
		}
		return false, "tuple element"
	case *ssa.Call:
		return e.callFresh(x)
	case *ssa.Lookup:
		return e.elemFresh(x.X, x.Parent())
	case *ssa.Index:
		return false, "element of an array"
	case *ssa.UnOp:
		if x.Op != token.MUL {
			return true, "scalar"
		}
		return e.loadFresh(x)
	case *ssa.BinOp:
		return true, "scalar"
	}
	return false, fmt.Sprintf("%T", v)
}

func (e *effEngine) callFresh(call *ssa.Call) (bool, string) {
	if bi, ok := call.Call.Value.(*ssa.Builtin); ok {
		switch bi.Name() {
		case "append":
			return e.Fresh(call.Call.Args[0])
		}
		return true, "builtin"
	}
	if cal := staticCallee(&call.Call); cal != nil {
		if !inModule(cal) {
			return true, "result of a call outside the module"
		}
		if why, sh := e.retShared[cal]; sh {
			return false, "result of " + FuncName(cal) + " (" + why + ")"
		}
		if !e.scope[cal] {
			// module function outside the analysed set: constructor-like if it has no pointer-like params
			return true, "result of " + FuncName(cal)
		}
		return true, "result of fresh-returning " + FuncName(cal)
	}
	// dynamic call: all module callees must be fresh-returning
	node := e.p.CallGraph().Nodes[call.Parent()]
	if node != nil {
		for _, out := range node.Out {
			if out.Site == call && inModule(out.Callee.Func) {
				if why, sh := e.retShared[out.Callee.Func]; sh {
					return false, "result of dynamic call to " + FuncName(out.Callee.Func) + " (" + why + ")"
				}
			}
		}
	}
	return true, "result of a dynamic call with fresh-returning callees"
}

// loadFresh: value loaded from memory.
func (e *effEngine) loadFresh(u *ssa.UnOp) (bool, string) {
	if !pointerLike(u.Type()) {
		return true, "scalar"
	}
	switch src := u.X.(type) {
	case *ssa.Alloc:
		return e.cellFresh(src, map[ssa.Value]bool{})
	case *ssa.FreeVar:
		return e.freeVarFresh(src)
	case *ssa.Global:
		return false, "loaded from package variable " + src.Name()
	case *ssa.FieldAddr:
		if ok, why := e.Fresh(src.X); !ok {
			return false, "loaded from field " + fieldName(src) + " of a shared object (" + why + ")"
		}
		// field of a fresh local struct: every store to that field in this function must be fresh
		fn := u.Parent()
		for _, b := range fn.Blocks {
			for _, ins := range b.Instrs {
				st, ok := ins.(*ssa.Store)
				if !ok {
					continue
				}
				fa, ok := st.Addr.(*ssa.FieldAddr)
				if !ok || fa.Field != src.Field || !sameBase(fa.X, src.X) {
					continue
				}
				if ok, why := e.Fresh(st.Val); !ok {
					return false, "field " + fieldName(src) + " of a local object holds a shared value (" + why + ")"
				}
			}
		}
		if _, isAlloc := rootOf(src.X).(*ssa.Alloc); !isAlloc {
			// fresh object obtained from a callee or passed in fresh: its fields may
			// still alias shared memory unless this function itself stored a fresh
			// value there on every path to the load.
			dominated := false
			for _, b := range fn.Blocks {
				for _, ins := range b.Instrs {
					st, ok := ins.(*ssa.Store)
					if !ok {
						continue
					}
					fa, ok := st.Addr.(*ssa.FieldAddr)
					if !ok || fa.Field != src.Field || !sameBase(fa.X, src.X) {
						continue
					}
					if st.Block() == u.Block() {
						for _, i2 := range st.Block().Instrs {
							if i2 == st {
								dominated = true
								break
							}
							if i2 == ssa.Instruction(u) {
								break
							}
						}
					} else if st.Block().Dominates(u.Block()) {
						dominated = true
					}
				}
			}
			if !dominated {
				return false, "field " + fieldName(src) + " of an object returned by a callee"
			}
			return true, "field overwritten with a fresh value before the load"
		}
		return true, "field of a local object, all stores fresh"
	case *ssa.IndexAddr:
		return e.elemFresh(src.X, u.Parent())
	case *ssa.Parameter:
		return e.outParamFresh(src, 0)
	case *ssa.UnOp:
		// the pointer was itself loaded from a cell that only ever holds an out-parameter of the
		// enclosing function (a parameter captured by a closure, or spilled)
		if src.Op == token.MUL {
			var cell *ssa.Alloc
			switch y := src.X.(type) {
			case *ssa.Alloc:
				cell = y
			case *ssa.FreeVar:
				cell = freeVarCell(y)
			}
			if cell != nil {
				sts := storesInto(cell)
				if len(sts) == 1 && sts[0].Addr == ssa.Value(cell) {
					if par, ok := sts[0].Val.(*ssa.Parameter); ok {
						if ok, why := e.outParamFresh(par, 0); !ok {
							return false, why
						}
						// stores through this alias in the function at hand
						for _, b := range u.Parent().Blocks {
							for _, ins := range b.Instrs {
								st, ok := ins.(*ssa.Store)
								if !ok {
									continue
								}
								if ld, ok := st.Addr.(*ssa.UnOp); ok && ld.Op == token.MUL && ld.X == src.X {
									if ok, why := e.Fresh(st.Val); !ok {
										return false, "store of a shared value through the captured out-parameter (" + why + ")"
									}
								}
							}
						}
						return true, "captured out-parameter to a caller's local holding only fresh values"
					}
				}
			}
		}
	}
	return false, "load through pointer"
}

// outParamFresh: src is an out-parameter pointing at a caller's local variable: every call site
// passes the address of a local whose stores are all fresh (or its own such out-parameter), and
// every store through the parameter here is fresh.
func (e *effEngine) outParamFresh(src *ssa.Parameter, depth int) (bool, string) {
	// out-parameter pointing at a caller's local variable: every call site
	// passes the address of a local whose stores are all fresh, and every
	// store through the parameter here is fresh.
	if ok, why := e.Fresh(src); !ok {
		return false, "load through a shared pointer (" + why + ")"
	}
	fn := src.Parent()
	idx := -1
	for i, p := range fn.Params {
		if p == src {
			idx = i
		}
	}
	node := e.p.CallGraph().Nodes[fn]
	if node == nil || len(node.In) == 0 || idx < 0 {
		return false, "load through pointer parameter without known callers"
	}
	for _, in := range node.In {
		if in.Site == nil || !e.scope[in.Caller.Func] {
			continue
		}
		args := in.Site.Common().Args
		ai := idx
		if in.Site.Common().IsInvoke() {
			ai--
		}
		if ai < 0 || ai >= len(args) {
			return false, "load through pointer parameter (argument mismatch)"
		}
		switch a := args[ai].(type) {
		case *ssa.Alloc:
			if ok, why := e.cellFresh(a, map[ssa.Value]bool{}); !ok {
				return false, "caller's variable holds a shared value (" + why + ")"
			}
		case *ssa.FieldAddr:
			// address of a field of a caller-local object
			if _, isAlloc := rootOf(a.X).(*ssa.Alloc); !isAlloc {
				return false, "load through pointer parameter: caller passes the address of a field of a non-local object"
			}
			for _, b := range in.Caller.Func.Blocks {
				for _, ins := range b.Instrs {
					st, ok := ins.(*ssa.Store)
					if !ok {
						continue
					}
					fa, ok := st.Addr.(*ssa.FieldAddr)
					if !ok || fa.Field != a.Field || !sameBase(fa.X, a.X) {
						continue
					}
					if ok, why := e.Fresh(st.Val); !ok {
						return false, "caller's field holds a shared value (" + why + ")"
					}
				}
			}
		case *ssa.Parameter:
			if a.Parent() == fn {
				continue // recursive call passing the same out-parameter on
			}
			// passed on by a caller that received it as an out-parameter itself
			if depth < 3 {
				if ok, why := e.outParamFresh(a, depth+1); !ok {
					return false, "load through pointer parameter passed on by " + FuncName(in.Caller.Func) + " (" + why + ")"
				}
				continue
			}
			return false, "load through pointer parameter passed on by " + FuncName(in.Caller.Func)
		default:
			return false, "load through pointer parameter: caller passes a non-local address"
		}
	}
	for _, ref := range *src.Referrers() {
		if st, ok := ref.(*ssa.Store); ok && st.Addr == src {
			if ok, why := e.Fresh(st.Val); !ok {
				return false, "store of a shared value through the out-parameter (" + why + ")"
			}
		}
	}
	return true, "out-parameter to a caller's local holding only fresh values"
}

func rootOf(v ssa.Value) ssa.Value {
	for {
		switch x := v.(type) {
		case *ssa.FieldAddr:
			v = x.X
		case *ssa.IndexAddr:
			v = x.X
		case *ssa.ChangeType:
			v = x.X
		default:
			return v
		}
	}
}

func sameBase(a, b ssa.Value) bool {
	if a == b {
		return true
	}
	// two loads of the same single-assignment cell
	return sameValue(a, b)
}

func fieldName(fa *ssa.FieldAddr) string {
	t := fa.X.Type()
	if p, ok := t.Underlying().(*types.Pointer); ok {
		t = p.Elem()
	}
	tn := "?"
	if n := namedOf(t); n != nil {
		tn = n.Obj().Name()
	}
	if fv := fieldVarOf(fa.X.Type(), fa.Field); fv != nil {
		return tn + "." + fv.Name()
	}
	return tn + ".?"
}

func (e *effEngine) cellFresh(a ssa.Value, seen map[ssa.Value]bool) (bool, string) {
	if seen[a] || e.active[a] {
		return true, ""
	}
	seen[a] = true
	if r, ok := e.qmemo[a]; ok {
		return r.ok, r.why
	}
	if e.qmemo == nil {
		e.qmemo = map[ssa.Value]effVerdict{}
	}
	e.active[a] = true
	e.qdepth++
	ok, why := e.cellFresh1(a, seen)
	e.qdepth--
	delete(e.active, a)
	if e.qdepth == 0 {
		e.qmemo = nil
	} else {
		e.qmemo[a] = effVerdict{ok, why}
	}
	return ok, why
}

func (e *effEngine) cellFresh1(a ssa.Value, seen map[ssa.Value]bool) (bool, string) {
	refs := a.Referrers()
	if refs == nil {
		return false, "cell"
	}
	for _, r := range *refs {
		switch x := r.(type) {
		case *ssa.Store:
			if x.Addr == a {
				if ok, why := e.Fresh(x.Val); !ok {
					return false, why
				}
			}
		case *ssa.MakeClosure:
			fn := x.Fn.(*ssa.Function)
			for i, bnd := range x.Bindings {
				if bnd == a {
					if ok, why := e.cellFresh(fn.FreeVars[i], seen); !ok {
						return false, why
					}
				}
			}
		}
	}
	return true, "local whose every store is fresh"
}

func (e *effEngine) freeVarFresh(fv *ssa.FreeVar) (bool, string) {
	fn := fv.Parent()
	idx := -1
	for i, f := range fn.FreeVars {
		if f == fv {
			idx = i
		}
	}
	parent := fn.Parent()
	if parent == nil || idx < 0 {
		return false, "free variable"
	}
	for _, b := range parent.Blocks {
		for _, ins := range b.Instrs {
			if mc, ok := ins.(*ssa.MakeClosure); ok && mc.Fn == fn {
				switch bb := mc.Bindings[idx].(type) {
				case *ssa.Alloc:
					if ok, why := e.cellFresh(bb, map[ssa.Value]bool{}); !ok {
						return false, why
					}
				case *ssa.FreeVar:
					if ok, why := e.freeVarFresh(bb); !ok {
						return false, why
					}
				default:
					return false, "captured cell of unknown origin"
				}
			}
		}
	}
	return true, "captured local whose every store is fresh"
}

var extMutators = map[string]int{ // external functions that write through an argument: arg index
	"sort.Sort": 0, "sort.Stable": 0, "sort.Slice": 0, "sort.SliceStable": 0, "sort.Strings": 0, "sort.Ints": 0, "sort.Float64s": 0,
	"slices.Sort": 0, "slices.SortFunc": 0, "slices.SortStableFunc": 0, "slices.Reverse": 0,
}

// Writes enumerates and classifies all writes in fn.
func (e *effEngine) Writes(fn *ssa.Function) []effWrite {
	var out []effWrite
	add := func(pos token.Pos, kind, target string, field *types.Var, base ssa.Value) {
		ok, why := e.Fresh(base)
		out = append(out, effWrite{fn, pos, kind, target, field, writtenRootType(base), ok, why})
	}
	addAt := func(pos token.Pos, kind, target string, field *types.Var, addr, base ssa.Value) {
		ok, why := e.Fresh(base)
		out = append(out, effWrite{fn, pos, kind, target, field, writtenRootType(addr), ok, why})
	}
	for _, b := range fn.Blocks {
		for _, ins := range b.Instrs {
			switch x := ins.(type) {
			case *ssa.Store:
				switch a := x.Addr.(type) {
				case *ssa.Alloc, *ssa.FreeVar:
					continue // local variable
				case *ssa.Global:
					out = append(out, effWrite{fn, x.Pos(), "store", "package variable " + a.Name(), nil, nil, false, "package variable"})
				case *ssa.FieldAddr:
					addAt(x.Pos(), "store", fieldName(a), fieldVarOf(a.X.Type(), a.Field), a, a.X)
				case *ssa.IndexAddr:
					addAt(x.Pos(), "store", "element of "+typeStr(a.X.Type()), nil, a, a.X)
				default:
					add(x.Pos(), "store", "*"+typeStr(x.Addr.Type()), nil, x.Addr)
				}
			case *ssa.MapUpdate:
				add(x.Pos(), "mapupdate", "map "+typeStr(x.Map.Type()), loadedField(x.Map), x.Map)
			case *ssa.Call:
				if bi, ok := x.Call.Value.(*ssa.Builtin); ok {
					switch bi.Name() {
					case "delete", "clear":
						add(x.Pos(), bi.Name(), "map "+typeStr(x.Call.Args[0].Type()), loadedField(x.Call.Args[0]), x.Call.Args[0])
					case "copy":
						add(x.Pos(), "copy", "slice "+typeStr(x.Call.Args[0].Type()), loadedField(x.Call.Args[0]), x.Call.Args[0])
					case "append":
						// appending to a non-fresh slice may write its backing array in place
						if c, isConst := x.Call.Args[0].(*ssa.Const); isConst && c.IsNil() {
							continue
						}
						add(x.Pos(), "append", "slice "+typeStr(x.Call.Args[0].Type()), loadedField(x.Call.Args[0]), x.Call.Args[0])
					}
					continue
				}
				if cal := x.Call.StaticCallee(); cal != nil && !inModule(cal) {
					if pk := fnPkg(cal); pk != nil {
						if ai, ok := extMutators[pk.Path()+"."+cal.Name()]; ok && ai < len(x.Call.Args) {
							add(x.Pos(), "sort", typeStr(x.Call.Args[ai].Type()), loadedField(x.Call.Args[ai]), x.Call.Args[ai])
						}
					}
				}
			}
		}
	}
	return out
}

// loadedField: if v was loaded from a struct field, that field.
func loadedField(v ssa.Value) *types.Var {
	for {
		switch x := v.(type) {
		case *ssa.UnOp:
			if fa, ok := x.X.(*ssa.FieldAddr); ok && x.Op == token.MUL {
				return fieldVarOf(fa.X.Type(), fa.Field)
			}
			return nil
		case *ssa.Field:
			return fieldVarOf(x.X.Type(), x.Field)
		case *ssa.Slice:
			v = x.X
		case *ssa.ChangeType:
			v = x.X
		case *ssa.MakeInterface:
			v = x.X
		case *ssa.Phi:
			// a local alias: the field's value, or the fresh container about to replace it
			var fv *types.Var
			for _, e := range x.Edges {
				switch e.(type) {
				case *ssa.MakeMap, *ssa.MakeSlice:
					continue
				}
				if _, isPhi := e.(*ssa.Phi); isPhi {
					return nil
				}
				f2 := loadedField(e)
				if f2 == nil || (fv != nil && fv != f2) {
					return nil
				}
				fv = f2
			}
			return fv
		default:
			return nil
		}
	}
}

func typeStr(t types.Type) string {
	return types.TypeString(t, func(p *types.Package) string { return shortPkg(p.Path()) })
}

func fieldQualName(fv *types.Var, owner string) string {
	if fv == nil {
		return ""
	}
	pk := ""
	if fv.Pkg() != nil {
		pk = shortPkg(fv.Pkg().Path()) + "."
	}
	return pk + strings.TrimPrefix(owner, pk) + "." + fv.Name()
}

// elemFresh: element read from container c (map or slice) in fn: fresh iff the
// container itself is fresh and every value this function inserts into it
// (map updates, element stores, appended values) is fresh.
func (e *effEngine) elemFresh(c ssa.Value, fn *ssa.Function) (bool, string) {
	if ok, why := e.Fresh(c); !ok {
		return false, "element of a shared container (" + why + ")"
	}
	root := c
	if u, ok := c.(*ssa.UnOp); ok && u.Op == token.MUL {
		root = u.X // the cell holding the container
	}
	same := func(v ssa.Value) bool {
		if v == c {
			return true
		}
		if u, ok := v.(*ssa.UnOp); ok && u.Op == token.MUL && u.X == root && root != c {
			return true
		}
		return false
	}
	for _, b := range fn.Blocks {
		for _, ins := range b.Instrs {
			switch x := ins.(type) {
			case *ssa.MapUpdate:
				if same(x.Map) && pointerLike(x.Value.Type()) {
					if ok, why := e.Fresh(x.Value); !ok {
						return false, "container holds a shared value (" + why + ")"
					}
				}
			case *ssa.Store:
				if ia, ok := x.Addr.(*ssa.IndexAddr); ok && same(ia.X) && pointerLike(x.Val.Type()) {
					if ok, why := e.Fresh(x.Val); !ok {
						return false, "container holds a shared value (" + why + ")"
					}
				}
			}
		}
	}
	if _, isMap := c.Type().Underlying().(*types.Map); isMap {
		return true, "element of a local map holding only fresh values"
	}
	// slices are filled by append: too many aliases to track
	return false, "element of a slice"
}

// writtenRootType: the named type of the outermost object a write goes into:
// follows field/index address chains and loads of fields up to the object.
func writtenRootType(v ssa.Value) types.Type {
	var last types.Type
	for i := 0; i < 20; i++ {
		switch x := v.(type) {
		case *ssa.FieldAddr:
			t := x.X.Type()
			if p, ok := t.Underlying().(*types.Pointer); ok {
				t = p.Elem()
			}
			last = t
			v = x.X
		case *ssa.Field:
			last = x.X.Type()
			v = x.X
		case *ssa.IndexAddr:
			v = x.X
		case *ssa.Slice:
			v = x.X
		case *ssa.ChangeType:
			v = x.X
		case *ssa.UnOp:
			if x.Op != token.MUL {
				return last
			}
			if _, ok := x.X.(*ssa.FieldAddr); ok {
				v = x.X
				continue
			}
			return last
		default:
			return last
		}
	}
	return last
}
