package main

import (
	"go/token"
	"go/types"

	"golang.org/x/tools/go/ssa"
)

// E-dynval: abstract interpretation of one function with one abstract cty value, "the operand is
// cty.DynamicVal" (unknown value of unknown type, possibly marked). Every predicate cty offers on
// such a value has a fixed answer (IsKnown false, IsNull false, CanIterateElements false, every
// Type().IsXType() false, Type() == DynamicPseudoType true, …), so the branches an evaluator
// takes for it are decided by the code alone. The engine answers: is there a branch, decided by
// those answers, after which an error diagnostic is recorded on every path to a return? If so the
// evaluator rejects an input for which some concretisation may well be valid.

type dvKind int

const (
	dvTop     dvKind = iota // anything
	dvDyn                   // cty.DynamicVal, marks unknown
	dvDynBare               // cty.DynamicVal after Unmark
	dvUnk                   // unknown value of a known type (after a conversion)
	dvTyDyn                 // the cty.Type of a dvDyn value
)

type dvBool int

const (
	dvMaybe dvBool = iota
	dvTrue
	dvFalse
)

func (b dvBool) not() dvBool {
	switch b {
	case dvTrue:
		return dvFalse
	case dvFalse:
		return dvTrue
	}
	return dvMaybe
}

type dynvalFn struct {
	fn    *ssa.Function
	seeds map[ssa.Value]bool
	val   map[ssa.Value]dvKind
	cond  map[ssa.Value]dvBool
}

func isCtyType(t types.Type) bool { return isNamedIn(t, "github.com/zclconf/go-cty/cty", "Type") }

func isNamedIn(t types.Type, pkgPath, name string) bool {
	nt, ok := t.(*types.Named)
	return ok && nt.Obj().Name() == name && nt.Obj().Pkg() != nil && nt.Obj().Pkg().Path() == pkgPath
}

// operandSeeds: result 0 of every call of a Value(ctx) method of an expression (interface or
// concrete) in fn.
func operandSeeds(fn *ssa.Function) []ssa.Value {
	var out []ssa.Value
	for _, b := range fn.Blocks {
		for _, ins := range b.Instrs {
			ex, ok := ins.(*ssa.Extract)
			if !ok || ex.Index != 0 || !isCtyValue(ex.Type()) {
				continue
			}
			call, ok := ex.Tuple.(*ssa.Call)
			if !ok {
				continue
			}
			name := ""
			if call.Call.IsInvoke() {
				name = call.Call.Method.Name()
			} else if cal := call.Call.StaticCallee(); cal != nil && cal.Signature.Recv() != nil {
				name = cal.Name()
			}
			if name == "Value" && call.Call.Signature().Results().Len() == 2 && isDiagnosticsType(call.Call.Signature().Results().At(1).Type()) {
				out = append(out, ex)
			}
		}
	}
	return out
}

func newDynval(fn *ssa.Function, seeds map[ssa.Value]bool) *dynvalFn {
	d := &dynvalFn{fn: fn, seeds: seeds, val: map[ssa.Value]dvKind{}, cond: map[ssa.Value]dvBool{}}
	// values: iterate to a fixed point (kinds only change from "not yet known" to a kind, phis are
	// re-evaluated)
	for iter := 0; iter < 6; iter++ {
		changed := false
		for _, b := range fn.Blocks {
			for _, ins := range b.Instrs {
				v, ok := ins.(ssa.Value)
				if !ok {
					continue
				}
				k := d.kindOf(v)
				if old, had := d.val[v]; !had || old != k {
					d.val[v] = k
					changed = true
				}
			}
		}
		if !changed {
			break
		}
	}
	return d
}

func (d *dynvalFn) get(v ssa.Value) dvKind {
	if d.seeds[v] {
		return dvDyn
	}
	if k, ok := d.val[v]; ok {
		return k
	}
	return dvTop
}

func (d *dynvalFn) kindOf(v ssa.Value) dvKind {
	if d.seeds[v] {
		return dvDyn
	}
	switch x := v.(type) {
	case *ssa.Phi:
		k := dvKind(-1)
		for _, e := range x.Edges {
			if e == ssa.Value(x) {
				continue
			}
			ek := d.get(e)
			if _, seen := d.val[e]; !seen && !d.seeds[e] {
				if _, isIns := e.(ssa.Instruction); isIns {
					continue // not computed yet (back edge): optimistic
				}
			}
			if k == -1 {
				k = ek
			} else if k != ek {
				if (k == dvDyn && ek == dvDynBare) || (k == dvDynBare && ek == dvDyn) {
					k = dvDyn
				} else {
					return dvTop
				}
			}
		}
		if k == -1 {
			return dvTop
		}
		return k
	case *ssa.Extract:
		call, ok := x.Tuple.(*ssa.Call)
		if !ok {
			return dvTop
		}
		ci := calleeOf(&call.Call)
		if x.Index == 0 && ci.isCtyValueMethod("Unmark", "UnmarkDeep", "UnmarkDeepWithPaths") {
			switch d.get(call.Call.Args[0]) {
			case dvDyn, dvDynBare:
				return dvDynBare
			case dvUnk:
				return dvUnk
			}
		}
		if x.Index == 0 && ci.name == "Convert" && len(call.Call.Args) >= 1 {
			switch d.get(call.Call.Args[0]) {
			case dvDyn, dvDynBare, dvUnk:
				return dvUnk
			}
		}
	case *ssa.Call:
		ci := calleeOf(&x.Call)
		if ci.isCtyValueMethod("WithMarks", "WithSameMarks", "Mark", "MarkWithPaths") && len(x.Call.Args) > 0 {
			switch d.get(x.Call.Args[0]) {
			case dvDyn, dvDynBare:
				return dvDyn
			case dvUnk:
				return dvUnk
			}
		}
		if ci.isCtyValueMethod("Type") && len(x.Call.Args) == 1 {
			switch d.get(x.Call.Args[0]) {
			case dvDyn, dvDynBare:
				return dvTyDyn
			}
		}
	case *ssa.UnOp:
		if x.Op == token.MUL {
			if al, ok := x.X.(*ssa.Alloc); ok {
				sts := storesInto(al)
				if len(sts) == 0 {
					return dvTop
				}
				k := dvKind(-1)
				for _, st := range sts {
					if st.Addr != ssa.Value(al) {
						return dvTop
					}
					sk := d.get(st.Val)
					if k == -1 {
						k = sk
					} else if k != sk {
						return dvTop
					}
				}
				if k == -1 {
					return dvTop
				}
				return k
			}
		}
	case *ssa.ChangeType:
		return d.get(x.X)
	}
	return dvTop
}

// eval: the truth value of a boolean SSA value under the abstraction.
func (d *dynvalFn) eval(v ssa.Value, depth int) dvBool {
	if depth > 10 {
		return dvMaybe
	}
	if r, ok := d.cond[v]; ok {
		return r
	}
	r := d.eval1(v, depth)
	d.cond[v] = r
	return r
}

func (d *dynvalFn) eval1(v ssa.Value, depth int) dvBool {
	switch x := v.(type) {
	case *ssa.Const:
		if x.Value != nil && x.Value.String() == "true" {
			return dvTrue
		}
		if x.Value != nil && x.Value.String() == "false" {
			return dvFalse
		}
	case *ssa.UnOp:
		if x.Op == token.NOT {
			return d.eval(x.X, depth+1).not()
		}
	case *ssa.Phi:
		r := dvBool(-1)
		for _, e := range x.Edges {
			er := d.eval(e, depth+1)
			if r == -1 {
				r = er
			} else if r != er {
				return dvMaybe
			}
		}
		if r == -1 {
			return dvMaybe
		}
		return r
	case *ssa.BinOp:
		if x.Op == token.EQL || x.Op == token.NEQ {
			// ty == cty.DynamicPseudoType
			isDynConst := func(v ssa.Value) bool {
				if u, ok := v.(*ssa.UnOp); ok && u.Op == token.MUL {
					if g, ok := u.X.(*ssa.Global); ok && g.Name() == "DynamicPseudoType" {
						return true
					}
				}
				return false
			}
			var r dvBool = dvMaybe
			if (d.get(x.X) == dvTyDyn && isDynConst(x.Y)) || (d.get(x.Y) == dvTyDyn && isDynConst(x.X)) {
				r = dvTrue
			}
			if x.Op == token.NEQ {
				r = r.not()
			}
			return r
		}
	case *ssa.Call:
		ci := calleeOf(&x.Call)
		if len(x.Call.Args) == 0 {
			return dvMaybe
		}
		recv := d.get(x.Call.Args[0])
		if ci.isCtyValueMethod() {
			switch recv {
			case dvDyn, dvDynBare:
				switch ci.name {
				case "IsKnown", "IsWhollyKnown", "IsNull", "CanIterateElements":
					return dvFalse
				case "IsMarked":
					if recv == dvDynBare {
						return dvFalse
					}
				}
			case dvUnk:
				switch ci.name {
				case "IsKnown", "IsWhollyKnown", "IsNull":
					return dvFalse
				}
			}
		}
		if ci.isCtyTypeMethod() && recv == dvTyDyn {
			switch ci.name {
			case "IsObjectType", "IsTupleType", "IsListType", "IsSetType", "IsMapType", "IsCollectionType", "IsPrimitiveType", "IsCapsuleType":
				return dvFalse
			case "HasDynamicTypes":
				return dvTrue
			case "Equals":
				if len(x.Call.Args) == 2 {
					if u, ok := x.Call.Args[1].(*ssa.UnOp); ok && u.Op == token.MUL {
						if g, ok := u.X.(*ssa.Global); ok && g.Name() == "DynamicPseudoType" {
							return dvTrue
						}
					}
				}
			}
		}
	}
	return dvMaybe
}

// recordsError: the instruction appends an error diagnostic (a literal, or through a helper that
// always does).
func recordsError(ins ssa.Instruction) bool {
	call, ok := ins.(*ssa.Call)
	if !ok {
		return false
	}
	if bi, ok := call.Call.Value.(*ssa.Builtin); ok && bi.Name() == "append" && len(call.Call.Args) > 1 && isDiagnosticsType(call.Type()) {
		return sliceLitHasErrorDiag(call.Call.Args[1])
	}
	if isDiagnosticsType(call.Type()) && len(call.Call.Args) == 2 && isErrorDiagPtr(call.Call.Args[1]) {
		return true
	}
	if cal := staticCallee(&call.Call); cal != nil && inModule(cal) && len(cal.Blocks) > 0 && alwaysRecordsError(cal) {
		return true
	}
	if mc, ok := call.Call.Value.(*ssa.MakeClosure); ok {
		if g, ok := mc.Fn.(*ssa.Function); ok && alwaysRecordsError(g) {
			return true
		}
	}
	return false
}

type dynvalFinding struct {
	at   *ssa.If
	edge int
	pos  token.Pos // where the error is recorded
}

// spuriousErrors: branches decided by the abstraction after which an error is recorded on every
// feasible path to a return.
func (d *dynvalFn) spuriousErrors() []dynvalFinding {
	feasible := func(b *ssa.BasicBlock) []int {
		iff, ok := b.Instrs[len(b.Instrs)-1].(*ssa.If)
		if !ok {
			out := make([]int, len(b.Succs))
			for i := range out {
				out[i] = i
			}
			return out
		}
		switch d.eval(iff.Cond, 0) {
		case dvTrue:
			return []int{0}
		case dvFalse:
			return []int{1}
		}
		return []int{0, 1}
	}
	// must[b]: from b, every feasible path records an error before it returns (greatest fixed point)
	rec := map[*ssa.BasicBlock]token.Pos{}
	mustM := map[*ssa.BasicBlock]bool{}
	for _, b := range d.fn.Blocks {
		mustM[b] = true
		for _, ins := range b.Instrs {
			if recordsError(ins) {
				rec[b] = ins.Pos()
				if rec[b] == token.NoPos {
					rec[b] = token.Pos(1)
				}
				break
			}
		}
	}
	for changed := true; changed; {
		changed = false
		for _, b := range d.fn.Blocks {
			if !mustM[b] || rec[b] != token.NoPos {
				continue
			}
			ok := true
			switch b.Instrs[len(b.Instrs)-1].(type) {
			case *ssa.Return, *ssa.Panic:
				ok = false
			default:
				fs := feasible(b)
				if len(fs) == 0 {
					ok = false
				}
				for _, i := range fs {
					if !mustM[b.Succs[i]] {
						ok = false
					}
				}
			}
			if !ok {
				mustM[b] = false
				changed = true
			}
		}
	}
	must := func(b *ssa.BasicBlock) bool { return mustM[b] }
	firstRecord := func(s *ssa.BasicBlock) token.Pos {
		seen := map[*ssa.BasicBlock]bool{s: true}
		work := []*ssa.BasicBlock{s}
		for len(work) > 0 {
			b := work[0]
			work = work[1:]
			if p := rec[b]; p != token.NoPos {
				return p
			}
			for _, i := range feasible(b) {
				if su := b.Succs[i]; !seen[su] {
					seen[su] = true
					work = append(work, su)
				}
			}
		}
		return token.NoPos
	}
	// reachable blocks under the abstraction
	reach := map[*ssa.BasicBlock]bool{}
	var walk func(b *ssa.BasicBlock)
	walk = func(b *ssa.BasicBlock) {
		if reach[b] {
			return
		}
		reach[b] = true
		for _, i := range feasible(b) {
			walk(b.Succs[i])
		}
	}
	if len(d.fn.Blocks) > 0 {
		walk(d.fn.Blocks[0])
	}
	var out []dynvalFinding
	for _, b := range d.fn.Blocks {
		if !reach[b] {
			continue
		}
		iff, ok := b.Instrs[len(b.Instrs)-1].(*ssa.If)
		if !ok || b.Succs[0] == b.Succs[1] {
			continue
		}
		r := d.eval(iff.Cond, 0)
		if r == dvMaybe {
			continue
		}
		edge := 0
		if r == dvFalse {
			edge = 1
		}
		s := b.Succs[edge]
		if must(s) {
			pos := firstRecord(s)
			dup := false
			for _, o := range out {
				if o.pos == pos {
					dup = true
				}
			}
			if !dup {
				out = append(out, dynvalFinding{iff, edge, pos})
			}
		}
	}
	return out
}
