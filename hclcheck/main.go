package main

import (
	"encoding/json"
	"flag"
	"fmt"
	"os"
	"path/filepath"
	"runtime/debug"
	"sort"
	"strconv"
	"strings"
	"time"
)

type propFn func(c *Ctx)

var registry = map[string]propFn{}

func register(id string, fn propFn) { registry[id] = fn }

var extras = map[string][]propFn{}

// registerExtra adds a further rule group to a property.
func registerExtra(id string, fn propFn) { extras[id] = append(extras[id], fn) }

func main() {
	prop := flag.String("property", "", "property id (Cxx)")
	tier := flag.String("tier", "quick", "quick|thorough")
	repo := flag.String("repo", "/repo", "repository root")
	verif := flag.String("verif", "/verif", "verif root (evidence, known findings, testdata)")
	seed := flag.String("seed", "0", "recorded only; no rule uses randomness")
	only := flag.String("only", "", "re-decide a single obligation key verbosely")
	verbose := flag.Bool("v", false, "print every obligation")
	list := flag.Bool("list", false, "list properties with checks")
	dump := flag.String("dump", "", "debug: print the SSA of the functions whose name contains this string")
	dumpAnchors := flag.Bool("dump-anchors", false, "print the function/signature table of -repo (to regenerate anchors.json)")
	flag.Parse()
	if *list {
		var ids []string
		for id := range registry {
			ids = append(ids, id)
		}
		sort.Strings(ids)
		for _, id := range ids {
			fmt.Println(id)
		}
		return
	}
	if *dumpAnchors {
		prog, err := loadProgram(*repo, nil, "")
		if err != nil {
			fmt.Println(err)
			os.Exit(2)
		}
		tab := map[string]map[string]string{}
		for _, pkg := range prog.ModPkgs {
			suffix := strings.TrimPrefix(strings.TrimPrefix(pkg.PkgPath, modPath), "/")
			tab[suffix] = map[string]string{}
			for k, fn := range prog.declaredFuncs(suffix) {
				_, sig := funcKeyAndSig(fn)
				tab[suffix][k] = sig
			}
		}
		out, _ := json.MarshalIndent(tab, "", " ")
		fmt.Println(string(out))
		return
	}
	if *dump != "" {
		prog, err := loadProgram(*repo, nil, "")
		if err != nil {
			fmt.Println(err)
			os.Exit(2)
		}
		for _, f := range prog.pkgFuncs() {
			if strings.Contains(FuncName(f), *dump) {
				f.WriteTo(os.Stdout)
			}
		}
		return
	}
	if *prop == "all" {
		// development aid (refactoring / mutant matrices): one load, every property
		abs, _ := filepath.Abs(*repo)
		os.Exit(runAll(*tier, abs, *verif, *verbose))
	}
	fn, ok := registry[*prop]
	if !ok {
		fmt.Fprintf(os.Stderr, "unknown property %q\n", *prop)
		os.Exit(2)
	}
	if *tier != "quick" && *tier != "thorough" {
		fmt.Fprintf(os.Stderr, "unknown tier %q\n", *tier)
		os.Exit(2)
	}
	seedN, _ := strconv.Atoi(*seed)
	start := time.Now()
	abs, _ := filepath.Abs(*repo)
	os.Exit(run(fn, *prop, *tier, abs, *verif, seedN, *only, *verbose, start))
}

func run(fn propFn, prop, tier, repo, verif string, seed int, only string, verbose bool, start time.Time) (code int) {
	prog, err := loadProgram(repo, nil, "")
	if err != nil {
		fmt.Printf("checker: cannot load %s: %v\n", repo, err)
		os.MkdirAll(filepath.Join(verif, "evidence", "replay"), 0o755)
		rp := filepath.Join(verif, "evidence", "replay", prop+"-load.json")
		os.WriteFile(rp, []byte(fmt.Sprintf("{\"kind\":\"checker\",\"error\":%q}\n", err.Error())), 0o644)
		fmt.Printf("VIOLATION property=%s replay=%s\n", prop, rp)
		return 1
	}
	loadNote := fmt.Sprintf("%d module packages, %d packages incl. dependencies, loaded+SSA in %.1fs", len(prog.ModPkgs), len(prog.Pkgs), time.Since(start).Seconds())
	c := newCtx(prog, prop, tier)
	c.Only = only
	c.Verbose = verbose || only != ""
	func() {
		defer func() {
			if r := recover(); r != nil {
				c.CheckerFail("panic", fmt.Sprintf("%v\n%s", r, debug.Stack()))
			}
		}()
		fn(c)
		for _, x := range extras[prop] {
			x(c)
		}
	}()
	return c.finish(verif, seed, start, loadNote)
}

// runAll runs every registered property on one loaded program; exit 1 if any property reports.
func runAll(tier, repo, verif string, verbose bool) int {
	start := time.Now()
	prog, err := loadProgram(repo, nil, "")
	if err != nil {
		fmt.Printf("checker: cannot load %s: %v\n", repo, err)
		return 1
	}
	var ids []string
	for id := range registry {
		ids = append(ids, id)
	}
	sort.Strings(ids)
	rc := 0
	for _, id := range ids {
		c := newCtx(prog, id, tier)
		c.Verbose = verbose
		func() {
			defer func() {
				if r := recover(); r != nil {
					c.CheckerFail("panic", fmt.Sprintf("%v\n%s", r, debug.Stack()))
				}
			}()
			registry[id](c)
			for _, x := range extras[id] {
				x(c)
			}
		}()
		if c.finish(verif, 0, start, "shared load") != 0 {
			rc = 1
		}
	}
	return rc
}
