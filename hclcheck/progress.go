package main

import (
	"fmt"
	"go/token"
	"sort"
	"strings"

	"golang.org/x/tools/go/ssa"
)

// E-progress: token consumption in parser loops.
//
// A function "always consumes" if every entry→return path passes a consuming
// primitive or a call of an always-consuming function (must-analysis, summaries to
// a fixed point starting from the primitives). A loop is a cycle of the CFG; every
// cycle that is not bounded by a `range` must contain a consuming call.

type progressEngine struct {
	touch  map[*ssa.Function]bool // functions that may inspect or consume the token stream
	prims  map[*ssa.Function]bool
	always map[*ssa.Function]bool
	fns    []*ssa.Function
}

func newProgress(fns []*ssa.Function, prims map[*ssa.Function]bool, streamMethods map[*ssa.Function]bool) *progressEngine {
	e := &progressEngine{prims: prims, always: map[*ssa.Function]bool{}, fns: fns, touch: map[*ssa.Function]bool{}}
	for f := range streamMethods {
		e.touch[f] = true
	}
	for f := range prims {
		e.touch[f] = true
	}
	for changed := true; changed; {
		changed = false
		for _, f := range fns {
			if e.touch[f] {
				continue
			}
			for _, b := range f.Blocks {
				for _, ins := range b.Instrs {
					if call, ok := ins.(*ssa.Call); ok {
						if cal := staticCallee(&call.Call); cal != nil && e.touch[cal] {
							e.touch[f] = true
							changed = true
						}
					}
				}
			}
		}
	}
	for p := range prims {
		e.always[p] = true
	}
	for changed := true; changed; {
		changed = false
		for _, f := range fns {
			if e.always[f] {
				continue
			}
			if e.mustConsume(f) {
				e.always[f] = true
				changed = true
			}
		}
	}
	return e
}

func (e *progressEngine) consumingInstr(ins ssa.Instruction) bool {
	call, ok := ins.(*ssa.Call)
	if !ok {
		return false
	}
	cal := staticCallee(&call.Call)
	return cal != nil && e.always[cal]
}

func (e *progressEngine) blockConsumes(b *ssa.BasicBlock) bool {
	for _, ins := range b.Instrs {
		if e.consumingInstr(ins) {
			return true
		}
	}
	return false
}

// mustConsume: every path from entry to a Return contains a consuming call.
func (e *progressEngine) mustConsume(f *ssa.Function) bool {
	if len(f.Blocks) == 0 {
		return false
	}
	// reachability from entry avoiding consuming blocks; if a Return block is
	// reachable that way (and is itself not consuming), some path does not consume.
	seen := map[*ssa.BasicBlock]bool{}
	stack := []*ssa.BasicBlock{f.Blocks[0]}
	hasReturn := false
	for _, b := range f.Blocks {
		if _, ok := b.Instrs[len(b.Instrs)-1].(*ssa.Return); ok {
			hasReturn = true
		}
	}
	if !hasReturn {
		return false
	}
	for len(stack) > 0 {
		b := stack[len(stack)-1]
		stack = stack[:len(stack)-1]
		if seen[b] {
			continue
		}
		seen[b] = true
		if e.blockConsumes(b) {
			continue
		}
		if _, ok := b.Instrs[len(b.Instrs)-1].(*ssa.Return); ok {
			return false
		}
		stack = append(stack, b.Succs...)
	}
	return true
}

type progressLoop struct {
	fn       *ssa.Function
	header   *ssa.BasicBlock
	pos      token.Pos
	kind     string // "range", "consumes", "stuck"
	detail   string
	nblocks  int
	dataOnly int
}

func isRangeBlock(b *ssa.BasicBlock) bool {
	c := b.Comment
	return strings.HasPrefix(c, "rangeindex.loop") || strings.HasPrefix(c, "rangeiter.loop") ||
		strings.HasPrefix(c, "rangeint.loop") || strings.HasPrefix(c, "rangechan.loop") || strings.HasPrefix(c, "rangefunc")
}

// Loops finds the strongly connected components of f's CFG and classifies them.
func (e *progressEngine) Loops(f *ssa.Function) []progressLoop {
	var out []progressLoop
	sccs := sccBlocks(f.Blocks, nil)
	for _, scc := range sccs {
		if len(scc) == 1 {
			self := false
			for _, s := range scc[0].Succs {
				if s == scc[0] {
					self = true
				}
			}
			if !self {
				continue
			}
		}
		in := map[*ssa.BasicBlock]bool{}
		for _, b := range scc {
			in[b] = true
		}
		// Progress blocks: consuming, or a range-loop header. Remove them and look
		// for a remaining cycle.
		isProgress := func(b *ssa.BasicBlock) bool { return e.blockConsumes(b) || isRangeBlock(b) }
		rest := sccBlocks(scc, func(b *ssa.BasicBlock) bool { return in[b] && !isProgress(b) })
		header := scc[0]
		for _, b := range scc {
			if b.Index < header.Index {
				header = b
			}
		}
		pos := blockPos(header)
		lp := progressLoop{fn: f, header: header, pos: pos, nblocks: len(scc)}
		stuck := [][]*ssa.BasicBlock{}
		touches := func(r []*ssa.BasicBlock) bool {
			for _, b := range r {
				for _, ins := range b.Instrs {
					if call, ok := ins.(*ssa.Call); ok {
						if cal := staticCallee(&call.Call); cal != nil && e.touch[cal] {
							return true
						}
						if call.Call.IsInvoke() || staticCallee(&call.Call) == nil {
							// dynamic call: conservatively token-touching only if it
							// receives the parser/peeker (not needed today)
							continue
						}
					}
				}
			}
			return false
		}
		dataOnly := 0
		for _, r := range rest {
			cyc := len(r) > 1
			if !cyc {
				for _, s := range r[0].Succs {
					if s == r[0] {
						cyc = true
					}
				}
			}
			if !cyc {
				continue
			}
			// A cycle that never looks at the token stream is a data loop (bounded
			// by a slice it shrinks or an index it advances): out of scope.
			if touches(r) {
				stuck = append(stuck, r)
			} else {
				dataOnly++
			}
		}
		lp.dataOnly = dataOnly
		hasRange, hasConsume := false, false
		for _, b := range scc {
			if isRangeBlock(b) {
				hasRange = true
			}
			if e.blockConsumes(b) {
				hasConsume = true
			}
		}
		switch {
		case len(stuck) > 0:
			lp.kind = "stuck"
			var ds []string
			for _, r := range stuck {
				var idx []int
				p := token.NoPos
				for _, b := range r {
					idx = append(idx, b.Index)
					if bp := blockPos(b); bp.IsValid() && (!p.IsValid() || bp < p) {
						p = bp
					}
				}
				sort.Ints(idx)
				ds = append(ds, fmt.Sprintf("cycle through blocks %v", idx))
				if p.IsValid() {
					lp.pos = p
				}
			}
			lp.detail = strings.Join(ds, "; ")
		case hasConsume:
			lp.kind = "consumes"
		case hasRange:
			lp.kind = "range"
		case dataOnly > 0:
			lp.kind = "data"
		}
		out = append(out, lp)
	}
	return out
}

func blockPos(b *ssa.BasicBlock) token.Pos {
	for _, ins := range b.Instrs {
		if p := ins.Pos(); p.IsValid() {
			return p
		}
	}
	return token.NoPos
}

// sccBlocks: Tarjan SCCs of the sub-graph induced by keep (nil = all of blocks).
func sccBlocks(blocks []*ssa.BasicBlock, keep func(*ssa.BasicBlock) bool) [][]*ssa.BasicBlock {
	inSet := map[*ssa.BasicBlock]bool{}
	for _, b := range blocks {
		if keep == nil || keep(b) {
			inSet[b] = true
		}
	}
	index := map[*ssa.BasicBlock]int{}
	low := map[*ssa.BasicBlock]int{}
	on := map[*ssa.BasicBlock]bool{}
	var stack []*ssa.BasicBlock
	var out [][]*ssa.BasicBlock
	n := 0
	var strong func(b *ssa.BasicBlock)
	strong = func(b *ssa.BasicBlock) {
		n++
		index[b] = n
		low[b] = n
		stack = append(stack, b)
		on[b] = true
		for _, s := range b.Succs {
			if !inSet[s] {
				continue
			}
			if index[s] == 0 {
				strong(s)
				if low[s] < low[b] {
					low[b] = low[s]
				}
			} else if on[s] && index[s] < low[b] {
				low[b] = index[s]
			}
		}
		if low[b] == index[b] {
			var comp []*ssa.BasicBlock
			for {
				x := stack[len(stack)-1]
				stack = stack[:len(stack)-1]
				on[x] = false
				comp = append(comp, x)
				if x == b {
					break
				}
			}
			out = append(out, comp)
		}
	}
	for _, b := range blocks {
		if inSet[b] && index[b] == 0 {
			strong(b)
		}
	}
	return out
}
