package main

import (
	"fmt"
	"go/ast"
	"go/constant"
	"go/token"
	"go/types"
	"regexp"
	"sort"
	"strings"

	"golang.org/x/tools/go/packages"
	"golang.org/x/tools/go/ssa"
)

func init() { register("C20", checkC20) }

func checkC20(c *Ctx) {
	c20Accessors(c)
	c20Keywords(c)
	c20JSONAccessors(c)
	c20TraversalParser(c)
	c20TypeTables(c)
	c20Purity(c)
	c20TypeModes(c)
	c20AccessorNil(c)
	diagsKeptRule(c, "R7", 20, "hcl", "hclsyntax", "ext/typeexpr")
	c.NotCovered("equality of the TraverseAbs result and Value; agreement of diagnostics; equivalence of a JSON string and native text")
}

// fieldsRead: fields of the receiver's struct type that fn (and the closures it defines) reads.
func fieldsRead(fn *ssa.Function, owner *types.Named) map[string]bool {
	out := map[string]bool{}
	var scan func(f *ssa.Function)
	scan = func(f *ssa.Function) {
		for _, b := range f.Blocks {
			for _, ins := range b.Instrs {
				switch x := ins.(type) {
				case *ssa.FieldAddr:
					if namedOf(x.X.Type()) == owner {
						if fv := fieldVarOf(x.X.Type(), x.Field); fv != nil {
							out[fv.Name()] = true
						}
					}
				case *ssa.Field:
					if namedOf(x.X.Type()) == owner {
						if fv := fieldVarOf(x.X.Type(), x.Field); fv != nil {
							out[fv.Name()] = true
						}
					}
				}
			}
		}
		for _, af := range f.AnonFuncs {
			scan(af)
		}
	}
	scan(fn)
	return out
}

// R1 + R3 (native syntax)
func c20Accessors(c *Ctx) {
	c.Rule("R1 accessor.fields: each static accessor of a native expression node reads exactly the content fields its Value method evaluates: ScopeTraversalExpr.AsTraversal ↔ Traversal; RelativeTraversalExpr.AsTraversal ↔ Source, Traversal (source steps first, then the relative steps); ObjectConsKeyExpr.AsTraversal ↔ Wrapped; TupleConsExpr.ExprList ↔ Exprs; ObjectConsExpr.ExprMap ↔ Items (KeyExpr, ValueExpr); FunctionCallExpr.ExprCall ↔ Name, Args")
	pkg := c.P.Pkg("hclsyntax")
	type spec struct {
		typ, accessor string
		content       []string // content fields (ranges are not content)
	}
	specs := []spec{
		{"ScopeTraversalExpr", "AsTraversal", []string{"Traversal"}},
		{"RelativeTraversalExpr", "AsTraversal", []string{"Source", "Traversal"}},
		{"ObjectConsKeyExpr", "AsTraversal", []string{"Wrapped"}},
		{"TupleConsExpr", "ExprList", []string{"Exprs"}},
		{"ObjectConsExpr", "ExprMap", []string{"Items"}},
		{"FunctionCallExpr", "ExprCall", []string{"Name", "Args"}},
	}
	for _, sp := range specs {
		tn, _ := pkg.Types.Scope().Lookup(sp.typ).(*types.TypeName)
		acc := c.P.LookupFunc("hclsyntax", sp.typ+"."+sp.accessor)
		val := c.P.LookupFunc("hclsyntax", sp.typ+".Value")
		if tn == nil || acc == nil || val == nil {
			c.CheckerFail("accessor.fields", "anchor hclsyntax."+sp.typ+"."+sp.accessor+" / Value does not resolve")
			continue
		}
		c.Fn(FuncName(acc))
		owner := namedOf(tn.Type())
		ra, rv := fieldsRead(acc, owner), fieldsRead(val, owner)
		isContent := func(f string) bool {
			return !strings.HasSuffix(f, "Range") && f != "ExpandFinal" && f != "ForceNonLiteral"
		}
		var accC, valC []string
		for f := range ra {
			if isContent(f) {
				accC = append(accC, f)
			}
		}
		for f := range rv {
			if isContent(f) {
				valC = append(valC, f)
			}
		}
		sort.Strings(accC)
		sort.Strings(valC)
		want := append([]string{}, sp.content...)
		sort.Strings(want)
		key := "hclsyntax." + sp.typ + "." + sp.accessor
		c.Check(strings.Join(accC, ",") == strings.Join(want, ","), "accessor.fields", key+":reads", acc.Pos(), "reads "+strings.Join(accC, ","),
			sp.accessor+" reads {"+strings.Join(accC, ",")+"} but the static view of "+sp.typ+" is defined by {"+strings.Join(want, ",")+"}")
		// Value evaluates at least these fields
		missing := []string{}
		for _, f := range want {
			if !rv[f] {
				missing = append(missing, f)
			}
		}
		c.Check(len(missing) == 0, "accessor.fields", key+":value-uses", val.Pos(), "Value uses the same fields",
			"Value does not use "+strings.Join(missing, ",")+", which "+sp.accessor+" exposes")
	}
	// RelativeTraversalExpr.AsTraversal: source steps first, then the relative steps
	rt := c.P.LookupFunc("hclsyntax", "RelativeTraversalExpr.AsTraversal")
	if rt != nil {
		var copies []*ssa.Call
		for _, b := range rt.Blocks {
			for _, ins := range b.Instrs {
				if call, ok := ins.(*ssa.Call); ok {
					if bi, ok := call.Call.Value.(*ssa.Builtin); ok && bi.Name() == "copy" {
						copies = append(copies, call)
					}
				}
			}
		}
		ok := len(copies) == 2
		if ok {
			// first copy: dst is the fresh slice itself, src from AbsTraversalForExpr; second: dst re-sliced from len(st), src the Traversal field
			_, firstWhole := copies[0].Call.Args[0].(*ssa.MakeSlice)
			_, secondSliced := copies[1].Call.Args[0].(*ssa.Slice)
			srcIsField := false
			for fv := range fieldTrail(copies[1].Call.Args[1]) {
				if fv.Name() == "Traversal" {
					srcIsField = true
				}
			}
			ok = firstWhole && secondSliced && srcIsField
		}
		c.Check(ok, "accessor.fields", "hclsyntax.RelativeTraversalExpr.AsTraversal:order", rt.Pos(), "source steps, then e.Traversal",
			"AsTraversal does not concatenate the source's traversal followed by e.Traversal (the order Value applies them in)")
	}
}

// R2
func c20Keywords(c *Ctx) {
	c.Rule("R2 keyword.inverse: the parser's keyword table (true, false, null → LiteralValueExpr of cty.True / cty.False / cty.NullVal) and LiteralValueExpr.AsTraversal (cty.True / cty.False / null → root name) are inverse of each other")
	pfd, ppkg := c.P.LookupDecl("hclsyntax", "parser.parseExpressionTerm")
	afd, apkg := c.P.LookupDecl("hclsyntax", "LiteralValueExpr.AsTraversal")
	if pfd == nil || afd == nil {
		c.CheckerFail("keyword.inverse", "anchor parseExpressionTerm / LiteralValueExpr.AsTraversal does not resolve")
		return
	}
	c.Fn(declName(ppkg, pfd))
	c.Fn(declName(apkg, afd))
	// parser: case "kw": return &LiteralValueExpr{Val: X}
	parser := map[string]string{}
	ast.Inspect(pfd.Body, func(n ast.Node) bool {
		cc, ok := n.(*ast.CaseClause)
		if !ok || len(cc.List) != 1 {
			return true
		}
		kw, ok := constString(ppkg.TypesInfo, cc.List[0])
		if !ok {
			return true
		}
		for _, st := range cc.Body {
			ast.Inspect(st, func(m ast.Node) bool {
				cl, ok := m.(*ast.CompositeLit)
				if !ok || exprStr(cl.Type) != "LiteralValueExpr" {
					return true
				}
				for _, el := range cl.Elts {
					if kv, ok := el.(*ast.KeyValueExpr); ok && exprStr(kv.Key) == "Val" {
						parser[kw] = exprStr(kv.Value)
					}
				}
				return true
			})
		}
		return true
	})
	// AsTraversal: condition → Name
	back := map[string]string{}
	var collect func(list []ast.Stmt, cond string)
	nameOf := func(n ast.Node) string {
		out := ""
		ast.Inspect(n, func(m ast.Node) bool {
			if kv, ok := m.(*ast.KeyValueExpr); ok && exprStr(kv.Key) == "Name" {
				if s, ok := constString(apkg.TypesInfo, kv.Value); ok {
					out = s
				}
			}
			return true
		})
		return out
	}
	collect = func(list []ast.Stmt, cond string) {
		for _, st := range list {
			switch x := st.(type) {
			case *ast.IfStmt:
				if nm := nameOf(x.Body); nm != "" {
					back[exprStr(x.Cond)] = nm
				}
			case *ast.SwitchStmt:
				for _, cs := range x.Body.List {
					cc := cs.(*ast.CaseClause)
					if len(cc.List) == 1 {
						if nm := nameOf(cc); nm != "" {
							back[exprStr(cc.List[0])] = nm
						}
					}
				}
			}
		}
	}
	collect(afd.Body.List, "")
	c.Floor("keyword.inverse parser keywords", len(parser), 3, "true false null")
	for _, kw := range []string{"true", "false", "null"} {
		val := parser[kw]
		key := "hclsyntax:keyword[" + kw + "]"
		var got string
		switch {
		case strings.Contains(val, "NullVal"):
			got = back["e.Val.IsNull()"]
		default:
			got = back[val]
		}
		c.Check(val != "" && got == kw, "keyword.inverse", key, pfd.Pos(), kw+" → "+val+" → "+got,
			fmt.Sprintf("the parser maps %q to %s, which AsTraversal maps back to %q", kw, val, got))
	}
}

// R3 (JSON)
func c20JSONAccessors(c *Ctx) {
	c.Rule("R3 json.accessors: json.expression.ExprList wraps exactly arrayVal.Values and ExprMap wraps exactly objectVal.Attrs Name (as a string node) and Value — the sub-nodes expression.Value recurses into for those node types")
	val := c.P.LookupFunc("json", "expression.Value")
	if val == nil {
		c.CheckerFail("json.accessors", "anchor json.expression.Value does not resolve")
		return
	}
	wrapsOf := func(fn *ssa.Function) map[string]bool {
		out := map[string]bool{}
		// values stored into the src field of an expression object, traced back to node fields
		for _, b := range fn.Blocks {
			for _, ins := range b.Instrs {
				st, ok := ins.(*ssa.Store)
				if !ok {
					continue
				}
				fa, ok := st.Addr.(*ssa.FieldAddr)
				if !ok || !isNamed(fa.X.Type(), jsonPkgPath, "expression") {
					continue
				}
				var names []string
				for fv := range fieldTrail(st.Val) {
					if fv.Pkg() != nil && fv.Pkg().Path() == jsonPkgPath && !strings.HasSuffix(fv.Name(), "Range") && fv.Name() != "src" {
						names = append(names, fv.Name())
					}
				}
				sort.Strings(names)
				if len(names) > 0 {
					out[strings.Join(names, ".")] = true
				}
			}
		}
		return out
	}
	vw := wrapsOf(val)
	for _, sp := range []struct {
		acc  string
		want []string
	}{{"ExprList", []string{"Values"}}, {"ExprMap", []string{"Attrs.Name", "Attrs.Value"}}} {
		fn := c.P.LookupFunc("json", "expression."+sp.acc)
		if fn == nil {
			c.CheckerFail("json.accessors", "anchor json.expression."+sp.acc+" does not resolve")
			continue
		}
		c.Fn(FuncName(fn))
		got := wrapsOf(fn)
		var gl []string
		for k := range got {
			gl = append(gl, k)
		}
		sort.Strings(gl)
		okAll := len(gl) == len(sp.want)
		for _, w := range sp.want {
			if !got[w] {
				okAll = false
			}
			if !vw[w] {
				c.Fail("json.accessors", "json.expression."+sp.acc+":value["+w+"]", val.Pos(), "expression.Value does not recurse into "+w+", which "+sp.acc+" exposes")
			}
		}
		c.Check(okAll, "json.accessors", "json.expression."+sp.acc+":wraps", fn.Pos(), "wraps "+strings.Join(gl, ", "),
			sp.acc+" wraps {"+strings.Join(gl, ", ")+"}, expected {"+strings.Join(sp.want, ", ")+"}")
	}
}

// R4
func c20TraversalParser(c *Ctx) {
	c.Rule("R4 traversal.parser: the stand-alone traversal parser (parser.parseTraversal) constructs only Traverser kinds that the expression parser (parseExpressionTraversals / parseExpressionTerm) also constructs, and builds number keys with the same helper (numberLitValue) and string keys with the same literal decoder")
	tp := c.P.LookupFunc("hclsyntax", "parser.parseTraversal")
	ep := c.P.LookupFunc("hclsyntax", "parser.parseExpressionTraversals")
	et := c.P.LookupFunc("hclsyntax", "parser.parseExpressionTerm")
	if tp == nil || ep == nil || et == nil {
		c.CheckerFail("traversal.parser", "anchor parseTraversal / parseExpressionTraversals / parseExpressionTerm does not resolve")
		return
	}
	kinds := func(fns ...*ssa.Function) (map[string]bool, map[string]bool) {
		k, helpers := map[string]bool{}, map[string]bool{}
		for _, fn := range fns {
			for _, b := range fn.Blocks {
				for _, ins := range b.Instrs {
					switch x := ins.(type) {
					case *ssa.Alloc:
						if n := namedOf(x.Type()); n != nil && n.Obj().Pkg() != nil && n.Obj().Pkg().Path() == modPath && strings.HasPrefix(n.Obj().Name(), "Traverse") {
							k[n.Obj().Name()] = true
						}
					case *ssa.MakeInterface:
						if n := namedOf(x.X.Type()); n != nil && n.Obj().Pkg() != nil && n.Obj().Pkg().Path() == modPath && strings.HasPrefix(n.Obj().Name(), "Traverse") {
							k[n.Obj().Name()] = true
						}
					case *ssa.Call:
						if cal := x.Call.StaticCallee(); cal != nil {
							switch cal.Name() {
							case "numberLitValue", "parseQuotedStringLiteral", "ParseStringLiteralToken":
								helpers[cal.Name()] = true
							}
						}
					}
				}
			}
		}
		return k, helpers
	}
	tk, th := kinds(tp)
	ek, eh := kinds(ep, et)
	c.Fn(FuncName(tp))
	var extra []string
	for k := range tk {
		if k == "TraverseSplat" {
			// only built when splats are allowed (ParseTraversalPartial); documented as a
			// placeholder that cannot be evaluated, outside the property's quantifier
			continue
		}
		if !ek[k] {
			extra = append(extra, k)
		}
	}
	sort.Strings(extra)
	c.Check(len(extra) == 0 && len(tk) >= 3, "traversal.parser", "hclsyntax.parser.parseTraversal:kinds", tp.Pos(), fmt.Sprintf("%d traverser kinds, all shared with the expression parser", len(tk)),
		"the traversal parser constructs "+strings.Join(extra, ",")+", which the expression parser never produces for the same text")
	c.Check(th["numberLitValue"] && eh["numberLitValue"], "traversal.parser", "hclsyntax.parser.parseTraversal:number-keys", tp.Pos(), "number keys through numberLitValue in both parsers",
		"number index keys are not built by the shared numberLitValue helper in both parsers")
	c.Check(th["parseQuotedStringLiteral"], "traversal.parser", "hclsyntax.parser.parseTraversal:string-keys", tp.Pos(), "string keys through the shared literal decoder",
		"string index keys of the traversal parser do not go through parseQuotedStringLiteral")
}

// R5
func c20TypeTables(c *Ctx) {
	c.Rule("R5 type.tables: the keywords typeexpr.TypeString prints for primitive types (string, bool, number, any) are the keywords getType maps back to the same cty types; the constructor keywords printed under IsListType/IsSetType/IsMapType/IsObjectType/IsTupleType (list( set( map( object({ tuple([) are the call names getType maps to cty.List/Set/Map/Object/Tuple; object attribute names are printed bare exactly under hclsyntax.ValidIdentifier")
	tsd, tpkg := c.P.LookupDecl("ext/typeexpr", "TypeString")
	gtd, gpkg := c.P.LookupDecl("ext/typeexpr", "getType")
	if tsd == nil || gtd == nil {
		c.CheckerFail("type.tables", "anchor typeexpr.TypeString / getType does not resolve")
		return
	}
	c.Fn(declName(tpkg, tsd))
	c.Fn(declName(gpkg, gtd))
	// TypeString primitives: switch ty { case cty.X: return "kw" }
	prim := map[string]string{}
	ast.Inspect(tsd.Body, func(n ast.Node) bool {
		sw, ok := n.(*ast.SwitchStmt)
		if !ok || sw.Tag == nil {
			return true
		}
		for _, cs := range sw.Body.List {
			cc := cs.(*ast.CaseClause)
			if len(cc.List) != 1 || len(cc.Body) != 1 {
				continue
			}
			if rs, ok := cc.Body[0].(*ast.ReturnStmt); ok && len(rs.Results) == 1 {
				if kw, ok := constString(tpkg.TypesInfo, rs.Results[0]); ok {
					prim[exprStr(cc.List[0])] = kw
				}
			}
		}
		return true
	})
	// getType keywords, from the SSA: the set of keyword spellings call.Name / the keyword can have
	// at each block (forward propagation through the `== "kw"` tests of the switches); a return of
	// a cty type variable in a block whose set is {kw} maps kw to that type, a call of a cty
	// collection constructor in a block whose set contains kw maps kw to that constructor.
	gprim := map[string]string{}
	gctorSet := map[string]map[string]bool{}
	gt := c.P.LookupFunc("ext/typeexpr", "getType")
	if gt == nil {
		c.CheckerFail("type.tables", "anchor getType (SSA) does not resolve")
		return
	}
	dom := stringTestDomains(gt)
	for _, b := range gt.Blocks {
		d := dom[b]
		for _, ins := range b.Instrs {
			switch x := ins.(type) {
			case *ssa.Return:
				if len(d) != 1 || len(x.Results) == 0 {
					continue
				}
				if ld, ok := lookThrough(x.Results[0]).(*ssa.UnOp); ok {
					if g, ok := ld.X.(*ssa.Global); ok && g.Pkg.Pkg.Path() == ctyPath {
						for kw := range d {
							if _, seen := gprim[kw]; !seen {
								gprim[kw] = "cty." + g.Name()
							}
						}
					}
				}
			case *ssa.Call:
				cal := x.Call.StaticCallee()
				if cal == nil || cal.Pkg == nil || cal.Pkg.Pkg.Path() != ctyPath {
					continue
				}
				switch cal.Name() {
				case "List", "Set", "Map", "Object", "Tuple", "ObjectWithOptionalAttrs":
					for kw := range d {
						if gctorSet[kw] == nil {
							gctorSet[kw] = map[string]bool{}
						}
						gctorSet[kw][strings.TrimSuffix(cal.Name(), "WithOptionalAttrs")] = true
					}
				}
			}
		}
	}
	gctor := map[string]string{}
	for kw, set := range gctorSet {
		var names []string
		for n := range set {
			names = append(names, n)
		}
		sort.Strings(names)
		gctor[kw] = strings.Join(names, "|")
	}
	_ = gpkg
	for ct, kw := range prim {
		back := gprim[kw]
		c.Check(back == ct, "type.tables", "ext/typeexpr:primitive["+kw+"]", tsd.Pos(), ct+" → "+kw+" → "+back,
			fmt.Sprintf("TypeString prints %s as %q, but getType maps %q to %s", ct, kw, kw, back))
	}
	c.Floor("type.tables primitives", len(prim), 4, "string bool number any")
	// constructors: condition IsXType → format prefix
	ctor := map[string]string{}
	re := regexp.MustCompile(`^([a-z]+)[(]`)
	var walkIf func(n ast.Node, pred string)
	walkIf = func(n ast.Node, pred string) {
		ast.Inspect(n, func(m ast.Node) bool {
			switch x := m.(type) {
			case *ast.IfStmt:
				if call, ok := x.Cond.(*ast.CallExpr); ok {
					if sel, ok := call.Fun.(*ast.SelectorExpr); ok && strings.HasPrefix(sel.Sel.Name, "Is") && strings.HasSuffix(sel.Sel.Name, "Type") {
						walkIf(x.Body, sel.Sel.Name)
						return false
					}
				}
			case *ast.CaseClause:
				if len(x.List) == 1 {
					if call, ok := x.List[0].(*ast.CallExpr); ok {
						if sel, ok := call.Fun.(*ast.SelectorExpr); ok && strings.HasPrefix(sel.Sel.Name, "Is") && strings.HasSuffix(sel.Sel.Name, "Type") {
							for _, st := range x.Body {
								walkIf(st, sel.Sel.Name)
							}
							return false
						}
					}
				}
			case *ast.BasicLit:
				if x.Kind == token.STRING && pred != "" {
					if tv, ok := tpkg.TypesInfo.Types[x]; ok && tv.Value != nil && tv.Value.Kind() == constant.String {
						if mm := re.FindStringSubmatch(constant.StringVal(tv.Value)); mm != nil {
							if _, seen := ctor[pred]; !seen {
								ctor[pred] = mm[1]
							}
						}
					}
				}
			}
			return true
		})
	}
	walkIf(tsd.Body, "")
	want := map[string]string{"IsListType": "List", "IsSetType": "Set", "IsMapType": "Map", "IsObjectType": "Object", "IsTupleType": "Tuple"}
	for pred, cty := range want {
		kw := ctor[pred]
		back := gctor[kw]
		c.Check(kw != "" && back == cty, "type.tables", "ext/typeexpr:constructor["+cty+"]", tsd.Pos(), cty+" → "+kw+"( → cty."+back,
			fmt.Sprintf("TypeString prints %s types with the keyword %q, which getType maps to cty.%s", cty, kw, back))
	}
	// bare attribute names only under ValidIdentifier
	ts := c.P.LookupFunc("ext/typeexpr", "TypeString")
	vi := c.P.LookupFunc("hclsyntax", "ValidIdentifier")
	if ts == nil || vi == nil {
		c.CheckerFail("type.tables", "anchor TypeString / ValidIdentifier (SSA) does not resolve")
		return
	}
	// a bare attribute name (a string that is neither a constant nor the result of a formatting or
	// TypeString call) is written — directly, or returned by a helper whose result is written —
	// only under the true edge of hclsyntax.ValidIdentifier
	n := 0
	guardedBy := func(b *ssa.BasicBlock) bool {
		for d := b; d != nil; d = d.Idom() {
			idom := d.Idom()
			if idom == nil {
				break
			}
			if iff, ok := idom.Instrs[len(idom.Instrs)-1].(*ssa.If); ok && condCalls(iff.Cond, vi, map[ssa.Value]bool{}) {
				return true
			}
		}
		return false
	}
	bare := func(v ssa.Value) bool {
		switch v.(type) {
		case *ssa.Const, *ssa.Call:
			return false
		}
		return isBasicString(v.Type())
	}
	checkSite := func(fn *ssa.Function, b *ssa.BasicBlock, pos token.Pos) {
		n++
		c.Check(guardedBy(b), "type.tables", "ext/typeexpr."+fn.Name()+":bare-attribute-name", pos, "bare only under hclsyntax.ValidIdentifier",
			"an object attribute name is printed bare without hclsyntax.ValidIdentifier deciding it: names that the parser accepts as identifiers may be quoted (and then not parse back), or vice versa")
	}
	for _, b := range ts.Blocks {
		for _, ins := range b.Instrs {
			call, ok := ins.(*ssa.Call)
			if !ok {
				continue
			}
			cal := call.Call.StaticCallee()
			if cal == nil || cal.Name() != "WriteString" || len(call.Call.Args) != 2 {
				continue
			}
			arg := call.Call.Args[1]
			if bare(arg) {
				checkSite(ts, b, call.Pos())
				continue
			}
			// a helper of this package that returns the text to write
			if hc, ok := arg.(*ssa.Call); ok {
				h := hc.Call.StaticCallee()
				if h == nil || h == ts || fnPkg(h) == nil || fnPkg(h) != fnPkg(ts) {
					continue
				}
				c.Fn(FuncName(h))
				for _, hb := range h.Blocks {
					if ret, ok := hb.Instrs[len(hb.Instrs)-1].(*ssa.Return); ok && len(ret.Results) == 1 && bare(ret.Results[0]) {
						checkSite(h, hb, ret.Pos())
					}
				}
			}
		}
	}
	c.Floor("type.tables bare names", n, 1, "attribute name in object({…})")
	_ = packages.NeedName
}

// stringTestDomains: for every block of fn, the set of string constants a tested string can still
// be equal to there, following the `x == "k"` tests (true edge: {k}; false edge: without k),
// computed separately for each tested subject (the same SSA value or loads of the same cell) and
// reported only for the subjects that actually constrain the block. "\x00" stands for any other
// spelling and is removed from the result.
func stringTestDomains(fn *ssa.Function) map[*ssa.BasicBlock]map[string]bool {
	type test struct {
		subj ssa.Value
		k    string
		eq   bool
	}
	testOf := func(b *ssa.BasicBlock) (test, bool) {
		iff, ok := lastIf(b)
		if !ok {
			return test{}, false
		}
		bo, ok := iff.Cond.(*ssa.BinOp)
		if !ok || (bo.Op != token.EQL && bo.Op != token.NEQ) || !isBasicString(bo.X.Type()) {
			return test{}, false
		}
		for _, pr := range [][2]ssa.Value{{bo.X, bo.Y}, {bo.Y, bo.X}} {
			if cn, ok := pr[1].(*ssa.Const); ok && cn.Value != nil && cn.Value.Kind() == constant.String {
				return test{pr[0], constant.StringVal(cn.Value), bo.Op == token.EQL}, true
			}
		}
		return test{}, false
	}
	var groups []ssa.Value // representatives
	groupOf := func(v ssa.Value) int {
		for i, g := range groups {
			if g == v || sameCell(g, v) {
				return i
			}
		}
		groups = append(groups, v)
		return len(groups) - 1
	}
	tests := map[*ssa.BasicBlock]test{}
	gidx := map[*ssa.BasicBlock]int{}
	for _, b := range fn.Blocks {
		if t, ok := testOf(b); ok {
			tests[b] = t
			gidx[b] = groupOf(t.subj)
		}
	}
	result := map[*ssa.BasicBlock]map[string]bool{}
	for g := range groups {
		universe := map[string]bool{"\x00": true}
		for b, t := range tests {
			if gidx[b] == g {
				universe[t.k] = true
			}
		}
		dom := map[*ssa.BasicBlock]map[string]bool{}
		cp := func(m map[string]bool) map[string]bool {
			o := map[string]bool{}
			for k := range m {
				o[k] = true
			}
			return o
		}
		dom[fn.Blocks[0]] = cp(universe)
		for changed := true; changed; {
			changed = false
			for _, b := range fn.Blocks {
				in := dom[b]
				if in == nil {
					continue
				}
				t, isTest := tests[b]
				isTest = isTest && gidx[b] == g
				for si, su := range b.Succs {
					out := in
					if isTest {
						if (si == 0) == t.eq { // subject == k on this edge
							out = map[string]bool{}
							if in[t.k] {
								out[t.k] = true
							}
						} else {
							out = cp(in)
							delete(out, t.k)
						}
					}
					if dom[su] == nil {
						dom[su] = map[string]bool{}
					}
					for x := range out {
						if !dom[su][x] {
							dom[su][x] = true
							changed = true
						}
					}
				}
			}
		}
		for b, d := range dom {
			if d["\x00"] || len(d) == len(universe) {
				continue // this subject does not pin the spelling here
			}
			if result[b] == nil {
				result[b] = map[string]bool{}
			}
			for k := range d {
				result[b][k] = true
			}
		}
	}
	return result
}

// R6
func c20Purity(c *Ctx) {
	c.Rule("R6 static.pure: no function reachable from the static-analysis entry points (hcl.AbsTraversalForExpr, RelTraversalForExpr, ExprAsKeyword, ExprList, ExprMap, ExprCall, UnwrapExpression*, the AsTraversal/ExprList/ExprMap/ExprCall methods, typeexpr.Type/TypeConstraint/TypeString) writes memory it did not allocate: a static view must not modify the expression it describes")
	roots := map[*ssa.Function]bool{}
	for _, a := range [][2]string{{"", "AbsTraversalForExpr"}, {"", "RelTraversalForExpr"}, {"", "ExprAsKeyword"}, {"", "ExprList"}, {"", "ExprMap"}, {"", "ExprCall"},
		{"", "UnwrapExpression"}, {"", "UnwrapExpressionUntil"}, {"ext/typeexpr", "Type"}, {"ext/typeexpr", "TypeConstraint"}, {"ext/typeexpr", "TypeString"}} {
		if f := c.P.LookupFunc(a[0], a[1]); f != nil {
			roots[f] = true
		} else {
			c.CheckerFail("static.pure", "anchor "+a[0]+"."+a[1]+" does not resolve")
		}
	}
	for _, fn := range c.P.pkgFuncs("hcl", "hclsyntax", "json", "ext/dynblock") {
		if fn.Parent() != nil || fn.Signature.Recv() == nil {
			continue
		}
		switch fn.Name() {
		case "AsTraversal", "ExprList", "ExprMap", "ExprCall", "UnwrapExpression":
			roots[fn] = true
		}
	}
	pkgs := map[string]bool{"hcl": true, "hclsyntax": true, "json": true, "ext/dynblock": true, "ext/typeexpr": true, "ext/customdecode": true}
	cut := map[*ssa.Function]bool{}
	for _, a := range [][2]string{{"hclsyntax", "ParseExpression"}, {"hclsyntax", "ParseTemplate"}, {"hclsyntax", "ParseTraversalAbs"}, {"hclsyntax", "ParseConfig"}} {
		if f := c.P.LookupFunc(a[0], a[1]); f != nil {
			cut[f] = true
		}
	}
	nFns, nWrites := runEffects(c, "static.pure", roots, pkgs, cut, "a static accessor modifies the syntax tree (or another caller's data) it was asked to describe")
	c.Floor("static.pure roots", len(roots), 12, "package-level accessors and the accessor methods of the expression types")
	c.Floor("static.pure functions", nFns, 20, "functions reachable from the static accessors")
	c.Floor("static.pure writes", nWrites, 10, "writes classified")
}

// R8: the recursive type-expression parser keeps its mode.
func c20TypeModes(c *Ctx) {
	c.Rule("R8 type.modes: every recursive call of typeexpr.getType passes its own `constraint` and `withDefaults` parameters on unchanged and in the same positions: a nested type expression is parsed in the mode of the expression that contains it (TypeConstraint accepts `any` at every depth; Type rejects it at every depth)")
	fn := c.P.LookupFunc("ext/typeexpr", "getType")
	if fn == nil {
		c.CheckerFail("type.modes", "anchor typeexpr.getType does not resolve")
		return
	}
	c.Fn(FuncName(fn))
	var modes []int
	for i, p := range fn.Params {
		if b, ok := p.Type().Underlying().(*types.Basic); ok && b.Kind() == types.Bool {
			modes = append(modes, i)
		}
	}
	n := 0
	for _, f := range append([]*ssa.Function{fn}, fn.AnonFuncs...) {
		for _, b := range f.Blocks {
			for _, ins := range b.Instrs {
				call, ok := ins.(*ssa.Call)
				if !ok || call.Call.StaticCallee() != fn {
					continue
				}
				n++
				c.Sites++
				good := true
				for _, i := range modes {
					a := call.Call.Args[i]
					if a != ssa.Value(fn.Params[i]) && !isSpillOf(a, fn.Params[i]) {
						// inside a closure the parameter is a captured variable
						if fv, ok := a.(*ssa.UnOp); ok {
							if v, ok := fv.X.(*ssa.FreeVar); ok && v.Name() == fn.Params[i].Name() {
								continue
							}
						}
						good = false
					}
				}
				c.Check(good, "type.modes", "ext/typeexpr.getType:recursive-call", call.Pos(), "modes passed on unchanged",
					"a nested type expression is parsed with different constraint/defaults modes than its parent: what TypeString prints for a nested type no longer parses back in the same entry point")
			}
		}
	}
	c.Floor("type.modes recursive calls", n, 2, "list/set/map element, object attributes, tuple elements, optional(...)")
}

// R9 accessor.nil: hcl.ExprList / hcl.ExprMap read a nil result as "this expression is not a static
// list / map". An implementation therefore returns either the nil constant or a slice that cannot
// be nil — never one whose nilness depends on the number of elements.
func c20AccessorNil(c *Ctx) {
	c.Rule("R9 accessor.nil: every return of an ExprList / ExprMap method in hcl, hclsyntax, json, ext/dynblock yields either the constant nil ('not a list/map') or a structurally non-nil slice (make, a literal, an append to such): an empty tuple or object is still a static list/map, as its Value is an empty tuple/object")
	e := newNonNilEngine(c.P)
	n := 0
	for _, fn := range c.P.pkgFuncs("hcl", "hclsyntax", "json", "ext/dynblock") {
		if fn.Parent() != nil || fn.Signature.Recv() == nil || (fn.Name() != "ExprList" && fn.Name() != "ExprMap") {
			continue
		}
		c.Fn(FuncName(fn))
		for _, b := range fn.Blocks {
			ret, ok := b.Instrs[len(b.Instrs)-1].(*ssa.Return)
			if !ok || len(ret.Results) != 1 {
				continue
			}
			n++
			c.Sites++
			v := ret.Results[0]
			okv := false
			if k, isC := v.(*ssa.Const); isC && k.IsNil() {
				okv = true
			} else {
				okv = e.valueNonNil(v, b, map[ssa.Value]bool{}, 0) || !e.nilReach(v, b, map[ssa.Value]bool{}, 0)
			}
			c.Check(okv, "accessor.nil", FuncName(fn)+":return["+pathName(v)+"]", ret.Pos(), "nil constant or never nil",
				"the returned slice is nil exactly when there are no elements: hcl."+fn.Name()+" then reports that an empty list/map constructor is not a static list/map, although its Value is an empty tuple/object")
		}
	}
	c.Floor("accessor.nil returns", n, 6, "ExprList/ExprMap of TupleConsExpr, ObjectConsExpr and the JSON expression")
}
