package main

import (
	"fmt"
	"go/token"
	"go/types"
	"sort"
	"strings"

	"golang.org/x/tools/go/ssa"
)

// E-unmarked: "definitely top-level unmarked" typestate.
//
// cty panics ("value is marked, so must be unmarked first") in a fixed set of
// cty.Value methods. That set is re-derived from the cty sources on every run
// (methods whose body calls assertUnmarked on the receiver, tests IsMarked and
// panics, or unconditionally calls such a method on the receiver) and compared
// with the frozen list, so a cty upgrade cannot silently invalidate the rule.

var frozenMarkedPanics = []string{
	"AsBigFloat", "AsString", "AsValueMap", "AsValueSet", "AsValueSlice", "ElementIterator",
	"EncapsulatedValue", "False", "ForEachElement", "LengthInt", "Range", "True",
}

type unmarkedEngine struct {
	p              *Program
	panics         map[*ssa.Function]bool // cty.Value methods that panic on a marked receiver
	memo           map[unmKey]int         // 0 unknown, 1 in progress, 2 yes, 3 no
	why            map[unmKey]string
	retMemo        map[*ssa.Function]int
	depth          int
	usedFieldRules map[string]string
}

type unmKey struct {
	v ssa.Value
	b *ssa.BasicBlock
}

func newUnmarkedEngine(p *Program) (*unmarkedEngine, error) {
	e := &unmarkedEngine{p: p, panics: map[*ssa.Function]bool{}, memo: map[unmKey]int{}, why: map[unmKey]string{}, retMemo: map[*ssa.Function]int{}, usedFieldRules: map[string]string{}}
	ctyPkg := p.SSAPkgs[ctyPath]
	if ctyPkg == nil {
		return nil, fmt.Errorf("package %s not loaded", ctyPath)
	}
	valT := ctyPkg.Type("Value")
	if valT == nil {
		return nil, fmt.Errorf("cty.Value does not resolve")
	}
	ms := p.SSA.MethodSets.MethodSet(valT.Type())
	var methods []*ssa.Function
	for i := 0; i < ms.Len(); i++ {
		if fn := p.SSA.MethodValue(ms.At(i)); fn != nil && len(fn.Blocks) > 0 {
			methods = append(methods, fn)
		}
	}
	assertFn := (*ssa.Function)(nil)
	isMarkedFn := (*ssa.Function)(nil)
	for _, m := range methods {
		switch m.Name() {
		case "assertUnmarked":
			assertFn = m
		case "IsMarked":
			isMarkedFn = m
		}
	}
	if assertFn == nil || isMarkedFn == nil {
		return nil, fmt.Errorf("cty.Value.assertUnmarked / IsMarked do not resolve")
	}
	recvIs := func(fn *ssa.Function, v ssa.Value) bool {
		if len(fn.Params) == 0 {
			return false
		}
		if v == fn.Params[0] {
			return true
		}
		// spilled value receiver: load of a cell whose only store is the parameter
		if u, ok := v.(*ssa.UnOp); ok && u.Op == token.MUL {
			if al, ok := u.X.(*ssa.Alloc); ok {
				n, fromParam := 0, false
				for _, r := range *al.Referrers() {
					if st, ok := r.(*ssa.Store); ok && st.Addr == al {
						n++
						fromParam = st.Val == fn.Params[0]
					}
				}
				return n == 1 && fromParam
			}
		}
		return false
	}
	// direct: calls assertUnmarked(recv) in the entry block, or entry block tests
	// recv.IsMarked() and the true successor panics.
	for _, m := range methods {
		if m == assertFn {
			continue
		}
		entry := m.Blocks[0]
		for _, ins := range entry.Instrs {
			call, ok := ins.(*ssa.Call)
			if !ok {
				continue
			}
			cal := call.Call.StaticCallee()
			if cal == assertFn && recvIs(m, call.Call.Args[0]) {
				e.panics[m] = true
			}
			if cal == isMarkedFn && recvIs(m, call.Call.Args[0]) {
				if iff, ok := entry.Instrs[len(entry.Instrs)-1].(*ssa.If); ok && iff.Cond == call {
					for _, i2 := range entry.Succs[0].Instrs {
						if _, ok := i2.(*ssa.Panic); ok {
							e.panics[m] = true
						}
					}
				}
			}
		}
	}
	// transitive: unconditional call (entry block) of a panicking method on the receiver.
	for changed := true; changed; {
		changed = false
		for _, m := range methods {
			if e.panics[m] {
				continue
			}
			for _, ins := range m.Blocks[0].Instrs {
				if call, ok := ins.(*ssa.Call); ok {
					if cal := call.Call.StaticCallee(); cal != nil && e.panics[cal] && recvIs(m, call.Call.Args[0]) {
						e.panics[m] = true
						changed = true
					}
				}
			}
		}
	}
	var got []string
	for m := range e.panics {
		got = append(got, m.Name())
	}
	sort.Strings(got)
	if strings.Join(got, ",") != strings.Join(frozenMarkedPanics, ",") {
		return nil, fmt.Errorf("cty methods that panic on marked receivers changed: derived %v, frozen %v", got, frozenMarkedPanics)
	}
	return e, nil
}

// ctyConstructorsUnmarked: package-level cty functions whose result is never
// top-level marked, whatever the arguments (marks of elements stay on elements).
// cty.SetVal is NOT here: a set hoists element marks to the set itself.
var ctyConstructorsUnmarked = map[string]bool{
	"StringVal": true, "NumberVal": true, "NumberIntVal": true, "NumberUIntVal": true, "NumberFloatVal": true,
	"BoolVal": true, "ParseNumberVal": true, "MustParseNumberVal": true, "UnknownVal": true, "NullVal": true,
	"ListVal": true, "ListValEmpty": true, "MapVal": true, "MapValEmpty": true, "TupleVal": true, "ObjectVal": true,
	"SetValEmpty": true, "CapsuleVal": true, "NormalizeString": true, "UnknownAsNull": false,
}

// primitive-only operations: result marks = union of the operands' top-level marks.
var ctyPrimitiveOps = map[string]bool{
	"Add": true, "Subtract": true, "Multiply": true, "Divide": true, "Modulo": true, "Negate": true, "Absolute": true,
	"And": true, "Or": true, "Not": true, "LessThan": true, "GreaterThan": true, "LessThanOrEqualTo": true,
	"GreaterThanOrEqualTo": true, "Length": true,
}

var unmarkFuncs = map[string]bool{"Unmark": true, "UnmarkDeep": true, "UnmarkDeepWithPaths": true}

func isCtyPkgFunc(fn *ssa.Function, name string) bool { return isFunc(fn, ctyPath, name) }

func isCtyValueMethod(fn *ssa.Function) bool {
	if fn == nil || fn.Signature.Recv() == nil {
		return false
	}
	if _, ptr := fn.Signature.Recv().Type().(*types.Pointer); ptr {
		return false
	}
	return isNamed(fn.Signature.Recv().Type(), ctyPath, "Value")
}

func isPrimitiveCtyTypeGlobal(v ssa.Value) bool {
	if u, ok := v.(*ssa.UnOp); ok && u.Op == token.MUL {
		if g, ok := u.X.(*ssa.Global); ok && g.Pkg != nil && g.Pkg.Pkg.Path() == ctyPath {
			switch g.Name() {
			case "String", "Number", "Bool":
				return true
			}
		}
	}
	return false
}

// Unmarked decides whether v is provably top-level unmarked when used in block b.
func (e *unmarkedEngine) Unmarked(v ssa.Value, b *ssa.BasicBlock) (bool, string) {
	k := unmKey{v, b}
	switch e.memo[k] {
	case 1:
		return true, "cycle (coinductive)"
	case 2:
		return true, e.why[k]
	case 3:
		return false, e.why[k]
	}
	e.memo[k] = 1
	e.depth++
	ok, why := e.decide(v, b)
	e.depth--
	// Only outermost decisions are memoised: inner ones may rest on the
	// coinductive cycle assumption of a decision still in progress.
	if e.depth == 0 {
		if ok {
			e.memo[k] = 2
		} else {
			e.memo[k] = 3
		}
		e.why[k] = why
	} else {
		delete(e.memo, k)
	}
	return ok, why
}

func (e *unmarkedEngine) decide(v ssa.Value, b *ssa.BasicBlock) (bool, string) {
	if b != nil && e.guardedByNotMarked(v, b) {
		return true, "dominated by the false edge of IsMarked()"
	}
	switch x := v.(type) {
	case *ssa.Extract:
		if call, ok := x.Tuple.(*ssa.Call); ok {
			cal := call.Call.StaticCallee()
			if cal != nil && isCtyValueMethod(cal) && unmarkFuncs[cal.Name()] && x.Index == 0 {
				return true, "result 0 of " + cal.Name()
			}
			if cal != nil && x.Index == 0 && isFunc(cal, ctyPath+"/json", "Unmarshal") {
				return true, "ctyjson.Unmarshal (JSON decoding creates no marks)"
			}
			if cal != nil && isCtyPkgFunc(cal, "ParseNumberVal") && x.Index == 0 {
				return true, "cty.ParseNumberVal"
			}
			if cal != nil && x.Index == 0 && fnPkg(cal) != nil && fnPkg(cal).Path() == ctyPath+"/convert" && cal.Name() == "Convert" {
				if isPrimitiveCtyTypeGlobal(call.Call.Args[1]) {
					if ok, _ := e.Unmarked(call.Call.Args[0], call.Block()); ok {
						return true, "convert.Convert of an unmarked value to a primitive type"
					}
				}
				return false, "convert.Convert of a possibly marked value"
			}
			if cal != nil && cal.Signature.Recv() != nil && isNamed(cal.Signature.Recv().Type(), ctyPath, "ValueRange") {
				return true, "bound of a cty.ValueRange (Range() requires an unmarked receiver)"
			}
			if cal != nil && inModule(cal) {
				if e.returnsUnmarked(cal, x.Index) {
					return true, "result of " + FuncName(cal) + " (all returns unmarked)"
				}
			}
		}
		return false, "tuple element of unknown origin"
	case *ssa.Call:
		cal := x.Call.StaticCallee()
		if cal == nil {
			return false, "result of a dynamic call"
		}
		if pk := fnPkg(cal); pk != nil && pk.Path() == ctyPath && cal.Signature.Recv() == nil {
			if ctyConstructorsUnmarked[cal.Name()] {
				return true, "fresh cty." + cal.Name()
			}
			return false, "cty." + cal.Name() + " may return a marked value"
		}
		if cal.Signature.Recv() != nil && isNamed(cal.Signature.Recv().Type(), ctyPath, "ValueRange") {
			return true, "bound of a cty.ValueRange (Range() requires an unmarked receiver)"
		}
		if isCtyValueMethod(cal) && ctyPrimitiveOps[cal.Name()] {
			for _, a := range x.Call.Args {
				if isCtyValue(a.Type()) {
					if ok, why := e.Unmarked(a, x.Block()); !ok {
						return false, cal.Name() + " of a possibly marked operand: " + why
					}
				}
			}
			return true, cal.Name() + " of unmarked primitives"
		}
		if isCtyValueMethod(cal) && (cal.Name() == "Equals" || cal.Name() == "NotEqual") {
			// Equals looks inside collections, so both operands must be wholly unmarked.
			for _, a := range x.Call.Args {
				if !e.deepUnmarked(a, map[ssa.Value]bool{}) {
					return false, cal.Name() + " of an operand that may contain marks"
				}
			}
			return true, cal.Name() + " of wholly unmarked values"
		}
		if inModule(cal) && e.returnsUnmarked(cal, 0) {
			return true, "result of " + FuncName(cal) + " (all returns unmarked)"
		}
		return false, "result of " + FuncName(cal)
	case *ssa.UnOp:
		if x.Op != token.MUL {
			return false, "unary op"
		}
		switch src := x.X.(type) {
		case *ssa.Global:
			if src.Pkg != nil && src.Pkg.Pkg.Path() == ctyPath {
				return true, "cty." + src.Name() + " constant"
			}
			return false, "package variable " + src.Name()
		case *ssa.Alloc:
			return e.cellUnmarked(src, nil)
		case *ssa.FreeVar:
			return e.freeVarUnmarked(src)
		case *ssa.FieldAddr:
			if fv := fieldVarOf(src.X.Type(), src.Field); fv != nil {
				return e.fieldUnmarked(fv)
			}
		}
		return false, "load through pointer"
	case *ssa.Field:
		if fv := fieldVarOf(x.X.Type(), x.Field); fv != nil {
			return e.fieldUnmarked(fv)
		}
		return false, "struct field"
	case *ssa.Phi:
		for i, ed := range x.Edges {
			if ok, why := e.Unmarked(ed, x.Block().Preds[i]); !ok {
				return false, "phi edge: " + why
			}
		}
		return true, "phi of unmarked values"
	case *ssa.Parameter:
		return e.paramUnmarked(x)
	case *ssa.ChangeType:
		return e.Unmarked(x.X, b)
	case *ssa.MakeInterface:
		return e.Unmarked(x.X, b)
	case *ssa.Const:
		return true, "zero value"
	}
	return false, fmt.Sprintf("%T", v)
}

// deepUnmarked: provably free of marks at every depth (primitives from fresh
// constructors, ValueRange bounds, cty constants, UnmarkDeep results).
func (e *unmarkedEngine) deepUnmarked(v ssa.Value, seen map[ssa.Value]bool) bool {
	if seen[v] {
		return true
	}
	seen[v] = true
	callOK := func(call *ssa.Call, idx int) bool {
		cal := call.Call.StaticCallee()
		if cal == nil {
			return false
		}
		if cal.Signature.Recv() != nil && isNamed(cal.Signature.Recv().Type(), ctyPath, "ValueRange") {
			return true
		}
		if isCtyValueMethod(cal) && (cal.Name() == "UnmarkDeep" || cal.Name() == "UnmarkDeepWithPaths") && idx == 0 {
			return true
		}
		if pk := fnPkg(cal); pk != nil && pk.Path() == ctyPath && cal.Signature.Recv() == nil {
			switch cal.Name() {
			case "StringVal", "NumberVal", "NumberIntVal", "NumberUIntVal", "NumberFloatVal", "BoolVal", "ParseNumberVal", "MustParseNumberVal", "UnknownVal", "NullVal":
				return true
			}
		}
		return false
	}
	switch x := v.(type) {
	case *ssa.Extract:
		if call, ok := x.Tuple.(*ssa.Call); ok {
			return callOK(call, x.Index)
		}
	case *ssa.Call:
		return callOK(x, 0)
	case *ssa.UnOp:
		if g, ok := x.X.(*ssa.Global); ok && x.Op == token.MUL && g.Pkg != nil && g.Pkg.Pkg.Path() == ctyPath {
			return true
		}
	case *ssa.Phi:
		for _, ed := range x.Edges {
			if !e.deepUnmarked(ed, seen) {
				return false
			}
		}
		return true
	}
	return false
}

// guardedByNotMarked: some block on the dominator chain ends in `if v.IsMarked()`
// (on the same SSA value) and b lies under its false edge.
func (e *unmarkedEngine) guardedByNotMarked(v ssa.Value, b *ssa.BasicBlock) bool {
	for _, ce := range ctlEdges(b) {
		cond, onTrue := ce.iff.Cond, ce.onTrue
		for {
			u, ok := cond.(*ssa.UnOp)
			if !ok || u.Op != token.NOT {
				break
			}
			cond, onTrue = u.X, !onTrue
		}
		call, ok := cond.(*ssa.Call)
		if !ok {
			continue
		}
		cal := call.Call.StaticCallee()
		if cal == nil || !isCtyValueMethod(cal) || cal.Name() != "IsMarked" {
			continue
		}
		if !sameValue(call.Call.Args[0], v) {
			continue
		}
		if !onTrue {
			return true
		}
	}
	return false
}

// sameValue: identical SSA value, or two loads of the same never-reassigned cell.
func sameValue(a, b ssa.Value) bool {
	if a == b {
		return true
	}
	ua, ok1 := a.(*ssa.UnOp)
	ub, ok2 := b.(*ssa.UnOp)
	if ok1 && ok2 && ua.Op == token.MUL && ub.Op == token.MUL && ua.X == ub.X {
		// same cell: require a single store to it
		if al, ok := ua.X.(*ssa.Alloc); ok {
			n := 0
			for _, r := range *al.Referrers() {
				if st, ok := r.(*ssa.Store); ok && st.Addr == al {
					n++
				}
			}
			return n <= 1
		}
	}
	return false
}

// cellUnmarked: every store into the local cell (including stores made by
// closures that capture it) stores an unmarked value.
func (e *unmarkedEngine) cellUnmarked(a ssa.Value, seen map[ssa.Value]bool) (bool, string) {
	if seen == nil {
		seen = map[ssa.Value]bool{}
	}
	if seen[a] {
		return true, ""
	}
	seen[a] = true
	refs := a.Referrers()
	if refs == nil {
		return false, "cell without referrers"
	}
	stores := 0
	for _, r := range *refs {
		switch x := r.(type) {
		case *ssa.Store:
			if x.Addr != a {
				return false, "address of the cell is stored"
			}
			stores++
			if ok, why := e.Unmarked(x.Val, x.Block()); !ok {
				return false, "store of a possibly marked value into the local: " + why
			}
		case *ssa.UnOp:
			// load
		case *ssa.MakeClosure:
			fn := x.Fn.(*ssa.Function)
			for i, bnd := range x.Bindings {
				if bnd == a {
					if ok, why := e.cellUnmarked(fn.FreeVars[i], seen); !ok {
						return false, why
					}
				}
			}
		case *ssa.DebugRef:
		default:
			return false, fmt.Sprintf("cell escapes (%T)", r)
		}
	}
	if _, isAlloc := a.(*ssa.Alloc); isAlloc && stores == 0 {
		return true, "zero-valued local"
	}
	return true, "every store into the local is unmarked"
}

func (e *unmarkedEngine) freeVarUnmarked(fv *ssa.FreeVar) (bool, string) {
	fn := fv.Parent()
	idx := -1
	for i, f := range fn.FreeVars {
		if f == fv {
			idx = i
		}
	}
	parent := fn.Parent()
	if parent == nil || idx < 0 {
		return false, "free variable"
	}
	// find the MakeClosure(s) creating fn in parent and check the bound cell
	found := false
	for _, b := range parent.Blocks {
		for _, ins := range b.Instrs {
			if mc, ok := ins.(*ssa.MakeClosure); ok && mc.Fn == fn {
				found = true
				bound := mc.Bindings[idx]
				switch bb := bound.(type) {
				case *ssa.Alloc:
					if ok, why := e.cellUnmarked(bb, nil); !ok {
						return false, why
					}
				case *ssa.FreeVar:
					if ok, why := e.freeVarUnmarked(bb); !ok {
						return false, why
					}
				default:
					return false, "captured cell of unknown origin"
				}
			}
		}
	}
	if !found {
		return false, "closure creation not found"
	}
	return true, "captured local whose every store is unmarked"
}

// paramUnmarked: a parameter of an unexported function / closure is unmarked if
// every call site (VTA-resolved) passes a provably unmarked value.
func (e *unmarkedEngine) paramUnmarked(par *ssa.Parameter) (bool, string) {
	fn := par.Parent()
	idx := -1
	for i, p := range fn.Params {
		if p == par {
			idx = i
		}
	}
	if idx < 0 {
		return false, "parameter"
	}
	if fn.Parent() == nil {
		if obj := fn.Object(); obj == nil || obj.Exported() {
			return false, "parameter of an exported function"
		}
		if fn.Signature.Recv() != nil {
			// methods may be called through interfaces from anywhere
			if named := namedOf(fn.Signature.Recv().Type()); named != nil && named.Obj().Exported() {
				return false, "parameter of a method of an exported type"
			}
		}
	}
	node := e.p.CallGraph().Nodes[fn]
	if node == nil || len(node.In) == 0 {
		return false, "parameter of a function without known callers"
	}
	for _, in := range node.In {
		site := in.Site
		if site == nil {
			return false, "synthetic caller"
		}
		args := site.Common().Args
		ai := idx
		if site.Common().IsInvoke() {
			ai = idx - 1
			if ai < 0 {
				return false, "receiver"
			}
		}
		if ai >= len(args) {
			return false, "argument list mismatch"
		}
		if ok, why := e.Unmarked(args[ai], site.Block()); !ok {
			return false, fmt.Sprintf("caller %s passes a possibly marked value (%s)", FuncName(in.Caller.Func), why)
		}
	}
	return true, fmt.Sprintf("parameter: all %d call sites pass unmarked values", len(node.In))
}

// returnsUnmarked: every return of fn yields an unmarked result idx.
func (e *unmarkedEngine) returnsUnmarked(fn *ssa.Function, idx int) bool {
	if idx != 0 {
		return false
	}
	switch e.retMemo[fn] {
	case 1:
		return true
	case 2:
		return true
	case 3:
		return false
	}
	e.retMemo[fn] = 1
	ok := len(fn.Blocks) > 0
	for _, b := range fn.Blocks {
		if !ok {
			break
		}
		if ret, isRet := b.Instrs[len(b.Instrs)-1].(*ssa.Return); isRet {
			if len(ret.Results) <= idx || !isCtyValue(ret.Results[idx].Type()) {
				ok = false
				break
			}
			if u, _ := e.Unmarked(ret.Results[idx], b); !u {
				ok = false
			}
		}
	}
	if ok {
		e.retMemo[fn] = 2
	} else {
		e.retMemo[fn] = 3
	}
	return ok
}

type unmarkedSite struct {
	fn     *ssa.Function
	pos    token.Pos
	method string
	recv   ssa.Value
	ok     bool
	why    string
}

// Sites enumerates every call of a marked-panicking cty method in fns.
func (e *unmarkedEngine) Sites(fns []*ssa.Function) []unmarkedSite {
	var out []unmarkedSite
	for _, fn := range fns {
		for _, b := range fn.Blocks {
			for _, ins := range b.Instrs {
				var cc *ssa.CallCommon
				switch x := ins.(type) {
				case *ssa.Call:
					cc = &x.Call
				case *ssa.Defer:
					cc = &x.Call
				case *ssa.Go:
					cc = &x.Call
				}
				if cc == nil {
					continue
				}
				cal := cc.StaticCallee()
				if cal == nil || !e.panics[cal] {
					continue
				}
				recv := cc.Args[0]
				ok, why := e.Unmarked(recv, b)
				out = append(out, unmarkedSite{fn, ins.Pos(), cal.Name(), recv, ok, why})
			}
		}
	}
	return out
}

func fieldVarOf(t types.Type, idx int) *types.Var {
	if p, ok := t.Underlying().(*types.Pointer); ok {
		t = p.Elem()
	}
	st, ok := t.Underlying().(*types.Struct)
	if !ok || idx >= st.NumFields() {
		return nil
	}
	return st.Field(idx)
}

// fieldUnmarked: named exceptions (one struct field each, with a reason) whose
// content is trusted to be unmarked. Recorded in the evidence as assumptions.
var unmarkedFieldRules = map[string]string{
	"hcl.TraverseIndex.Key": "index keys of static traversals are parser-made literals (literal and literal-template keys in parseExpressionTraversals / parseTraversal); evaluation results never become traversal steps",
}

func (e *unmarkedEngine) fieldUnmarked(fv *types.Var) (bool, string) {
	name := ""
	if fv.Pkg() != nil {
		name = shortPkg(fv.Pkg().Path()) + "."
	}
	// find the owning named struct by scanning the package scope
	owner := ""
	if fv.Pkg() != nil {
		sc := fv.Pkg().Scope()
		for _, n := range sc.Names() {
			if tn, ok := sc.Lookup(n).(*types.TypeName); ok {
				if st, ok := tn.Type().Underlying().(*types.Struct); ok {
					for i := 0; i < st.NumFields(); i++ {
						if st.Field(i) == fv {
							owner = n
						}
					}
				}
			}
		}
	}
	name += owner + "." + fv.Name()
	if _, ok := unmarkedFieldRules[name]; !ok {
		return false, "field " + name + " (no field rule)"
	}
	e.usedFieldRules[name] = unmarkedFieldRules[name]
	return true, "field " + name + " (named exception: " + unmarkedFieldRules[name] + ")"
}
