package main

// Rules written after round 7 of the seeded changes (DESIGN §9.21). Each is a structural necessary
// condition of the property it is registered under; the seed that led to it is its positive control.

import (
	"fmt"
	"go/constant"
	"go/token"
	"go/types"
	"sort"
	"strings"

	"golang.org/x/tools/go/ssa"
)

func init() {
	registerExtra("C02", c02PeekerOwner)
	registerExtra("C01", c01ForFilter)
	registerExtra("C01", func(c *Ctx) { opImplRule(c) })
	registerExtra("C05", func(c *Ctx) { opImplRule(c) })
	registerExtra("C05", c05RefineFresh)
	registerExtra("C04", c04UnwrapHidden)
	registerExtra("C07", c07SpecOwnCtx)
	registerExtra("C07", func(c *Ctx) { walkSinglePass(c) })
	registerExtra("C10", func(c *Ctx) { walkSinglePass(c) })
	registerExtra("C11", func(c *Ctx) { numLitExact(c) })
	registerExtra("C01", func(c *Ctx) { numLitExact(c) })
	registerExtra("C13", c13KeywordSubject)
	registerExtra("C17", c17CtxFresh)
	registerExtra("C18", func(c *Ctx) { schemaExtended(c) })
	registerExtra("C04", func(c *Ctx) { schemaExtended(c) })
	registerExtra("C19", c19ImplArgs)
	registerExtra("C20", c20JSONTraversal)
	registerExtra("C11", func(c *Ctx) { literalVerbatim(c) })
	registerExtra("C01", func(c *Ctx) { literalVerbatim(c) })
}

// ---- shared: origins of a value -------------------------------------------------------------------

// originsOf: the values v can be, following phis, conversions, loads of local cells (every store)
// and — when through != nil — calls for which through returns the operand that is passed on.
func originsOf(v ssa.Value, through func(*ssa.Call) ssa.Value) []ssa.Value {
	var out []ssa.Value
	seen := map[ssa.Value]bool{}
	var walk func(x ssa.Value, d int)
	walk = func(x ssa.Value, d int) {
		if x == nil || seen[x] || d > 60 {
			return
		}
		seen[x] = true
		switch y := x.(type) {
		case *ssa.Phi:
			for _, e := range y.Edges {
				walk(e, d+1)
			}
			return
		case *ssa.ChangeType:
			walk(y.X, d+1)
			return
		case *ssa.MakeInterface:
			walk(y.X, d+1)
			return
		case *ssa.ChangeInterface:
			walk(y.X, d+1)
			return
		case *ssa.UnOp:
			if y.Op == token.MUL {
				if fv, ok := y.X.(*ssa.FreeVar); ok {
					// a captured variable: the cell the enclosing function bound to it
					if cell := freeVarCell(fv); cell != nil {
						direct := 0
						for _, st := range storesInto(cell) {
							if st.Addr == ssa.Value(cell) {
								direct++
								walk(st.Val, d+1)
							}
						}
						if direct > 0 {
							return
						}
					}
				}
				if al, ok := y.X.(*ssa.Alloc); ok {
					sts := storesInto(al)
					direct := 0
					for _, st := range sts {
						if st.Addr == ssa.Value(al) {
							direct++
							walk(st.Val, d+1)
						}
					}
					if direct > 0 {
						return
					}
				}
			}
		case *ssa.Extract:
			if call, ok := y.Tuple.(*ssa.Call); ok && through != nil {
				if nx := through(call); nx != nil {
					walk(nx, d+1)
					return
				}
			}
		case *ssa.Call:
			if through != nil {
				if nx := through(y); nx != nil {
					walk(nx, d+1)
					return
				}
			}
		}
		out = append(out, x)
	}
	walk(v, 0)
	return out
}

// ctyDecorator: calls that return their receiver's value with marks or refinements changed.
func ctyDecorator(call *ssa.Call) ssa.Value {
	cal := call.Call.StaticCallee()
	if cal == nil || cal.Signature.Recv() == nil || !isCtyValue(cal.Signature.Recv().Type()) || len(call.Call.Args) == 0 {
		return nil
	}
	switch cal.Name() {
	case "WithMarks", "Mark", "WithSameMarks", "MarkWithPaths", "RefineNotNull":
		return call.Call.Args[0]
	}
	return nil
}

func describeOrigin(v ssa.Value) string {
	switch x := v.(type) {
	case *ssa.Call:
		if cal := x.Call.StaticCallee(); cal != nil {
			return "result of " + FuncName(cal)
		}
		return "result of a dynamic call"
	case *ssa.Extract:
		if call, ok := x.Tuple.(*ssa.Call); ok {
			if cal := call.Call.StaticCallee(); cal != nil {
				return fmt.Sprintf("result #%d of %s", x.Index, FuncName(cal))
			}
			if call.Call.IsInvoke() {
				return fmt.Sprintf("result #%d of %s", x.Index, call.Call.Method.Name())
			}
			return fmt.Sprintf("result #%d of a call through a function value", x.Index)
		}
	case *ssa.Parameter:
		return "parameter " + x.Name()
	case *ssa.Const:
		return "constant " + x.String()
	case *ssa.Global:
		return "global " + x.Name()
	}
	return strings.TrimSpace(v.String())
}

// ---- C02 peeker.owner --------------------------------------------------------------------------------

func c02PeekerOwner(c *Ctx) {
	c.Rule("peeker.owner (who-may-read): the token slice of hclsyntax.peeker (field Tokens) is read only by the methods of peeker and by its constructor; the parser obtains tokens through Peek/Read/nextToken, which is where comments and insignificant newlines are filtered — a token read past that filter makes the parse depend on comment placement")
	inside, outside := 0, 0
	for _, fn := range c.P.pkgFuncs("hclsyntax") {
		if len(fn.Blocks) == 0 {
			continue
		}
		owner := false
		root := fn
		for root.Parent() != nil {
			root = root.Parent()
		}
		if recv := root.Signature.Recv(); recv != nil && isNamed(derefType(recv.Type()), hclsyntaxPath, "peeker") {
			owner = true
		}
		if root.Name() == "newPeeker" {
			owner = true
		}
		for _, b := range fn.Blocks {
			for _, ins := range b.Instrs {
				var fv *types.Var
				var base types.Type
				switch x := ins.(type) {
				case *ssa.FieldAddr:
					fv, base = fieldVarOf(x.X.Type(), x.Field), derefType(x.X.Type())
					// only reads
					read := false
					for _, r := range *x.Referrers() {
						if u, ok := r.(*ssa.UnOp); ok && u.Op == token.MUL {
							read = true
						}
					}
					if !read {
						fv = nil
					}
				case *ssa.Field:
					fv, base = fieldVarOf(x.X.Type(), x.Field), x.X.Type()
				}
				if fv == nil || fv.Name() != "Tokens" || !isNamed(base, hclsyntaxPath, "peeker") {
					continue
				}
				if owner {
					inside++
					continue
				}
				outside++
				c.Sites++
				c.Fail("peeker.owner", FuncName(fn)+":read[peeker.Tokens]", ins.Pos(), "the token slice is read outside the peeker: this token has not passed the comment / newline filter, so a comment placed here changes how the item is parsed")
			}
		}
	}
	c.Sites += inside
	if outside == 0 {
		c.OK("peeker.owner", "hclsyntax:peeker.Tokens", token.NoPos, fmt.Sprintf("%d reads, all in peeker methods", inside))
	}
	c.Floor("peeker.owner reads inside the peeker", inside, 2, "nextToken and the constructor's consumers")
}

func derefType(t types.Type) types.Type {
	if pt, ok := t.Underlying().(*types.Pointer); ok {
		return pt.Elem()
	}
	return t
}

// ---- C01 for.filter ------------------------------------------------------------------------------------

// exprFieldCall: call is x.<field>.Value(...) for the named field of the receiver's struct.
func exprFieldInvoke(call *ssa.Call, field string) bool {
	if !call.Call.IsInvoke() || call.Call.Method.Name() != "Value" {
		return false
	}
	for fv := range fieldTrail(call.Call.Value) {
		if fv.Name() == field {
			return true
		}
	}
	return false
}

func c01ForFilter(c *Ctx) {
	c.Rule("for.filter: in ForExpr.Value the result and key expressions (ValExpr, KeyExpr) are evaluated only after the `if` clause has let the element through: every path from the function entry to such an evaluation either takes the CondExpr == nil edge or passes the evaluation of CondExpr, and from the edge on which the condition's result is False() no such evaluation is reachable without passing the evaluation of CondExpr again (the specification: an element for which the condition is false is skipped — its result expression is not evaluated, so its errors are not reported)")
	fn := c.P.LookupFunc("hclsyntax", "ForExpr.Value")
	if fn == nil {
		c.CheckerFail("for.filter", "anchor ForExpr.Value does not resolve")
		return
	}
	c.Fn(FuncName(fn))
	condBlocks := map[*ssa.BasicBlock]bool{}
	type site struct {
		call *ssa.Call
		what string
	}
	var sites []site
	var nilEdges [][2]*ssa.BasicBlock // (from, to) edges where CondExpr == nil
	var falseEdges [][2]*ssa.BasicBlock
	for _, b := range fn.Blocks {
		for _, ins := range b.Instrs {
			call, ok := ins.(*ssa.Call)
			if !ok {
				continue
			}
			switch {
			case exprFieldInvoke(call, "CondExpr"):
				condBlocks[b] = true
			case exprFieldInvoke(call, "ValExpr"):
				sites = append(sites, site{call, "ValExpr"})
			case exprFieldInvoke(call, "KeyExpr"):
				sites = append(sites, site{call, "KeyExpr"})
			}
			// include.False()
			if cal := call.Call.StaticCallee(); cal != nil && cal.Name() == "False" && cal.Signature.Recv() != nil && isCtyValue(cal.Signature.Recv().Type()) {
				for _, fb := range branchesOn(call) {
					t := fb.iff.Block().Succs[0]
					if fb.negated {
						t = fb.iff.Block().Succs[1]
					}
					falseEdges = append(falseEdges, [2]*ssa.BasicBlock{fb.iff.Block(), t})
				}
			}
		}
		if iff, ok := lastIf(b); ok {
			if bo, ok := iff.Cond.(*ssa.BinOp); ok && (bo.Op == token.EQL || bo.Op == token.NEQ) {
				isCond := func(v ssa.Value) bool {
					for fv := range fieldTrail(v) {
						if fv.Name() == "CondExpr" {
							return true
						}
					}
					return false
				}
				isNil := func(v ssa.Value) bool { k, ok := v.(*ssa.Const); return ok && k.IsNil() }
				if (isCond(bo.X) && isNil(bo.Y)) || (isCond(bo.Y) && isNil(bo.X)) {
					to := b.Succs[0]
					if bo.Op == token.NEQ {
						to = b.Succs[1]
					}
					nilEdges = append(nilEdges, [2]*ssa.BasicBlock{b, to})
				}
			}
		}
	}
	c.Floor("for.filter evaluations", len(sites), 3, "ValExpr in both branches, KeyExpr in the object branch")
	c.Floor("for.filter condition evaluations", len(condBlocks), 2, "one per branch")
	reach := func(starts []*ssa.BasicBlock, avoidBlocks map[*ssa.BasicBlock]bool, avoidEdges [][2]*ssa.BasicBlock, target *ssa.BasicBlock) bool {
		seen := map[*ssa.BasicBlock]bool{}
		stack := append([]*ssa.BasicBlock{}, starts...)
		for len(stack) > 0 {
			b := stack[len(stack)-1]
			stack = stack[:len(stack)-1]
			if seen[b] || avoidBlocks[b] {
				continue
			}
			seen[b] = true
			if b == target {
				return true
			}
		succ:
			for _, s := range b.Succs {
				for _, e := range avoidEdges {
					if e[0] == b && e[1] == s {
						continue succ
					}
				}
				stack = append(stack, s)
			}
		}
		return false
	}
	for _, s := range sites {
		c.Sites++
		key := FuncName(fn) + ":eval[" + s.what + "]"
		b := s.call.Block()
		// the evaluation must come after the condition in its own block if both are there
		if condBlocks[b] {
			c.Fail("for.filter", key, s.call.Pos(), "evaluated in the same block as the condition")
			continue
		}
		before := reach([]*ssa.BasicBlock{fn.Blocks[0]}, condBlocks, nilEdges, b)
		var falseStarts []*ssa.BasicBlock
		for _, e := range falseEdges {
			falseStarts = append(falseStarts, e[1])
		}
		afterFalse := len(falseStarts) > 0 && reach(falseStarts, condBlocks, nilEdges, b)
		switch {
		case before:
			c.Fail("for.filter", key, s.call.Pos(), s.what+" is evaluated on a path that has not evaluated the `if` clause although there is one: the expression is evaluated, and its errors reported, for elements the condition rejects")
		case afterFalse:
			c.Fail("for.filter", key, s.call.Pos(), s.what+" is evaluated after the condition came out false: the element is not skipped")
		case len(falseEdges) == 0:
			c.Fail("for.filter", key, s.call.Pos(), "no branch on the condition's False() was found: the `if` clause filters nothing")
		default:
			c.OK("for.filter", key, s.call.Pos(), "only after the condition let the element through")
		}
	}
}

// ---- C01/C05 op.impl -----------------------------------------------------------------------------------

func opImplRule(c *Ctx) {
	c.Rule("op.impl: every value returned by BinaryOpExpr.Value and UnaryOpExpr.Value is, up to marks, the result of the operation's implementation (function.Function.Call on Op.Impl), the result of the operation's ShortCircuit hook, cty.DynamicVal or a fresh cty.UnknownVal — the evaluator computes no result of its own, so the operator table that C01 compares with the specification is what decides every result, and no known result is produced ahead of the implementation's own treatment of unknown operands")
	for _, name := range []string{"BinaryOpExpr.Value", "UnaryOpExpr.Value"} {
		fn := c.P.LookupFunc("hclsyntax", name)
		if fn == nil {
			c.CheckerFail("op.impl", "anchor "+name+" does not resolve")
			continue
		}
		c.Fn(FuncName(fn))
		n := 0
		for _, b := range fn.Blocks {
			r, ok := b.Instrs[len(b.Instrs)-1].(*ssa.Return)
			if !ok || len(r.Results) != 2 {
				continue
			}
			for _, o := range originsOf(lookThrough(r.Results[0]), ctyDecorator) {
				n++
				c.Sites++
				okO, why := false, describeOrigin(o)
				switch x := o.(type) {
				case *ssa.Extract:
					if call, ok := x.Tuple.(*ssa.Call); ok && x.Index == 0 {
						if cal := call.Call.StaticCallee(); cal != nil && cal.Name() == "Call" && cal.Signature.Recv() != nil && isNamed(cal.Signature.Recv().Type(), ctyPath+"/function", "Function") {
							okO = true
						}
						if !okO && call.Call.StaticCallee() == nil && !call.Call.IsInvoke() {
							// a call through a function value: the ShortCircuit field of the operation
							for fv := range fieldTrail(call.Call.Value) {
								if fv.Name() == "ShortCircuit" {
									okO = true
								}
							}
						}
					}
				case *ssa.Call:
					if cal := x.Call.StaticCallee(); cal != nil && fnPkg(cal) != nil && fnPkg(cal).Path() == ctyPath && cal.Name() == "UnknownVal" {
						okO = true
					}
				case *ssa.UnOp:
					if g, ok := x.X.(*ssa.Global); ok && g.Pkg != nil && g.Pkg.Pkg.Path() == ctyPath && g.Name() == "DynamicVal" {
						okO = true
					}
				}
				c.Check(okO, "op.impl", FuncName(fn)+":result["+why+"]", r.Pos(), "from the operation table / unknown placeholder",
					"the operator evaluator returns a value that is the "+why+", not the result of the operation's implementation: a result computed here bypasses the specified operation (and its treatment of unknown, null and dynamically-typed operands)")
			}
		}
		c.Floor("op.impl result origins in "+name, n, 3, "error, unknown and implementation results")
	}
}

// ---- C05 refine.fresh ----------------------------------------------------------------------------------

func c05RefineFresh(c *Ctx) {
	c.Rule("refine.fresh: in the evaluators of hclsyntax a refinement (RefineNotNull, Refine()) is applied only to a value the evaluator constructed itself (a cty constructor such as UnknownVal, ListVal, TupleVal, possibly re-marked), never to a value obtained from evaluating an operand or passed in: an operand that is unknown may still turn out null, so narrowing it claims more than every concretisation satisfies")
	n := 0
	for _, fn := range c.P.pkgFuncs("hclsyntax") {
		if len(fn.Blocks) == 0 {
			continue
		}
		for _, b := range fn.Blocks {
			for _, ins := range b.Instrs {
				call, ok := ins.(*ssa.Call)
				if !ok {
					continue
				}
				cal := call.Call.StaticCallee()
				if cal == nil || cal.Signature.Recv() == nil || !isCtyValue(cal.Signature.Recv().Type()) || (cal.Name() != "RefineNotNull" && cal.Name() != "Refine") {
					continue
				}
				n++
				c.Sites++
				c.Fn(FuncName(fn))
				bad := ""
				for _, o := range originsOf(call.Call.Args[0], func(cl *ssa.Call) ssa.Value {
					if v := ctyDecorator(cl); v != nil {
						return v
					}
					// Unmark: result #0 is the receiver without marks
					if k := cl.Call.StaticCallee(); k != nil && k.Signature.Recv() != nil && isCtyValue(k.Signature.Recv().Type()) && (k.Name() == "Unmark" || k.Name() == "UnmarkDeep" || k.Name() == "NewValue") && len(cl.Call.Args) > 0 {
						return cl.Call.Args[0]
					}
					return nil
				}) {
					fresh := false
					switch x := o.(type) {
					case *ssa.Call:
						if k := x.Call.StaticCallee(); k != nil && fnPkg(k) != nil && fnPkg(k).Path() == ctyPath && k.Signature.Recv() == nil {
							fresh = true // package-level constructor of cty
						}
						if k := x.Call.StaticCallee(); k != nil && k.Signature.Recv() != nil && isNamed(derefType(k.Signature.Recv().Type()), ctyPath, "RefinementBuilder") {
							fresh = true
						}
					case *ssa.Extract:
						_ = x
					}
					if !fresh {
						bad = describeOrigin(o)
					}
				}
				c.Check(bad == "", "refine.fresh", FuncName(fn)+":refine", call.Pos(), "applied to a value constructed here",
					"a refinement is applied to a value that is the "+bad+": an operand's unknown value is narrowed (not null, …) although the concrete value it stands for need not satisfy that")
			}
		}
	}
	c.Floor("refine.fresh sites", n, 6, "template, conditional, splat and logical-operator placeholders")
}

// ---- C04 unwrap.hidden ---------------------------------------------------------------------------------

func c04UnwrapHidden(c *Ctx) {
	c.Rule("unwrap.hidden: wherever ext/dynblock builds an expandBody around the `original` of ANOTHER expandBody (re-wrapping instead of stacking), the same construction also sets hiddenAttrs and hiddenBlocks — the record of what earlier PartialContent calls consumed lives in the wrapper, so a wrapper rebuilt without it hands consumed items out again")
	dyn := modPath + "/ext/dynblock"
	n := 0
	for _, fn := range c.P.pkgFuncs("ext/dynblock") {
		for _, b := range fn.Blocks {
			for _, ins := range b.Instrs {
				st, ok := ins.(*ssa.Store)
				if !ok {
					continue
				}
				fa, ok := st.Addr.(*ssa.FieldAddr)
				if !ok || !isNamed(derefType(fa.X.Type()), dyn, "expandBody") {
					continue
				}
				fv := fieldVarOf(fa.X.Type(), fa.Field)
				if fv == nil || fv.Name() != "original" {
					continue
				}
				// value: load of <other expandBody>.original ?
				fromOther := false
				for _, o := range originsOf(st.Val, nil) {
					if u, ok := o.(*ssa.UnOp); ok && u.Op == token.MUL {
						if fa2, ok := u.X.(*ssa.FieldAddr); ok && isNamed(derefType(fa2.X.Type()), dyn, "expandBody") {
							if fv2 := fieldVarOf(fa2.X.Type(), fa2.Field); fv2 != nil && fv2.Name() == "original" && fa2.X != fa.X {
								fromOther = true
							}
						}
					}
				}
				if !fromOther {
					continue
				}
				n++
				c.Sites++
				have := map[string]bool{}
				for _, b2 := range fn.Blocks {
					for _, in2 := range b2.Instrs {
						if st2, ok := in2.(*ssa.Store); ok {
							if fa3, ok := st2.Addr.(*ssa.FieldAddr); ok && fa3.X == fa.X {
								if fv3 := fieldVarOf(fa3.X.Type(), fa3.Field); fv3 != nil {
									have[fv3.Name()] = true
								}
							}
						}
					}
				}
				c.Check(have["hiddenAttrs"] && have["hiddenBlocks"], "unwrap.hidden", FuncName(fn)+":rewrap", st.Pos(), "hidden sets carried along",
					"an expandBody is built around another expandBody's original body without its hiddenAttrs/hiddenBlocks: what an earlier PartialContent consumed is forgotten, so the next exhaustive step reports it as unsupported and JustAttributes returns it again")
			}
		}
	}
	c.Floor("unwrap.hidden re-wrappings", n, 1, "the remainder built by expandBody.PartialContent")
}

// ---- C07 spec.ownctx -----------------------------------------------------------------------------------

func c07SpecOwnCtx(c *Ctx) {
	c.Rule("spec.ownctx: in the decode methods of hcldec an expression that is a field of the SPEC (not taken from the body content) is evaluated only in a context that does not derive from decode's ctx parameter — hcldec.Variables reports the variables of the body's expressions only, so a spec-owned expression that can see the caller's scope reads variables nobody reported")
	n := 0
	for _, fn := range c.P.pkgFuncs("hcldec") {
		if fn.Name() != "decode" || fn.Signature.Recv() == nil || len(fn.Blocks) == 0 {
			continue
		}
		var ctxParam *ssa.Parameter
		for _, p := range fn.Params {
			if pt, ok := p.Type().(*types.Pointer); ok && isNamed(pt.Elem(), modPath, "EvalContext") {
				ctxParam = p
			}
		}
		if ctxParam == nil {
			continue
		}
		recv := fn.Params[0]
		for _, b := range fn.Blocks {
			for _, ins := range b.Instrs {
				call, ok := ins.(*ssa.Call)
				if !ok || !call.Call.IsInvoke() || call.Call.Method.Name() != "Value" || !isNamed(call.Call.Value.Type(), modPath, "Expression") {
					continue
				}
				// the expression is a field of the receiver itself
				own := false
				for _, o := range originsOf(call.Call.Value, nil) {
					if u, ok := o.(*ssa.UnOp); ok && u.Op == token.MUL {
						if fa, ok := u.X.(*ssa.FieldAddr); ok && (fa.X == ssa.Value(recv) || isSpillOf(fa.X, recv)) {
							own = true
						}
					}
				}
				if !own {
					continue
				}
				n++
				c.Sites++
				c.Fn(FuncName(fn))
				if specReportsOwnExpr(c, fn, call.Call.Value) {
					c.OK("spec.ownctx", FuncName(fn)+":eval[spec-owned]", call.Pos(), "its variables are reported by the spec's variablesNeeded")
					continue
				}
				leaks := false
				for _, o := range originsOf(call.Call.Args[0], func(cl *ssa.Call) ssa.Value {
					if k := cl.Call.StaticCallee(); k != nil && k.Name() == "NewChild" && len(cl.Call.Args) > 0 {
						return cl.Call.Args[0]
					}
					return nil
				}) {
					if o == ssa.Value(ctxParam) {
						leaks = true
					}
				}
				c.Check(!leaks, "spec.ownctx", FuncName(fn)+":eval[spec-owned]", call.Pos(), "evaluated in the spec's own context",
					"an expression owned by the spec is evaluated in a context derived from decode's ctx parameter: it can read variables of the caller's scope that hcldec.Variables never reports")
			}
		}
	}
	c.Floor("spec.ownctx evaluations", n, 1, "TransformExprSpec.Expr")
}

// ---- C07/C10 walk.singlepass ---------------------------------------------------------------------------

func walkSinglePass(c *Ctx) {
	c.Rule("walk.singlepass: no walkChildNodes method of hclsyntax ranges over the same slice field of its receiver more than once — children are visited item by item in source order (key then value of each object item, …); Variables() reports traversals in visiting order, and the hclwrite loader partitions an expression's tokens by consuming those traversals strictly left to right")
	n := 0
	for _, fn := range c.P.pkgFuncs("hclsyntax") {
		if fn.Name() != "walkChildNodes" || fn.Signature.Recv() == nil || len(fn.Blocks) == 0 {
			continue
		}
		// loops: rangeindex over len(<load of recv field>) — count distinct len() calls per field in loop headers
		perField := map[string][]token.Pos{}
		for _, b := range fn.Blocks {
			for _, ins := range b.Instrs {
				call, ok := ins.(*ssa.Call)
				if !ok {
					continue
				}
				bi, ok := call.Call.Value.(*ssa.Builtin)
				if !ok || bi.Name() != "len" {
					continue
				}
				// used as a loop bound: compared with a phi
				bound := false
				for _, r := range *call.Referrers() {
					if bo, ok := r.(*ssa.BinOp); ok && bo.Op == token.LSS {
						bound = true
					}
				}
				if !bound {
					continue
				}
				if u, ok := call.Call.Args[0].(*ssa.UnOp); ok && u.Op == token.MUL {
					if fa, ok := u.X.(*ssa.FieldAddr); ok {
						if fv := fieldVarOf(fa.X.Type(), fa.Field); fv != nil {
							perField[fv.Name()] = append(perField[fv.Name()], call.Pos())
						}
					}
				}
			}
		}
		// a slice field handed to a helper that the reference tree does not know (a loop moved out)
		for _, b := range fn.Blocks {
			for _, ins := range b.Instrs {
				call, ok := ins.(*ssa.Call)
				if !ok {
					continue
				}
				k := staticCallee(&call.Call)
				if k == nil || !c.P.isNewFunc(k) {
					continue
				}
				for _, a := range call.Call.Args {
					if _, isSl := a.Type().Underlying().(*types.Slice); !isSl {
						continue
					}
					if u, ok := a.(*ssa.UnOp); ok && u.Op == token.MUL {
						if fa, ok := u.X.(*ssa.FieldAddr); ok {
							if fv := fieldVarOf(fa.X.Type(), fa.Field); fv != nil {
								perField[fv.Name()] = append(perField[fv.Name()], call.Pos())
							}
						}
					}
				}
			}
		}
		var names []string
		for k := range perField {
			names = append(names, k)
		}
		sort.Strings(names)
		for _, k := range names {
			n++
			c.Sites++
			c.Fn(FuncName(fn))
			c.Check(len(perField[k]) == 1, "walk.singlepass", FuncName(fn)+":range["+k+"]", perField[k][0], "one pass",
				fmt.Sprintf("the children in %s are visited in %d separate passes: the visiting order is no longer the source order (all keys before all values, …), and Variables() hands the hclwrite loader traversals it cannot find from left to right", k, len(perField[k])))
		}
	}
	c.Floor("walk.singlepass loops", n, 3, "Args, Items, Exprs, Parts")
}

// ---- C11/C01 numlit.exact ------------------------------------------------------------------------------

func numLitExact(c *Ctx) {
	c.Rule("numlit.exact: the value of a number literal (parser.numberLitValue and the module functions it calls) comes from cty.ParseNumberVal alone, or is an unknown placeholder on the error path; no fixed-width machine number is involved (no strconv.Parse*, no big.Float.SetInt64/SetFloat64/SetUint64, no cty.NumberIntVal/NumberUIntVal/NumberFloatVal): the generator writes numbers with full decimal precision and they must read back exactly")
	fn := c.P.LookupFunc("hclsyntax", "parser.numberLitValue")
	if fn == nil {
		c.CheckerFail("numlit.exact", "anchor parser.numberLitValue does not resolve")
		return
	}
	c.Fn(FuncName(fn))
	seen := map[*ssa.Function]bool{}
	var fns []*ssa.Function
	var walk func(f *ssa.Function)
	walk = func(f *ssa.Function) {
		if f == nil || seen[f] || !inModule(f) || len(f.Blocks) == 0 {
			return
		}
		seen[f] = true
		fns = append(fns, f)
		for _, b := range f.Blocks {
			for _, ins := range b.Instrs {
				if cc, ok := ins.(ssa.CallInstruction); ok {
					if k := staticCallee(cc.Common()); k != nil && fnPkg(k) != nil && fnPkg(k).Path() == hclsyntaxPath {
						walk(k)
					}
				}
			}
		}
	}
	walk(fn)
	n := 0
	for _, f := range fns {
		for _, b := range f.Blocks {
			for _, ins := range b.Instrs {
				cc, ok := ins.(ssa.CallInstruction)
				if !ok {
					continue
				}
				k := cc.Common().StaticCallee()
				if k == nil || fnPkg(k) == nil {
					continue
				}
				n++
				pk, nm := fnPkg(k).Path(), k.Name()
				bad := (pk == "strconv" && strings.HasPrefix(nm, "Parse")) ||
					(pk == "math/big" && (nm == "SetInt64" || nm == "SetFloat64" || nm == "SetUint64" || nm == "NewFloat" || nm == "NewInt")) ||
					(pk == ctyPath && (nm == "NumberIntVal" || nm == "NumberUIntVal" || nm == "NumberFloatVal"))
				if bad {
					c.Sites++
					c.Fail("numlit.exact", FuncName(f)+":call["+pk+"."+nm+"]", ins.Pos(), "the value of a number literal passes through a fixed-width machine number ("+pk+"."+nm+"): literals beyond its range or precision are read back as a different number")
				}
			}
		}
	}
	// every returned value: ParseNumberVal or unknown
	for _, b := range fn.Blocks {
		r, ok := b.Instrs[len(b.Instrs)-1].(*ssa.Return)
		if !ok || len(r.Results) == 0 || !isCtyValue(r.Results[0].Type()) {
			continue
		}
		for _, o := range originsOf(lookThrough(r.Results[0]), ctyDecorator) {
			c.Sites++
			okO := false
			why := describeOrigin(o)
			switch x := o.(type) {
			case *ssa.Extract:
				if call, ok := x.Tuple.(*ssa.Call); ok {
					if k := call.Call.StaticCallee(); k != nil && fnPkg(k) != nil && fnPkg(k).Path() == ctyPath && k.Name() == "ParseNumberVal" {
						okO = true
					}
				}
			case *ssa.Call:
				if k := x.Call.StaticCallee(); k != nil && fnPkg(k) != nil && fnPkg(k).Path() == ctyPath && k.Name() == "UnknownVal" {
					okO = true
				}
			case *ssa.UnOp:
				if g, ok := x.X.(*ssa.Global); ok && g.Pkg != nil && g.Pkg.Pkg.Path() == ctyPath && g.Name() == "DynamicVal" {
					okO = true
				}
			}
			c.Check(okO, "numlit.exact", FuncName(fn)+":result["+why+"]", r.Pos(), "cty.ParseNumberVal or a placeholder",
				"the value of a number literal is the "+why+", not the result of cty.ParseNumberVal on the literal's text")
		}
	}
	c.Floor("numlit.exact calls scanned", n, 2, "ParseNumberVal and the diagnostics helpers")
}

// ---- C13 keywords.subject ------------------------------------------------------------------------------

func c13KeywordSubject(c *Ctx) {
	c.Rule("keywords.subject: the string that json.parseKeyword compares with the keyword spellings is the text of the token itself (a conversion of its bytes), not the result of a call on it (case folding, trimming): JSON keywords are exactly true, false and null")
	fn := c.P.LookupFunc("json", "parseKeyword")
	if fn == nil {
		c.CheckerFail("keywords.subject", "anchor json.parseKeyword does not resolve")
		return
	}
	n := 0
	for _, b := range fn.Blocks {
		for _, ins := range b.Instrs {
			bo, ok := ins.(*ssa.BinOp)
			if !ok || (bo.Op != token.EQL && bo.Op != token.NEQ) || !isBasicString(bo.X.Type()) {
				continue
			}
			var subj ssa.Value
			isKw := func(v ssa.Value) bool {
				k, ok := v.(*ssa.Const)
				if !ok || k.Value == nil || k.Value.Kind() != constant.String {
					return false
				}
				sp := constant.StringVal(k.Value)
				return sp == "true" || sp == "false" || sp == "null"
			}
			if isKw(bo.Y) {
				subj = bo.X
			} else if isKw(bo.X) {
				subj = bo.Y
			} else {
				continue
			}
			n++
			c.Sites++
			bad := ""
			for _, o := range originsOf(subj, nil) {
				if call, ok := o.(*ssa.Call); ok {
					bad = describeOrigin(call)
				}
				if ex, ok := o.(*ssa.Extract); ok {
					bad = describeOrigin(ex)
				}
			}
			c.Check(bad == "", "keywords.subject", "json.parseKeyword:compare", bo.Pos(), "the token's own text",
				"the keyword test compares the "+bad+" with the keyword spellings, not the token's text: spellings other than true, false and null can be accepted as keywords")
		}
	}
	c.Floor("keywords.subject comparisons", n, 3, "true, false, null")
}

// ---- C17 ctx.fresh -------------------------------------------------------------------------------------

func c17CtxFresh(c *Ctx) {
	c.Rule("ctx.fresh: the evaluation context under which a per-evaluation value is entered into the shared table of an AnonSymbolExpr (setValue / clearValue) is the caller's own context (a parameter of the evaluator) or a child context created in this call (NewChild), never a package-level or otherwise shared context: the table is keyed by context, and two goroutines that use one key overwrite each other's current item")
	setFn := c.P.LookupFunc("hclsyntax", "AnonSymbolExpr.setValue")
	clearFn := c.P.LookupFunc("hclsyntax", "AnonSymbolExpr.clearValue")
	if setFn == nil || clearFn == nil {
		c.CheckerFail("ctx.fresh", "anchor AnonSymbolExpr.setValue / clearValue does not resolve")
		return
	}
	n := 0
	for _, fn := range c.P.pkgFuncs("hclsyntax") {
		for _, b := range fn.Blocks {
			for _, ins := range b.Instrs {
				call, ok := ins.(*ssa.Call)
				if !ok {
					continue
				}
				k := call.Call.StaticCallee()
				if k == nil || (k != setFn && k != clearFn) || len(call.Call.Args) < 2 {
					continue
				}
				n++
				c.Sites++
				c.Fn(FuncName(fn))
				bad := ""
				for _, o := range originsOf(call.Call.Args[1], nil) {
					switch x := o.(type) {
					case *ssa.Parameter:
					case *ssa.FreeVar:
					case *ssa.Call:
						if kk := x.Call.StaticCallee(); kk == nil || kk.Name() != "NewChild" {
							bad = describeOrigin(o)
						}
					default:
						bad = describeOrigin(o)
					}
				}
				c.Check(bad == "", "ctx.fresh", FuncName(fn)+":"+k.Name(), call.Pos(), "keyed by the caller's or a fresh child context",
					"the shared table of the anonymous symbol is keyed by a context that is the "+bad+": concurrent evaluations share the key and overwrite each other's current item")
			}
		}
	}
	c.Floor("ctx.fresh table updates", n, 2, "setValue and clearValue in SplatExpr.Value")
}

// ---- C18/C04 schema.extended ---------------------------------------------------------------------------

func schemaExtended(c *Ctx) {
	c.Rule("schema.extended: every Content / PartialContent call that a method of dynblock.expandBody makes on its underlying body (field original) is handed the schema returned by b.extendSchema — the extended schema is what registers the `dynamic` block type and the types hidden by earlier calls with the underlying body; with the caller's own schema dynamic blocks are never expanded and consumed items are reported as unsupported")
	dyn := modPath + "/ext/dynblock"
	extFn := c.P.LookupFunc("ext/dynblock", "expandBody.extendSchema")
	if extFn == nil {
		c.CheckerFail("schema.extended", "anchor expandBody.extendSchema does not resolve")
		return
	}
	n := 0
	for _, fn := range c.P.pkgFuncs("ext/dynblock") {
		if fn.Signature.Recv() == nil || !isNamed(derefType(fn.Signature.Recv().Type()), dyn, "expandBody") || len(fn.Blocks) == 0 {
			continue
		}
		for _, b := range fn.Blocks {
			for _, ins := range b.Instrs {
				call, ok := ins.(*ssa.Call)
				if !ok || !call.Call.IsInvoke() || (call.Call.Method.Name() != "Content" && call.Call.Method.Name() != "PartialContent") {
					continue
				}
				onOriginal := false
				for fv := range fieldTrail(call.Call.Value) {
					if fv.Name() == "original" {
						onOriginal = true
					}
				}
				if !onOriginal {
					continue
				}
				n++
				c.Sites++
				c.Fn(FuncName(fn))
				okAll := true
				why := ""
				for _, o := range originsOf(call.Call.Args[0], nil) {
					cl, isCall := o.(*ssa.Call)
					if !isCall || cl.Call.StaticCallee() == nil || cl.Call.StaticCallee() != extFn {
						okAll = false
						why = describeOrigin(o)
					}
				}
				c.Check(okAll, "schema.extended", FuncName(fn)+":"+call.Call.Method.Name(), call.Pos(), "handed the extended schema",
					"the underlying body is asked with a schema that is the "+why+", not the result of extendSchema: dynamic blocks and the block types hidden by earlier calls are not registered with it")
			}
		}
	}
	c.Floor("schema.extended calls", n, 2, "Content and PartialContent of expandBody")
}

// ---- C19 impl.args -------------------------------------------------------------------------------------

func c19ImplArgs(c *Ctx) {
	c.Rule("impl.args: in ext/userfunc the body of a configuration-defined function is always evaluated with the argument values it was called with — every call of the shared implementation closure passes the enclosing function's own args parameter, not a copy with marks removed (cty calls Type before Impl, so a failure of the body is reported from the Type evaluation first)")
	n := 0
	for _, fn := range c.P.pkgFuncs("ext/userfunc") {
		if fn.Parent() == nil || len(fn.Blocks) == 0 {
			continue
		}
		for _, b := range fn.Blocks {
			for _, ins := range b.Instrs {
				call, ok := ins.(*ssa.Call)
				if !ok || call.Call.IsInvoke() || call.Call.StaticCallee() != nil && call.Call.StaticCallee().Parent() == nil {
					continue
				}
				// a call through a closure value with one []cty.Value argument
				if len(call.Call.Args) == 0 {
					continue
				}
				var argsArg ssa.Value
				for _, a := range call.Call.Args {
					if sl, ok := a.Type().Underlying().(*types.Slice); ok && isCtyValue(sl.Elem()) {
						argsArg = a
					}
				}
				if argsArg == nil {
					continue
				}
				if _, isBuiltin := call.Call.Value.(*ssa.Builtin); isBuiltin {
					continue
				}
				n++
				c.Sites++
				c.Fn(FuncName(fn))
				okArgs := true
				why := ""
				for _, o := range originsOf(argsArg, nil) {
					if _, isParam := o.(*ssa.Parameter); !isParam {
						okArgs = false
						why = describeOrigin(o)
					}
				}
				c.Check(okArgs, "impl.args", FuncName(fn)+":impl-call", call.Pos(), "called with the caller's arguments",
					"the function body is evaluated with arguments that are the "+why+", not the values the function was called with: marks are lost before the body runs, and its diagnostics quote what the marks were protecting")
			}
		}
	}
	c.Floor("impl.args calls", n, 2, "the Type and Impl closures")
}

// ---- C20 json.traversal --------------------------------------------------------------------------------

func c20JSONTraversal(c *Ctx) {
	c.Rule("json.traversal: json.expression.AsTraversal decides whether a string is a traversal by hclsyntax.ParseTraversalAbs alone: every return on the *stringVal arm is reached only after that call (no pre-filter of its own), so the static traversal view of a JSON string agrees with the native parser's")
	fn := c.P.LookupFunc("json", "expression.AsTraversal")
	if fn == nil {
		c.CheckerFail("json.traversal", "anchor json.expression.AsTraversal does not resolve")
		return
	}
	c.Fn(FuncName(fn))
	var arm *ssa.BasicBlock
	var parse *ssa.Call
	for _, b := range fn.Blocks {
		for _, ins := range b.Instrs {
			if ta, ok := ins.(*ssa.TypeAssert); ok && ta.CommaOk {
				if pt, ok := ta.AssertedType.(*types.Pointer); ok && isNamed(pt.Elem(), jsonPath, "stringVal") {
					// ok edge
					for _, r := range *ta.Referrers() {
						if ex, ok := r.(*ssa.Extract); ok && ex.Index == 1 {
							for _, fb := range branchesOn(ex) {
								arm = fb.iff.Block().Succs[0]
								if fb.negated {
									arm = fb.iff.Block().Succs[1]
								}
							}
						}
					}
				}
			}
			if call, ok := ins.(*ssa.Call); ok {
				if k := call.Call.StaticCallee(); k != nil && k == c.P.LookupFunc("hclsyntax", "ParseTraversalAbs") {
					parse = call
				}
			}
		}
	}
	if arm == nil || parse == nil {
		c.Fail("json.traversal", FuncName(fn)+":shape", fn.Pos(), "AsTraversal no longer tests for *stringVal and calls hclsyntax.ParseTraversalAbs")
		return
	}
	n := 0
	for _, b := range fn.Blocks {
		r, ok := b.Instrs[len(b.Instrs)-1].(*ssa.Return)
		if !ok || !arm.Dominates(b) {
			continue
		}
		n++
		c.Sites++
		c.Check(parse.Block().Dominates(b), "json.traversal", FuncName(fn)+":return[stringVal]", r.Pos(), "after ParseTraversalAbs",
			"AsTraversal returns for a string without having asked hclsyntax.ParseTraversalAbs: its own pre-filter decides that some strings are not traversals, which the native syntax accepts as such (quoted index keys may contain any character)")
	}
	c.Floor("json.traversal returns", n, 2, "error and success returns of the string arm")
}

// ---- C11/C01 literal.verbatim --------------------------------------------------------------------------

func literalVerbatim(c *Ctx) {
	c.Rule("literal.verbatim: in parser.parseTemplateParts the text stored in a templateLiteralToken is the result of ParseStringLiteralToken, changed at most by the strip-marker trims strings.TrimLeftFunc / TrimRightFunc; no other function is applied to the decoded text (the writer's escapes, once decoded, must arrive unchanged: a decoded CR LF stays CR LF)")
	fn := c.P.LookupFunc("hclsyntax", "parser.parseTemplateParts")
	if fn == nil {
		c.CheckerFail("literal.verbatim", "anchor parser.parseTemplateParts does not resolve")
		return
	}
	c.Fn(FuncName(fn))
	pslt := c.P.LookupFunc("hclsyntax", "ParseStringLiteralToken")
	if pslt == nil {
		c.CheckerFail("literal.verbatim", "anchor ParseStringLiteralToken does not resolve")
		return
	}
	n := 0
	for _, b := range fn.Blocks {
		for _, ins := range b.Instrs {
			st, ok := ins.(*ssa.Store)
			if !ok {
				continue
			}
			fa, ok := st.Addr.(*ssa.FieldAddr)
			if !ok || !isNamed(derefType(fa.X.Type()), hclsyntaxPath, "templateLiteralToken") {
				continue
			}
			fv := fieldVarOf(fa.X.Type(), fa.Field)
			if fv == nil || fv.Name() != "Val" {
				continue
			}
			n++
			c.Sites++
			bad := ""
			for _, o := range originsOf(st.Val, func(cl *ssa.Call) ssa.Value {
				if k := cl.Call.StaticCallee(); k != nil && fnPkg(k) != nil && fnPkg(k).Path() == "strings" && (k.Name() == "TrimLeftFunc" || k.Name() == "TrimRightFunc") {
					return cl.Call.Args[0]
				}
				return nil
			}) {
				switch x := o.(type) {
				case *ssa.Extract:
					call, _ := x.Tuple.(*ssa.Call)
					if call == nil || call.Call.StaticCallee() == nil || call.Call.StaticCallee() != pslt {
						bad = describeOrigin(o)
					}
				case *ssa.UnOp:
					// a reload of the Val field of a literal token already built (the ~ trim of the previous literal)
					if fa2, ok := x.X.(*ssa.FieldAddr); ok {
						if fv2 := fieldVarOf(fa2.X.Type(), fa2.Field); fv2 != nil && fv2.Name() == "Val" {
							continue
						}
					}
					bad = describeOrigin(o)
				case *ssa.Const:
				default:
					bad = describeOrigin(o)
				}
			}
			c.Check(bad == "", "literal.verbatim", FuncName(fn)+":store[templateLiteralToken.Val]", st.Pos(), "decoded text, at most trimmed by a strip marker",
				"the text of a template literal is the "+bad+": something other than the escape decoder and the strip-marker trims rewrites the decoded text, so what the writer generated does not read back unchanged")
		}
	}
	c.Floor("literal.verbatim stores", n, 2, "the literal arm and the right-trim of the previous literal")
}

// specReportsOwnExpr: the receiver type of decode has a variablesNeeded method that asks the same
// field's expression for its Variables().
func specReportsOwnExpr(c *Ctx, decode *ssa.Function, expr ssa.Value) bool {
	fields := map[*types.Var]bool{}
	for fv := range fieldTrail(expr) {
		fields[fv] = true
	}
	recvT := derefType(decode.Signature.Recv().Type())
	nm := namedOf(recvT)
	if nm == nil {
		return false
	}
	vn := c.P.LookupFunc("hcldec", nm.Obj().Name()+".variablesNeeded")
	if vn == nil || len(vn.Blocks) == 0 {
		return false
	}
	for _, b := range vn.Blocks {
		for _, ins := range b.Instrs {
			if call, ok := ins.(*ssa.Call); ok && call.Call.IsInvoke() && call.Call.Method.Name() == "Variables" {
				for fv := range fieldTrail(call.Call.Value) {
					if fields[fv] {
						return true
					}
				}
			}
		}
	}
	return false
}

// freeVarCell: the local cell of the enclosing function that a closure's free variable is bound to.
func freeVarCell(fv *ssa.FreeVar) *ssa.Alloc {
	fn := fv.Parent()
	par := fn.Parent()
	if par == nil {
		return nil
	}
	idx := -1
	for i, f := range fn.FreeVars {
		if f == fv {
			idx = i
		}
	}
	if idx < 0 {
		return nil
	}
	for _, b := range par.Blocks {
		for _, ins := range b.Instrs {
			if mc, ok := ins.(*ssa.MakeClosure); ok && mc.Fn == ssa.Value(fn) && idx < len(mc.Bindings) {
				switch x := mc.Bindings[idx].(type) {
				case *ssa.Alloc:
					return x
				case *ssa.FreeVar:
					return freeVarCell(x)
				}
			}
		}
	}
	return nil
}

// ---- C20 exprmap.verbatim ------------------------------------------------------------------------------

func init() {
	registerExtra("C20", c20ExprVerbatim)
	registerExtra("C08", func(c *Ctx) { unknownBodyTyped(c) })
	registerExtra("C18", func(c *Ctx) { unknownBodyTyped(c) })
}

func c20ExprVerbatim(c *Ctx) {
	c.Rule("exprmap.verbatim: the expressions that ObjectConsExpr.ExprMap and TupleConsExpr.ExprList hand out are the node's own child expressions (the KeyExpr / ValueExpr of each item, the elements of Exprs) unchanged — loaded from those fields, or passed through a helper every return of which is its parameter; a key handed out without its ObjectConsKeyExpr wrapper evaluates differently (a bare null/true/false keyword is an attribute name only inside the wrapper)")
	n := 0
	for _, name := range []string{"ObjectConsExpr.ExprMap", "TupleConsExpr.ExprList"} {
		fn := c.P.LookupFunc("hclsyntax", name)
		if fn == nil {
			c.CheckerFail("exprmap.verbatim", "anchor "+name+" does not resolve")
			continue
		}
		for _, xf := range c.P.expandedFuncs(fn) {
			for _, b := range xf.Blocks {
				for _, ins := range b.Instrs {
					st, ok := ins.(*ssa.Store)
					if !ok || !isNamed(st.Val.Type(), modPath, "Expression") {
						continue
					}
					n++
					c.Sites++
					bad := ""
					var judge func(v ssa.Value, d int)
					judge = func(v ssa.Value, d int) {
						for _, o := range originsOf(v, nil) {
							switch x := o.(type) {
							case *ssa.UnOp:
								// a load of a field / element
							case *ssa.Field, *ssa.Index, *ssa.Extract:
								if ex, ok := x.(*ssa.Extract); ok {
									if _, isCall := ex.Tuple.(*ssa.Call); isCall {
										bad = describeOrigin(o)
									}
								}
							case *ssa.Parameter:
							case *ssa.Call:
								k := staticCallee(&x.Call)
								if k == nil || !inModule(k) || len(k.Blocks) == 0 || d > 2 || len(k.Params) == 0 {
									bad = describeOrigin(o)
									continue
								}
								for _, kb := range k.Blocks {
									if r, ok := kb.Instrs[len(kb.Instrs)-1].(*ssa.Return); ok && len(r.Results) == 1 {
										for _, ro := range originsOf(r.Results[0], nil) {
											if _, isParam := ro.(*ssa.Parameter); !isParam {
												bad = "result of " + FuncName(k) + ", which does not always return its argument"
											}
										}
									}
								}
							default:
								bad = describeOrigin(o)
							}
						}
					}
					judge(st.Val, 0)
					c.Check(bad == "", "exprmap.verbatim", FuncName(fn)+":store[Expression]", st.Pos(), "the child expression itself",
						"the static view hands out an expression that is the "+bad+", not the node's own child expression: evaluating the pair's key or value no longer gives what evaluating the whole constructor gives")
				}
			}
		}
	}
	c.Floor("exprmap.verbatim stores", n, 3, "Key, Value and list elements")
}

// ---- C08/C18 unknownbody.typed -------------------------------------------------------------------------

func unknownBodyTyped(c *Ctx) {
	typedDone := map[*ssa.Function]bool{}
	c.Rule("unknownbody.typed: in the decode methods of the hcldec block specs, an UnknownBody test made inside a loop over the content's blocks lies on the edge where the block's Type equals the spec's TypeName: an unknown body of ANOTHER block type in the same content says nothing about this spec's blocks")
	n := 0
	for _, fn := range c.P.pkgFuncs("hcldec") {
		if fn.Name() != "decode" || fn.Signature.Recv() == nil || len(fn.Blocks) == 0 {
			continue
		}
		isTest := func(ins ssa.Instruction) bool {
			if ta, ok := ins.(*ssa.TypeAssert); ok && isNamed(ta.AssertedType, modPath+"/hcldec", "UnknownBody") {
				return true
			}
			if call, ok := ins.(*ssa.Call); ok {
				if k := staticCallee(&call.Call); k != nil && fnPkg(k) != nil && fnPkg(k).Path() == modPath+"/hcldec" && k.Name() != "decode" && len(k.Blocks) > 0 {
					takesBody := false
					for _, a := range call.Call.Args {
						if isNamed(a.Type(), modPath, "Body") {
							takesBody = true
						}
					}
					if takesBody {
						for _, kb := range k.Blocks {
							for _, kin := range kb.Instrs {
								if ta, ok := kin.(*ssa.TypeAssert); ok && isNamed(ta.AssertedType, modPath+"/hcldec", "UnknownBody") {
									return true
								}
							}
						}
					}
				}
			}
			return false
		}
		for _, xf := range c.P.expandedFuncs(fn) {
			if typedDone[xf] {
				continue
			}
			typedDone[xf] = true
			for _, b := range xf.Blocks {
				for _, ins := range b.Instrs {
					if !isTest(ins) || !inLoop(b) {
						continue
					}
					n++
					c.Sites++
					c.Fn(FuncName(fn))
					typed := false
					for _, ce := range ctlEdges(b) {
						bo, ok := ce.iff.Cond.(*ssa.BinOp)
						if !ok || !isBasicString(bo.X.Type()) {
							continue
						}
						has := func(v ssa.Value, f string) bool {
							for fv := range fieldTrail(v) {
								if fv.Name() == f {
									return true
								}
							}
							return false
						}
						isName := func(v ssa.Value) bool {
							if has(v, "TypeName") {
								return true
							}
							_, isParam := v.(*ssa.Parameter) // a helper that is handed the spec's type name
							return isParam
						}
						if !((has(bo.X, "Type") && isName(bo.Y)) || (has(bo.Y, "Type") && isName(bo.X))) {
							continue
						}
						if (bo.Op == token.NEQ && !ce.onTrue) || (bo.Op == token.EQL && ce.onTrue) {
							typed = true
						}
					}
					c.Check(typed, "unknownbody.typed", FuncName(fn)+":test[UnknownBody]", ins.Pos(), "only for blocks of the spec's own type",
						"the UnknownBody test is made for every block of the content, whatever its type: a dynamic block of another type with an unknown for_each makes this spec's (fully known) blocks decode as unknown")
				}
			}
		}
	}
	c.Floor("unknownbody.typed tests in loops", n, 4, "list, tuple, set, map and object block specs (a shared helper may serve two)")
}

// ---- C06 bodymarks.unknown -----------------------------------------------------------------------------

func init() { registerExtra("C06", c06BodyMarksUnknown) }

func c06BodyMarksUnknown(c *Ctx) {
	c.Rule("bodymarks.unknown: in every hcldec block spec that decodes child block bodies (the decode method together with its closures and the helpers moved out of it), every unknown value it makes (cty.UnknownVal(…)) is handed to prepareBodyVal and used in no other way: the unknown body generated for a dynamic block carries the marks of its for_each value, and an unknown for_each that is marked must give a marked unknown result, as a known one gives marked blocks")
	prep := c.P.LookupFunc("hcldec", "prepareBodyVal")
	dec := c.P.LookupFunc("hcldec", "decode")
	if prep == nil || dec == nil {
		c.CheckerFail("bodymarks.unknown", "anchor hcldec.prepareBodyVal / decode does not resolve")
		return
	}
	n := 0
	done := map[*ssa.Function]bool{}
	for _, fn := range c.P.pkgFuncs("hcldec") {
		if fn.Name() != "decode" || fn.Signature.Recv() == nil || len(fn.Blocks) == 0 {
			continue
		}
		xs := c.P.expandedFuncs(fn)
		decodesChild := false
		for _, xf := range xs {
			for _, b := range xf.Blocks {
				for _, ins := range b.Instrs {
					if call, ok := ins.(*ssa.Call); ok && call.Call.StaticCallee() == dec && strings.HasSuffix(pathName(call.Call.Args[0]), ".Body") {
						decodesChild = true
					}
				}
			}
		}
		if !decodesChild {
			continue
		}
		for _, xf := range xs {
			if done[xf] {
				continue
			}
			done[xf] = true
			for _, b := range xf.Blocks {
				for _, ins := range b.Instrs {
					call, ok := ins.(*ssa.Call)
					if !ok {
						continue
					}
					k := call.Call.StaticCallee()
					if k == nil || fnPkg(k) == nil || fnPkg(k).Path() != ctyPath || k.Name() != "UnknownVal" {
						continue
					}
					n++
					c.Sites++
					c.Fn(FuncName(xf))
					marked, uses := true, 0
					for _, r := range *call.Referrers() {
						if _, isDbg := r.(*ssa.DebugRef); isDbg {
							continue
						}
						uses++
						pc, isCall := r.(*ssa.Call)
						if !isCall || staticCallee(&pc.Call) != prep || pc.Call.Args[0] != ssa.Value(call) {
							marked = false
						}
					}
					c.Check(marked && uses > 0, "bodymarks.unknown", FuncName(fn)+":return[unknown body]", call.Pos(), "passes prepareBodyVal",
						"the unknown value returned for an unknown child body does not pass prepareBodyVal: the marks of a dynamic block's (unknown) for_each value are dropped, although a known for_each of the same sensitivity gives marked blocks")
				}
			}
		}
	}
	c.Floor("bodymarks.unknown returns", n, 5, "BlockSpec, BlockListSpec, BlockTupleSpec, BlockSetSpec, BlockMapSpec, BlockObjectSpec (a shared helper may serve two)")
}

// ---- C07 dyn.justattrs ---------------------------------------------------------------------------------

func init() { registerExtra("C07", c07DynJustAttrs) }

func c07DynJustAttrs(c *Ctx) {
	c.Rule("dyn.justattrs (sibling rule): every hcldec spec whose variablesNeeded reads a child block's body in JustAttributes mode (all its attributes, whatever their names) has a counterpart in the hcldec-driven variable walker of ext/dynblock (walkVariablesWithHCLDec and what it calls): that walker visits bodies by schema only, so it must itself ask such a body for JustAttributes — otherwise VariablesHCLDec, documented as a drop-in replacement for hcldec.Variables, does not report the variables of those attributes")
	var specs []string
	for _, dfn := range c.P.pkgFuncs("hcldec") {
		if dfn.Name() != "decode" || dfn.Signature.Recv() == nil || dfn.Parent() != nil {
			continue
		}
		rn := namedOf(derefType(dfn.Signature.Recv().Type()))
		if rn == nil {
			continue
		}
		// the method that reports the spec's variables (resolved through the anchor table, so that a rename is followed)
		fn := c.P.LookupFunc("hcldec", rn.Obj().Name()+".variablesNeeded")
		if fn == nil || len(fn.Blocks) == 0 {
			continue
		}
		for _, b := range fn.Blocks {
			for _, ins := range b.Instrs {
				if call, ok := ins.(*ssa.Call); ok && call.Call.IsInvoke() && call.Call.Method.Name() == "JustAttributes" {
					if nm := namedOf(derefType(fn.Signature.Recv().Type())); nm != nil {
						specs = append(specs, nm.Obj().Name())
					}
				}
			}
		}
	}
	sort.Strings(specs)
	c.Floor("dyn.justattrs specs in JustAttributes mode", len(specs), 1, "BlockAttrsSpec")
	root := c.P.LookupFunc("ext/dynblock", "walkVariablesWithHCLDec")
	if root == nil {
		c.CheckerFail("dyn.justattrs", "anchor ext/dynblock.walkVariablesWithHCLDec does not resolve")
		return
	}
	c.Fn(FuncName(root))
	asks := false
	seen := map[*ssa.Function]bool{}
	var walk func(f *ssa.Function)
	walk = func(f *ssa.Function) {
		if f == nil || seen[f] || fnPkg(f) == nil || fnPkg(f).Path() != modPath+"/ext/dynblock" || len(f.Blocks) == 0 {
			return
		}
		seen[f] = true
		for _, b := range f.Blocks {
			for _, ins := range b.Instrs {
				if cc, ok := ins.(ssa.CallInstruction); ok {
					if cc.Common().IsInvoke() && cc.Common().Method.Name() == "JustAttributes" {
						asks = true
					}
					walk(staticCallee(cc.Common()))
				}
			}
		}
	}
	walk(root)
	for _, sp := range specs {
		c.Sites++
		c.Check(asks, "dyn.justattrs", "ext/dynblock.walkVariablesWithHCLDec:justattrs["+sp+"]", root.Pos(), "the walker reads such bodies in JustAttributes mode",
			"hcldec."+sp+" takes every attribute of its block's body (JustAttributes) and hcldec.Variables reports their variables, but the hcldec-driven walker of ext/dynblock only visits bodies by schema and never asks for JustAttributes: dynblock.VariablesHCLDec reports none of those variables")
	}
}

// ---- C08 customdecode.type -----------------------------------------------------------------------------

func init() { registerExtra("C08", c08CustomDecodeType) }

func c08CustomDecodeType(c *Ctx) {
	c.Rule("customdecode.type: the custom expression decoder attached (through CapsuleOps.ExtensionData) to a capsule type of ext/customdecode returns, on every path, a value made by cty.CapsuleVal with THAT capsule type (directly or through a constructor of the package every return of which is one): hcldec.AttrSpec and BlockAttrsSpec return the custom decoder's result unconverted, so this is what makes the decoded value conform to the implied type")
	cd := modPath + "/ext/customdecode"
	pkg := c.P.SSAPkg("ext/customdecode")
	if pkg == nil {
		c.CheckerFail("customdecode.type", "package ext/customdecode not loaded")
		return
	}
	initFn := pkg.Func("init")
	var inits []*ssa.Function
	if initFn != nil {
		inits = append(inits, initFn)
	}
	for _, m := range pkg.Members {
		if f, ok := m.(*ssa.Function); ok && strings.HasPrefix(f.Name(), "init#") {
			inits = append(inits, f)
		}
	}
	// capsuleOf: which global capsule type a value-producing call yields
	var capsuleOf func(v ssa.Value, d int) *ssa.Global
	capsuleOf = func(v ssa.Value, d int) *ssa.Global {
		call, ok := v.(*ssa.Call)
		if !ok || d > 3 {
			return nil
		}
		k := staticCallee(&call.Call)
		if k == nil {
			return nil
		}
		if fnPkg(k) != nil && fnPkg(k).Path() == ctyPath && k.Name() == "CapsuleVal" && len(call.Call.Args) > 0 {
			if u, ok := call.Call.Args[0].(*ssa.UnOp); ok && u.Op == token.MUL {
				if g, ok := u.X.(*ssa.Global); ok {
					return g
				}
			}
			return nil
		}
		if fnPkg(k) == nil || fnPkg(k).Path() != cd || len(k.Blocks) == 0 {
			return nil
		}
		var res *ssa.Global
		for _, b := range k.Blocks {
			r, ok := b.Instrs[len(b.Instrs)-1].(*ssa.Return)
			if !ok || len(r.Results) == 0 {
				continue
			}
			for _, o := range originsOf(r.Results[0], nil) {
				g := capsuleOf(o, d+1)
				if g == nil || (res != nil && res != g) {
					return nil
				}
				res = g
			}
		}
		return res
	}
	n := 0
	for _, in := range inits {
		for _, b := range in.Blocks {
			for _, ins := range b.Instrs {
				st, ok := ins.(*ssa.Store)
				if !ok {
					continue
				}
				g, ok := st.Addr.(*ssa.Global)
				if !ok || !isNamed(st.Val.Type(), ctyPath, "Type") {
					continue
				}
				call, ok := st.Val.(*ssa.Call)
				if !ok || staticCallee(&call.Call) == nil || staticCallee(&call.Call).Name() != "CapsuleWithOps" || len(call.Call.Args) < 3 {
					continue
				}
				ops, ok := call.Call.Args[2].(*ssa.Alloc)
				if !ok {
					continue
				}
				for _, fst := range fieldStoresByName(ops, "ExtensionData") {
					var ext *ssa.Function
					switch x := fst.Val.(type) {
					case *ssa.Function:
						ext = x
					case *ssa.MakeClosure:
						ext, _ = x.Fn.(*ssa.Function)
					}
					if ext == nil {
						continue
					}
					var decoders []*ssa.Function
					var collect func(f *ssa.Function)
					collect = func(f *ssa.Function) {
						for _, a := range f.AnonFuncs {
							res := a.Signature.Results()
							if res.Len() == 2 && isCtyValue(res.At(0).Type()) && isDiagnosticsType(res.At(1).Type()) {
								decoders = append(decoders, a)
							}
							collect(a)
						}
					}
					collect(ext)
					for _, dfn := range decoders {
						for _, db := range dfn.Blocks {
							r, ok := db.Instrs[len(db.Instrs)-1].(*ssa.Return)
							if !ok {
								continue
							}
							for _, o := range originsOf(r.Results[0], nil) {
								n++
								c.Sites++
								c.Fn(FuncName(dfn))
								got := capsuleOf(o, 0)
								why := "is the " + describeOrigin(o)
								if got != nil {
									why = "has the capsule type " + got.Name()
								}
								c.Check(got == g, "customdecode.type", "ext/customdecode:decoder["+g.Name()+"]", r.Pos(), "a capsule value of "+g.Name(),
									"the custom decoder attached to "+g.Name()+" returns a value that "+why+": hcldec returns it unconverted, so the decoded value does not have the spec's implied type")
							}
						}
					}
				}
			}
		}
	}
	c.Floor("customdecode.type decoder results", n, 2, "ExpressionType and ExpressionClosureType")
}
