package main

import (
	"fmt"
	"go/ast"
	"go/constant"
	"go/token"
	"go/types"
	"sort"
	"strings"

	"golang.org/x/tools/go/packages"
	"golang.org/x/tools/go/ssa"
)

func init() { register("C11", checkC11) }

func checkC11(c *Ctx) {
	defer c11EscapeFastPath(c)
	defer c12AppendNewline(c) // generated attributes and blocks start on a line of their own
	defer runeTruncateRule(c, "escape.domain", "hclwrite", "hclsyntax")
	defer unicodeEscapeRule(c, "escape.inverse") // what the writer emits as \u / \U must be accepted by the reader
	c11EscapeTables(c)
	c11BareKeys(c)
	c11TraversalSteps(c)
	c11LabelsReadBack(c)
	c11NumberExact(c)
	c.NotCovered("key ordering, equality of values after read-back")
	c.NotCovered("the string-literal scanner (scan_string_lit.rl, Ragel generated): how a literal is cut into slices before the escape table is applied")
}

// charConst returns the rune value of a constant expression.
func charConst(pkg *packages.Package, e ast.Expr) (rune, bool) {
	tv, ok := pkg.TypesInfo.Types[e]
	if !ok || tv.Value == nil || tv.Value.Kind() != constant.Int {
		return 0, false
	}
	v, ok := constant.Int64Val(tv.Value)
	return rune(v), ok
}

// appendedBytes: the constant bytes appended by `append(x, b1, b2, …)`.
func appendedBytes(pkg *packages.Package, call *ast.CallExpr) ([]rune, bool) {
	id, ok := call.Fun.(*ast.Ident)
	if !ok || id.Name != "append" || len(call.Args) < 2 {
		return nil, false
	}
	var out []rune
	for _, a := range call.Args[1:] {
		r, ok := charConst(pkg, a)
		if !ok {
			return nil, false
		}
		out = append(out, r)
	}
	return out, true
}

func findSwitchOn(body *ast.BlockStmt, pred func(tag ast.Expr) bool) *ast.SwitchStmt {
	var found *ast.SwitchStmt
	ast.Inspect(body, func(n ast.Node) bool {
		if sw, ok := n.(*ast.SwitchStmt); ok && sw.Tag != nil && found == nil && pred(sw.Tag) {
			found = sw
			return false
		}
		return true
	})
	return found
}

// R1 + R2
func c11EscapeTables(c *Ctx) {
	c.Rule("R1 escape.inverse: the table of hclwrite.escapeQuotedStringLit (character → backslash escape) composed with the table of hclsyntax.ParseStringLiteralToken (escape selector → character) is the identity; the `$`/`%` arm doubles the introducer exactly when the next byte is `{` and the reader un-doubles exactly `$${` / `%%{`; the \\u / \\U hex widths written (4 / 8) equal the widths the reader requires (6 / 10 bytes)")
	c.Rule("R2 escape.domain: the writer escapes every character that cannot appear raw in a quoted literal: `\"`, `\\`, LF, CR, the template introducers before `{`, and non-printable characters")
	wfd, wpkg := c.P.LookupDecl("hclwrite", "escapeQuotedStringLit")
	rfd, rpkg := c.P.LookupDecl("hclsyntax", "ParseStringLiteralToken")
	if wfd == nil || rfd == nil {
		c.CheckerFail("escape", "anchor escapeQuotedStringLit / ParseStringLiteralToken does not resolve")
		return
	}
	c.Fn(declName(wpkg, wfd))
	c.Fn(declName(rpkg, rfd))
	// writer table, introducer arm, non-printable arm and hex widths, read from SSA (bytedom.go)
	wfn := c.P.LookupFunc("hclwrite", "escapeQuotedStringLit")
	if wfn == nil {
		c.CheckerFail("escape", "anchor escapeQuotedStringLit does not resolve")
		return
	}
	winfo := writerEscapes(wfn)
	if !winfo.subjectOK {
		c.CheckerFail("escape", "escapeQuotedStringLit does not range over its string parameter")
		return
	}
	writer := map[rune][]rune{}
	for ch, esc := range winfo.table {
		writer[rune(ch)] = []rune{rune(esc[0]), rune(esc[1])}
	}
	introducers := map[rune]bool{}
	for ch := range winfo.introducers {
		introducers[rune(ch)] = true
	}
	hasDefaultNonPrint := winfo.nonPrint
	widths := winfo.widths
	// reader table, read from SSA (bytedom.go)
	reader := map[rune]rune{}
	readerWidth := map[rune]int{}
	if rfn := c.P.LookupFunc("hclsyntax", "ParseStringLiteralToken"); rfn != nil {
		tbl, uni, _ := readerEscapes(c.P, rfn)
		for k, v := range tbl {
			if !uni[k] {
				reader[rune(k)] = rune(v)
			}
		}
	}
	// widths: on the paths where the selector is u (U) the length of the escape is compared with 6 (10)
	if rfn := c.P.LookupFunc("hclsyntax", "ParseStringLiteralToken"); rfn != nil {
		for sel, w := range readerHexWidths(rfn) {
			readerWidth[rune(sel)] = w
		}
	}
	var chars []rune
	for ch := range writer {
		chars = append(chars, ch)
	}
	sort.Slice(chars, func(i, j int) bool { return chars[i] < chars[j] })
	for _, ch := range chars {
		esc := writer[ch]
		key := fmt.Sprintf("hclwrite.escapeQuotedStringLit:char[%q]", ch)
		c.Sites++
		if len(esc) != 2 || esc[0] != '\\' {
			c.Fail("escape.inverse", key, wfd.Pos(), fmt.Sprintf("%q is written as %q, which is not a backslash escape", ch, string(esc)))
			continue
		}
		back, ok := reader[esc[1]]
		c.Check(ok && back == ch, "escape.inverse", key, wfd.Pos(), fmt.Sprintf("\\%c reads back as %q", esc[1], ch),
			fmt.Sprintf("%q is written as \\%c but the reader decodes \\%c as %q (or not at all): generated strings do not read back", ch, esc[1], esc[1], back))
	}
	c.Floor("escape.inverse entries", len(chars), 5, "\\n \\r \\t \\\" \\\\")
	// hex widths
	for sel, digits := range map[string]int{"u": widths["u"], "U": widths["U"]} {
		rw := readerWidth[rune(sel[0])]
		c.Check(digits > 0 && rw == digits+2, "escape.inverse", "hclwrite.escapeQuotedStringLit:hex[\\"+sel+"]", wfd.Pos(), fmt.Sprintf("%d hex digits written, %d bytes required", digits, rw),
			fmt.Sprintf("\\%s is written with %d hex digits but the reader requires a %d-byte escape", sel, digits, rw))
	}
	// introducer arm: writer doubles iff next byte is '{'
	okIntro := introducers['$'] && introducers['%'] && len(introducers) == 2 && winfo.doubles
	c.Check(okIntro, "escape.inverse", "hclwrite.escapeQuotedStringLit:introducer[$%]", wfd.Pos(), "doubled exactly before `{`",
		"the `$`/`%` arm does not double the introducer exactly when the next byte is `{`: `${`/`%{` in a value would be read back as a template sequence, or plain `$` would be doubled")
	// reader: slice[1] == slice[0] && slice[2] == '{'
	readerUndoubles := false
	if rfn := c.P.LookupFunc("hclsyntax", "ParseStringLiteralToken"); rfn != nil {
		readerUndoubles = readerUndoubles1(rfn)
	}
	c.Check(readerUndoubles, "escape.inverse", "hclsyntax.ParseStringLiteralToken:undouble[$%]", rfd.Pos(), "`$${` and `%%{` are un-doubled",
		"the reader does not un-double `$${` / `%%{`")
	// R2 domain
	for _, ch := range []rune{'"', '\\', '\n', '\r'} {
		_, ok := writer[ch]
		c.Check(ok, "escape.domain", fmt.Sprintf("hclwrite.escapeQuotedStringLit:must[%q]", ch), wfd.Pos(), "escaped",
			fmt.Sprintf("%q is not escaped by the writer although it cannot appear raw in a quoted literal", ch))
	}
	c.Check(hasDefaultNonPrint, "escape.domain", "hclwrite.escapeQuotedStringLit:must[non-printable]", wfd.Pos(), "non-printable characters are written as \\u/\\U escapes",
		"non-printable characters are written raw")
}

// R3
func c11BareKeys(c *Ctx) {
	c.Rule("R3 barekey: hclwrite.appendTokensForValue emits a map/object key as a bare TokenIdent only under hclsyntax.ValidIdentifier(key) (the parser's own notion of an identifier), and not for an identifier the expression parser treats as a keyword at that position (the keywords tested with TokenMatches in parseObjectCons before the first item)")
	fn := c.P.LookupFunc("hclwrite", "appendTokensForValue")
	vi := c.P.LookupFunc("hclsyntax", "ValidIdentifier")
	poc, ppkg := c.P.LookupDecl("hclsyntax", "parser.parseObjectCons")
	if fn == nil || vi == nil || poc == nil {
		c.CheckerFail("barekey", "anchor appendTokensForValue / ValidIdentifier / parseObjectCons does not resolve")
		return
	}
	c.Fn(FuncName(fn))
	// keywords tested in parseObjectCons
	var keywords []string
	_ = poc
	// (from SSA: TokenMatches calls on a package-level Keyword in parseObjectCons and the parser
	// helpers it calls)
	if pocFn := c.P.LookupFunc("hclsyntax", "parser.parseObjectCons"); pocFn != nil {
		seenKw := map[string]bool{}
		for _, f := range append([]*ssa.Function{pocFn}, moduleCallees(pocFn, 1, map[*ssa.Function]bool{})...) {
			if f != pocFn && (fnPkg(f) != fnPkg(pocFn) || f.Signature.Recv() == nil || len(f.Params) == 0 || f.Name() == "ParseExpression" || strings.HasPrefix(f.Name(), "parse") || strings.HasPrefix(f.Name(), "finish")) {
				continue // only small helpers of the parser, not the sub-parsers it delegates to
			}
			for _, b := range f.Blocks {
				for _, ins := range b.Instrs {
					call, ok := ins.(*ssa.Call)
					if !ok || call.Call.StaticCallee() == nil || call.Call.StaticCallee().Name() != "TokenMatches" || len(call.Call.Args) == 0 {
						continue
					}
					var g *ssa.Global
					switch x := call.Call.Args[0].(type) {
					case *ssa.UnOp:
						g, _ = x.X.(*ssa.Global)
					case *ssa.Global:
						g = x
					}
					if g == nil || g.Object() == nil {
						continue
					}
					if kw := keywordSpellingObj(ppkg, g.Object()); kw != "" && !seenKw[kw] {
						seenKw[kw] = true
						keywords = append(keywords, kw)
					}
				}
			}
		}
	}
	c.Floor("barekey parser keywords", len(keywords), 1, "for")
	// bare identifier emissions whose bytes come from a non-constant string
	n := 0
	// the value generator and the helpers it hands a cty value to (a key emitter split off it)
	scan := []*ssa.Function{fn}
	for _, b := range fn.Blocks {
		for _, ins := range b.Instrs {
			if call, ok := ins.(*ssa.Call); ok {
				if h := call.Call.StaticCallee(); h != nil && h != fn && fnPkg(h) == fnPkg(fn) && len(h.Blocks) > 0 {
					takesValue := false
					for _, p := range h.Params {
						if isNamed(p.Type(), ctyPath, "Value") {
							takesValue = true
						}
					}
					dup := false
					for _, f := range scan {
						if f == h {
							dup = true
						}
					}
					if takesValue && !dup {
						scan = append(scan, h)
						c.Fn(FuncName(h))
					}
				}
			}
		}
	}
	outer := fn
	for _, fn := range scan {
		for _, b := range fn.Blocks {
			for _, ins := range b.Instrs {
				st, ok := ins.(*ssa.Store)
				if !ok {
					continue
				}
				fa, ok := st.Addr.(*ssa.FieldAddr)
				if !ok || !isNamed(fa.X.Type(), hclwritePath, "Token") {
					continue
				}
				fv := fieldVarOf(fa.X.Type(), fa.Field)
				if fv == nil || fv.Name() != "Bytes" {
					continue
				}
				conv, ok := st.Val.(*ssa.Convert)
				if !ok {
					continue
				}
				if _, isConst := conv.X.(*ssa.Const); isConst {
					continue // `null`, `true`, `false`
				}
				// is this token an Ident?
				isIdent := false
				for _, r := range *fa.X.Referrers() {
					if fa2, ok := r.(*ssa.FieldAddr); ok {
						if f2 := fieldVarOf(fa2.X.Type(), fa2.Field); f2 != nil && f2.Name() == "Type" {
							for _, r2 := range *fa2.Referrers() {
								if st2, ok := r2.(*ssa.Store); ok {
									if cv, ok := st2.Val.(*ssa.Const); ok && cv.Value != nil && cv.Int64() == int64('I') {
										isIdent = true
									}
								}
							}
						}
					}
				}
				if !isIdent {
					continue
				}
				n++
				// the emission is reached only when ValidIdentifier holds and the key is none of the
				// parser's keywords: decided by evaluating the branch conditions (through helpers) under
				// every assignment of those atoms (E-condeval)
				atoms := &condAtoms{pred: vi, strEq: map[string]string{}}
				for _, kw := range keywords {
					atoms.strEq[kw] = "K:" + kw
				}
				names := []string{"P"}
				for _, kw := range keywords {
					names = append(names, "K:"+kw)
				}
				validNeeded, kwReach := true, map[string]bool{}
				for mask := 0; mask < 1<<len(names); mask++ {
					atoms.assign = map[string]bool{}
					for i, nm := range names {
						atoms.assign[nm] = mask&(1<<i) != 0
					}
					if !atoms.run(fn, 0).reach[b] {
						continue
					}
					if !atoms.assign["P"] {
						validNeeded = false
					}
					for _, kw := range keywords {
						if atoms.assign["K:"+kw] {
							kwReach[kw] = true
						}
					}
				}
				c.Check(validNeeded, "barekey", FuncName(fn)+":bare-ident.valid", st.Pos(), "only under ValidIdentifier",
					"a map/object key is emitted as a bare identifier on a path on which hclsyntax.ValidIdentifier has not accepted it: keys that are not identifiers for the parser (leading digit, dash, …) are emitted bare and read back as something else")
				for _, kw := range keywords {
					c.Check(!kwReach[kw], "barekey", FuncName(fn)+":bare-ident.keyword["+kw+"]", st.Pos(), "keyword excluded",
						"the identifier `"+kw+"` is emitted as a bare key, but the parser reads `{ "+kw+" …` as the start of a "+kw+" expression: the generated object constructor does not parse")
				}
			}
		}
	}
	_ = outer
	c.Floor("barekey emissions", n, 1, "object/map key in appendTokensForValue")
}

func condCalls(v ssa.Value, target *ssa.Function, seen map[ssa.Value]bool) bool {
	if v == nil || seen[v] {
		return false
	}
	seen[v] = true
	switch x := v.(type) {
	case *ssa.Call:
		return x.Call.StaticCallee() == target
	case *ssa.UnOp:
		return condCalls(x.X, target, seen)
	case *ssa.BinOp:
		return condCalls(x.X, target, seen) || condCalls(x.Y, target, seen)
	case *ssa.Phi:
		// short-circuit && / ||: any edge
		for _, e := range x.Edges {
			if condCalls(e, target, seen) {
				return true
			}
		}
	}
	return false
}

// guardSource: source text of the if statement whose condition ends block b.
func guardSource(c *Ctx, fn *ssa.Function, b *ssa.BasicBlock) string {
	fd := c.P.FuncDecl(fn)
	if fd == nil {
		return ""
	}
	pos := token.NoPos
	for _, ins := range b.Instrs {
		if ins.Pos().IsValid() {
			pos = ins.Pos()
		}
	}
	out := ""
	ast.Inspect(fd.Body, func(n ast.Node) bool {
		if ifs, ok := n.(*ast.IfStmt); ok && ifs.Cond.Pos() <= pos && pos <= ifs.Cond.End() {
			out = exprStr(ifs.Cond)
		}
		return true
	})
	return out
}

// keywordSpelling resolves a package-level `var xKeyword = Keyword([]byte{'f','o','r'})`.
func keywordSpelling(c *Ctx, pkg *packages.Package, id *ast.Ident) string {
	obj := pkg.TypesInfo.Uses[id]
	if obj == nil {
		return ""
	}
	return keywordSpellingObj(pkg, obj)
}

func keywordSpellingObj(pkg *packages.Package, obj types.Object) string {
	for _, f := range pkg.Syntax {
		for _, d := range f.Decls {
			gd, ok := d.(*ast.GenDecl)
			if !ok {
				continue
			}
			for _, sp := range gd.Specs {
				vs, ok := sp.(*ast.ValueSpec)
				if !ok {
					continue
				}
				for i, nm := range vs.Names {
					if pkg.TypesInfo.Defs[nm] != obj || i >= len(vs.Values) {
						continue
					}
					var sb strings.Builder
					ast.Inspect(vs.Values[i], func(n ast.Node) bool {
						if bl, ok := n.(*ast.BasicLit); ok && bl.Kind == token.CHAR {
							if r, ok := charConst(pkg, bl); ok {
								sb.WriteRune(r)
							}
						}
						return true
					})
					return sb.String()
				}
			}
		}
	}
	return ""
}

// R4
func c11TraversalSteps(c *Ctx) {
	c.Rule("R4 steps.exhaustive: appendTokensForTraversalStep has a case for every hcl.Traverser kind an absolute traversal built by the parsers can contain (TraverseRoot, TraverseAttr, TraverseIndex) and panics, rather than silently emitting nothing, for any other kind")
	fn := c.P.LookupFunc("hclwrite", "appendTokensForTraversalStep")
	if fn == nil {
		c.CheckerFail("steps.exhaustive", "anchor appendTokensForTraversalStep does not resolve")
		return
	}
	c.Fn(FuncName(fn))
	have := map[string]bool{}
	panics := false
	for _, b := range fn.Blocks {
		for _, ins := range b.Instrs {
			if ta, ok := ins.(*ssa.TypeAssert); ok {
				if n := namedOf(ta.AssertedType); n != nil {
					have[n.Obj().Name()] = true
				}
			}
			if _, ok := ins.(*ssa.Panic); ok {
				panics = true
			}
		}
	}
	for _, k := range []string{"TraverseRoot", "TraverseAttr", "TraverseIndex"} {
		c.Check(have[k], "steps.exhaustive", FuncName(fn)+":case["+k+"]", fn.Pos(), "handled", "no tokens are generated for "+k+" steps")
	}
	c.Check(panics, "steps.exhaustive", FuncName(fn)+":default", fn.Pos(), "unsupported steps panic", "unsupported traversal steps are skipped silently")
}

// R5
func c11LabelsReadBack(c *Ctx) {
	c.Rule("R5 labels.decode: in (*blockLabels).Current the text of a quoted label reaches the result only through hclsyntax.ParseStringLiteralToken (the inverse of the escaping that Replace applies through TokensForValue); no shortcut returns the raw bytes of a quoted literal")
	fn := c.P.LookupFunc("hclwrite", "blockLabels.Current")
	pslt := c.P.LookupFunc("hclsyntax", "ParseStringLiteralToken")
	if fn == nil || pslt == nil {
		c.CheckerFail("labels.decode", "anchor blockLabels.Current / ParseStringLiteralToken does not resolve")
		return
	}
	c.Fn(FuncName(fn))
	// blocks of the *quoted arm
	var arm *ssa.BasicBlock
	for _, b := range fn.Blocks {
		for _, ins := range b.Instrs {
			if ta, ok := ins.(*ssa.TypeAssert); ok && ta.CommaOk && isNamed(ta.AssertedType, hclwritePath, "quoted") {
				for _, r := range *ta.Referrers() {
					if ex, ok := r.(*ssa.Extract); ok && ex.Index == 1 {
						for _, r2 := range *ex.Referrers() {
							if iff, ok := r2.(*ssa.If); ok {
								arm = iff.Block().Succs[0]
							}
						}
					}
				}
			}
		}
	}
	if arm == nil {
		c.Fail("labels.decode", FuncName(fn)+":quoted-arm", fn.Pos(), "Current has no arm for quoted labels")
		return
	}
	// a string that is the decoded text of literal tokens: a constant, result 0 of
	// ParseStringLiteralToken, a strings.Builder all of whose parts are such, or result 0 of a helper
	// of the package every return of which yields such a string
	var decodedLabel func(v ssa.Value, d int) bool
	decodedLabel = func(v ssa.Value, d int) bool {
		if d > 3 {
			return false
		}
		switch v := v.(type) {
		case *ssa.Const:
			return true
		case *ssa.Phi:
			for _, e := range v.Edges {
				if !decodedLabel(e, d+1) {
					return false
				}
			}
			return len(v.Edges) > 0
		case *ssa.Extract:
			c2, ok := v.Tuple.(*ssa.Call)
			if !ok || v.Index != 0 {
				return false
			}
			if c2.Call.StaticCallee() == pslt {
				return true
			}
			if h := c2.Call.StaticCallee(); h != nil && inModule(h) && len(h.Blocks) > 0 && fnPkg(h) == fnPkg(fn) {
				any := false
				for _, hb := range h.Blocks {
					if r, ok := hb.Instrs[len(hb.Instrs)-1].(*ssa.Return); ok && len(r.Results) > 0 {
						any = true
						if !decodedLabel(r.Results[0], d+1) {
							return false
						}
					}
				}
				return any
			}
		case *ssa.Call:
			// (*strings.Builder).String(): every part written to the builder is decoded
			if cal := v.Call.StaticCallee(); cal != nil && cal.Name() == "String" && len(v.Call.Args) == 1 {
				if bl, ok := v.Call.Args[0].(*ssa.Alloc); ok && isNamed(bl.Type(), "strings", "Builder") {
					okv := true
					parts := 0
					for _, r := range *bl.Referrers() {
						w, ok := r.(*ssa.Call)
						if !ok || w == v {
							continue
						}
						wc := w.Call.StaticCallee()
						if wc == nil || !strings.HasPrefix(wc.Name(), "Write") {
							continue
						}
						parts++
						if !decodedLabel(w.Call.Args[1], d+1) {
							okv = false
						}
					}
					return okv && parts > 0
				}
			}
		}
		return false
	}
	n := 0
	for _, b := range fn.Blocks {
		if !arm.Dominates(b) {
			continue
		}
		for _, ins := range b.Instrs {
			call, ok := ins.(*ssa.Call)
			if !ok {
				continue
			}
			bi, ok := call.Call.Value.(*ssa.Builtin)
			if !ok || bi.Name() != "append" || !isBasicString(sliceElem(call.Type())) {
				continue
			}
			sl, ok := call.Call.Args[1].(*ssa.Slice)
			if !ok {
				continue
			}
			al, ok := sl.X.(*ssa.Alloc)
			if !ok {
				continue
			}
			for _, st := range storesInto(al) {
				n++
				okv := decodedLabel(st.Val, 0)
				c.Check(okv, "labels.decode", FuncName(fn)+":quoted-label", st.Pos(), "decoded by ParseStringLiteralToken",
					"a quoted label is returned without being decoded by ParseStringLiteralToken: labels containing `$${`, `%%{` or backslash escapes read back differently from what was supplied")
			}
		}
	}
	c.Floor("labels.decode results", n, 1, "the decoded label")
}

// R6: numbers are written with all their digits.
func c11NumberExact(c *Ctx) {
	c.Rule("R6 number.exact: in hclwrite every conversion of a *big.Float (the content of a cty number) to text or to a machine number is exact: (*big.Float).Text('f', -1) only — no String()/Format/Append/Text with a precision (10 significant digits by default), no Float64/Float32/Int64/Uint64, no fmt verb applied to the float — so a generated number literal reads back as the same number")
	n := 0
	for _, fn := range c.P.pkgFuncs("hclwrite") {
		for _, b := range fn.Blocks {
			for _, ins := range b.Instrs {
				call, ok := ins.(*ssa.Call)
				if !ok {
					continue
				}
				cal := call.Call.StaticCallee()
				if cal != nil && cal.Signature.Recv() != nil && isNamed(cal.Signature.Recv().Type(), "math/big", "Float") {
					n++
					c.Fn(FuncName(fn))
					c.Sites++
					key := FuncName(fn) + ":call[big.Float." + cal.Name() + "]"
					switch cal.Name() {
					case "Text":
						f, ok1 := constInt(call.Call.Args[1])
						p, ok2 := constInt(call.Call.Args[2])
						c.Check(ok1 && ok2 && f == 'f' && p == -1, "number.exact", key, call.Pos(), "Text('f', -1): all digits", "the number is formatted with a format or precision other than ('f', -1): digits are lost or an exponent form is produced")
					case "String", "Format", "Append", "Float64", "Float32", "Int64", "Uint64", "MarshalText", "GobEncode":
						c.Fail("number.exact", key, call.Pos(), "the number passes through big.Float."+cal.Name()+", which keeps 10 significant digits (or the range of a machine number): a literal with more digits reads back as a different number")
					default:
						c.OK("number.exact", key, call.Pos(), "does not produce text")
					}
					continue
				}
				// fmt verbs applied to a *big.Float
				if cal != nil && cal.Pkg != nil && cal.Pkg.Pkg.Path() == "fmt" {
					for _, a := range call.Call.Args {
						if sl, ok := a.(*ssa.Slice); ok {
							if al, ok := sl.X.(*ssa.Alloc); ok {
								for _, st := range storesInto(al) {
									if mi, ok := st.Val.(*ssa.MakeInterface); ok && isNamed(mi.X.Type(), "math/big", "Float") {
										n++
										c.Fail("number.exact", FuncName(fn)+":call[fmt."+cal.Name()+"]", call.Pos(), "a *big.Float is formatted through package fmt (10 significant digits by default)")
									}
								}
							}
						}
					}
				}
			}
		}
	}
	c.Floor("number.exact conversions", n, 1, "the number arm of appendTokensForValue")
}

// readerHexWidths: for each escape selector (the byte at index 1 of the escape), the constant the
// length of the escape is compared with on the paths where the selector has that value. The
// constant may reach the comparison through a phi whose edges are selected by the selector.
func readerHexWidths(fn *ssa.Function) map[byte]int {
	isSubject := func(v ssa.Value) bool {
		u, ok := v.(*ssa.UnOp)
		if !ok || u.Op != token.MUL {
			return false
		}
		ia, ok := u.X.(*ssa.IndexAddr)
		if !ok {
			return false
		}
		k, isC := constInt(ia.Index)
		return isC && k == 1
	}
	in, edge := byteDomains(fn, isSubject)
	out := map[byte]int{}
	put := func(d byteDom, w int64) {
		if d.neg {
			return
		}
		for _, b := range d.values() {
			if old, ok := out[b]; ok && old != int(w) {
				out[b] = -1
			} else {
				out[b] = int(w)
			}
		}
	}
	for _, b := range fn.Blocks {
		for _, ins := range b.Instrs {
			bo, ok := ins.(*ssa.BinOp)
			if !ok || (bo.Op != token.NEQ && bo.Op != token.EQL) {
				continue
			}
			var w ssa.Value
			if isLenCall(bo.X) {
				w = bo.Y
			} else if isLenCall(bo.Y) {
				w = bo.X
			} else {
				continue
			}
			if k, isC := constInt(w); isC {
				put(in[b], k)
				continue
			}
			if ph, ok := w.(*ssa.Phi); ok {
				for i, e := range ph.Edges {
					if k, isC := constInt(e); isC {
						put(edge[[2]*ssa.BasicBlock{ph.Block().Preds[i], ph.Block()}], k)
					}
				}
			}
		}
	}
	return out
}

func isLenCall(v ssa.Value) bool {
	call, ok := v.(*ssa.Call)
	if !ok {
		return false
	}
	b, ok := call.Call.Value.(*ssa.Builtin)
	return ok && b.Name() == "len"
}

// R7 escape.fastpath: escapeQuotedStringLit returns its input unescaped only after a scan that
// rejects every byte that needs escaping.
func c11EscapeFastPath(c *Ctx) {
	c.Rule("R7 escape.fastpath: every return of hclwrite.escapeQuotedStringLit yields nil or the buffer it builds; a return of the input itself (a conversion of the parameter) is allowed only if the function first scans the input byte by byte and the set of bytes that scan lets pass — computed by interpreting the loop for all 256 byte values — contains none of the bytes that need escaping (control characters, the quote, the backslash, the template introducers $ and %)")
	fn := c.P.LookupFunc("hclwrite", "escapeQuotedStringLit")
	if fn == nil || len(fn.Params) != 1 {
		c.CheckerFail("escape.fastpath", "anchor hclwrite.escapeQuotedStringLit does not resolve")
		return
	}
	c.Fn(FuncName(fn))
	par := fn.Params[0]
	var isRaw func(v ssa.Value, d int) bool
	isRaw = func(v ssa.Value, d int) bool {
		if d > 6 {
			return false
		}
		switch x := v.(type) {
		case *ssa.Parameter:
			return x == par
		case *ssa.Convert:
			return isRaw(x.X, d+1)
		case *ssa.ChangeType:
			return isRaw(x.X, d+1)
		case *ssa.Slice:
			return isRaw(x.X, d+1)
		case *ssa.Phi:
			for _, e := range x.Edges {
				if isRaw(e, d+1) {
					return true
				}
			}
		}
		return false
	}
	n := 0
	for _, b := range fn.Blocks {
		ret, ok := b.Instrs[len(b.Instrs)-1].(*ssa.Return)
		if !ok || len(ret.Results) != 1 {
			continue
		}
		n++
		c.Sites++
		if !isRaw(ret.Results[0], 0) {
			c.OK("escape.fastpath", FuncName(fn)+":return["+pathName(ret.Results[0])+"]", ret.Pos(), "the escaped buffer (or nil)")
			continue
		}
		key := FuncName(fn) + ":return[raw]"
		cls, err := loopClass(fn)
		if err != "" {
			c.Undecided("escape.fastpath", key, ret.Pos(), "the input is returned unescaped and the scan that justifies it is not decided: "+err)
			continue
		}
		var bad []string
		for v := 0; v < 256; v++ {
			if cls[v] && (v < 0x20 || v == '"' || v == '\\' || v == '$' || v == '%') {
				bad = append(bad, fmt.Sprintf("%q", byte(v)))
			}
		}
		c.Check(len(bad) == 0, "escape.fastpath", key, ret.Pos(), "the scan lets only harmless bytes pass ("+classString(cls)+")",
			"the input is returned unescaped after a scan that lets "+strings.Join(bad, " ")+" pass: a string containing it is written raw and reads back as a template sequence or not at all")
	}
	c.Floor("escape.fastpath returns", n, 1, "the escaped buffer")
}
