package main

import (
	"fmt"
	"go/token"
	"sort"

	"golang.org/x/tools/go/ssa"
)

// E-pair: acquire/release typestate on the SSA control-flow graph.
//
// A pair instance classifies call instructions as acquire (+1) or release (-1).
// Forward analysis of an integer depth (plus a count of deferred releases) per
// basic block: a conflict between predecessors, a negative depth, or a cycle with
// non-zero delta (which shows up as a conflict at the loop header) is a violation.
// Every function gets a summary (its net delta when all its returns agree);
// callers apply callee summaries, so a wrapper that returns with the resource
// held is understood.

type pairInst struct {
	name     string
	classify func(call *ssa.CallCommon) (delta int, what string) // 0 = not relevant
	observe  func(call *ssa.CallCommon) string                   // "" = not observed; depth is recorded at the call
}

type pairObs struct {
	pos   token.Pos
	what  string
	depth int
}

type pairState struct {
	depth, deferred int
	set             bool
}

type pairSite struct {
	pos      token.Pos
	what     string
	delta    int
	deferred bool
}

type pairFnResult struct {
	fn        *ssa.Function
	sites     []pairSite
	exitDelta map[int]token.Pos // distinct net deltas at returns -> a return position
	problems  []pairProblem
	observed  []pairObs
	relevant  bool
}

type pairProblem struct {
	pos token.Pos
	msg string
}

func calleeOfValue(v ssa.Value) *ssa.Function {
	switch x := v.(type) {
	case *ssa.Function:
		return x
	case *ssa.MakeClosure:
		if f, ok := x.Fn.(*ssa.Function); ok {
			return f
		}
	}
	return nil
}

func staticCallee(call *ssa.CallCommon) *ssa.Function {
	if f := call.StaticCallee(); f != nil {
		return f
	}
	if call.IsInvoke() {
		return nil
	}
	return calleeOfValue(call.Value)
}

// analysePairs runs the instance over the given functions to a summary fixed point.
func analysePairs(inst pairInst, fns []*ssa.Function) map[*ssa.Function]*pairFnResult {
	summary := map[*ssa.Function]int{}
	inSet := map[*ssa.Function]bool{}
	for _, f := range fns {
		inSet[f] = true
	}
	var results map[*ssa.Function]*pairFnResult
	for iter := 0; iter < 10; iter++ {
		results = map[*ssa.Function]*pairFnResult{}
		changed := false
		for _, f := range fns {
			r := analysePairFn(inst, f, summary, inSet)
			results[f] = r
			if len(r.exitDelta) == 1 {
				for d := range r.exitDelta {
					if summary[f] != d {
						summary[f] = d
						changed = true
					}
				}
			}
		}
		if !changed {
			break
		}
	}
	return results
}

func analysePairFn(inst pairInst, fn *ssa.Function, summary map[*ssa.Function]int, inSet map[*ssa.Function]bool) *pairFnResult {
	res := &pairFnResult{fn: fn, exitDelta: map[int]token.Pos{}}
	if len(fn.Blocks) == 0 {
		return res
	}
	callDelta := func(call *ssa.CallCommon) (int, string) {
		if d, what := inst.classify(call); d != 0 {
			return d, what
		}
		if cal := staticCallee(call); cal != nil && inSet[cal] && summary[cal] != 0 {
			return summary[cal], "call " + FuncName(cal) + " (net " + fmt.Sprint(summary[cal]) + ")"
		}
		return 0, ""
	}
	in := make([]pairState, len(fn.Blocks))
	in[0] = pairState{set: true}
	work := []*ssa.BasicBlock{fn.Blocks[0]}
	reported := map[string]bool{}
	problem := func(pos token.Pos, msg string) {
		k := fmt.Sprint(pos, msg)
		if !reported[k] {
			reported[k] = true
			res.problems = append(res.problems, pairProblem{pos, msg})
		}
	}
	visited := map[int]bool{}
	firstPass := map[int]bool{}
	for len(work) > 0 {
		b := work[len(work)-1]
		work = work[:len(work)-1]
		st := in[b.Index]
		collect := !firstPass[b.Index]
		firstPass[b.Index] = true
		visited[b.Index] = true
		for _, ins := range b.Instrs {
			switch x := ins.(type) {
			case *ssa.Call:
				if inst.observe != nil && collect {
					if what := inst.observe(&x.Call); what != "" {
						res.observed = append(res.observed, pairObs{x.Pos(), what, st.depth})
					}
				}
				if d, what := callDelta(&x.Call); d != 0 {
					st.depth += d
					if collect {
						res.sites = append(res.sites, pairSite{x.Pos(), what, d, false})
					}
					res.relevant = true
					if st.depth < 0 {
						// a helper or closure may release what its caller acquired (its net effect is
						// propagated as a summary); only a function callable from outside must not
						if pairEntry(fn) {
							problem(x.Pos(), fmt.Sprintf("%s: release without matching acquire on some path (depth %d)", what, st.depth))
						}
					}
				}
			case *ssa.Defer:
				if d, what := callDelta(&x.Call); d != 0 {
					st.deferred += d
					if collect {
						res.sites = append(res.sites, pairSite{x.Pos(), "defer " + what, d, true})
					}
					res.relevant = true
				}
			case *ssa.Go:
				if d, what := callDelta(&x.Call); d != 0 {
					problem(x.Pos(), "go statement with "+what)
				}
			case *ssa.RunDefers:
				st.depth += st.deferred
				st.deferred = 0
			case *ssa.Return:
				if _, ok := res.exitDelta[st.depth]; !ok {
					res.exitDelta[st.depth] = x.Pos()
				}
			}
		}
		for _, s := range b.Succs {
			if !in[s.Index].set {
				in[s.Index] = pairState{st.depth, st.deferred, true}
				work = append(work, s)
			} else if in[s.Index].depth != st.depth || in[s.Index].deferred != st.deferred {
				pos := token.NoPos
				for _, i2 := range s.Instrs {
					if i2.Pos().IsValid() {
						pos = i2.Pos()
						break
					}
				}
				if !pos.IsValid() {
					for _, i2 := range b.Instrs {
						if i2.Pos().IsValid() {
							pos = i2.Pos()
						}
					}
				}
				problem(pos, fmt.Sprintf("paths join with different %s depth (%d vs %d, deferred %d vs %d): an acquire is not released on one of the paths into block %d",
					inst.name, in[s.Index].depth, st.depth, in[s.Index].deferred, st.deferred, s.Index))
			}
		}
	}
	sort.Slice(res.sites, func(i, j int) bool { return res.sites[i].pos < res.sites[j].pos })
	return res
}

// pairEntry: fn can be called from outside the analysed package (exported function or method).
func pairEntry(fn *ssa.Function) bool {
	return fn.Parent() == nil && fn.Object() != nil && fn.Object().Exported()
}
