package main

import (
	"fmt"
	"go/ast"
	"go/token"
	"go/types"
	"sort"
	"strings"

	"golang.org/x/tools/go/ssa"
)

func init() { register("C12", checkC12) }

func checkC12(c *Ctx) {
	c12ReplaceRefresh(c)
	c12Paired(c)
	c12Constructors(c)
	c12MutatorResults(c)
	c12AppendNewline(c)
	c12AccessorReadonly(c)
	c12Mirror(c)
	c.NotCovered("that the serialised file equals the prediction of a map/list model; comment preservation of untouched items")
	c.NotCovered("ownership of caller-supplied token slices (whether an API entry point copies the slice it is given)")
	c.NotCovered("maintenance of nodes.first/last by ReplaceWith and InsertNode (no API path replaces or inserts before a first/last node today)")
	c11EscapeFastPath(c) // strings set through SetAttributeValue / SetLabels are written escaped
}

// R1: the node returned by ReplaceWith is stored back into the handle it was loaded from.
func c12ReplaceRefresh(c *Ctx) {
	c.Rule("R1 replace.refresh: every call x.f.ReplaceWith(c) in hclwrite stores its result back into the same handle x.f (the receiver is detached by ReplaceWith, so a handle that is not refreshed points at a node outside the tree)")
	rw := c.P.LookupFunc("hclwrite", "node.ReplaceWith")
	if rw == nil {
		c.CheckerFail("replace.refresh", "anchor (*node).ReplaceWith does not resolve")
		return
	}
	n := 0
	for _, fn := range c.P.pkgFuncs("hclwrite") {
		for _, b := range fn.Blocks {
			for _, ins := range b.Instrs {
				call, ok := ins.(*ssa.Call)
				if !ok || call.Call.StaticCallee() != rw {
					continue
				}
				n++
				name := FuncName(fn)
				c.Fn(name)
				c.Sites++
				recv := call.Call.Args[0]
				ld, isLoad := recv.(*ssa.UnOp)
				var fa *ssa.FieldAddr
				if isLoad && ld.Op == token.MUL {
					fa, _ = ld.X.(*ssa.FieldAddr)
				}
				if fa == nil {
					c.OK("replace.refresh", name+":call[ReplaceWith]", call.Pos(), "receiver is not a cached handle")
					continue
				}
				key := fmt.Sprintf("%s:call[%s.ReplaceWith]", name, fieldName(fa))
				stored := false
				for _, r := range *call.Referrers() {
					if st, ok := r.(*ssa.Store); ok && st.Val == ssa.Value(call) && sameAddr(st.Addr, fa) {
						stored = true
					}
				}
				c.Check(stored, "replace.refresh", key, call.Pos(), "result stored back into the handle",
					"the node returned by ReplaceWith is not stored back into "+fieldName(fa)+": the handle keeps pointing at the detached old node (accessors return stale content; a second replace panics)")
			}
		}
	}
	c.Floor("replace.refresh sites", n, 3, "Attribute.setName, Block.SetType, three attribute setters")
}

// R2: children list and items set move together.
func c12Paired(c *Ctx) {
	c.Rule("R2 paired: in the methods of hclwrite types that hold both a children list and an items set (Body, blockLabels): every Detach() of a node is accompanied on every path (before or after) by items.Remove of the same node; every children.Clear() is accompanied by items.Clear() on every path (and vice versa); every items.Add(n) adds a node that was appended to children")
	detach := c.P.LookupFunc("hclwrite", "node.Detach")
	remove := c.P.LookupFunc("hclwrite", "nodeSet.Remove")
	nclear := c.P.LookupFunc("hclwrite", "nodes.Clear")
	sclear := c.P.LookupFunc("hclwrite", "nodeSet.Clear")
	if detach == nil || remove == nil || nclear == nil || sclear == nil {
		c.CheckerFail("paired", "anchor node.Detach / nodeSet.Remove / nodes.Clear / nodeSet.Clear does not resolve")
		return
	}
	hasBoth := func(t types.Type) bool {
		n := namedOf(t)
		if n == nil {
			return false
		}
		st, ok := n.Underlying().(*types.Struct)
		if !ok {
			return false
		}
		items, tree := false, false
		for i := 0; i < st.NumFields(); i++ {
			if st.Field(i).Name() == "items" && isNamed(st.Field(i).Type(), hclwritePath, "nodeSet") {
				items = true
			}
			if st.Field(i).Name() == "inTree" {
				tree = true
			}
		}
		return items && tree
	}
	// "every path from instruction `from` to a return passes an instruction satisfying pred"
	mustFollow := func(from ssa.Instruction, pred func(ssa.Instruction) bool) bool {
		seen := map[*ssa.BasicBlock]bool{}
		var walk func(b *ssa.BasicBlock, idx int) bool
		walk = func(b *ssa.BasicBlock, idx int) bool {
			for i := idx; i < len(b.Instrs); i++ {
				if pred(b.Instrs[i]) {
					return true
				}
				if _, ok := b.Instrs[i].(*ssa.Return); ok {
					return false
				}
			}
			for _, su := range b.Succs {
				if seen[su] {
					continue
				}
				seen[su] = true
				if !walk(su, 0) {
					return false
				}
			}
			return true
		}
		idx := 0
		for i, ins := range from.Block().Instrs {
			if ins == from {
				idx = i + 1
			}
		}
		return walk(from.Block(), idx)
	}
	precededBy := func(at ssa.Instruction, pred func(ssa.Instruction) bool) bool {
		// same block before, or in a dominating block
		for _, ins := range at.Block().Instrs {
			if ins == at {
				break
			}
			if pred(ins) {
				return true
			}
		}
		for d := at.Block().Idom(); d != nil; d = d.Idom() {
			for _, ins := range d.Instrs {
				if pred(ins) {
					return true
				}
			}
		}
		return false
	}
	isCallTo := func(ins ssa.Instruction, f *ssa.Function) *ssa.Call {
		if call, ok := ins.(*ssa.Call); ok && call.Call.StaticCallee() == f {
			return call
		}
		return nil
	}
	nDetach, nClear := 0, 0
	for _, fn := range c.P.pkgFuncs("hclwrite") {
		top := fn
		for top.Parent() != nil {
			top = top.Parent()
		}
		if top.Signature.Recv() == nil || !hasBoth(top.Signature.Recv().Type()) {
			continue
		}
		name := FuncName(fn)
		for _, b := range fn.Blocks {
			for _, ins := range b.Instrs {
				if call := isCallTo(ins, detach); call != nil {
					nDetach++
					c.Fn(name)
					node := call.Call.Args[0]
					isRemove := func(i2 ssa.Instruction) bool {
						c2 := isCallTo(i2, remove)
						return c2 != nil && (c2.Call.Args[1] == node || sameCell(c2.Call.Args[1], node))
					}
					ok := mustFollow(call, isRemove) || precededBy(call, isRemove)
					c.Check(ok, "paired", name+":call[Detach]", call.Pos(), "accompanied by items.Remove of the same node on every path",
						"a node is detached from children without being removed from the items set on some path: accessors iterating items keep returning the removed item")
				}
				if call := isCallTo(ins, nclear); call != nil {
					nClear++
					c.Fn(name)
					ok := mustFollow(call, func(i2 ssa.Instruction) bool { return isCallTo(i2, sclear) != nil }) ||
						precededBy(call, func(i2 ssa.Instruction) bool { return isCallTo(i2, sclear) != nil })
					c.Check(ok, "paired", name+":call[children.Clear]", call.Pos(), "accompanied by items.Clear on every path",
						"children.Clear() without items.Clear(): the items set keeps the removed nodes, so Attributes()/Blocks() report items that are no longer in the body and later edits modify detached nodes")
				}
				if call := isCallTo(ins, sclear); call != nil {
					c.Fn(name)
					ok := mustFollow(call, func(i2 ssa.Instruction) bool { return isCallTo(i2, nclear) != nil }) ||
						precededBy(call, func(i2 ssa.Instruction) bool { return isCallTo(i2, nclear) != nil })
					c.Check(ok, "paired", name+":call[items.Clear]", call.Pos(), "accompanied by children.Clear on every path",
						"items.Clear() without children.Clear(): the tree keeps nodes the items set no longer knows")
				}
			}
		}
	}
	c.Floor("paired detach sites", nDetach, 2, "Body.RemoveBlock, Body.RemoveAttribute")
	c.Floor("paired clear sites", nClear, 2, "Body.Clear, blockLabels.Replace")
}

// R3: constructors set every cached handle.
func c12Constructors(c *Ctx) {
	c.Rule("R3 constructors: every function that initialises cached node handles of an hclwrite.Attribute (leadComments, name, expr, lineComments) or Block (leadComments, typeName, labels, open, body, close) sets all of them")
	pkg := c.P.Pkg("hclwrite")
	if pkg == nil {
		c.CheckerFail("constructors", "hclwrite not loaded")
		return
	}
	n := 0
	for _, tn := range []string{"Attribute", "Block"} {
		obj := pkg.Types.Scope().Lookup(tn)
		if obj == nil {
			c.CheckerFail("constructors", "type "+tn+" does not resolve")
			continue
		}
		st := obj.Type().Underlying().(*types.Struct)
		var handles []*types.Var
		for i := 0; i < st.NumFields(); i++ {
			f := st.Field(i)
			if pt, ok := f.Type().(*types.Pointer); ok && isNamed(pt.Elem(), hclwritePath, "node") {
				handles = append(handles, f)
			}
		}
		for _, fn := range c.P.pkgFuncs("hclwrite") {
			set := map[*types.Var]bool{}
			for _, b := range fn.Blocks {
				for _, ins := range b.Instrs {
					st, ok := ins.(*ssa.Store)
					if !ok {
						continue
					}
					fa, ok := st.Addr.(*ssa.FieldAddr)
					if !ok {
						continue
					}
					fv := fieldVarOf(fa.X.Type(), fa.Field)
					for _, h := range handles {
						if fv == h {
							set[h] = true
						}
					}
				}
			}
			if len(set) < 2 {
				continue // setters refresh a single handle
			}
			n++
			name := FuncName(fn)
			c.Fn(name)
			var missing []string
			for _, h := range handles {
				if !set[h] {
					missing = append(missing, h.Name())
				}
			}
			c.Check(len(missing) == 0, "constructors", name+":init["+tn+"]", fn.Pos(), "all handles set",
				"constructor of "+tn+" leaves handle(s) "+strings.Join(missing, ", ")+" unset: accessors dereference a nil node")
		}
	}
	c.Floor("constructors", n, 2, "Attribute.init, parseAttribute, Block.init, parseBlock")
}

// R4: mirror symmetry of the doubly linked list primitives.
func c12Mirror(c *Ctx) {
	c.Rule("R4 mirror: (*node).Detach and (*node).ReplaceWith are closed under the mirror map before↔after, first↔last: for every guarded assignment the mirrored guarded assignment is present (a doubly linked list unlink/replace that treats one direction differently corrupts the list for one end)")
	for _, fname := range []string{"node.Detach", "node.ReplaceWith"} {
		fd, pkg := c.P.LookupDecl("hclwrite", fname)
		if fd == nil {
			c.CheckerFail("mirror", "anchor "+fname+" does not resolve")
			continue
		}
		name := declName(pkg, fd)
		c.Fn(name)
		stmts := map[string]token.Pos{}
		// locals that merely name a field of the receiver (prev := n.before) are read through
		defs, _ := singleAssignments(pkg.TypesInfo, fd.Body)
		alias := map[types.Object]ast.Expr{}
		for o, e := range defs {
			pure := true
			ast.Inspect(e, func(n ast.Node) bool {
				switch n.(type) {
				case *ast.CallExpr, *ast.CompositeLit, *ast.UnaryExpr, *ast.FuncLit:
					pure = false
				}
				return true
			})
			if _, isSel := e.(*ast.SelectorExpr); isSel && pure {
				alias[o] = e
			}
		}
		var render func(e ast.Expr) string
		render = func(e ast.Expr) string {
			switch x := e.(type) {
			case *ast.Ident:
				if d, ok := alias[pkg.TypesInfo.ObjectOf(x)]; ok {
					return render(d)
				}
				return x.Name
			case *ast.SelectorExpr:
				return render(x.X) + "." + x.Sel.Name
			case *ast.BinaryExpr:
				return render(x.X) + " " + x.Op.String() + " " + render(x.Y)
			case *ast.ParenExpr:
				return "(" + render(x.X) + ")"
			case *ast.UnaryExpr:
				return x.Op.String() + render(x.X)
			}
			return exprStr(e)
		}
		isAliasDef := func(lhs ast.Expr) bool {
			id, ok := lhs.(*ast.Ident)
			if !ok {
				return false
			}
			_, ok = alias[pkg.TypesInfo.ObjectOf(id)]
			return ok
		}
		var collect func(list []ast.Stmt, guard string)
		collect = func(list []ast.Stmt, guard string) {
			for _, s := range list {
				switch x := s.(type) {
				case *ast.AssignStmt:
					for i := range x.Lhs {
						if isAliasDef(x.Lhs[i]) {
							continue
						}
						var rhsE ast.Expr
						if len(x.Rhs) == len(x.Lhs) {
							rhsE = x.Rhs[i]
						} else if len(x.Rhs) == 1 {
							rhsE = x.Rhs[0]
						}
						// nn := &node{list: n.list, before: n.before, …}: one assignment per field
						if ue, ok := rhsE.(*ast.UnaryExpr); ok && ue.Op == token.AND {
							if cl, ok := ue.X.(*ast.CompositeLit); ok {
								for _, el := range cl.Elts {
									if kv, ok := el.(*ast.KeyValueExpr); ok {
										stmts[guard+" => "+render(x.Lhs[i])+"."+exprStr(kv.Key)+" = "+render(kv.Value)] = kv.Pos()
									}
								}
								continue
							}
						}
						rhs := ""
						if rhsE != nil {
							rhs = render(rhsE)
						}
						stmts[guard+" => "+render(x.Lhs[i])+" = "+rhs] = x.Pos()
					}
				case *ast.IfStmt:
					g := guard + " && " + render(x.Cond)
					collect(x.Body.List, g)
					if x.Else != nil {
						if blk, ok := x.Else.(*ast.BlockStmt); ok {
							collect(blk.List, guard+" && !("+render(x.Cond)+")")
						}
					}
				case *ast.BlockStmt:
					collect(x.List, guard)
				}
			}
		}
		collect(fd.Body.List, "")
		mirror := func(s string) string {
			r := strings.NewReplacer("before", "\x00", "after", "before", "first", "\x01", "last", "first")
			s = r.Replace(s)
			return strings.NewReplacer("\x00", "after", "\x01", "last").Replace(s)
		}
		var keys []string
		for k := range stmts {
			keys = append(keys, k)
		}
		sort.Strings(keys)
		asym := 0
		for _, k := range keys {
			m := mirror(k)
			if m == k {
				continue
			}
			// multi-assignments `a, b, c = nil, nil, nil` are order-insensitive sets
			if _, ok := stmts[m]; !ok {
				asym++
				c.Fail("mirror", name+":stmt["+strings.TrimPrefix(k, " && ")+"]", stmts[k], "the mirrored statement `"+strings.TrimPrefix(m, " && ")+"` is missing: the two directions of the doubly linked list are not treated alike")
			}
		}
		if asym == 0 {
			c.OK("mirror", name+":symmetric", fd.Pos(), fmt.Sprintf("%d guarded assignments closed under before↔after, first↔last", len(keys)))
		}
		if len(keys) < 5 {
			c.CheckerFail("mirror", fmt.Sprintf("%s: only %d assignments found", name, len(keys)))
		}
	}
}

// R5 mutator.result: an editing method that always changes the tree hands back the thing it made
// or changed.
func c12MutatorResults(c *Ctx) {
	c.Rule("R5 mutator.result: every exported method of hclwrite.Body / Block that, on every path, appends an item or replaces a node (calls appendItem, appendItemNode or ReplaceWith) and returns a pointer returns one that is never nil (E-nonnil): the handle of the attribute or block that the call created or modified, with which the caller goes on editing")
	muts := map[*ssa.Function]bool{}
	for _, n := range []string{"Body.appendItem", "Body.appendItemNode", "node.ReplaceWith"} {
		if f := c.P.LookupFunc("hclwrite", n); f != nil {
			muts[f] = true
		} else {
			c.CheckerFail("mutator.result", "anchor hclwrite."+n+" does not resolve")
		}
	}
	var alwaysMutates func(f *ssa.Function, depth int) bool
	alwaysMutates = func(f *ssa.Function, depth int) bool {
		seen := map[*ssa.BasicBlock]bool{}
		var walk func(b *ssa.BasicBlock) bool
		walk = func(b *ssa.BasicBlock) bool {
			if seen[b] {
				return true
			}
			seen[b] = true
			for _, ins := range b.Instrs {
				if call, ok := ins.(*ssa.Call); ok {
					cal := call.Call.StaticCallee()
					if muts[cal] {
						return true
					}
					// a helper of the package every path of which edits
					if cal != nil && depth < 3 && cal != f && fnPkg(cal) == fnPkg(f) && len(cal.Blocks) > 0 && alwaysMutates(cal, depth+1) {
						return true
					}
				}
				if _, ok := ins.(*ssa.Return); ok {
					return false
				}
			}
			for _, su := range b.Succs {
				if !walk(su) {
					return false
				}
			}
			return true
		}
		return len(f.Blocks) > 0 && walk(f.Blocks[0])
	}
	e := newNonNilEngine(c.P)
	n := 0
	for _, fn := range c.P.pkgFuncs("hclwrite") {
		if fn.Parent() != nil || fn.Object() == nil || !fn.Object().Exported() || fn.Signature.Recv() == nil || fn.Signature.Results().Len() != 1 {
			continue
		}
		if _, isPtr := fn.Signature.Results().At(0).Type().(*types.Pointer); !isPtr {
			continue
		}
		if rn := namedOf(fn.Signature.Recv().Type()); rn == nil || (rn.Obj().Name() != "Body" && rn.Obj().Name() != "Block") {
			continue
		}
		if !alwaysMutates(fn, 0) {
			continue
		}
		n++
		c.Sites++
		c.Fn(FuncName(fn))
		ok := e.resultNonNil(fn, 0)
		why := ""
		if !ok {
			if !e.resultNilReach(fn, 0) {
				// what is returned is a value nothing is known about (the caller's own argument)
				c.OK("mutator.result", FuncName(fn)+":result", fn.Pos(), "no nil constant can flow into the result")
				continue
			}
			why = e.explain(fn, 0, 0)
		}
		c.Check(ok, "mutator.result", FuncName(fn)+":result", fn.Pos(), "never nil",
			"the method always edits the tree but can return nil ("+why+"): the caller, told it gets the attribute or block back, dereferences nil")
	}
	c.Floor("mutator.result methods", n, 3, "SetAttributeRaw / SetAttributeValue / SetAttributeTraversal / AppendBlock / AppendNewBlock")
}

// R6 append.newline: an item appended by the editing API starts on a line of its own.
func c12AppendNewline(c *Ctx) {
	c.Rule("R6 append.newline: hclwrite.Body.appendItem (behind SetAttribute*, AppendBlock, AppendNewBlock) calls, on every path before it appends, a function of the package that appends a newline token exactly when the last token of the body's existing content does not end a line by the formatter's own predicate tokenIsNewline (a newline token, or a single-line comment that carries its newline); the loader's appendItemNode makes no such call (loading reproduces its input)")
	ai := c.P.LookupFunc("hclwrite", "Body.appendItem")
	ain := c.P.LookupFunc("hclwrite", "Body.appendItemNode")
	tin := c.P.LookupFunc("hclwrite", "tokenIsNewline")
	anl := c.P.LookupFunc("hclwrite", "Body.AppendNewline")
	if ai == nil || ain == nil || tin == nil || anl == nil {
		c.CheckerFail("append.newline", "anchor Body.appendItem / appendItemNode / tokenIsNewline / AppendNewline does not resolve")
		return
	}
	c.Fn(FuncName(ai))
	// a terminating helper: appends a newline on the not-a-line-end edge of tokenIsNewline(last token),
	// and nowhere else
	var isLastToken func(v ssa.Value, fn *ssa.Function, d int) bool
	isLastToken = func(v ssa.Value, fn *ssa.Function, d int) bool {
		if d > 4 {
			return false
		}
		switch x := v.(type) {
		case *ssa.UnOp:
			if ia, isIA := x.X.(*ssa.IndexAddr); isIA && x.Op == token.MUL {
				if lx, cc, ok := lenMinus(ia.Index); ok && cc == 1 {
					bc := &boundsCtx{fn: fn}
					return bc.sameSeq(lx, ia.X)
				}
			}
		case *ssa.Phi:
			n := 0
			for _, e := range x.Edges {
				if cn, ok := e.(*ssa.Const); ok && cn.IsNil() {
					continue
				}
				if !isLastToken(e, fn, d+1) {
					return false
				}
				n++
			}
			return n > 0
		case *ssa.Extract:
			if call, ok := x.Tuple.(*ssa.Call); ok {
				if g := call.Call.StaticCallee(); g != nil && inModule(g) && len(g.Blocks) > 0 {
					n := 0
					for _, gb := range g.Blocks {
						r, ok := gb.Instrs[len(gb.Instrs)-1].(*ssa.Return)
						if !ok || len(r.Results) <= x.Index {
							continue
						}
						if cn, ok := r.Results[x.Index].(*ssa.Const); ok && cn.IsNil() {
							continue
						}
						if !isLastToken(r.Results[x.Index], g, d+1) {
							return false
						}
						n++
					}
					return n > 0
				}
			}
		case *ssa.Call:
			if g := x.Call.StaticCallee(); g != nil && inModule(g) && len(g.Blocks) > 0 {
				n := 0
				for _, gb := range g.Blocks {
					r, ok := gb.Instrs[len(gb.Instrs)-1].(*ssa.Return)
					if !ok || len(r.Results) != 1 {
						continue
					}
					if cn, ok := r.Results[0].(*ssa.Const); ok && cn.IsNil() {
						continue
					}
					if !isLastToken(r.Results[0], g, d+1) {
						return false
					}
					n++
				}
				return n > 0
			}
		}
		return false
	}
	// (E-condeval with the atom P = tokenIsNewline(last token))
	terminates := func(h *ssa.Function) (bool, string) {
		if h == nil || len(h.Blocks) == 0 {
			return false, "no body"
		}
		var sites []*ssa.BasicBlock
		for _, b := range h.Blocks {
			for _, ins := range b.Instrs {
				if call, ok := ins.(*ssa.Call); ok && call.Call.StaticCallee() == anl {
					sites = append(sites, b)
				}
			}
		}
		if len(sites) == 0 {
			return false, "never appends a newline"
		}
		// every question asked of the predicate in this helper is about the last token
		nPred := 0
		for _, f := range append([]*ssa.Function{h}, moduleCallees(h, 1, map[*ssa.Function]bool{})...) {
			for _, b := range f.Blocks {
				for _, ins := range b.Instrs {
					if tc, ok := ins.(*ssa.Call); ok && tc.Call.StaticCallee() == tin && f != tin {
						nPred++
						if !isLastToken(tc.Call.Args[0], f, 0) {
							return false, "tokenIsNewline is asked of a token other than the last token of the existing content"
						}
					}
				}
			}
		}
		if nPred == 0 {
			return false, "a newline is appended on a condition other than !tokenIsNewline(last token)"
		}
		atoms := &condAtoms{pred: tin, strEq: map[string]string{}}
		atoms.assign = map[string]bool{"P": true}
		rt := atoms.run(h, 0)
		atoms.assign = map[string]bool{"P": false}
		rf := atoms.run(h, 0)
		anyF := false
		for _, b := range sites {
			if rt.reach[b] {
				return false, "a newline is appended on a condition other than !tokenIsNewline(last token): it is appended although the last token already ends the line"
			}
			if rf.reach[b] {
				anyF = true
			}
		}
		if !anyF {
			return false, "a newline is appended on a condition other than !tokenIsNewline(last token): never when the last token leaves the line unfinished"
		}
		return true, ""
	}
	// appendItem: an unconditional call of such a helper before the append
	var appendB *ssa.BasicBlock
	for _, b := range ai.Blocks {
		for _, ins := range b.Instrs {
			if call, ok := ins.(*ssa.Call); ok {
				if cal := call.Call.StaticCallee(); cal != nil && cal.Name() == "Append" && cal.Signature.Recv() != nil {
					appendB = b
				}
			}
		}
	}
	found, why := false, "appendItem calls no terminating helper before it appends"
	for _, b := range ai.Blocks {
		for _, ins := range b.Instrs {
			call, ok := ins.(*ssa.Call)
			if !ok {
				continue
			}
			h := call.Call.StaticCallee()
			if h == nil || fnPkg(h) == nil || fnPkg(h).Path() != hclwritePath || h == anl {
				continue
			}
			if ok2, w := terminates(h); ok2 {
				if b == ai.Blocks[0] && appendB != nil && (b == appendB || b.Dominates(appendB)) {
					found = true
				} else {
					why = "the terminating helper " + h.Name() + " is called only on some paths to the append"
				}
			} else if h.Name() != "Append" && h.Name() != "Add" && w != "never appends a newline" {
				why = h.Name() + ": " + w
			}
		}
	}
	c.Sites++
	c.Check(found, "append.newline", FuncName(ai)+":terminate", ai.Pos(), "existing content is terminated before an item is appended",
		why+": an item appended after content whose last line is unfinished (no final newline in the source, a trailing comment) lands on that line — the result does not parse, or the new item becomes part of the comment")
	// the loader does not normalise
	loaderClean := true
	for _, f := range moduleCallees(ain, 1, map[*ssa.Function]bool{}) {
		for _, b := range f.Blocks {
			for _, ins := range b.Instrs {
				if call, ok := ins.(*ssa.Call); ok && call.Call.StaticCallee() == anl {
					loaderClean = false
				}
			}
		}
	}
	c.Sites++
	c.Check(loaderClean, "append.newline", FuncName(ain)+":verbatim", ain.Pos(), "the loader appends nothing of its own",
		"appendItemNode, used while loading, can append a newline token: a loaded file would not be reproduced token for token")
}

// R7 accessor.readonly: the read accessors of the writer tree write no state of the tree.
var c12Readers = []string{
	"Attribute.Expr", "Block.Body", "Block.Labels", "Block.Type", "Body.Attributes", "Body.Blocks",
	"Body.FirstMatchingBlock", "Body.GetAttribute", "Expression.Variables", "File.Body", "blockLabels.Current",
	"node.BuildTokens", "Body.BuildTokens",
}

func c12AccessorReadonly(c *Ctx) {
	c.Rule("R7 accessor.readonly: the read accessors of hclwrite (" + strings.Join(c12Readers, ", ") + ") and everything they call inside the package store nothing into memory that is not freshly allocated by the call (E-effects: no field store, map update, delete, copy or sort whose target is reachable from the receiver): an accessor that keeps state (a cache of decoded labels, a lazily built index) answers from before a later edit unless every editing method resets it, which nothing checks (File.Bytes/WriteTo are not in the list: formatting assigns SpacesBefore of the tree's own tokens, by design)")
	roots := map[*ssa.Function]bool{}
	for _, n := range c12Readers {
		if fn := c.P.LookupFunc("hclwrite", n); fn != nil {
			roots[fn] = true
		}
	}
	if len(roots) < 8 {
		c.CheckerFail("accessor.readonly", fmt.Sprintf("only %d of the listed read accessors resolve", len(roots)))
		return
	}
	// a cache is in order when every editing method of the same type resets it
	editors := map[*ssa.Function]bool{}
	for _, n := range []string{"nodes.Clear", "nodes.Append", "nodes.AppendNode", "nodes.Insert", "nodes.InsertNode", "nodes.AppendUnstructuredTokens", "node.Detach", "node.ReplaceWith", "nodeSet.Add", "nodeSet.Remove", "nodeSet.Clear"} {
		if fn := c.P.LookupFunc("hclwrite", n); fn != nil {
			editors[fn] = true
		}
	}
	if len(editors) < 9 {
		c.CheckerFail("accessor.readonly", "the tree-editing primitives of hclwrite/node.go do not resolve")
		return
	}
	resetBy := func(fv *types.Var) (bool, string) {
		// the type that declares the field
		var missing []string
		n := 0
		for _, fn := range c.P.pkgFuncs("hclwrite") {
			if fn.Signature.Recv() == nil || len(fn.Params) == 0 || fn.Parent() != nil {
				continue
			}
			rt := fn.Params[0].Type()
			if p, ok := rt.Underlying().(*types.Pointer); ok {
				rt = p.Elem()
			}
			st, ok := rt.Underlying().(*types.Struct)
			if !ok {
				continue
			}
			owns := false
			for i := 0; i < st.NumFields(); i++ {
				if st.Field(i) == fv {
					owns = true
				}
			}
			if !owns {
				continue
			}
			edits, stores := false, false
			for _, b := range fn.Blocks {
				for _, ins := range b.Instrs {
					switch x := ins.(type) {
					case *ssa.Call:
						if cal := x.Call.StaticCallee(); cal != nil && editors[cal] {
							edits = true
						}
					case *ssa.Store:
						if fa, ok := x.Addr.(*ssa.FieldAddr); ok && fieldVarOf(fa.X.Type(), fa.Field) == fv {
							stores = true
						}
					}
				}
			}
			if edits {
				n++
				if !stores {
					missing = append(missing, FuncName(fn))
				}
			}
		}
		if len(missing) > 0 {
			return false, strings.Join(missing, ", ")
		}
		return n > 0, ""
	}
	nf, nw := runEffectsFiltered(c, "accessor.readonly", roots, map[string]bool{"hclwrite": true}, nil,
		"a read accessor changes the tree it reads, and not every method of that type that edits the tree resets what it stored: later reads answer from before the edit",
		func(w effWrite) (bool, string) {
			// BuildTokens(to) appends to the caller's token slice: its contract
			if w.kind == "append" {
				return true, ""
			}
			if !w.fresh && w.field != nil {
				if ok, _ := resetBy(w.field); ok {
					return false, "a cache: every method of the type that edits the tree assigns this field too"
				}
			}
			return false, ""
		})
	c.Floor("accessor.readonly functions", nf, 15, "the accessors and the BuildTokens implementations they reach")
	_ = nw
}
