package main

import (
	"fmt"
	"go/ast"
	"go/constant"
	"go/token"
	"go/types"
	"sort"
	"strings"

	"golang.org/x/tools/go/ssa"
)

func init() { register("C09", checkC09) }

func checkC09(c *Ctx) {
	c09WriteSet(c)
	c09WriteTo(c)
	c09PassOrder(c)
	c09SpaceTable(c)
	c09Verbatim(c)
	c09OutputBuffer(c)
	c.NotCovered("idempotence as such and the alignment arithmetic of formatCells; that the output still parses to equal values")
}

// functions reachable from the given roots through static calls and closures, within hclwrite
func hclwriteReach(c *Ctx, roots ...*ssa.Function) []*ssa.Function {
	seen := map[*ssa.Function]bool{}
	var out []*ssa.Function
	var visit func(f *ssa.Function)
	visit = func(f *ssa.Function) {
		if f == nil || seen[f] || len(f.Blocks) == 0 {
			return
		}
		pk := fnPkg(f)
		if pk == nil || pk.Path() != hclwritePath {
			return
		}
		seen[f] = true
		out = append(out, f)
		for _, b := range f.Blocks {
			for _, ins := range b.Instrs {
				switch x := ins.(type) {
				case *ssa.Call:
					visit(staticCallee(&x.Call))
				case *ssa.MakeClosure:
					if fn, ok := x.Fn.(*ssa.Function); ok {
						visit(fn)
					}
				}
			}
		}
	}
	for _, r := range roots {
		visit(r)
	}
	sort.Slice(out, func(i, j int) bool { return out[i].Pos() < out[j].Pos() })
	return out
}

// R1
func c09WriteSet(c *Ctx) {
	c.Rule("R1 writeset: in every function reachable from hclwrite.format (linesForFormat, formatIndent, formatSpaces, formatCells, spaceAfterToken, tokenBracketChange, Tokens.Columns, …) the only store into a Token is to its SpacesBefore field; no element of a Tokens slice is overwritten, no Tokens slice is appended to, and no byte of Token.Bytes is written")
	root := c.P.LookupFunc("hclwrite", "format")
	if root == nil {
		c.CheckerFail("writeset", "anchor hclwrite.format does not resolve")
		return
	}
	fns := hclwriteReach(c, root)
	nStores := 0
	for _, fn := range fns {
		name := FuncName(fn)
		c.Fn(name)
		for _, b := range fn.Blocks {
			for _, ins := range b.Instrs {
				switch x := ins.(type) {
				case *ssa.Store:
					switch a := x.Addr.(type) {
					case *ssa.FieldAddr:
						if isNamed(a.X.Type(), hclwritePath, "Token") {
							nStores++
							fv := fieldVarOf(a.X.Type(), a.Field)
							// a token allocated locally (placeholder) may be initialised freely
							if al, ok := a.X.(*ssa.Alloc); ok && strings.Contains(al.Comment, "complit") {
								c.OK("writeset", name+":store[Token."+fv.Name()+"]", x.Pos(), "initialisation of a local placeholder token")
								continue
							}
							c.Check(fv.Name() == "SpacesBefore", "writeset", name+":store[Token."+fv.Name()+"]", x.Pos(), "only spacing is changed",
								"the formatter writes Token."+fv.Name()+": formatting must change nothing but the spaces before tokens")
						}
					case *ssa.IndexAddr:
						et := sliceElem(a.X.Type())
						if p, ok := et.(*types.Pointer); ok && isNamed(p.Elem(), hclwritePath, "Token") {
							nStores++
							// writing into a []*Token: allowed only for slices made in this function
							if _, fresh := a.X.(*ssa.MakeSlice); !fresh {
								c.Fail("writeset", name+":store[Tokens[i]]", x.Pos(), "the formatter replaces an element of a token slice: a token is dropped, duplicated or reordered")
							}
						}
						if b, ok := et.Underlying().(*types.Basic); ok && b.Kind() == types.Uint8 {
							if lf := loadedField(a.X); lf != nil && lf.Name() == "Bytes" {
								nStores++
								c.Fail("writeset", name+":store[Token.Bytes[i]]", x.Pos(), "the formatter writes a byte of a token's content")
							}
						}
					}
				case *ssa.Call:
					if bi, ok := x.Call.Value.(*ssa.Builtin); ok && bi.Name() == "append" {
						if isNamed(x.Type(), hclwritePath, "Tokens") {
							nStores++
							c.Fail("writeset", name+":append[Tokens]", x.Pos(), "the formatter appends to a token sequence: tokens are added or the caller's backing array is overwritten")
						}
					}
				}
			}
		}
	}
	c.Floor("writeset functions", len(fns), 6, "format, linesForFormat, formatIndent, formatSpaces, formatCells (+2 closures), spaceAfterToken, tokenBracketChange, tokenIsNewline, Columns")
	c.Floor("writeset stores", nStores, 3, "SpacesBefore stores in formatIndent, formatSpaces, formatCells")
}

// R2
func c09WriteTo(c *Ctx) {
	c.Rule("R2 writeto: Tokens.WriteTo passes to wr.Write only slices of its local all-spaces buffer and token.Bytes; hclwrite.Format is lexConfig → format → Tokens.WriteTo/Bytes, File.WriteTo is BuildTokens → format → WriteTo; writerTokens copies Type and Bytes of every native token verbatim")
	wt := c.P.LookupFunc("hclwrite", "Tokens.WriteTo")
	if wt == nil {
		c.CheckerFail("writeto", "anchor Tokens.WriteTo does not resolve")
		return
	}
	c.Fn(FuncName(wt))
	n := 0
	repeatSpaces := false
	for _, b := range wt.Blocks {
		for _, ins := range b.Instrs {
			call, ok := ins.(*ssa.Call)
			if !ok || !call.Call.IsInvoke() || call.Call.Method.Name() != "Write" {
				continue
			}
			n++
			arg := call.Call.Args[0]
			what := ""
			switch a := arg.(type) {
			case *ssa.Slice:
				if isFreshByteBuf(a) {
					what = "spaces"
				}
				if repeatedSpaces(a) {
					what = "spaces"
					repeatSpaces = true
				}
			case *ssa.UnOp:
				if lf := loadedField(a); lf != nil && lf.Name() == "Bytes" {
					what = "token.Bytes"
				}
			}
			c.Check(what != "", "writeto", FuncName(wt)+":Write["+fmt.Sprint(n)+"]", call.Pos(), "writes "+what,
				"WriteTo writes something other than spaces or the bytes of a token")
		}
	}
	c.Floor("writeto writes", n, 2, "spaces and token bytes")
	paddingBounded(c, "writeto")
	// the spaces buffer holds only ' '
	okSpaces := false
	for _, b := range wt.Blocks {
		for _, ins := range b.Instrs {
			if st, ok := ins.(*ssa.Store); ok {
				if ia, ok := st.Addr.(*ssa.IndexAddr); ok {
					if isFreshByteBuf(ia.X) {
						if v, ok := constInt(st.Val); ok && v == ' ' {
							okSpaces = true
						} else {
							c.Fail("writeto", FuncName(wt)+":spaces", st.Pos(), "the padding buffer is filled with something other than ' '")
						}
					}
				}
			}
		}
	}
	c.Check(okSpaces || repeatSpaces, "writeto", FuncName(wt)+":spaces-buffer", wt.Pos(), "padding buffer is all spaces", "the padding buffer is not initialised to spaces")
	// Format / File.WriteTo composition
	for _, spec := range []struct{ fn, must string }{{"Format", "format"}, {"File.WriteTo", "format"}, {"File.Bytes", "WriteTo"}} {
		fn := c.P.LookupFunc("hclwrite", spec.fn)
		if fn == nil {
			c.CheckerFail("writeto", "anchor hclwrite."+spec.fn+" does not resolve")
			continue
		}
		c.Fn(FuncName(fn))
		found := false
		for _, r := range hclwriteReach(c, fn) {
			if r.Name() == spec.must {
				found = true
			}
		}
		c.Check(found, "writeto", "hclwrite."+spec.fn+":uses["+spec.must+"]", fn.Pos(), "goes through "+spec.must, spec.fn+" no longer goes through "+spec.must)
	}
	// writerTokens copies Type and Bytes verbatim
	wtk := c.P.LookupFunc("hclwrite", "writerTokens")
	if wtk == nil {
		c.CheckerFail("writeto", "anchor writerTokens does not resolve")
		return
	}
	c.Fn(FuncName(wtk))
	copied := map[string]bool{}
	for _, b := range wtk.Blocks {
		for _, ins := range b.Instrs {
			st, ok := ins.(*ssa.Store)
			if !ok {
				continue
			}
			fa, ok := st.Addr.(*ssa.FieldAddr)
			if !ok || !isNamed(fa.X.Type(), hclwritePath, "Token") {
				continue
			}
			fv := fieldVarOf(fa.X.Type(), fa.Field)
			src := ""
			for f := range fieldTrail(st.Val) {
				if f.Pkg() != nil && f.Pkg().Path() == hclsyntaxPath {
					src = f.Name()
				}
			}
			// a fresh buffer filled by copy(buf, nativeToken.Bytes)
			if src == "" && isFreshByteBuf(st.Val) {
				for _, r := range *st.Val.Referrers() {
					if call, ok := r.(*ssa.Call); ok {
						if bi, ok := call.Call.Value.(*ssa.Builtin); ok && bi.Name() == "copy" && call.Call.Args[0] == st.Val {
							for f := range fieldTrail(call.Call.Args[1]) {
								if f.Pkg() != nil && f.Pkg().Path() == hclsyntaxPath {
									src = f.Name()
								}
							}
						}
					}
				}
			}
			if src == fv.Name() {
				copied[fv.Name()] = true
			}
		}
	}
	for _, f := range []string{"Type", "Bytes"} {
		c.Check(copied[f], "writeto", "hclwrite.writerTokens:copy["+f+"]", wtk.Pos(), f+" copied from the native token", "writerTokens does not copy "+f+" verbatim from the native token")
	}
}

// R4: a pass that reads the spacing another pass writes runs after it.
func c09PassOrder(c *Ctx) {
	c.Rule("R4 passorder: in hclwrite.format, a pass that reads the width of a cell (Tokens.Columns over formatLine.lead/assign, which sums SpacesBefore) is called after every pass that writes SpacesBefore of tokens of that cell (read-after-write order of the passes; otherwise alignment is computed from stale spacing and a second format changes the result)")
	root := c.P.LookupFunc("hclwrite", "format")
	if root == nil {
		c.CheckerFail("passorder", "anchor hclwrite.format does not resolve")
		return
	}
	c.Fn(FuncName(root))
	type passInfo struct {
		fn     *ssa.Function
		writes map[string]bool // cell names whose tokens get SpacesBefore written
		reads  map[string]bool // cell names measured with Columns()
		pos    token.Pos
	}
	cellsOf := func(v ssa.Value) map[string]bool {
		out := map[string]bool{}
		for fv := range fieldTrail(v) {
			if fv.Pkg() != nil && fv.Pkg().Path() == hclwritePath && (fv.Name() == "lead" || fv.Name() == "assign" || fv.Name() == "comment") {
				out[fv.Name()] = true
			}
		}
		return out
	}
	var passes []passInfo
	for _, b := range root.Blocks {
		for _, ins := range b.Instrs {
			call, ok := ins.(*ssa.Call)
			if !ok {
				continue
			}
			cal := staticCallee(&call.Call)
			if cal == nil || fnPkg(cal) == nil || fnPkg(cal).Path() != hclwritePath {
				continue
			}
			pi := passInfo{fn: cal, writes: map[string]bool{}, reads: map[string]bool{}, pos: call.Pos()}
			for _, f := range hclwriteReach(c, cal) {
				for _, b2 := range f.Blocks {
					for _, i2 := range b2.Instrs {
						switch x := i2.(type) {
						case *ssa.Store:
							if fa, ok := x.Addr.(*ssa.FieldAddr); ok && isNamed(fa.X.Type(), hclwritePath, "Token") {
								if fv := fieldVarOf(fa.X.Type(), fa.Field); fv != nil && fv.Name() == "SpacesBefore" {
									for cn := range cellsOf(fa.X) {
										pi.writes[cn] = true
									}
								}
							}
						case *ssa.Call:
							if c2 := staticCallee(&x.Call); c2 != nil && c2.Name() == "Columns" && len(x.Call.Args) > 0 {
								for cn := range cellsOf(x.Call.Args[0]) {
									pi.reads[cn] = true
								}
							}
						}
					}
				}
			}
			passes = append(passes, pi)
		}
	}
	n := 0
	for i, reader := range passes {
		for cell := range reader.reads {
			for j, writer := range passes {
				if !writer.writes[cell] || j == i {
					continue
				}
				n++
				// a pass both reading and writing the same cell is its own business
				key := fmt.Sprintf("hclwrite.format:%s-reads[%s]-after-%s", reader.fn.Name(), cell, writer.fn.Name())
				c.Check(j < i, "passorder", key, reader.pos, "reader runs after the writer",
					fmt.Sprintf("%s measures the %s cell with Columns() but runs before %s, which rewrites the spacing of that cell: alignment is computed from the source's spacing and formatting is not idempotent", reader.fn.Name(), cell, writer.fn.Name()))
			}
		}
	}
	c.Floor("passorder passes", len(passes), 4, "linesForFormat, formatIndent, formatSpaces, formatCells")
	c.Floor("passorder dependencies", n, 2, "formatCells reads lead (written by formatIndent, formatSpaces) and assign (written by formatSpaces)")
}

// R3: decision table of spaceAfterToken.
func c09SpaceTable(c *Ctx) {
	c.Rule("R3 spacetable: the decision table of spaceAfterToken(subject, before, after), obtained by interpreting its syntax tree over all token types (and both outcomes of the `in` keyword test), returns true for every pair that would lex differently when juxtaposed (Ident|NumberLit followed by Ident|NumberLit; Ident followed by Minus) and false for every pair inside template content (OQuote|OHeredoc|QuotedLit|StringLit|TemplateSeqEnd followed by QuotedLit|StringLit|CQuote|CHeredoc|TemplateInterp|TemplateControl), for every `before`; a dot between two number literals must keep a separating space on one side")
	fd, pkg := c.P.LookupDecl("hclwrite", "spaceAfterToken")
	if fd == nil {
		c.CheckerFail("spacetable", "anchor hclwrite.spaceAfterToken does not resolve")
		return
	}
	c.Fn(declName(pkg, fd))
	if len(fd.Type.Params.List) == 0 {
		c.CheckerFail("spacetable", "spaceAfterToken has no parameters")
		return
	}
	var pnames []string
	for _, fl := range fd.Type.Params.List {
		for _, nm := range fl.Names {
			pnames = append(pnames, nm.Name)
		}
	}
	if len(pnames) != 3 {
		c.CheckerFail("spacetable", "spaceAfterToken does not take (subject, before, after)")
		return
	}
	// token type universe
	hs := c.P.Pkg("hclsyntax")
	tt := hs.Types.Scope().Lookup("TokenType")
	if tt == nil {
		c.CheckerFail("spacetable", "hclsyntax.TokenType does not resolve")
		return
	}
	types_ := map[string]constant.Value{}
	var names []string
	for _, n := range hs.Types.Scope().Names() {
		if cn, ok := hs.Types.Scope().Lookup(n).(*types.Const); ok && types.Identical(cn.Type(), tt.Type()) {
			types_[n] = cn.Val()
			names = append(names, n)
		}
	}
	sort.Strings(names)
	c.Floor("spacetable token types", len(names), 50, "hclsyntax token type constants")
	in := &tvInterp{p: c.P, pkg: pkg, identTy: types_["TokenIdent"]}
	decide := func(subj, before, after string, kw bool) (bool, bool) {
		env := &tvEnv{toks: map[string]*tvToken{
			pnames[0]: {typ: types_[subj]},
			pnames[1]: {typ: types_[before]},
			pnames[2]: {typ: types_[after]},
		}, kw: kw}
		v, returned := in.exec(fd.Body.List, env)
		if in.err != "" || !returned || v.c == nil || v.c.Kind() != constant.Bool {
			return false, false
		}
		return constant.BoolVal(v.c), true
	}
	word := []string{"TokenIdent", "TokenNumberLit"}
	tmplSubj := []string{"TokenOQuote", "TokenOHeredoc", "TokenQuotedLit", "TokenStringLit", "TokenTemplateSeqEnd"}
	tmplAfter := []string{"TokenQuotedLit", "TokenStringLit", "TokenCQuote", "TokenCHeredoc", "TokenTemplateInterp", "TokenTemplateControl"}
	evals := 0
	checkPair := func(rule, subj, after string, want bool, why string) {
		var badBefore []string
		for _, before := range names {
			for _, kw := range []bool{false, true} {
				if kw && subj != "TokenIdent" {
					continue
				}
				evals++
				got, ok := decide(subj, before, after, kw)
				if !ok {
					return
				}
				if got != want {
					badBefore = append(badBefore, before)
					break
				}
			}
		}
		key := fmt.Sprintf("hclwrite.spaceAfterToken:%s[%s,%s]", rule, strings.TrimPrefix(subj, "Token"), strings.TrimPrefix(after, "Token"))
		if len(badBefore) > 0 {
			ex := badBefore[0]
			c.Fail("spacetable", key, fd.Pos(), fmt.Sprintf("%s: spaceAfterToken(%s, before=%s, %s) = %v", why, subj, ex, after, !want))
		} else {
			c.OK("spacetable", key, fd.Pos(), "")
		}
	}
	for _, s := range word {
		for _, a := range word {
			checkPair("mustspace", s, a, true, "two word-like tokens would be glued into one token")
		}
	}
	checkPair("mustspace", "TokenIdent", "TokenMinus", true, "`-` continues an identifier: the identifier would swallow the minus")
	for _, s := range tmplSubj {
		for _, a := range tmplAfter {
			checkPair("nospace", s, a, false, "a space inserted here becomes part of the string content")
		}
	}
	// NumberLit . NumberLit: at least one side of the dot must keep a space
	{
		l, ok1 := decide("TokenNumberLit", "TokenEqual", "TokenDot", false)
		r, ok2 := decide("TokenDot", "TokenNumberLit", "TokenNumberLit", false)
		evals += 2
		if ok1 && ok2 {
			c.Check(l || r, "spacetable", "hclwrite.spaceAfterToken:numdot[NumberLit,Dot,NumberLit]", fd.Pos(), "",
				"both spaces around a dot between two number literals are removed: `1 .2` becomes `1.2`, a single number token")
		}
	}
	if in.err != "" {
		c.Undecided("spacetable", "hclwrite.spaceAfterToken:interpret", fd.Pos(), "the predicate uses a construct the table evaluator does not accept: "+in.err)
	}
	c.Sites += evals
	c.Floor("spacetable evaluations", evals, 1000, "pairs × all `before` types")
	_ = ast.IsExported
}

// isFreshByteBuf: a byte slice made in this function (make([]byte, n) in either SSA form), or a re-slice of one.
// repeatedSpaces: v is (a slice of) bytes.Repeat(<only ' ' bytes>, n).
func repeatedSpaces(v ssa.Value) bool {
	for i := 0; i < 6; i++ {
		if sl, ok := v.(*ssa.Slice); ok {
			v = sl.X
			continue
		}
		break
	}
	call, ok := v.(*ssa.Call)
	if !ok {
		return false
	}
	cal := call.Call.StaticCallee()
	if cal == nil || cal.Pkg == nil || cal.Pkg.Pkg.Path() != "bytes" || cal.Name() != "Repeat" {
		return false
	}
	switch a := call.Call.Args[0].(type) {
	case *ssa.Slice: // []byte{' ', ...}
		al, ok := a.X.(*ssa.Alloc)
		if !ok {
			return false
		}
		sts := storesInto(al)
		for _, st := range sts {
			if n, ok := constInt(st.Val); !ok || n != ' ' {
				return false
			}
		}
		return len(sts) > 0
	case *ssa.Convert: // []byte(" ")
		if cn, ok := a.X.(*ssa.Const); ok && cn.Value != nil && cn.Value.Kind() == constant.String {
			str := constant.StringVal(cn.Value)
			return str != "" && strings.Trim(str, " ") == ""
		}
	}
	return false
}

func isFreshByteBuf(v ssa.Value) bool {
	for i := 0; i < 6; i++ {
		switch x := v.(type) {
		case *ssa.MakeSlice:
			return true
		case *ssa.Slice:
			v = x.X
			continue
		case *ssa.Alloc:
			return x.Comment == "makeslice"
		}
		return false
	}
	return false
}

// boundedByLen: h <= len(buf) on every path reaching block at.
func boundedByLen(h, buf ssa.Value, at *ssa.BasicBlock, depth int) bool {
	if depth > 6 {
		return false
	}
	isLen := func(v ssa.Value) bool {
		call, ok := v.(*ssa.Call)
		if !ok {
			return false
		}
		bi, ok := call.Call.Value.(*ssa.Builtin)
		return ok && bi.Name() == "len" && (call.Call.Args[0] == buf || sameValue(call.Call.Args[0], buf))
	}
	if isLen(h) {
		return true
	}
	if n, ok := constInt(h); ok {
		// the buffer's size when it is a constant
		if mk, ok := buf.(*ssa.MakeSlice); ok {
			if sz, ok := constInt(mk.Len); ok {
				return n <= sz
			}
		}
		if al, ok := buf.(*ssa.Slice); ok {
			if a, ok := al.X.(*ssa.Alloc); ok {
				if arr, ok := a.Type().(*types.Pointer).Elem().Underlying().(*types.Array); ok {
					return n <= arr.Len()
				}
			}
		}
		return n == 0
	}
	// a test "h <= len(buf)" that holds on the way to block b through edge (p -> b)
	edgeHolds := func(v ssa.Value, p, to *ssa.BasicBlock) bool {
		check := func(blk, succ *ssa.BasicBlock) bool {
			iff, ok := lastIf(blk)
			if !ok {
				return false
			}
			bo, ok := iff.Cond.(*ssa.BinOp)
			if !ok {
				return false
			}
			var leOnTrue, known bool
			switch {
			case bo.X == v && isLen(bo.Y):
				switch bo.Op {
				case token.GTR:
					leOnTrue, known = false, true
				case token.LEQ, token.LSS:
					leOnTrue, known = true, true
				}
			case bo.Y == v && isLen(bo.X):
				switch bo.Op {
				case token.LSS:
					leOnTrue, known = false, true
				case token.GEQ, token.GTR:
					leOnTrue, known = true, true
				}
			}
			if !known || blk.Succs[0] == blk.Succs[1] {
				return false
			}
			if leOnTrue {
				return blk.Succs[0] == succ
			}
			return blk.Succs[1] == succ
		}
		if check(p, to) {
			return true
		}
		for d := p; d != nil && d.Idom() != nil; d = d.Idom() {
			if len(d.Preds) == 1 && check(d.Idom(), d) {
				return true
			}
		}
		return false
	}
	if phi, ok := h.(*ssa.Phi); ok {
		for i, e := range phi.Edges {
			if boundedByLen(e, buf, phi.Block().Preds[i], depth+1) || edgeHolds(e, phi.Block().Preds[i], phi.Block()) {
				continue
			}
			return false
		}
		return len(phi.Edges) > 0
	}
	// dominated by a test on h itself
	for d := at; d != nil && d.Idom() != nil; d = d.Idom() {
		if len(d.Preds) == 1 && edgeHolds(h, d.Idom(), d) {
			return true
		}
	}
	return false
}

// paddingBounded: every slice of WriteTo's fixed-size padding buffer is bounded by its length.
func paddingBounded(c *Ctx, rule string) {
	wt := c.P.LookupFunc("hclwrite", "Tokens.WriteTo")
	if wt == nil {
		c.CheckerFail(rule, "anchor Tokens.WriteTo does not resolve")
		return
	}
	c.Fn(FuncName(wt))
	// every slice of the fixed-size padding buffer is bounded by its length
	nb := 0
	for _, b := range wt.Blocks {
		for _, ins := range b.Instrs {
			sl, ok := ins.(*ssa.Slice)
			if !ok || sl.High == nil || !(isFreshByteBuf(sl.X) || repeatedSpaces(sl.X)) {
				continue
			}
			if _, isArr := sl.X.Type().Underlying().(*types.Pointer); isArr {
				continue // make([]byte, N) itself
			}
			nb++
			c.Sites++
			c.Check(boundedByLen(sl.High, sl.X, b, 0), rule, FuncName(wt)+":slice[padding]", sl.Pos(), "upper bound clamped to the buffer's length",
				"the padding buffer is sliced with an upper bound that is not clamped to its length: a token preceded by more spaces than the buffer holds makes WriteTo panic (slice bounds out of range)")
		}
	}
	c.Floor(rule+" padding slices", nb, 1, "spaces[:thisChunk]")
}

// R5 verbatim: the command-line formatter hands the formatted bytes on as they are.
func c09Verbatim(c *Ctx) {
	c.Rule("R5 verbatim: in cmd/hclfmt and hclwrite no call of a printf-style function (a fmt or log function with a `format string` parameter) has a format made from a byte slice (string(b), concatenations and Sprint of it), and at least one call writes the result of hclwrite.Format with Write/WriteFile: formatted source is data, never a format string (every % in it — template directives, the modulo operator, format() calls — would be interpreted)")
	n, writes := 0, 0
	format := c.P.LookupFunc("hclwrite", "Format")
	for _, fn := range c.P.pkgFuncs("cmd/hclfmt", "hclwrite") {
		for _, b := range fn.Blocks {
			for _, ins := range b.Instrs {
				call, ok := ins.(*ssa.Call)
				if !ok {
					continue
				}
				cal := call.Call.StaticCallee()
				if cal == nil || cal.Pkg == nil {
					if call.Call.IsInvoke() && call.Call.Method.Name() == "Write" && shortPkg(fnPkg(fn).Path()) == "cmd/hclfmt" {
						writes++
					}
					continue
				}
				if (cal.Name() == "Write" || cal.Name() == "WriteFile") && shortPkg(fnPkg(fn).Path()) == "cmd/hclfmt" {
					writes++
				}
				pp := cal.Pkg.Pkg.Path()
				if pp != "fmt" && pp != "log" {
					continue
				}
				ps := cal.Signature.Params()
				for i := 0; i < ps.Len(); i++ {
					if ps.At(i).Name() != "format" {
						continue
					}
					ai := i
					if cal.Signature.Recv() != nil {
						ai++
					}
					n++
					c.Sites++
					fromBytes := formatFromBytes(call.Call.Args[ai], map[ssa.Value]bool{}, 0)
					c.Check(!fromBytes, "verbatim", FuncName(fn)+":"+cal.Name()+"[format]", call.Pos(), "the format is not made from source bytes",
						"a string made from a byte slice (source text) is used as a printf format: every % in it is interpreted and the output is no longer the formatted tokens")
				}
			}
		}
	}
	_ = format
	c.Floor("verbatim printf calls", n, 3, "messages of hclfmt and hclwrite")
	c.Floor("verbatim raw writes in cmd/hclfmt", writes, 1, "os.Stdout.Write / os.WriteFile of the formatted bytes")
}

// formatFromBytes: the string is (made from) a conversion of a []byte.
func formatFromBytes(v ssa.Value, seen map[ssa.Value]bool, d int) bool {
	if v == nil || seen[v] || d > 12 {
		return false
	}
	seen[v] = true
	switch x := v.(type) {
	case *ssa.Convert:
		if sl, ok := x.X.Type().Underlying().(*types.Slice); ok {
			if bt, ok := sl.Elem().Underlying().(*types.Basic); ok && bt.Kind() == types.Uint8 {
				return true
			}
		}
		return formatFromBytes(x.X, seen, d+1)
	case *ssa.ChangeType:
		return formatFromBytes(x.X, seen, d+1)
	case *ssa.Phi:
		for _, e := range x.Edges {
			if formatFromBytes(e, seen, d+1) {
				return true
			}
		}
	case *ssa.BinOp:
		return formatFromBytes(x.X, seen, d+1) || formatFromBytes(x.Y, seen, d+1)
	case *ssa.Call:
		for _, a := range x.Call.Args {
			if formatFromBytes(a, seen, d+1) {
				return true
			}
		}
	case *ssa.MakeInterface:
		return formatFromBytes(x.X, seen, d+1)
	case *ssa.Slice:
		return formatFromBytes(x.X, seen, d+1)
	case *ssa.UnOp:
		if al, ok := x.X.(*ssa.Alloc); ok && x.Op == token.MUL {
			for _, st := range storesInto(al) {
				if formatFromBytes(st.Val, seen, d+1) {
					return true
				}
			}
		}
	case *ssa.Alloc:
		for _, st := range storesInto(x) {
			if formatFromBytes(st.Val, seen, d+1) {
				return true
			}
		}
	case *ssa.IndexAddr:
		return formatFromBytes(x.X, seen, d+1)
	}
	return false
}

// R6 output.buffer: what Format and File.Bytes return is what WriteTo wrote, in a buffer of their own.
func c09OutputBuffer(c *Ctx) {
	c.Rule("R6 output.buffer: hclwrite.Format and (*File).Bytes return the result of Bytes() of a bytes.Buffer that the function itself allocated (a fresh local, not a pooled or package-level buffer) and that was handed to WriteTo — nothing trims, slices or re-encodes the rendered bytes afterwards (the only bytes of the output that are not token bytes are the SpacesBefore the formatter assigned), and the result cannot be overwritten by a later call")
	n := 0
	for _, name := range []string{"Format", "File.Bytes"} {
		fn := c.P.LookupFunc("hclwrite", name)
		if fn == nil {
			c.CheckerFail("output.buffer", "anchor hclwrite."+name+" does not resolve")
			continue
		}
		c.Fn(FuncName(fn))
		// what a function returns: "" if it is Bytes() of a local buffer written by WriteTo (directly,
		// or as the result of a helper of the package of which the same holds), else the reason
		var judge func(f *ssa.Function, v ssa.Value, d int) string
		judge = func(f *ssa.Function, v ssa.Value, d int) string {
			call, ok := v.(*ssa.Call)
			cal := (*ssa.Function)(nil)
			if ok {
				cal = call.Call.StaticCallee()
			}
			if cal != nil && inModule(cal) && fnPkg(cal) == fnPkg(f) && len(cal.Blocks) > 0 && d < 2 && cal.Signature.Results().Len() == 1 {
				c.Fn(FuncName(cal))
				for _, hb := range cal.Blocks {
					if hr, ok := hb.Instrs[len(hb.Instrs)-1].(*ssa.Return); ok && len(hr.Results) == 1 {
						if why := judge(cal, hr.Results[0], d+1); why != "" {
							return why
						}
					}
				}
				return ""
			}
			if cal == nil || cal.Name() != "Bytes" || cal.Pkg == nil || cal.Pkg.Pkg.Path() != "bytes" || len(call.Call.Args) != 1 {
				return "the result is not the Bytes() of the buffer WriteTo wrote (" + pathName(v) + "): the rendered bytes are altered after rendering (trimmed, sliced, copied through something else)"
			}
			buf := call.Call.Args[0]
			al, isLocal := buf.(*ssa.Alloc)
			if !isLocal {
				return "the buffer whose bytes are returned is not allocated by this call (" + pathName(buf) + "): a pooled or shared buffer is reused, and the slice handed to the caller is overwritten by the next call"
			}
			for _, r := range *al.Referrers() {
				if wc, ok := r.(*ssa.Call); ok && wc != call {
					if w := wc.Call.StaticCallee(); w != nil && w.Name() == "WriteTo" && inModule(w) {
						return ""
					}
				}
				if mi, ok := r.(*ssa.MakeInterface); ok {
					for _, r2 := range *mi.Referrers() {
						if wc, ok := r2.(*ssa.Call); ok {
							if w := wc.Call.StaticCallee(); w != nil && w.Name() == "WriteTo" && inModule(w) {
								return ""
							}
						}
					}
				}
			}
			return "the buffer whose bytes are returned is not the one handed to WriteTo"
		}
		for _, b := range fn.Blocks {
			ret, ok := b.Instrs[len(b.Instrs)-1].(*ssa.Return)
			if !ok || len(ret.Results) != 1 {
				continue
			}
			n++
			c.Sites++
			key := FuncName(fn) + ":result"
			why := judge(fn, ret.Results[0], 0)
			c.Check(why == "", "output.buffer", key, ret.Pos(), "Bytes() of a local buffer written by WriteTo", why)
		}
	}
	c.Floor("output.buffer returns", n, 2, "Format and File.Bytes")
}
