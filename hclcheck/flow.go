package main

import (
	"fmt"
	"go/constant"
	"go/token"
	"go/types"
	"strings"

	"golang.org/x/tools/go/ssa"
)

// E-flow: mark / content information flow over SSA (C06).
//
// For one "boundary" function the engine finds every operand source (results of
// sub-expression evaluations, cty.Value/ValueMarks parameters, value fields read
// from the receiver) and gives each its own label. Two may-analyses compute, for
// every SSA value, the labels whose content (C) and whose marks (M) may flow into
// it. Then, per label, a path-conditioned MUST analysis ("S": values that
// definitely carry the label's marks on every path from the source) is run
// forward from the source; joins intersect over the predecessors reachable from
// the source only, so "the loop body did not run" is not a counter-example for an
// operand that is only evaluated inside the loop. Requirements at every
// non-error return r reachable from the source of label L:
//   Rq1 (explicit)  L ∈ C(result_r)                                  ⇒ result_r ∈ S_L
//   Rq2 (control)   r reachable from an `if` whose condition has L∈C ⇒ result_r ∈ S_L

type lbits [4]uint64

func (a lbits) or(b lbits) lbits {
	return lbits{a[0] | b[0], a[1] | b[1], a[2] | b[2], a[3] | b[3]}
}
func (a lbits) has(i int) bool { return a[i/64]&(1<<uint(i%64)) != 0 }
func (a lbits) zero() bool     { return a[0]|a[1]|a[2]|a[3] == 0 }
func bit(i int) lbits {
	var b lbits
	b[i/64] = 1 << uint(i%64)
	return b
}

const maxLabels = 256

type flowSrc struct {
	idx   int
	v     ssa.Value
	ins   ssa.Instruction // defining instruction; nil = function entry (parameter)
	name  string
	block *ssa.BasicBlock
}

type flowFn struct {
	p     *Program
	fn    *ssa.Function
	srcs  []*flowSrc
	src   map[ssa.Value]int
	C, M  map[ssa.Value]lbits
	err   string
	um    *unmarkedEngine
	flags *flagSet
}

type flowViolation struct {
	ret    *ssa.Return
	src    *flowSrc
	rule   string // Rq1 | Rq2
	why    string
	retEx  string
	anchor string
}

type flowResult struct {
	fn         *ssa.Function
	returns    int
	errReturns int
	sources    []string
	viol       []flowViolation
	retDesc    map[*ssa.Return]string
	checked    []*ssa.Return
	err        string
}

// valueLike: type through which cty values or marks travel.
func valueLike(t types.Type) bool { return valueLikeDepth(t, 0) }

func valueLikeDepth(t types.Type, d int) bool {
	if d > 4 {
		return false
	}
	if n := namedOf(t); n != nil && n.Obj().Pkg() != nil {
		pk, nm := n.Obj().Pkg().Path(), n.Obj().Name()
		if pk == ctyPath {
			switch nm {
			case "Value", "ValueMarks", "ElementIterator", "ValueSet", "PathValueMarks":
				return true
			case "Type", "Path", "PathSet", "ValueRange", "RefinementBuilder":
				return nm == "RefinementBuilder"
			}
		}
	}
	switch u := t.Underlying().(type) {
	case *types.Pointer:
		return valueLikeDepth(u.Elem(), d+1)
	case *types.Slice:
		return valueLikeDepth(u.Elem(), d+1)
	case *types.Array:
		return valueLikeDepth(u.Elem(), d+1)
	case *types.Map:
		return valueLikeDepth(u.Elem(), d+1) || valueLikeDepth(u.Key(), d+1)
	case *types.Tuple:
		for i := 0; i < u.Len(); i++ {
			if valueLikeDepth(u.At(i).Type(), d+1) {
				return true
			}
		}
	case *types.Struct:
		if _, isNamedT := t.(*types.Named); isNamedT && d > 0 {
			// named structs nested inside other things: only small value carriers
			for i := 0; i < u.NumFields(); i++ {
				ft := u.Field(i).Type()
				if isCtyValue(ft) || isCtyMarks(ft) {
					return true
				}
			}
			return false
		}
		for i := 0; i < u.NumFields(); i++ {
			if valueLikeDepth(u.Field(i).Type(), d+1) {
				return true
			}
		}
	}
	return false
}

// markCapable: a Go value of this type can carry cty marks.
func markCapable(t types.Type) bool {
	switch u := t.Underlying().(type) {
	case *types.Basic:
		return false
	case *types.Interface:
		if isNamed(t, "", "error") || types.Identical(t, types.Universe.Lookup("error").Type()) {
			return false
		}
		return true
	case *types.Pointer:
		if isNamed(u.Elem(), "math/big", "Float") || isNamed(u.Elem(), "math/big", "Int") {
			return false
		}
	case *types.Slice:
		if isNamed(t, modPath, "Diagnostics") {
			return false
		}
		return markCapable(u.Elem())
	}
	if isNamed(t, ctyPath, "Type") {
		return false
	}
	return true
}

func isDiagnosticsType(t types.Type) bool { return isNamed(t, modPath, "Diagnostics") }

func memRoot(v ssa.Value) ssa.Value {
	for {
		switch x := v.(type) {
		case *ssa.FieldAddr:
			v = x.X
		case *ssa.IndexAddr:
			v = x.X
		default:
			return v
		}
	}
}

func isCtyPackage(pk *types.Package) bool {
	return pk != nil && strings.HasPrefix(pk.Path(), "github.com/zclconf/go-cty/")
}

// calleeInfo describes the (possibly dynamic) callee of a call.
type calleeInfo struct {
	static *ssa.Function
	method *types.Func // for invoke
	name   string
	pkg    *types.Package
	recvT  types.Type
}

func calleeOf(cc *ssa.CallCommon) calleeInfo {
	if cc.IsInvoke() {
		return calleeInfo{method: cc.Method, name: cc.Method.Name(), pkg: cc.Method.Pkg(), recvT: cc.Value.Type()}
	}
	if f := staticCallee(cc); f != nil {
		ci := calleeInfo{static: f, name: f.Name(), pkg: fnPkg(f)}
		if f.Signature.Recv() != nil {
			ci.recvT = f.Signature.Recv().Type()
		}
		return ci
	}
	if b, ok := cc.Value.(*ssa.Builtin); ok {
		return calleeInfo{name: "builtin." + b.Name()}
	}
	return calleeInfo{name: "<dynamic>"}
}

func (ci calleeInfo) isCtyValueMethod(names ...string) bool {
	if ci.recvT == nil || !isCtyValue(ci.recvT) {
		return false
	}
	if len(names) == 0 {
		return true
	}
	for _, n := range names {
		if ci.name == n {
			return true
		}
	}
	return false
}

func (ci calleeInfo) isCtyTypeMethod() bool {
	return ci.recvT != nil && isNamed(ci.recvT, ctyPath, "Type") && !isCtyValue(ci.recvT)
}

var ctyTypeLevelValueMethods = map[string]bool{"Type": true, "CanIterateElements": true, "IsMarked": true, "HasMark": true, "ContainsMarked": true, "HasWhollyKnownType": true}

func newFlowFn(p *Program, fn *ssa.Function, um *unmarkedEngine) *flowFn {
	f := &flowFn{p: p, fn: fn, um: um, src: map[ssa.Value]int{}, C: map[ssa.Value]lbits{}, M: map[ssa.Value]lbits{}}
	f.findSources()
	if len(f.srcs) > maxLabels {
		f.err = fmt.Sprintf("%d operand sources exceed the label capacity %d", len(f.srcs), maxLabels)
		return f
	}
	f.mayAnalysis()
	return f
}

func (f *flowFn) addSrc(v ssa.Value, ins ssa.Instruction, name string, b *ssa.BasicBlock) {
	if _, ok := f.src[v]; ok {
		return
	}
	s := &flowSrc{idx: len(f.srcs), v: v, ins: ins, name: name, block: b}
	f.srcs = append(f.srcs, s)
	f.src[v] = s.idx
}

// pathName renders the access path of a value for display ("e.Condition", "e.Parts[*]").
var pathNameDepth int

func pathName(v ssa.Value) string {
	pathNameDepth++
	defer func() { pathNameDepth-- }()
	if pathNameDepth > 40 {
		return "?"
	}
	switch x := v.(type) {
	case *ssa.Parameter:
		return x.Name()
	case *ssa.FreeVar:
		return x.Name()
	case *ssa.Global:
		return x.Name()
	case *ssa.Alloc:
		// a local that merely names another value (single store) is described by that value, so
		// that introducing or renaming the local does not change obligation keys
		var only *ssa.Store
		n := 0
		for _, r := range *x.Referrers() {
			if st, ok := r.(*ssa.Store); ok && st.Addr == ssa.Value(x) {
				n++
				// of several stores the first in block order: the variable's initial value, as
				// the first edge of the phi the variable would be had it not been captured
				if only == nil || st.Block().Index < only.Block().Index {
					only = st
				}
			}
		}
		if n >= 1 {
			if _, self := only.Val.(*ssa.Alloc); !self {
				if nm := pathName(only.Val); nm != "?" {
					return nm
				}
			}
		}
		if x.Comment != "" {
			return x.Comment
		}
		return "local"
	case *ssa.UnOp:
		if x.Op == token.MUL {
			return pathName(x.X)
		}
	case *ssa.FieldAddr:
		if fv := fieldVarOf(x.X.Type(), x.Field); fv != nil {
			return pathName(x.X) + "." + fv.Name()
		}
	case *ssa.Field:
		if fv := fieldVarOf(x.X.Type(), x.Field); fv != nil {
			return pathName(x.X) + "." + fv.Name()
		}
	case *ssa.IndexAddr:
		return pathName(x.X) + "[*]"
	case *ssa.Index:
		return pathName(x.X) + "[*]"
	case *ssa.Lookup:
		return pathName(x.X) + "[*]"
	case *ssa.Extract:
		return pathName(x.Tuple)
	case *ssa.Next:
		return pathName(x.Iter)
	case *ssa.Range:
		return pathName(x.X) + "[*]"
	case *ssa.TypeAssert:
		return pathName(x.X)
	case *ssa.ChangeInterface:
		return pathName(x.X)
	case *ssa.MakeInterface:
		return pathName(x.X)
	case *ssa.Phi:
		if len(x.Edges) > 0 {
			return pathName(x.Edges[0])
		}
	case *ssa.Call:
		ci := calleeOf(&x.Call)
		if x.Call.IsInvoke() {
			return pathName(x.Call.Value) + "." + ci.name + "()"
		}
		if ci.static != nil && ci.static.Signature.Recv() != nil && len(x.Call.Args) > 0 {
			return pathName(x.Call.Args[0]) + "." + ci.name + "()"
		}
		return ci.name + "()"
	}
	return "?"
}

func (f *flowFn) findSources() {
	fn := f.fn
	for _, par := range fn.Params {
		if valueLike(par.Type()) {
			// a helper whose callers all pass provably unmarked values has no marks
			// to preserve for that parameter: re-marking is the callers' duty and
			// is checked there (the call is transparent in the caller's analysis)
			if f.um != nil && isCtyValue(par.Type()) {
				if ok, _ := f.um.paramUnmarked(par); ok {
					continue
				}
			}
			f.addSrc(par, nil, par.Name(), fn.Blocks[0])
		}
	}
	for _, fv := range fn.FreeVars {
		// captured variables holding values: the cell is a source
		if pt, ok := fv.Type().Underlying().(*types.Pointer); ok && valueLike(pt.Elem()) {
			f.addSrc(fv, nil, "captured "+fv.Name(), fn.Blocks[0])
		}
	}
	for _, b := range fn.Blocks {
		for _, ins := range b.Instrs {
			switch x := ins.(type) {
			case *ssa.UnOp:
				if x.Op != token.MUL || !valueLike(x.Type()) {
					continue
				}
				root := memRoot(x.X)
				switch r := root.(type) {
				case *ssa.Parameter:
					if !valueLike(r.Type()) { // e.g. receiver pointer: field holds a value
						f.addSrc(x, x, pathName(x.X), b)
					}
				case *ssa.Global:
					if r.Pkg != nil && !isCtyPackage(r.Pkg.Pkg) {
						f.addSrc(x, x, pathName(x.X), b)
					}
				case *ssa.UnOp, *ssa.Call, *ssa.Extract, *ssa.Phi, *ssa.TypeAssert, *ssa.Lookup, *ssa.Field:
					// field of an object reached through a non-value pointer
					if !valueLike(r.Type()) {
						f.addSrc(x, x, pathName(x.X), b)
					}
				}
			case *ssa.Lookup:
				if valueLike(x.Type()) && !valueLike(x.X.Type()) {
					f.addSrc(x, x, pathName(x), b)
				}
			case *ssa.Call:
				if !valueLike(x.Type()) {
					continue
				}
				ci := calleeOf(&x.Call)
				if strings.HasPrefix(ci.name, "builtin.") || isCtyPackage(ci.pkg) {
					continue
				}
				hasValueOperand := false
				for _, op := range x.Operands(nil) {
					if *op != nil && *op != x.Call.Value && valueLike((*op).Type()) {
						hasValueOperand = true
					}
				}
				if x.Call.IsInvoke() && valueLike(x.Call.Value.Type()) {
					hasValueOperand = true
				}
				if mc, ok := x.Call.Value.(*ssa.MakeClosure); ok {
					for _, bnd := range mc.Bindings {
						if pt, ok := bnd.Type().Underlying().(*types.Pointer); ok && valueLike(pt.Elem()) {
							hasValueOperand = true
						}
					}
				}
				if !hasValueOperand {
					f.addSrc(x, x, pathName(x), b)
				}
			}
		}
	}
}

func (f *flowFn) sets(v ssa.Value) (lbits, lbits) {
	return f.M[v], f.C[v]
}

// mayAnalysis computes M and C for every value (flow-insensitive union fixed point).
func (f *flowFn) mayAnalysis() {
	for i, s := range f.srcs {
		f.M[s.v] = f.M[s.v].or(bit(i))
		f.C[s.v] = f.C[s.v].or(bit(i))
	}
	add := func(v ssa.Value, m, c lbits) bool {
		om, oc := f.M[v], f.C[v]
		nm, nc := om.or(m), oc.or(c)
		if nm != om || nc != oc {
			f.M[v], f.C[v] = nm, nc
			return true
		}
		return false
	}
	for changed := true; changed; {
		changed = false
		for _, b := range f.fn.Blocks {
			for _, ins := range b.Instrs {
				switch x := ins.(type) {
				case *ssa.Store:
					m, c := f.sets(x.Val)
					root := memRoot(x.Addr)
					if add(root, m, c) {
						changed = true
					}
					if u, ok := root.(*ssa.UnOp); ok && u.Op == token.MUL {
						if add(memRoot(u.X), m, c) {
							changed = true
						}
					}
					continue
				case *ssa.MapUpdate:
					m1, c1 := f.sets(x.Key)
					m2, c2 := f.sets(x.Value)
					if add(x.Map, m1.or(m2), c1.or(c2)) {
						changed = true
					}
					if u, ok := x.Map.(*ssa.UnOp); ok && u.Op == token.MUL {
						if add(memRoot(u.X), m1.or(m2), c1.or(c2)) {
							changed = true
						}
					}
					continue
				}
				v, ok := ins.(ssa.Value)
				if !ok {
					continue
				}
				m, c := f.transferMay(v)
				if add(v, m, c) {
					changed = true
				}
			}
		}
	}
}

func (f *flowFn) transferMay(v ssa.Value) (m, c lbits) {
	ins := v.(ssa.Instruction)
	union := func() {
		for _, op := range ins.Operands(nil) {
			if *op == nil {
				continue
			}
			om, oc := f.sets(*op)
			m, c = m.or(om), c.or(oc)
		}
	}
	switch x := v.(type) {
	case *ssa.UnOp:
		if x.Op == token.MUL {
			m, c = f.sets(memRoot(x.X))
			om, oc := f.sets(x.X)
			m, c = m.or(om), c.or(oc)
		} else {
			union()
		}
	case *ssa.Extract:
		m, c = f.sets(x.Tuple)
		if call, ok := x.Tuple.(*ssa.Call); ok {
			ci := calleeOf(&call.Call)
			if ci.isCtyValueMethod("Unmark", "UnmarkDeep", "UnmarkDeepWithPaths") {
				if x.Index == 0 {
					m = lbits{}
				} else {
					c = lbits{}
				}
			}
		}
		if _, ok := x.Tuple.(*ssa.Lookup); ok && x.Index == 1 {
			m, c = lbits{}, lbits{} // comma-ok
		}
		if _, ok := x.Tuple.(*ssa.TypeAssert); ok && x.Index == 1 {
			m, c = lbits{}, lbits{}
		}
		if _, ok := x.Tuple.(*ssa.Next); ok && x.Index == 0 {
			m, c = lbits{}, lbits{} // "more elements?" of a Go range: a length, not content
		}
	case *ssa.Call:
		ci := calleeOf(&x.Call)
		switch {
		case ci.name == "builtin.len" || ci.name == "builtin.cap":
			return lbits{}, lbits{}
		case ci.isCtyValueMethod() && ctyTypeLevelValueMethods[ci.name]:
			return lbits{}, lbits{}
		case ci.isCtyTypeMethod():
			return lbits{}, lbits{}
		case ci.isCtyValueMethod("Marks"):
			union()
			c = lbits{}
		default:
			union()
		}
	case *ssa.BinOp:
		if isNilConst(x.X) || isNilConst(x.Y) {
			return lbits{}, lbits{} // nil-ness of a container/pointer is not value content
		}
		union()
	case *ssa.MakeSlice, *ssa.MakeMap, *ssa.MakeChan, *ssa.Alloc:
		return f.M[v], f.C[v] // sizes are not content; keep what stores put there
	case *ssa.IndexAddr:
		m, c = f.sets(x.X)
	case *ssa.Index:
		m, c = f.sets(x.X)
	case *ssa.Slice:
		m, c = f.sets(x.X)
	default:
		union()
	}
	if !markCapable(v.Type()) {
		m = lbits{}
	}
	if isDiagnosticsType(v.Type()) {
		m, c = lbits{}, lbits{}
	}
	if isNamed(v.Type(), ctyPath, "Type") {
		m, c = lbits{}, lbits{}
	}
	return
}

func isNilConst(v ssa.Value) bool {
	if c, ok := v.(*ssa.Const); ok && c.IsNil() {
		return true
	}
	// cty.NilVal: "no value at all" (carries neither content nor marks)
	if u, ok := v.(*ssa.UnOp); ok && u.Op == token.MUL {
		if g, ok := u.X.(*ssa.Global); ok && g.Name() == "NilVal" && g.Pkg != nil && g.Pkg.Pkg.Path() == ctyPath {
			return true
		}
	}
	return false
}

// lookThrough: functions with defers return through result variables; resolve
// the load of such a variable to the value stored just before in the same block.
func lookThrough(v ssa.Value) ssa.Value {
	u, ok := v.(*ssa.UnOp)
	if !ok || u.Op != token.MUL {
		return v
	}
	al, ok := u.X.(*ssa.Alloc)
	if !ok {
		return v
	}
	var last ssa.Value
	for _, ins := range u.Block().Instrs {
		if ins == ssa.Instruction(u) {
			break
		}
		if st, ok := ins.(*ssa.Store); ok && st.Addr == al {
			last = st.Val
		}
	}
	if last != nil {
		return last
	}
	return v
}

// ---- error-return classification ---------------------------------------------

func constInt(v ssa.Value) (int64, bool) {
	if c, ok := v.(*ssa.Const); ok && c.Value != nil && c.Value.Kind() == constant.Int {
		return c.Int64(), true
	}
	return 0, false
}

// isErrorDiagPtr: v is a pointer to a freshly built Diagnostic with Severity DiagError.
func isErrorDiagPtr(v ssa.Value) bool {
	if call, isCall := v.(*ssa.Call); isCall {
		// a helper or closure whose every return is a freshly built error diagnostic
		cal := staticCallee(&call.Call)
		if cal == nil || !inModule(cal) || len(cal.Blocks) == 0 || cal.Signature.Results().Len() != 1 {
			return false
		}
		n := 0
		for _, b := range cal.Blocks {
			if ret, ok := b.Instrs[len(b.Instrs)-1].(*ssa.Return); ok {
				n++
				if _, again := ret.Results[0].(*ssa.Call); again || !isErrorDiagPtr(ret.Results[0]) {
					return false
				}
			}
		}
		return n > 0
	}
	al, ok := v.(*ssa.Alloc)
	if !ok || !isNamed(al.Type(), modPath, "Diagnostic") {
		return false
	}
	for _, r := range *al.Referrers() {
		fa, ok := r.(*ssa.FieldAddr)
		if !ok {
			continue
		}
		fv := fieldVarOf(fa.X.Type(), fa.Field)
		if fv == nil || fv.Name() != "Severity" {
			continue
		}
		for _, r2 := range *fa.Referrers() {
			if st, ok := r2.(*ssa.Store); ok {
				if n, ok := constInt(st.Val); ok && n == 1 {
					return true
				}
			}
		}
	}
	return false
}

// sliceLitHasErrorDiag: v is a slice of a fresh array one of whose elements is an error diagnostic.
func sliceLitHasErrorDiag(v ssa.Value) bool {
	sl, ok := v.(*ssa.Slice)
	if !ok {
		return false
	}
	al, ok := sl.X.(*ssa.Alloc)
	if !ok {
		return false
	}
	for _, r := range *al.Referrers() {
		ia, ok := r.(*ssa.IndexAddr)
		if !ok {
			continue
		}
		for _, r2 := range *ia.Referrers() {
			if st, ok := r2.(*ssa.Store); ok && isErrorDiagPtr(st.Val) {
				return true
			}
		}
	}
	return false
}

// errDiag: the diagnostics value definitely contains an error diagnostic.
func errDiag(v ssa.Value, seen map[ssa.Value]bool) bool {
	if seen[v] {
		return true
	}
	seen[v] = true
	switch x := v.(type) {
	case *ssa.Slice:
		return sliceLitHasErrorDiag(x)
	case *ssa.ChangeType:
		return errDiag(x.X, seen)
	case *ssa.Call:
		if b, ok := x.Call.Value.(*ssa.Builtin); ok && b.Name() == "append" {
			if errDiag(x.Call.Args[0], seen) {
				return true
			}
			if len(x.Call.Args) > 1 {
				if sliceLitHasErrorDiag(x.Call.Args[1]) || errDiag(x.Call.Args[1], seen) {
					return true
				}
			}
		}
		// diags.Append(&hcl.Diagnostic{...}) / Extend
		if cal := x.Call.StaticCallee(); cal != nil && isDiagnosticsType(x.Type()) && len(x.Call.Args) == 2 {
			if isErrorDiagPtr(x.Call.Args[1]) || errDiag(x.Call.Args[0], seen) {
				return true
			}
		}
	case *ssa.Phi:
		for _, e := range x.Edges {
			if !errDiag(e, seen) {
				return false
			}
		}
		return len(x.Edges) > 0
	case *ssa.UnOp:
		// load of a cell: the value last stored into it earlier in the same block
		if x.Op == token.MUL {
			var last ssa.Value
			for _, ins := range x.Block().Instrs {
				if ins == ssa.Instruction(x) {
					break
				}
				if st, ok := ins.(*ssa.Store); ok && (st.Addr == x.X || sameAddr(st.Addr, x.X)) {
					last = st.Val
				}
			}
			if last != nil {
				return errDiag(last, seen)
			}
		}
	case *ssa.Extract:
		// result of a helper or local closure all of whose returns carry an error diagnostic there
		if call, ok := x.Tuple.(*ssa.Call); ok {
			if cal := staticCallee(&call.Call); cal != nil && alwaysErrResult(cal, x.Index, 0) {
				return true
			}
		}
	}
	if call, ok := v.(*ssa.Call); ok && isDiagnosticsType(call.Type()) {
		if cal := staticCallee(&call.Call); cal != nil && inModule(cal) && alwaysErrResult(cal, 0, 0) {
			return true
		}
	}
	return false
}

var alwaysErrMemo = map[[2]interface{}]bool{}

// alwaysErrResult: every return of fn has, at result index idx, diagnostics that definitely
// contain an error (a helper whose only job is to build the error result).
func alwaysErrResult(fn *ssa.Function, idx, depth int) bool {
	if depth > 3 || len(fn.Blocks) == 0 || !inModule(fn) {
		return false
	}
	key := [2]interface{}{fn, idx}
	if v, ok := alwaysErrMemo[key]; ok {
		return v
	}
	alwaysErrMemo[key] = false // recursion guard
	res := fn.Signature.Results()
	if idx >= res.Len() || !isDiagnosticsType(res.At(idx).Type()) {
		return false
	}
	n := 0
	for _, b := range fn.Blocks {
		ret, ok := b.Instrs[len(b.Instrs)-1].(*ssa.Return)
		if !ok {
			continue
		}
		n++
		if !errDiag(lookThrough(ret.Results[idx]), map[ssa.Value]bool{}) {
			return false
		}
	}
	alwaysErrMemo[key] = n > 0
	return n > 0
}

// diagFlowsInto: diagnostics X is contained in D (same value or appended into it).
func diagFlowsInto(x, d ssa.Value, seen map[ssa.Value]bool) bool {
	if x == d {
		return true
	}
	if seen[d] {
		return false
	}
	seen[d] = true
	switch y := d.(type) {
	case *ssa.Call:
		if b, ok := y.Call.Value.(*ssa.Builtin); ok && b.Name() == "append" {
			for _, a := range y.Call.Args {
				if diagFlowsInto(x, a, seen) {
					return true
				}
			}
		}
	case *ssa.Phi:
		for _, e := range y.Edges {
			if diagFlowsInto(x, e, seen) {
				return true
			}
		}
	case *ssa.ChangeType:
		return diagFlowsInto(x, y.X, seen)
	case *ssa.UnOp:
		// the diagnostics live in a cell (captured by a closure): a store that is made before
		// this load on every path and contains x
		if al, ok := y.X.(*ssa.Alloc); ok && y.Op == token.MUL {
			for _, r := range *al.Referrers() {
				st, ok := r.(*ssa.Store)
				if !ok || st.Addr != ssa.Value(al) {
					continue
				}
				before := st.Block() != y.Block() && st.Block().Dominates(y.Block())
				if st.Block() == y.Block() {
					for _, ins := range y.Block().Instrs {
						if ins == ssa.Instruction(st) {
							before = true
							break
						}
						if ins == ssa.Instruction(y) {
							break
						}
					}
				}
				if before && diagFlowsInto(x, st.Val, seen) {
					return true
				}
			}
		}
	}
	return false
}

// guardedByHasErrors: block b is dominated by the true edge of X.HasErrors() with X flowing into d.
func guardedByHasErrors(b *ssa.BasicBlock, d ssa.Value) bool {
	for cur := b; cur != nil; cur = cur.Idom() {
		idom := cur.Idom()
		if idom == nil {
			break
		}
		iff, ok := idom.Instrs[len(idom.Instrs)-1].(*ssa.If)
		if !ok || idom.Succs[0] != cur || len(cur.Preds) != 1 {
			continue
		}
		call, ok := iff.Cond.(*ssa.Call)
		if !ok {
			continue
		}
		cal := call.Call.StaticCallee()
		if cal == nil || cal.Name() != "HasErrors" || len(call.Call.Args) == 0 {
			continue
		}
		if diagFlowsInto(call.Call.Args[0], d, map[ssa.Value]bool{}) {
			return true
		}
	}
	return false
}

func isErrorReturn(ret *ssa.Return) bool {
	if isErrorReturn1(ret) {
		return true
	}
	// the diagnostics live in a cell (they are captured by a closure): an error diagnostic was
	// recorded on the way to this return, or the return lies under a HasErrors() test
	hasDiags := false
	for _, r := range ret.Results {
		if isDiagnosticsType(r.Type()) {
			if c, ok := r.(*ssa.Const); !ok || !c.IsNil() {
				hasDiags = true
			}
		}
	}
	return hasDiags && errorEvidence(ret.Block())
}

func isErrorReturn1(ret *ssa.Return) bool {
	for _, r := range ret.Results {
		r = lookThrough(r)
		if isDiagnosticsType(r.Type()) {
			if errDiag(r, map[ssa.Value]bool{}) || guardedByHasErrors(ret.Block(), r) {
				return true
			}
		}
		if types.Identical(r.Type(), types.Universe.Lookup("error").Type()) {
			if c, ok := r.(*ssa.Const); !ok || !c.IsNil() {
				return true // returns a non-nil error
			}
		}
	}
	return false
}
