package main

import (
	"fmt"
	"go/token"
	"go/types"

	"golang.org/x/tools/go/ssa"
)

// append.shared: append(s, x…) inside a loop, where s is the same slice on every iteration (it is
// defined outside the loop) and the result leaves the iteration (it is handed to a call or stored),
// gives every iteration a view of ONE backing array whenever s has spare capacity: what one
// iteration wrote is overwritten by the next. Safe forms: the result is assigned back to s (a
// loop-carried accumulator), s is provably full (a three-index slice s[:n:n], or made with
// make(T, n) and never extended), or the result is only read within the iteration.
type sharedAppend struct {
	fn   *ssa.Function
	call *ssa.Call
	why  string
}

func sharedAppends(fns []*ssa.Function) []sharedAppend {
	var out []sharedAppend
	for _, fn := range fns {
		for _, scc := range sccBlocks(fn.Blocks, nil) {
			if len(scc) < 2 {
				continue
			}
			in := map[*ssa.BasicBlock]bool{}
			for _, b := range scc {
				in[b] = true
			}
			for _, b := range scc {
				for _, ins := range b.Instrs {
					call, ok := ins.(*ssa.Call)
					if !ok {
						continue
					}
					bi, ok := call.Call.Value.(*ssa.Builtin)
					if !ok || bi.Name() != "append" || len(call.Call.Args) != 2 {
						continue
					}
					base := call.Call.Args[0]
					if fullSlice(base) {
						continue
					}
					// a re-slice made in the loop still shares the array of what it slices
					for {
						sl, ok := base.(*ssa.Slice)
						if !ok || !in[sl.Block()] {
							break
						}
						if _, isPtr := sl.X.Type().Underlying().(*types.Pointer); isPtr {
							break // a fresh array literal
						}
						base = sl.X
					}
					// loop-invariant base: not defined in the loop
					if bins, ok := base.(ssa.Instruction); ok && in[bins.Block()] {
						continue
					}
					if c, ok := base.(*ssa.Const); ok && c.IsNil() {
						continue
					}
					if fullSlice(base) {
						continue
					}
					// does the result leave the iteration?
					esc := ""
					for _, r := range *call.Referrers() {
						switch x := r.(type) {
						case *ssa.Call:
							if _, isB := x.Call.Value.(*ssa.Builtin); !isB {
								esc = "handed to a call"
							}
						case *ssa.Store:
							if x.Val == ssa.Value(call) {
								if _, isAlloc := x.Addr.(*ssa.Alloc); !isAlloc {
									esc = "stored"
								}
							}
						case *ssa.MakeInterface, *ssa.MapUpdate:
							esc = "stored"
						case *ssa.Return:
							// returned at once: no later iteration
						}
					}
					if esc == "" {
						continue
					}
					out = append(out, sharedAppend{fn, call, esc})
				}
			}
		}
	}
	return out
}

// fullSlice: len == cap is known: x[:n:n], or a make with a single size.
func fullSlice(v ssa.Value) bool {
	switch x := v.(type) {
	case *ssa.Slice:
		return x.Max != nil && x.High != nil && x.Max == x.High
	case *ssa.MakeSlice:
		return x.Len == x.Cap
	}
	return false
}

func appendSharedRule(c *Ctx, rule string, pkgs ...string) {
	c.Rule(rule + ": in " + fmt.Sprint(pkgs) + ", no append(s, …) inside a loop has a base slice s that is the same on every iteration (defined outside the loop, not known to be full) and a result that is handed to a call or stored: the iterations would share one backing array and overwrite each other's elements")
	sites := sharedAppends(c.P.pkgFuncs(pkgs...))
	for _, s := range sites {
		c.Sites++
		c.Fn(FuncName(s.fn))
		c.Fail(rule, fmt.Sprintf("%s:append[%s]", FuncName(s.fn), pathName(s.call.Call.Args[0])), s.call.Pos(),
			"append to `"+pathName(s.call.Call.Args[0])+"`, which is the same slice on every iteration of the loop, and the result is "+s.why+": when that slice has spare capacity every iteration writes into the same backing array, so items recorded by earlier iterations (block labels, ranges) are overwritten by later ones")
	}
	if len(sites) == 0 {
		c.Sites++
		c.OK(rule, "module:"+fmt.Sprint(pkgs), token.NoPos, "no such append")
	}
	_ = types.Typ
}
