package main

import (
	"fmt"
	"go/token"
	"regexp"
	"strings"

	"golang.org/x/tools/go/ssa"
)

func init() {
	register("C10", checkC10)
	// Expression.Variables / RenameVariablePrefix of the writer rest on the native variables walker
	registerExtra("C10", c07ScopePushPop)
}

// Named exceptions (one construct each, with the reason).
var linearExceptions = map[string]string{
	// keyed by function and kind of value (the loop-carried phi), not by the local's name
	"hclwrite.parseBlockLabels:phi[*]": "the loop-carried `before` of the label loop is replaced only in the first iteration (i == 0), when it still holds the zero value it was initialised with",
	"hclwrite.parseTraversal:phi[*]":   "the loop-carried remainder of the step loop: after the last step it is empty, because hcl.Traversal.SourceRange() ends at the last step's range, so the tokens of that range are exhausted by the steps",
}

var phiKeyRE = regexp.MustCompile(`:phi\[[^\]]*\]`)

// linearException looks an obligation key up with the names of locals wildcarded.
func linearException(k string) (string, bool) {
	why, ok := linearExceptions[phiKeyRE.ReplaceAllString(k, ":phi[*]")]
	return why, ok
}

var orderExceptions = map[string]string{
	"hclwrite.parseAttribute:AppendUnstructuredTokens[param[from]/2/2/2]": "the 'stragglers' after the expression are empty by construction (the attribute's range ends with its expression); they are appended last only as a safety net",
}

func checkC10(c *Ctx) {
	c14RangeTracks(c) // the loader partitions the tokens by the ranges of the native syntax nodes
	c10LexOrigin(c)
	c14TokenKind(c, "R6") // the loader assigns tokens to nodes by the ranges recorded from these tokens
	c14RangeParam(c, "R7")
	c.Rule("R1 linear: in every function of hclwrite/parser.go every inputTokens value (parameter, result of a Partition*/parse* call, phi) is consumed exactly once on every path from its definition to a return: by .Tokens(), by being passed to another loader function, or by being returned; a PartitionTypeOk call consumes its receiver only on the ok edge; no partition result is discarded")
	c.Rule("R2 order: on every path, the appends to one children list (AppendUnstructuredTokens/AppendNode/Append/appendItemNode) follow source order, where the position of a value is its path in the partition tree (results of one Partition*/parse* call are ordered by result index; parameters by the result indices at their call sites)")
	c.Rule("R3 tiling: every Partition* helper that slices its receiver starts the first part at 0, starts each next part where the previous one ends, and ends the last part at len(it.nativeTokens)")
	var fns []*ssa.Function
	for _, f := range c.P.pkgFuncs("hclwrite") {
		if strings.HasPrefix(c.P.Position(f.Pos()), "hclwrite/parser.go") {
			fns = append(fns, f)
		}
	}
	nVals, nFns, nSlicers, nAppends := 0, 0, 0, 0
	for _, fn := range fns {
		name := FuncName(fn)
		slicer, tprobs := checkTiling(c.P, fn)
		if slicer {
			nSlicers++
			c.Fn(name)
			if len(tprobs) == 0 {
				c.OK("tiling", name+":tiling", fn.Pos(), "parts tile the receiver")
			}
			for _, pr := range tprobs {
				c.Fail("tiling", pr.key, pr.pos, pr.msg)
			}
			continue
		}
		if fn.Signature.Recv() != nil && isInputTokens(fn.Signature.Recv().Type()) {
			switch fn.Name() {
			case "Slice", "Len", "Tokens", "Types":
				continue // leaf accessors
			}
		}
		checked, probs := checkLinear(c.P, fn)
		if len(checked) == 0 {
			continue
		}
		nFns++
		c.Fn(name)
		bad := map[string][]linProblem{}
		for _, pr := range probs {
			bad[pr.key] = append(bad[pr.key], pr)
		}
		for _, k := range checked {
			nVals++
			if why, ok := linearException(k); ok && len(bad[k]) > 0 {
				c.OK("linear", k, fn.Pos(), "named exception: "+why)
				c.Assumption("linear exception " + k + ": " + why)
				delete(bad, k)
				continue
			}
			if len(bad[k]) == 0 {
				c.OK("linear", k, fn.Pos(), "consumed exactly once on every path")
			}
		}
		for _, prs := range bad {
			for _, pr := range prs {
				c.Fail("linear", pr.key, pr.pos, pr.msg, pr.path...)
			}
		}
		n, oprobs := checkAppendOrder(c.P, fn, paramOrder(c.P, fn))
		nAppends += n
		if n > 0 && len(oprobs) == 0 {
			c.OK("order", name+":appends", fn.Pos(), "appends follow source order on every path")
		}
		for _, pr := range oprobs {
			if why, ok := orderExceptions[pr.key]; ok {
				c.OK("order", pr.key, pr.pos, "named exception: "+why)
				c.Assumption("order exception " + pr.key + ": " + why)
				continue
			}
			c.Fail("order", pr.key, pr.pos, pr.msg)
		}
	}
	c.Sites = nAppends
	c.Floor("linear functions", nFns, 7, "parse, parseBody, parseBodyItem, parseAttribute, parseBlock, parseBlockLabels, parseExpression, parseTraversal, parseTraversalStep (+ composite Partition helpers)")
	c.Floor("linear values", nVals, 30, "≈ 45 partition values")
	c.Floor("tiling helpers", nSlicers, 4, "Partition, PartitionType, PartitionTypeOk, PartitionIncludingComments, PartitionLeadComments, PartitionLineEndTokens")
	c.Floor("order appends", nAppends, 30, "append calls in the loader")
	c.NotCovered("that the ranges recorded by hclsyntax align with token boundaries (value-level; e.g. a node range that stops short leaves tokens to the 'stragglers')")
	c.NotCovered("byte equality with the formatter's output; exposure of every attribute/block/variable through the API")
}

// R5 lex.origin: the loader parses and lexes the same bytes from the same origin.
func c10LexOrigin(c *Ctx) {
	c.Rule("R5 lex.origin: in hclwrite.parse the calls hclsyntax.ParseConfig and hclsyntax.LexConfig receive the same three arguments (source, file name, start position): tokens are matched to syntax nodes by absolute byte offset, so both must count from the same origin")
	fn := c.P.LookupFunc("hclwrite", "parse")
	pc := c.P.LookupFunc("hclsyntax", "ParseConfig")
	lc := c.P.LookupFunc("hclsyntax", "LexConfig")
	if fn == nil || pc == nil || lc == nil {
		c.CheckerFail("lex.origin", "anchor hclwrite.parse / hclsyntax.ParseConfig / LexConfig does not resolve")
		return
	}
	c.Fn(FuncName(fn))
	var pcall, lcall *ssa.Call
	// arguments as seen from hclwrite.parse: a helper that does the lexing (or parsing) is handed
	// parse's values, which are substituted for its parameters
	subst := map[ssa.Value]ssa.Value{}
	var scan func(f *ssa.Function, depth int)
	scan = func(f *ssa.Function, depth int) {
		for _, b := range f.Blocks {
			for _, ins := range b.Instrs {
				call, ok := ins.(*ssa.Call)
				if !ok {
					continue
				}
				switch cal := call.Call.StaticCallee(); {
				case cal == pc:
					pcall = call
				case cal == lc:
					lcall = call
				case cal != nil && depth < 2 && fnPkg(cal) != nil && fnPkg(cal).Path() == hclwritePath && len(cal.Blocks) > 0 && cal != fn:
					for k, a := range call.Call.Args {
						if k < len(cal.Params) {
							if v, ok := subst[a]; ok {
								a = v
							}
							subst[cal.Params[k]] = a
						}
					}
					scan(cal, depth+1)
				}
			}
		}
	}
	scan(fn, 0)
	if pcall == nil || lcall == nil {
		c.Undecided("lex.origin", FuncName(fn)+":calls", fn.Pos(), "hclwrite.parse does not call both ParseConfig and LexConfig directly")
		return
	}
	same := func(a, b ssa.Value) bool {
		if v, ok := subst[a]; ok {
			a = v
		}
		if v, ok := subst[b]; ok {
			b = v
		}
		if a == b {
			return true
		}
		ua, ok1 := a.(*ssa.UnOp)
		ub, ok2 := b.(*ssa.UnOp)
		return ok1 && ok2 && ua.Op == token.MUL && ub.Op == token.MUL && sameAddr(ua.X, ub.X)
	}
	names := []string{"source", "file name", "start position"}
	for i := 0; i < 3 && i < len(pcall.Call.Args) && i < len(lcall.Call.Args); i++ {
		c.Sites++
		c.Check(same(pcall.Call.Args[i], lcall.Call.Args[i]), "lex.origin", fmt.Sprintf("%s:arg[%d]", FuncName(fn), i), lcall.Pos(), "same "+names[i],
			"ParseConfig and LexConfig are given different values for the "+names[i]+": byte offsets of the tokens and of the syntax nodes no longer refer to the same origin, and the partition of tokens by node ranges loses or misplaces tokens")
	}
}
