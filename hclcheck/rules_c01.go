package main

import (
	"fmt"
	"go/ast"
	"go/token"
	"go/types"
	"sort"
	"strings"

	"golang.org/x/tools/go/packages"
	"golang.org/x/tools/go/ssa"
)

func init() { register("C01", checkC01) }

func checkC01(c *Ctx) {
	c01OpTables(c)
	c01Associativity(c)
	c01Unary(c)
	c01KeywordLiterals(c)
	c01ReaderEscapes(c)
	c01BracketRegions(c)
	c01SplatUpgrade(c)
	unicodeEscapeRule(c, "escapes")
	c01StripFlag(c)
	c01EvalPure(c)
	c.NotCovered("everything that is computation rather than table or shape: conversion at operand positions, conditional type unification, splat/for/template semantics, heredoc trimming")
	c.NotCovered("the Ragel scanners (scan_tokens.rl, scan_string_lit.rl): token spellings and string-literal slicing are trusted")
}

// oracle transcribed from hclsyntax/spec.md, "Operator Precedence" (lowest first) and "Operations"
var opOracle = [][]string{
	{"TokenOr"},
	{"TokenAnd"},
	{"TokenEqualOp", "TokenNotEqual"},
	{"TokenGreaterThan", "TokenGreaterThanEq", "TokenLessThan", "TokenLessThanEq"},
	{"TokenPlus", "TokenMinus"},
	{"TokenStar", "TokenSlash", "TokenPercent"},
}

var opImplOracle = map[string][2]string{ // token -> (stdlib function, result type)
	"TokenOr": {"OrFunc", "Bool"}, "TokenAnd": {"AndFunc", "Bool"},
	"TokenEqualOp": {"EqualFunc", "Bool"}, "TokenNotEqual": {"NotEqualFunc", "Bool"},
	"TokenGreaterThan": {"GreaterThanFunc", "Bool"}, "TokenGreaterThanEq": {"GreaterThanOrEqualToFunc", "Bool"},
	"TokenLessThan": {"LessThanFunc", "Bool"}, "TokenLessThanEq": {"LessThanOrEqualToFunc", "Bool"},
	"TokenPlus": {"AddFunc", "Number"}, "TokenMinus": {"SubtractFunc", "Number"},
	"TokenStar": {"MultiplyFunc", "Number"}, "TokenSlash": {"DivideFunc", "Number"}, "TokenPercent": {"ModuloFunc", "Number"},
}

// operationDefs: package-level `OpX = &Operation{Impl: stdlib.F, Type: cty.T}`.
func operationDefs(pkg *packages.Package) map[string][2]string {
	out := map[string][2]string{}
	for _, f := range pkg.Syntax {
		for _, d := range f.Decls {
			gd, ok := d.(*ast.GenDecl)
			if !ok || gd.Tok != token.VAR {
				continue
			}
			for _, sp := range gd.Specs {
				vs := sp.(*ast.ValueSpec)
				for i, nm := range vs.Names {
					if i >= len(vs.Values) {
						continue
					}
					ue, ok := vs.Values[i].(*ast.UnaryExpr)
					if !ok {
						continue
					}
					cl, ok := ue.X.(*ast.CompositeLit)
					if !ok || exprStr(cl.Type) != "Operation" {
						continue
					}
					var impl, ty string
					for _, el := range cl.Elts {
						if kv, ok := el.(*ast.KeyValueExpr); ok {
							switch exprStr(kv.Key) {
							case "Impl":
								impl = strings.TrimPrefix(exprStr(kv.Value), "stdlib.")
							case "Type":
								ty = strings.TrimPrefix(exprStr(kv.Value), "cty.")
							}
						}
					}
					out[nm.Name] = [2]string{impl, ty}
				}
			}
		}
	}
	return out
}

func c01OpTables(c *Ctx) {
	c.Rule("R1 optable: hclsyntax.binaryOps, read from its composite literal, has the six precedence levels of the specification in order (|| ; && ; == != ; > >= < <= ; + - ; * / %, lowest first), no token twice, and every token's Operation has the stdlib implementation and result type the specification assigns to that operator")
	pkg := c.P.Pkg("hclsyntax")
	var lit *ast.CompositeLit
	var pos token.Pos
	for _, f := range pkg.Syntax {
		ast.Inspect(f, func(n ast.Node) bool {
			as, ok := n.(*ast.AssignStmt)
			if !ok || len(as.Lhs) != 1 || exprStr(as.Lhs[0]) != "binaryOps" {
				return true
			}
			if cl, ok := as.Rhs[0].(*ast.CompositeLit); ok {
				lit = cl
				pos = as.Pos()
			}
			return true
		})
	}
	if lit == nil {
		c.CheckerFail("optable", "binaryOps literal not found")
		return
	}
	c.Fn("hclsyntax.init[binaryOps]")
	defs := operationDefs(pkg)
	var levels [][]string
	tokOp := map[string]string{}
	for _, el := range lit.Elts {
		m, ok := el.(*ast.CompositeLit)
		if !ok {
			continue
		}
		var toks []string
		for _, kv := range m.Elts {
			k := kv.(*ast.KeyValueExpr)
			toks = append(toks, exprStr(k.Key))
			if prev, dup := tokOp[exprStr(k.Key)]; dup {
				c.Fail("optable", "hclsyntax.binaryOps:duplicate["+exprStr(k.Key)+"]", k.Pos(), "token appears at two precedence levels ("+prev+")")
			}
			tokOp[exprStr(k.Key)] = exprStr(k.Value)
		}
		sort.Strings(toks)
		levels = append(levels, toks)
	}
	c.Check(len(levels) == len(opOracle), "optable", "hclsyntax.binaryOps:levels", pos, fmt.Sprintf("%d precedence levels", len(levels)),
		fmt.Sprintf("binaryOps has %d precedence levels, the specification has %d", len(levels), len(opOracle)))
	for i := 0; i < len(levels) && i < len(opOracle); i++ {
		want := append([]string{}, opOracle[i]...)
		sort.Strings(want)
		c.Check(strings.Join(levels[i], ",") == strings.Join(want, ","), "optable", fmt.Sprintf("hclsyntax.binaryOps:level[%d]", i+1), pos, strings.Join(levels[i], " "),
			fmt.Sprintf("precedence level %d (lowest first) holds {%s}, the specification has {%s}", i+1, strings.Join(levels[i], ","), strings.Join(want, ",")))
	}
	var toks []string
	for t := range opImplOracle {
		toks = append(toks, t)
	}
	sort.Strings(toks)
	for _, t := range toks {
		op := tokOp[t]
		def := defs[op]
		want := opImplOracle[t]
		c.Sites++
		c.Check(def == want, "optable", "hclsyntax.binaryOps:impl["+t+"]", pos, op+" = "+def[0]+" : "+def[1],
			fmt.Sprintf("%s is bound to %s (Impl %s, Type %s); the specification's operator is %s with result type %s", t, op, def[0], def[1], want[0], want[1]))
	}
}

func c01Associativity(c *Ctx) {
	c.Rule("R2 assoc: parser.parseBinaryOps parses both operands of a level with the remaining (higher) levels only — every recursive call passes ops[1:] — and folds further operators of its own level in a loop (left associativity); parseTernaryConditional starts it with the whole table")
	fn := c.P.LookupFunc("hclsyntax", "parser.parseBinaryOps")
	tern := c.P.LookupFunc("hclsyntax", "parser.parseTernaryConditional")
	if fn == nil || tern == nil {
		c.CheckerFail("assoc", "anchor parseBinaryOps / parseTernaryConditional does not resolve")
		return
	}
	c.Fn(FuncName(fn))
	opsParam := fn.Params[1]
	n := 0
	inLoop := false
	for _, b := range fn.Blocks {
		for _, ins := range b.Instrs {
			call, ok := ins.(*ssa.Call)
			if !ok || call.Call.StaticCallee() != fn {
				continue
			}
			n++
			arg := call.Call.Args[1]
			ok2 := false
			if sl, ok := arg.(*ssa.Slice); ok && sl.X == ssa.Value(opsParam) {
				if lo, ok := constInt(sl.Low); ok && lo == 1 && sl.High == nil {
					ok2 = true
				}
			}
			c.Check(ok2, "assoc", "hclsyntax.parser.parseBinaryOps:recursive-call", call.Pos(), "operand parsed with ops[1:]",
				"an operand is parsed with a table other than ops[1:]: operators of the same level bind to the right (or the recursion does not descend)")
			// is this call inside a cycle?
			for _, scc := range sccBlocks(fn.Blocks, nil) {
				if len(scc) > 1 {
					for _, sb := range scc {
						if sb == b {
							inLoop = true
						}
					}
				}
			}
		}
	}
	c.Floor("assoc recursive calls", n, 2, "lhs and rhs")
	c.Check(inLoop, "assoc", "hclsyntax.parser.parseBinaryOps:loop", fn.Pos(), "same-level operators are folded in a loop", "parseBinaryOps no longer loops over operators of its own level")
	// ternary starts with the whole table
	whole := false
	var ternBlocks []*ssa.BasicBlock
	for _, f := range append([]*ssa.Function{tern}, tern.AnonFuncs...) {
		ternBlocks = append(ternBlocks, f.Blocks...)
	}
	for _, b := range ternBlocks {
		for _, ins := range b.Instrs {
			if call, ok := ins.(*ssa.Call); ok && call.Call.StaticCallee() == fn {
				if u, ok := call.Call.Args[1].(*ssa.UnOp); ok {
					if g, ok := u.X.(*ssa.Global); ok && g.Name() == "binaryOps" {
						whole = true
					}
				}
			}
		}
	}
	c.Check(whole, "assoc", "hclsyntax.parser.parseTernaryConditional:table", tern.Pos(), "starts with binaryOps", "parseTernaryConditional does not start operator parsing with the whole binaryOps table")
}

func c01Unary(c *Ctx) {
	c.Rule("R3 unary: in parseExpressionTerm the arm for TokenMinus builds UnaryOpExpr{Op: OpNegate} and the arm for TokenBang builds UnaryOpExpr{Op: OpLogicalNot}, each with an operand parsed by parseExpressionWithTraversals (binds tighter than every binary operator); OpNegate/OpLogicalNot are NegateFunc:Number and NotFunc:Bool")
	fd, pkg := c.P.LookupDecl("hclsyntax", "parser.parseExpressionTerm")
	if fd == nil {
		c.CheckerFail("unary", "anchor parseExpressionTerm does not resolve")
		return
	}
	c.Fn(declName(pkg, fd))
	defs := operationDefs(pkg)
	want := map[string]string{"TokenMinus": "OpNegate", "TokenBang": "OpLogicalNot"}
	wantDef := map[string][2]string{"OpNegate": {"NegateFunc", "Number"}, "OpLogicalNot": {"NotFunc", "Bool"}}
	found := map[string]bool{}
	ast.Inspect(fd.Body, func(n ast.Node) bool {
		cc, ok := n.(*ast.CaseClause)
		if !ok || len(cc.List) != 1 {
			return true
		}
		tok := exprStr(cc.List[0])
		op, isUnary := want[tok]
		if !isUnary {
			return true
		}
		found[tok] = true
		var scan func(stmts []ast.Stmt, bind map[string]string, depth int) (string, string)
		scan = func(stmts []ast.Stmt, bind map[string]string, depth int) (gotOp, operandCall string) {
			var helper *ast.CallExpr
			for _, st := range stmts {
				ast.Inspect(st, func(m ast.Node) bool {
					switch x := m.(type) {
					case *ast.CompositeLit:
						if exprStr(x.Type) == "UnaryOpExpr" {
							for _, el := range x.Elts {
								if kv, ok := el.(*ast.KeyValueExpr); ok && exprStr(kv.Key) == "Op" {
									gotOp = exprStr(kv.Value)
									if b, ok := bind[gotOp]; ok {
										gotOp = b
									}
								}
							}
						}
					case *ast.CallExpr:
						if sel, ok := x.Fun.(*ast.SelectorExpr); ok && (strings.HasPrefix(sel.Sel.Name, "parse") || sel.Sel.Name == "ParseExpression") {
							if len(x.Args) > 0 && helper == nil {
								helper = x // a parse helper that is handed the operation
							} else if operandCall == "" && len(x.Args) == 0 {
								operandCall = sel.Sel.Name
							}
						}
					}
					return true
				})
			}
			if gotOp == "" && helper != nil && depth < 2 {
				// the arm delegates to a helper: look into it with its parameters bound to the arguments
				name := helper.Fun.(*ast.SelectorExpr).Sel.Name
				if hd, _ := c.P.LookupDecl("hclsyntax", "parser."+name); hd != nil && hd.Body != nil {
					b2 := map[string]string{}
					k := 0
					for _, f := range hd.Type.Params.List {
						for _, nm := range f.Names {
							if k < len(helper.Args) {
								b2[nm.Name] = exprStr(helper.Args[k])
							}
							k++
						}
					}
					return scan(hd.Body.List, b2, depth+1)
				}
			}
			return gotOp, operandCall
		}
		gotOp, operandCall := scan(cc.Body, nil, 0)
		c.Check(gotOp == op, "unary", "hclsyntax.parser.parseExpressionTerm:arm["+tok+"].op", cc.Pos(), gotOp, fmt.Sprintf("the %s arm builds a unary expression with %s, not %s", tok, gotOp, op))
		c.Check(operandCall == "parseExpressionWithTraversals", "unary", "hclsyntax.parser.parseExpressionTerm:arm["+tok+"].operand", cc.Pos(), "operand = term with traversals",
			fmt.Sprintf("the operand of unary %s is parsed with %s: a following binary operator is captured by the unary operator (-a+b parses as -(a+b))", tok, operandCall))
		c.Check(defs[op] == wantDef[op], "unary", "hclsyntax:"+op, cc.Pos(), op+" = "+defs[op][0]+" : "+defs[op][1], fmt.Sprintf("%s is defined as %v, the specification wants %v", op, defs[op], wantDef[op]))
		return true
	})
	for tok := range want {
		if !found[tok] {
			c.Fail("unary", "hclsyntax.parser.parseExpressionTerm:arm["+tok+"]", fd.Pos(), "no arm for "+tok)
		}
	}
}

func c01KeywordLiterals(c *Ctx) {
	c.Rule("R4 literals: the identifier arm of parseExpressionTerm maps true → cty.True, false → cty.False, null → cty.NullVal(cty.DynamicPseudoType)")
	fd, pkg := c.P.LookupDecl("hclsyntax", "parser.parseExpressionTerm")
	if fd == nil {
		return
	}
	want := map[string]string{"true": "cty.True", "false": "cty.False", "null": "cty.NullVal(cty.DynamicPseudoType)"}
	got := map[string]string{}
	ast.Inspect(fd.Body, func(n ast.Node) bool {
		cc, ok := n.(*ast.CaseClause)
		if !ok || len(cc.List) != 1 {
			return true
		}
		kw, ok := constString(pkg.TypesInfo, cc.List[0])
		if !ok {
			return true
		}
		ast.Inspect(cc, func(m ast.Node) bool {
			if cl, ok := m.(*ast.CompositeLit); ok && exprStr(cl.Type) == "LiteralValueExpr" {
				for _, el := range cl.Elts {
					if kv, ok := el.(*ast.KeyValueExpr); ok && exprStr(kv.Key) == "Val" {
						got[kw] = exprStr(kv.Value)
					}
				}
			}
			return true
		})
		return true
	})
	for kw, w := range want {
		c.Check(got[kw] == w, "literals", "hclsyntax.parser.parseExpressionTerm:keyword["+kw+"]", fd.Pos(), kw+" → "+got[kw], fmt.Sprintf("the keyword %s evaluates to %s, the specification says %s", kw, got[kw], w))
	}
}

func c01ReaderEscapes(c *Ctx) {
	c.Rule("R5 escapes: ParseStringLiteralToken decodes exactly the escapes of the specification: \\n \\r \\t \\\" \\\\ to LF CR TAB quote backslash, \\uNNNN and \\UNNNNNNNN, and $${ / %%{ to ${ / %{")
	rfd, rpkg := c.P.LookupDecl("hclsyntax", "ParseStringLiteralToken")
	rfn := c.P.LookupFunc("hclsyntax", "ParseStringLiteralToken")
	if rfd == nil || rfn == nil {
		c.CheckerFail("escapes", "anchor ParseStringLiteralToken does not resolve")
		return
	}
	c.Fn(declName(rpkg, rfd))
	// the table is read from SSA: for every append of one constant byte, the values the escape
	// selector can have there (or the constant entries of a lookup table indexed by the selector)
	tbl, uni, conflict := readerEscapes(c.P, rfn)
	if conflict != "" {
		c.Fail("escapes", "hclsyntax.ParseStringLiteralToken:table", rfd.Pos(), conflict)
	}
	reader := map[rune]rune{}
	for k, v := range tbl {
		if uni[k] {
			continue // bytes appended while encoding a \u / \U escape are not a table entry
		}
		reader[rune(k)] = rune(v)
	}
	hasUnicode := map[rune]bool{}
	for k := range uni {
		hasUnicode[rune(k)] = true
	}
	want := map[rune]rune{'n': '\n', 'r': '\r', 't': '\t', '"': '"', '\\': '\\'}
	for sel, ch := range want {
		c.Check(reader[sel] == ch, "escapes", fmt.Sprintf("hclsyntax.ParseStringLiteralToken:escape[\\%c]", sel), rfd.Pos(), fmt.Sprintf("\\%c → %q", sel, reader[sel]),
			fmt.Sprintf("\\%c decodes to %q, the specification says %q", sel, reader[sel], ch))
	}
	var extra []string
	for sel := range reader {
		if _, ok := want[sel]; !ok {
			extra = append(extra, string(sel))
		}
	}
	c.Check(len(extra) == 0, "escapes", "hclsyntax.ParseStringLiteralToken:no-extra", rfd.Pos(), "no escapes beyond the specification", "additional escape selectors are accepted: "+strings.Join(extra, " "))
	c.Check(hasUnicode['u'] && hasUnicode['U'], "escapes", "hclsyntax.ParseStringLiteralToken:unicode", rfd.Pos(), "\\u and \\U handled", "\\u / \\U escapes are not handled")
}

// R6: a newline-insensitive region that spans nested parsing covers its closing delimiter.
func c01BracketRegions(c *Ctx) {
	c.Rule("R6 region.closer: in the native parser, every PushIncludeNewlines(false) … PopIncludeNewlines() region that contains a nested expression parse inspects its closing delimiter before the pop: on every path from the push to a non-deferred pop there is a Read/Peek whose token type is compared with a closing delimiter (or end of input), or a recover/recoverOver call — otherwise a newline or comment before the closing bracket ends the construct early (layout independence inside brackets)")
	push := c.P.LookupFunc("hclsyntax", "peeker.PushIncludeNewlines")
	pop := c.P.LookupFunc("hclsyntax", "peeker.PopIncludeNewlines")
	if push == nil || pop == nil {
		c.CheckerFail("region.closer", "anchor Push/PopIncludeNewlines does not resolve")
		return
	}
	closers := map[int64]bool{}
	for _, nm := range []string{"TokenCBrack", "TokenCParen", "TokenCBrace", "TokenTemplateSeqEnd", "TokenEOF", "TokenCQuote", "TokenCHeredoc"} {
		if v, ok := constIntOf(c.P, "hclsyntax", nm); ok {
			closers[v] = true
		}
	}
	isParseCall := func(ins ssa.Instruction) bool {
		call, ok := ins.(*ssa.Call)
		if !ok {
			return false
		}
		cal := call.Call.StaticCallee()
		return cal != nil && cal.Signature.Recv() != nil && isNamed(cal.Signature.Recv().Type(), hclsyntaxPath, "parser") &&
			(strings.HasPrefix(cal.Name(), "parse") || strings.HasPrefix(cal.Name(), "Parse") || strings.HasPrefix(cal.Name(), "finishParsing"))
	}
	// the recovery helpers look for the closing delimiter themselves (resolved as anchors, so that a
	// rename of one of them is followed)
	recoverFns := map[*ssa.Function]bool{}
	for _, n := range []string{"recover", "recoverOver", "recoverAfterBodyItem"} {
		if f := c.P.LookupFunc("hclsyntax", "parser."+n); f != nil {
			recoverFns[f] = true
		}
	}
	// closerValue: a TokenType value that can only be a closing delimiter (constant, or phi of such)
	var closerValue func(v ssa.Value, d int) bool
	closerValue = func(v ssa.Value, d int) bool {
		if d > 4 || !isNamed(v.Type(), hclsyntaxPath, "TokenType") {
			return false
		}
		if n, ok := constInt(v); ok {
			return closers[n]
		}
		if phi, ok := v.(*ssa.Phi); ok {
			for _, e := range phi.Edges {
				if !closerValue(e, d+1) {
					return false
				}
			}
			return len(phi.Edges) > 0
		}
		return false
	}
	// consumesCloser: parser methods every normal return of which has looked at a closing
	// delimiter (they parse "the rest of" a bracketed construct and own its closer)
	consumesCloser := map[*ssa.Function]bool{}
	var inspectsCloser func(ins ssa.Instruction) bool
	inspectsCloser = func(ins ssa.Instruction) bool {
		switch x := ins.(type) {
		case *ssa.Call:
			cal := staticCallee(&x.Call)
			if cal != nil && recoverFns[cal] {
				return true
			}
			if cal != nil && consumesCloser[cal] {
				return true
			}
		case *ssa.BinOp:
			if x.Op == token.EQL || x.Op == token.NEQ {
				for _, v := range []ssa.Value{x.X, x.Y} {
					if closerValue(v, 0) {
						return true
					}
				}
			}
		}
		return false
	}
	for changed := true; changed; {
		changed = false
		for _, fn := range c.P.pkgFuncs("hclsyntax") {
			if consumesCloser[fn] || len(fn.Blocks) == 0 {
				continue
			}
			top := fn
			for top.Parent() != nil {
				top = top.Parent()
			}
			if top.Signature.Recv() == nil || !isNamed(top.Signature.Recv().Type(), hclsyntaxPath, "parser") {
				continue
			}
			if _, escapes := reachesReturnAvoiding(fn.Blocks[0], 0, inspectsCloser, nil); !escapes {
				// panics are not returns: reachesReturnAvoiding only stops at Return instructions
				consumesCloser[fn] = true
				changed = true
			}
		}
	}
	n := 0
	for _, fn := range c.P.pkgFuncs("hclsyntax") {
		for _, b := range fn.Blocks {
			for i, ins := range b.Instrs {
				call, ok := ins.(*ssa.Call)
				if !ok || call.Call.StaticCallee() != push {
					continue
				}
				if cn, ok := call.Call.Args[1].(*ssa.Const); !ok || cn.Value == nil || cn.Value.String() != "false" {
					continue
				}
				// walk to every non-deferred pop; track whether a parse call / closer inspection was seen
				type st struct {
					b      *ssa.BasicBlock
					idx    int
					parsed bool
					closer bool
				}
				seen := map[[3]int]bool{}
				var bad token.Pos
				spans := false
				work := []st{{b, i + 1, false, false}}
				for len(work) > 0 {
					s := work[len(work)-1]
					work = work[:len(work)-1]
					k := [3]int{s.b.Index, boolInt(s.parsed), boolInt(s.closer)}
					if seen[k] && s.idx == 0 {
						continue
					}
					if s.idx == 0 {
						seen[k] = true
					}
					parsed, closer := s.parsed, s.closer
					stop := false
					for j := s.idx; j < len(s.b.Instrs) && !stop; j++ {
						in2 := s.b.Instrs[j]
						if isParseCall(in2) {
							parsed = true
						}
						if inspectsCloser(in2) {
							closer = true
						}
						if c2, ok := in2.(*ssa.Call); ok && c2.Call.StaticCallee() == pop {
							if parsed {
								spans = true
								if !closer && !bad.IsValid() {
									bad = c2.Pos()
								}
							}
							stop = true
						}
						if c2, ok := in2.(*ssa.Call); ok && c2.Call.StaticCallee() == push && in2 != ins {
							stop = true // nested region: handled on its own
						}
						if _, ok := in2.(*ssa.Return); ok {
							stop = true
						}
					}
					if stop {
						continue
					}
					for _, su := range s.b.Succs {
						work = append(work, st{su, 0, parsed, closer})
					}
				}
				if !spans {
					continue
				}
				if bad.IsValid() && wholeInputRegion(fn, call, pop) {
					// the parser and its peeker are created in this function and nothing is read
					// after the pop: the region covers the whole input, and its closing
					// "delimiter" (end of input) is the callee's business.
					bad = token.NoPos
				}
				n++
				c.Fn(FuncName(fn))
				c.Sites++
				c.Check(!bad.IsValid(), "region.closer", FuncName(fn)+":push[false]", call.Pos(), "closing delimiter inspected inside the region",
					"the newline-insensitive region opened here is closed at "+c.P.Position(bad)+" before its closing delimiter has been looked at: a newline or comment before the closing bracket is then significant")
			}
		}
	}
	c.Floor("region.closer regions", n, 4, "index brackets, parentheses, function call, template interpolation and control sequences, public entry points")
	_ = types.Typ
}

// wholeInputRegion: the receiver of the push is a parser allocated in fn, and no parser/peeker
// method is called after any pop in fn.
func wholeInputRegion(fn *ssa.Function, push *ssa.Call, pop *ssa.Function) bool {
	var root ssa.Value = push.Call.Args[0]
	for {
		switch x := root.(type) {
		case *ssa.FieldAddr:
			root = x.X
			continue
		case *ssa.UnOp:
			root = x.X
			continue
		}
		break
	}
	if al, ok := root.(*ssa.Alloc); !ok || al.Parent() != fn {
		// value loaded from a local cell holding a fresh peeker
		if _, ok := root.(*ssa.Call); !ok {
			return false
		}
	}
	for _, b := range fn.Blocks {
		for i, ins := range b.Instrs {
			c2, ok := ins.(*ssa.Call)
			if !ok || c2.Call.StaticCallee() != pop {
				continue
			}
			// everything reachable after the pop
			seen := map[*ssa.BasicBlock]bool{}
			var walk func(bb *ssa.BasicBlock, from int) bool
			walk = func(bb *ssa.BasicBlock, from int) bool {
				for _, in2 := range bb.Instrs[from:] {
					if c3, ok := in2.(*ssa.Call); ok {
						if cal := c3.Call.StaticCallee(); cal != nil && cal.Signature.Recv() != nil {
							rt := cal.Signature.Recv().Type()
							if (isNamed(rt, hclsyntaxPath, "parser") || isNamed(rt, hclsyntaxPath, "peeker")) && cal.Name() != "AssertEmptyIncludeNewlinesStack" {
								return false
							}
						}
					}
				}
				for _, su := range bb.Succs {
					if !seen[su] {
						seen[su] = true
						if !walk(su, 0) {
							return false
						}
					}
				}
				return true
			}
			if !walk(b, i+1) {
				return false
			}
		}
	}
	return true
}

func boolInt(b bool) int {
	if b {
		return 1
	}
	return 0
}

// ---- R7: splat auto-upgrade decision table -----------------------------------------------------

var tyKinds = []string{"string", "number", "bool", "list", "set", "map", "tuple", "object", "capsule"}

var tyPredicates = map[string]map[string]bool{
	"IsPrimitiveType":  {"string": true, "number": true, "bool": true},
	"IsListType":       {"list": true},
	"IsSetType":        {"set": true},
	"IsMapType":        {"map": true},
	"IsCollectionType": {"list": true, "set": true, "map": true},
	"IsTupleType":      {"tuple": true},
	"IsObjectType":     {"object": true},
	"IsCapsuleType":    {"capsule": true},
}

// kindEval evaluates a boolean expression built from cty.Type kind predicates on one type variable.
type kindEval struct {
	info   *types.Info
	defs   map[types.Object]ast.Expr // single-assignment locals
	tyObj  types.Object              // the type variable the predicates were applied to
	reason string
}

func (k *kindEval) eval(e ast.Expr, kind string) (val bool, ok bool) {
	switch x := e.(type) {
	case *ast.ParenExpr:
		return k.eval(x.X, kind)
	case *ast.UnaryExpr:
		if x.Op == token.NOT {
			v, ok := k.eval(x.X, kind)
			return !v, ok
		}
	case *ast.BinaryExpr:
		switch x.Op {
		case token.LOR, token.LAND:
			a, ok1 := k.eval(x.X, kind)
			b, ok2 := k.eval(x.Y, kind)
			if !ok1 || !ok2 {
				return false, false
			}
			if x.Op == token.LOR {
				return a || b, true
			}
			return a && b, true
		case token.EQL, token.NEQ:
			// T == cty.DynamicPseudoType: false for every concrete kind
			for _, pair := range [][2]ast.Expr{{x.X, x.Y}, {x.Y, x.X}} {
				if k.isTyVar(pair[0]) && exprStr(pair[1]) == "cty.DynamicPseudoType" {
					return x.Op == token.NEQ, true
				}
			}
		}
	case *ast.Ident:
		if x.Name == "true" || x.Name == "false" {
			return x.Name == "true", true
		}
		if d, ok := k.defs[k.info.ObjectOf(x)]; ok {
			return k.eval(d, kind)
		}
	case *ast.CallExpr:
		if sel, ok := x.Fun.(*ast.SelectorExpr); ok && len(x.Args) == 0 {
			if tab, ok := tyPredicates[sel.Sel.Name]; ok && k.isTyVar(sel.X) {
				return tab[kind], true
			}
		}
	}
	k.reason = "cannot interpret " + exprStr(e)
	return false, false
}

func (k *kindEval) isTyVar(e ast.Expr) bool {
	id, ok := e.(*ast.Ident)
	if !ok {
		return false
	}
	o := k.info.ObjectOf(id)
	if o == nil || !isNamed(o.Type(), ctyPath, "Type") {
		return false
	}
	if k.tyObj == nil {
		k.tyObj = o
	}
	return k.tyObj == o
}

// singleAssignments: locals assigned exactly once in body (by := or =), with their defining expression.
func singleAssignments(info *types.Info, body *ast.BlockStmt) (defs map[types.Object]ast.Expr, first map[types.Object]ast.Expr) {
	count := map[types.Object]int{}
	defs = map[types.Object]ast.Expr{}
	first = map[types.Object]ast.Expr{}
	ast.Inspect(body, func(n ast.Node) bool {
		switch x := n.(type) {
		case *ast.AssignStmt:
			for i, l := range x.Lhs {
				id, ok := l.(*ast.Ident)
				if !ok {
					continue
				}
				o := info.ObjectOf(id)
				if o == nil {
					continue
				}
				count[o]++
				if len(x.Lhs) == len(x.Rhs) {
					defs[o] = x.Rhs[i]
					if _, ok := first[o]; !ok {
						first[o] = x.Rhs[i]
					}
				} else if _, ok := first[o]; !ok && len(x.Rhs) == 1 {
					first[o] = x.Rhs[0]
				}
			}
		case *ast.IncDecStmt:
			if id, ok := x.X.(*ast.Ident); ok {
				count[info.ObjectOf(id)] += 2
			}
		case *ast.UnaryExpr:
			if x.Op == token.AND {
				if id, ok := x.X.(*ast.Ident); ok {
					count[info.ObjectOf(id)] += 2
				}
			}
		}
		return true
	})
	for o, n := range count {
		if n != 1 {
			delete(defs, o)
		}
	}
	return defs, first
}

func c01SplatUpgrade(c *Ctx) {
	c.Rule("R7 splat.upgrade: in SplatExpr.Value the block that wraps the source in a single-element tuple, and the return of the empty tuple for a null source, are reachable — with the cty type-kind predicates of the source's type fixed to each type kind in turn and every other condition left open — exactly for the kinds that are not tuple, list or set: the specification's auto-upgrade rule")
	fn := c.P.LookupFunc("hclsyntax", "SplatExpr.Value")
	if fn == nil {
		c.CheckerFail("splat.upgrade", "anchor SplatExpr.Value does not resolve")
		return
	}
	c.Fn(FuncName(fn))
	// target blocks
	var wrap, empty *ssa.BasicBlock
	for _, b := range fn.Blocks {
		for _, ins := range b.Instrs {
			switch x := ins.(type) {
			case *ssa.Call:
				if cal := x.Call.StaticCallee(); cal != nil && isFunc(cal, ctyPath, "TupleVal") && wrap == nil {
					if sl, ok := x.Call.Args[0].(*ssa.Slice); ok {
						if al, ok := sl.X.(*ssa.Alloc); ok && len(storesInto(al)) == 1 {
							wrap = b
						}
					}
				}
			case *ssa.Return:
				if len(x.Results) > 0 && empty == nil {
					var fromEmpty func(v ssa.Value, d int) bool
					fromEmpty = func(v ssa.Value, d int) bool {
						if d > 4 {
							return false
						}
						switch y := v.(type) {
						case *ssa.UnOp:
							if g, ok := y.X.(*ssa.Global); ok && g.Name() == "EmptyTupleVal" {
								return true
							}
						case *ssa.Call:
							if len(y.Call.Args) > 0 && calleeOf(&y.Call).isCtyValueMethod("WithSameMarks", "WithMarks", "Mark") {
								return fromEmpty(y.Call.Args[0], d+1)
							}
						}
						return false
					}
					if fromEmpty(lookThrough(x.Results[0]), 0) {
						empty = b
					}
				}
			}
		}
	}
	check := func(name string, target *ssa.BasicBlock) {
		if target == nil {
			c.Fail("splat.upgrade", "hclsyntax.SplatExpr.Value:"+name, fn.Pos(), "the "+name+" branch of the auto-upgrade rule was not found")
			return
		}
		var wrong []string
		for _, kind := range tyKinds {
			got := kindReachable(fn, target, kind)
			want := kind != "tuple" && kind != "list" && kind != "set"
			if got != want {
				wrong = append(wrong, fmt.Sprintf("%s→%v", kind, got))
			}
		}
		c.Sites++
		c.Check(len(wrong) == 0, "splat.upgrade", "hclsyntax.SplatExpr.Value:"+name, target.Instrs[0].Pos(), "reached ⇔ kind ∉ {tuple,list,set} over "+fmt.Sprint(len(tyKinds))+" type kinds",
			"auto-upgrade decision differs from the specification for type kinds: "+strings.Join(wrong, " "))
	}
	check("wrap", wrap)
	check("null", empty)
}

// kindReachable: is target reachable from fn's entry when every cty.Type kind predicate evaluates
// as for a type of the given kind and every other condition may go either way? Boolean values
// computed from the predicates are carried along each explored path.
func kindReachable(fn *ssa.Function, target *ssa.BasicBlock, kind string) bool {
	type env map[ssa.Value]bool
	var eval func(v ssa.Value, e env, d int) (val, known bool)
	eval = func(v ssa.Value, e env, d int) (bool, bool) {
		if r, ok := e[v]; ok {
			return r, true
		}
		if d > 10 {
			return false, false
		}
		switch x := v.(type) {
		case *ssa.Const:
			if x.Value != nil && (x.Value.String() == "true" || x.Value.String() == "false") {
				return x.Value.String() == "true", true
			}
		case *ssa.UnOp:
			if x.Op == token.NOT {
				r, ok := eval(x.X, e, d+1)
				return !r, ok
			}
			if x.Op == token.MUL {
				// a boolean local: its only store
				if al, ok := x.X.(*ssa.Alloc); ok {
					if sts := storesInto(al); len(sts) == 1 && sts[0].Addr == ssa.Value(al) {
						return eval(sts[0].Val, e, d+1)
					}
				}
			}
		case *ssa.Call:
			if cal := x.Call.StaticCallee(); cal != nil && cal.Signature.Recv() != nil && isNamed(cal.Signature.Recv().Type(), ctyPath, "Type") {
				if tab, ok := tyPredicates[cal.Name()]; ok {
					return tab[kind], true
				}
			}
		case *ssa.BinOp:
			// T == cty.DynamicPseudoType is false for a concrete kind
			if x.Op == token.EQL || x.Op == token.NEQ {
				for _, y := range []ssa.Value{x.X, x.Y} {
					if ld, ok := y.(*ssa.UnOp); ok {
						if g, ok := ld.X.(*ssa.Global); ok && g.Name() == "DynamicPseudoType" {
							return x.Op == token.NEQ, true
						}
					}
				}
			}
		}
		return false, false
	}
	sig := func(b, prev *ssa.BasicBlock, e env) string {
		var ks []string
		for v, r := range e {
			ks = append(ks, fmt.Sprintf("%s=%v", v.Name(), r))
		}
		sort.Strings(ks)
		pi := -1
		if prev != nil {
			pi = prev.Index
		}
		return fmt.Sprintf("%d<%d|%s", b.Index, pi, strings.Join(ks, ","))
	}
	seen := map[string]bool{}
	found := false
	var visit func(b, prev *ssa.BasicBlock, e env, depth int)
	visit = func(b, prev *ssa.BasicBlock, e env, depth int) {
		if found || depth > 400 {
			return
		}
		// phis first, from the edge taken
		e2 := env{}
		for k, v := range e {
			e2[k] = v
		}
		for _, ins := range b.Instrs {
			phi, ok := ins.(*ssa.Phi)
			if !ok {
				break
			}
			delete(e2, phi)
			if bt, ok := phi.Type().Underlying().(*types.Basic); ok && bt.Kind() == types.Bool && prev != nil {
				for k, p := range b.Preds {
					if p == prev {
						if r, known := eval(phi.Edges[k], e, 0); known {
							e2[phi] = r
						}
					}
				}
			}
		}
		key := sig(b, prev, e2)
		if seen[key] {
			return
		}
		seen[key] = true
		if b == target {
			found = true
			return
		}
		if iff, ok := lastIf(b); ok && len(b.Succs) == 2 {
			if v, known := eval(iff.Cond, e2, 0); known {
				if v {
					visit(b.Succs[0], b, e2, depth+1)
				} else {
					visit(b.Succs[1], b, e2, depth+1)
				}
				return
			}
		}
		for _, su := range b.Succs {
			visit(su, b, e2, depth+1)
		}
	}
	visit(fn.Blocks[0], nil, env{}, 0)
	return found
}

// R8 eval.pure: evaluating an expression does not change it.
func c01EvalPure(c *Ctx) {
	c.Rule("R8 eval.pure: no function reachable from a Value method of a native-syntax expression node (or from hcl.Index / hcl.GetAttr / Traversal.TraverseAbs/Rel) writes memory it did not allocate, other than the lock-guarded per-context table of AnonSymbolExpr: evaluation must not modify the syntax tree, or a second evaluation of the same expression (a loop body, a repeated Value call) evaluates a different expression than the one written")
	roots := map[*ssa.Function]bool{}
	for _, fn := range c.P.pkgFuncs("hclsyntax") {
		if fn.Parent() == nil && fn.Signature.Recv() != nil && fn.Name() == "Value" {
			roots[fn] = true
		}
	}
	for _, a := range [][2]string{{"", "Index"}, {"", "GetAttr"}, {"", "Traversal.TraverseAbs"}, {"", "Traversal.TraverseRel"}} {
		if f := c.P.LookupFunc(a[0], a[1]); f != nil {
			roots[f] = true
		} else {
			c.CheckerFail("eval.pure", "anchor "+a[0]+"."+a[1]+" does not resolve")
		}
	}
	cut := map[*ssa.Function]bool{}
	for _, a := range [][2]string{{"hclsyntax", "ParseExpression"}, {"hclsyntax", "ParseTemplate"}, {"hclsyntax", "ParseTraversalAbs"}, {"hclsyntax", "ParseConfig"}} {
		if f := c.P.LookupFunc(a[0], a[1]); f != nil {
			cut[f] = true
		}
	}
	nFns, nWrites := runEffects(c, "eval.pure", roots, map[string]bool{"hcl": true, "hclsyntax": true}, cut, "evaluation modifies the expression (or other shared state) it evaluates")
	c.Floor("eval.pure roots", len(roots), 20, "Value methods of the expression node types")
	c.Floor("eval.pure functions", nFns, 60, "functions reachable from evaluation")
	c.Floor("eval.pure writes", nWrites, 40, "writes classified")
}

// R9 strip.adjacent: a strip marker affects only the directly adjacent literal.
func c01StripFlag(c *Ctx) {
	c.Rule("R9 strip.adjacent: in parser.parseTemplateParts a boolean that is set when a `~}` strip marker is read (it starts false and is assigned true in the token loop: 'trim the next literal') never survives a token unchanged: on every path round the loop it is assigned anew, so it can only affect the token that directly follows the marker (the specification: a strip marker removes whitespace of the template literal directly adjacent to it)")
	fn := c.P.LookupFunc("hclsyntax", "parser.parseTemplateParts")
	if fn == nil {
		c.CheckerFail("strip.adjacent", "anchor parser.parseTemplateParts does not resolve")
		return
	}
	c.Fn(FuncName(fn))
	n := 0
	for _, b := range fn.Blocks {
		for _, ins := range b.Instrs {
			ph, ok := ins.(*ssa.Phi)
			if !ok {
				break
			}
			if bt, ok := ph.Type().Underlying().(*types.Basic); !ok || bt.Kind() != types.Bool {
				continue
			}
			var back []int
			initFalse := false
			for i, p := range b.Preds {
				if b.Dominates(p) {
					back = append(back, i)
				} else if cn, ok := ph.Edges[i].(*ssa.Const); ok && cn.Value != nil && cn.Value.String() == "false" {
					initFalse = true
				}
			}
			if len(back) == 0 || !initFalse {
				continue
			}
			setTrue, carried := false, false
			seen := map[ssa.Value]bool{}
			var visit func(v ssa.Value, d int)
			visit = func(v ssa.Value, d int) {
				if seen[v] || d > 8 {
					return
				}
				seen[v] = true
				if v == ssa.Value(ph) {
					carried = true
					return
				}
				switch x := v.(type) {
				case *ssa.Const:
					if x.Value != nil && x.Value.String() == "true" {
						setTrue = true
					}
				case *ssa.Phi:
					for _, e := range x.Edges {
						visit(e, d+1)
					}
				}
			}
			for _, i := range back {
				visit(ph.Edges[i], 0)
			}
			if !setTrue {
				continue
			}
			n++
			c.Sites++
			c.Check(!carried, "strip.adjacent", FuncName(fn)+":flag["+ph.Comment+"]", ph.Pos(), "assigned anew for every token",
				"the flag `"+ph.Comment+"`, set by a strip marker, can go round the token loop unchanged: the marker then trims a literal that is not directly adjacent to it (`${a ~}${b} c` loses the space before c)")
		}
	}
	c.Floor("strip.adjacent flags", n, 1, "the trim-next flag of parseTemplateParts")
}
