package main

import (
	"go/constant"
	"go/token"
	"go/types"

	"golang.org/x/tools/go/ssa"
)

// E-byteclass: the set of byte values for which a hand-written scanner predicate holds, or for
// which a scanner loop keeps going, obtained by interpreting the function's SSA for each of the 256
// values of the one byte it depends on (no repository code is compiled or run). Supported: integer
// and boolean constants, comparisons and arithmetic on them, !, phis, conversions between integer
// types, if/jump/return, and calls of module functions of the same kind. Anything else that the
// decision depends on makes the class undecided.

type bcVal struct {
	known bool
	i     int64 // integers and bytes; booleans as 0/1
}

type bcInterp struct {
	depth int
	err   string
}

func (in *bcInterp) constVal(c *ssa.Const) bcVal {
	if c.Value == nil {
		return bcVal{}
	}
	switch c.Value.Kind() {
	case constant.Int:
		if v, ok := constant.Int64Val(c.Value); ok {
			return bcVal{true, v}
		}
	case constant.Bool:
		if constant.BoolVal(c.Value) {
			return bcVal{true, 1}
		}
		return bcVal{true, 0}
	}
	return bcVal{}
}

func (in *bcInterp) eval(v ssa.Value, env map[ssa.Value]bcVal) bcVal {
	if r, ok := env[v]; ok {
		return r
	}
	switch x := v.(type) {
	case *ssa.Const:
		return in.constVal(x)
	case *ssa.BinOp:
		a, b := in.eval(x.X, env), in.eval(x.Y, env)
		if !a.known || !b.known {
			return bcVal{}
		}
		bo := func(c bool) bcVal {
			if c {
				return bcVal{true, 1}
			}
			return bcVal{true, 0}
		}
		switch x.Op {
		case token.EQL:
			return bo(a.i == b.i)
		case token.NEQ:
			return bo(a.i != b.i)
		case token.LSS:
			return bo(a.i < b.i)
		case token.LEQ:
			return bo(a.i <= b.i)
		case token.GTR:
			return bo(a.i > b.i)
		case token.GEQ:
			return bo(a.i >= b.i)
		case token.ADD:
			return bcVal{true, a.i + b.i}
		case token.SUB:
			return bcVal{true, a.i - b.i}
		case token.AND:
			return bcVal{true, a.i & b.i}
		case token.OR:
			return bcVal{true, a.i | b.i}
		}
	case *ssa.UnOp:
		if x.Op == token.NOT {
			a := in.eval(x.X, env)
			if a.known {
				return bcVal{true, 1 - a.i}
			}
		}
	case *ssa.Convert:
		if bt, ok := x.Type().Underlying().(*types.Basic); ok && bt.Info()&types.IsInteger != 0 {
			return in.eval(x.X, env)
		}
	case *ssa.ChangeType:
		return in.eval(x.X, env)
	case *ssa.Call:
		cal := x.Call.StaticCallee()
		if cal != nil && inModule(cal) && len(x.Call.Args) == 1 && in.depth < 4 {
			a := in.eval(x.Call.Args[0], env)
			if a.known {
				in.depth++
				r, ok := in.runPredicate(cal, a.i)
				in.depth--
				if ok {
					if r {
						return bcVal{true, 1}
					}
					return bcVal{true, 0}
				}
			}
		}
	}
	return bcVal{}
}

// walk follows the control flow from (b, idx) with env; stop(b) is consulted on entering a block.
// Returns the block at which it stopped (nil on a return or an undecidable branch) and, for a
// return, the returned value.
func (in *bcInterp) walk(b *ssa.BasicBlock, idx int, env map[ssa.Value]bcVal, stop func(*ssa.BasicBlock) bool) (*ssa.BasicBlock, bcVal, bool) {
	var prev *ssa.BasicBlock
	for steps := 0; steps < 400; steps++ {
		for i := idx; i < len(b.Instrs); i++ {
			switch x := b.Instrs[i].(type) {
			case *ssa.Phi:
				if prev != nil {
					for k, p := range b.Preds {
						if p == prev {
							env[x] = in.eval(x.Edges[k], env)
						}
					}
				}
			case *ssa.Return:
				if len(x.Results) == 1 {
					return nil, in.eval(x.Results[0], env), true
				}
				return nil, bcVal{}, true
			case *ssa.If:
				c := in.eval(x.Cond, env)
				if !c.known {
					in.err = "a branch depends on something other than the byte"
					return nil, bcVal{}, false
				}
				next := b.Succs[1]
				if c.i != 0 {
					next = b.Succs[0]
				}
				prev, b, idx = b, next, 0
				goto nextBlock
			case *ssa.Jump:
				prev, b, idx = b, b.Succs[0], 0
				goto nextBlock
			case *ssa.Panic:
				return nil, bcVal{}, false
			case ssa.Value:
				if _, have := env[x]; !have {
					if r := in.eval(x, env); r.known {
						env[x] = r
					}
				}
			}
		}
		return nil, bcVal{}, false
	nextBlock:
		if stop != nil && stop(b) {
			return b, bcVal{}, true
		}
	}
	in.err = "no decision within 400 steps"
	return nil, bcVal{}, false
}

// runPredicate: fn(byte) bool for one byte value.
func (in *bcInterp) runPredicate(fn *ssa.Function, v int64) (bool, bool) {
	if len(fn.Blocks) == 0 || len(fn.Params) != 1 {
		return false, false
	}
	env := map[ssa.Value]bcVal{fn.Params[0]: {true, v}}
	_, r, ok := in.walk(fn.Blocks[0], 0, env, nil)
	if !ok || !r.known {
		return false, false
	}
	return r.i != 0, true
}

// predicateClass: the bytes for which fn(byte) bool is true.
func predicateClass(fn *ssa.Function) (set [256]bool, err string) {
	in := &bcInterp{}
	for v := 0; v < 256; v++ {
		r, ok := in.runPredicate(fn, int64(v))
		if !ok {
			if in.err == "" {
				in.err = "the predicate is outside the interpreted subset"
			}
			return set, in.err
		}
		set[v] = r
	}
	return set, ""
}

// loopClass: fn scans a byte slice parameter in a loop, looking at one byte per iteration; the
// bytes for which the loop goes on to the next iteration (rather than leaving the loop).
func loopClass(fn *ssa.Function) (set [256]bool, err string) {
	// the byte read inside a cycle: *(&buf[i]) with buf a []byte parameter, or s[i] with s a string parameter
	var load ssa.Value
	var loadIns ssa.Instruction
	var scc []*ssa.BasicBlock
	isParam := func(v ssa.Value) bool {
		for _, p := range fn.Params {
			if v == ssa.Value(p) || isSpillOf(v, p) {
				return true
			}
		}
		return false
	}
	for _, comp := range sccBlocks(fn.Blocks, nil) {
		if len(comp) < 2 {
			continue
		}
		for _, b := range comp {
			for _, ins := range b.Instrs {
				var cand ssa.Value
				switch x := ins.(type) {
				case *ssa.UnOp:
					if x.Op == token.MUL {
						if ia, ok := x.X.(*ssa.IndexAddr); ok && isParam(ia.X) {
							cand = x
						}
					}
				case *ssa.Index:
					if bt, ok := x.X.Type().Underlying().(*types.Basic); ok && bt.Info()&types.IsString != 0 && isParam(x.X) {
						cand = x
					}
				}
				if cand == nil {
					continue
				}
				if bt, ok := cand.Type().Underlying().(*types.Basic); ok && bt.Kind() == types.Uint8 {
					// the first read of the iteration: the one whose block dominates the others
					if load == nil || (b != loadIns.Block() && b.Dominates(loadIns.Block())) {
						load, loadIns, scc = cand, ins, comp
					}
				}
			}
		}
	}
	if load == nil {
		return set, "no byte of a slice or string parameter is read inside a loop"
	}
	inLoop := map[*ssa.BasicBlock]bool{}
	for _, b := range scc {
		inLoop[b] = true
	}
	idx := 0
	for i, ins := range loadIns.Block().Instrs {
		if ins == loadIns {
			idx = i + 1
		}
	}
	sameElem := func(v ssa.Value) bool {
		switch x := v.(type) {
		case *ssa.UnOp:
			l0, ok := load.(*ssa.UnOp)
			if !ok || x.Op != token.MUL {
				return false
			}
			ia, ok1 := x.X.(*ssa.IndexAddr)
			ia0, ok2 := l0.X.(*ssa.IndexAddr)
			return ok1 && ok2 && (sameAddr(ia, ia0) || (ia.X == ia0.X && ia.Index == ia0.Index))
		case *ssa.Index:
			l0, ok := load.(*ssa.Index)
			return ok && x.X == l0.X && x.Index == l0.Index
		}
		return false
	}
	for v := 0; v < 256; v++ {
		in := &bcInterp{}
		env := map[ssa.Value]bcVal{load: {true, int64(v)}}
		// other reads of the same element in the iteration read the same byte
		for _, b := range scc {
			for _, ins := range b.Instrs {
				if val, ok := ins.(ssa.Value); ok && val != load && sameElem(val) {
					env[val] = bcVal{true, int64(v)}
				}
			}
		}
		at, _, ok := in.walk(loadIns.Block(), idx, env, func(b *ssa.BasicBlock) bool {
			return !inLoop[b] || b == loadIns.Block() || b.Dominates(loadIns.Block())
		})
		if !ok {
			if in.err == "" {
				in.err = "the loop body is outside the interpreted subset"
			}
			return set, in.err
		}
		set[v] = at != nil && inLoop[at] // back at the header or the body: next iteration; nil = returned
	}
	return set, ""
}

func classString(set [256]bool) string {
	out := ""
	for v := 0; v < 256; v++ {
		if !set[v] {
			continue
		}
		w := v
		for w+1 < 256 && set[w+1] {
			w++
		}
		show := func(b int) string {
			if b > 32 && b < 127 {
				return string(rune(b))
			}
			return "0x" + "0123456789abcdef"[b>>4:b>>4+1] + "0123456789abcdef"[b&15:b&15+1]
		}
		if out != "" {
			out += " "
		}
		if w > v+1 {
			out += show(v) + "-" + show(w)
		} else {
			out += show(v)
			if w == v+1 {
				out += " " + show(w)
			}
		}
		v = w
	}
	return out
}
