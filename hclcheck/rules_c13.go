package main

import (
	"fmt"
	"go/constant"
	"go/token"
	"go/types"
	"sort"
	"strings"

	"golang.org/x/tools/go/ssa"
)

func init() { register("C13", checkC13) }

const jsonPkgPath = modPath + "/json"

func checkC13(c *Ctx) {
	c13Trailing(c)
	c13Keywords(c)
	c13Validation(c)
	c13NodeMakers(c)
	c13EntryVerbatim(c)
	c13LiteralMapping(c)
	c13Precision(c)
	c13ErrorReturns(c)
	diagsKeptRule(c, "R7", 10, "json")
	c13ByteClasses(c)
	c13StringDelims(c)
	c.NotCovered("that the scanner and parser accept every valid JSON text and reject every invalid one (a language-equivalence question over byte strings); only the structural obligations above are decided")
}

// pathsAvoiding: is a Return reachable from (b, idx) without passing an instruction satisfying stop?
// allowEdge can veto edges (infeasible / excused).
func reachesReturnAvoiding(b *ssa.BasicBlock, idx int, stop func(ssa.Instruction) bool, excuseEdge func(from, to *ssa.BasicBlock) bool) (token.Pos, bool) {
	seen := map[*ssa.BasicBlock]bool{}
	var walk func(b *ssa.BasicBlock, idx int) (token.Pos, bool)
	walk = func(b *ssa.BasicBlock, idx int) (token.Pos, bool) {
		for i := idx; i < len(b.Instrs); i++ {
			if stop(b.Instrs[i]) {
				return token.NoPos, false
			}
			if r, ok := b.Instrs[i].(*ssa.Return); ok {
				return r.Pos(), true
			}
		}
		for _, su := range b.Succs {
			if seen[su] || (excuseEdge != nil && excuseEdge(b, su)) {
				continue
			}
			seen[su] = true
			if p, ok := walk(su, 0); ok {
				return p, true
			}
		}
		return token.NoPos, false
	}
	return walk(b, idx)
}

func constIntOf(p *Program, pkgSuffix, name string) (int64, bool) {
	pkg := p.Pkg(pkgSuffix)
	if pkg == nil {
		return 0, false
	}
	cn, ok := pkg.Types.Scope().Lookup(name).(*types.Const)
	if !ok {
		return 0, false
	}
	return constant.Int64Val(cn.Val())
}

// R1
func c13Trailing(c *Ctx) {
	c.Rule("R1 trailing: in json.parseFileContent and json.parseExpression every path from the parseValue call to the return passes the test of the next token against tokenEOF (or leaves through `len(diags) != 0`, i.e. with errors already reported), and the not-EOF edge appends an error diagnostic before returning")
	eof, ok := constIntOf(c.P, "json", "tokenEOF")
	pv := c.P.LookupFunc("json", "parseValue")
	if !ok || pv == nil {
		c.CheckerFail("trailing", "anchor json.tokenEOF / parseValue does not resolve")
		return
	}
	isEOFTest := func(ins ssa.Instruction) bool {
		bo, ok := ins.(*ssa.BinOp)
		if !ok || (bo.Op != token.NEQ && bo.Op != token.EQL) {
			return false
		}
		for _, v := range []ssa.Value{bo.X, bo.Y} {
			if n, ok := constInt(v); ok && n == eof && isNamed(v.Type(), jsonPkgPath, "tokenType") {
				return true
			}
		}
		return false
	}
	// excused edge: diagnostics are known to be present (len(diags) != 0, len(diags) > 0,
	// the false edge of len(diags) == 0, diags.HasErrors(), through any negation)
	excuse := func(from, to *ssa.BasicBlock) bool {
		iff, ok := from.Instrs[len(from.Instrs)-1].(*ssa.If)
		if !ok {
			return false
		}
		cond, neg := iff.Cond, false
		for {
			u, ok := cond.(*ssa.UnOp)
			if !ok || u.Op != token.NOT {
				break
			}
			cond, neg = u.X, !neg
		}
		present := false // cond true means diagnostics present
		switch x := cond.(type) {
		case *ssa.BinOp:
			call, ok := x.X.(*ssa.Call)
			if !ok {
				return false
			}
			bi, ok := call.Call.Value.(*ssa.Builtin)
			if !ok || bi.Name() != "len" || !isDiagnosticsType(call.Call.Args[0].Type()) {
				return false
			}
			z, isZ := constInt(x.Y)
			if !isZ || z != 0 {
				return false
			}
			switch x.Op {
			case token.EQL:
				neg = !neg
				present = true
			case token.NEQ, token.GTR:
				present = true
			}
		case *ssa.Call:
			if cal := x.Call.StaticCallee(); cal != nil && cal.Name() == "HasErrors" && len(x.Call.Args) == 1 && isDiagnosticsType(x.Call.Args[0].Type()) {
				present = true
			}
		}
		if !present {
			return false
		}
		if neg {
			return from.Succs[1] == to
		}
		return from.Succs[0] == to
	}
	inJSON := func(f *ssa.Function) bool {
		return f != nil && f != pv && len(f.Blocks) > 0 && fnPkg(f) != nil && fnPkg(f).Path() == jsonPkgPath
	}
	involved := map[*ssa.Function]bool{} // functions that hold an EOF test on which the rule relies
	// a helper that tests for end of input on every path from its entry
	checkerMemo := map[*ssa.Function]int{}
	var stop func(ssa.Instruction) bool
	var eofChecker func(g *ssa.Function) bool
	eofChecker = func(g *ssa.Function) bool {
		switch checkerMemo[g] {
		case 1, 3:
			return false
		case 2:
			return true
		}
		checkerMemo[g] = 1
		has := false
		for _, b := range g.Blocks {
			for _, ins := range b.Instrs {
				if isEOFTest(ins) {
					has = true
				}
			}
		}
		ok := false
		if has {
			_, escapes := reachesReturnAvoiding(g.Blocks[0], 0, stop, excuse)
			ok = !escapes
		}
		if ok {
			checkerMemo[g] = 2
			involved[g] = true
		} else {
			checkerMemo[g] = 3
		}
		return ok
	}
	stop = func(ins ssa.Instruction) bool {
		if isEOFTest(ins) {
			return true
		}
		if call, ok := ins.(*ssa.Call); ok {
			if g := call.Call.StaticCallee(); inJSON(g) && eofChecker(g) {
				return true
			}
		}
		return false
	}
	// holds(f): f calls parseValue and every path from there to a return tests for end of input —
	// directly, through a checker helper, or because f hands the whole job to a function that does
	holdsMemo := map[*ssa.Function]int{}
	var holds func(f *ssa.Function, report bool, name string) bool
	holds = func(f *ssa.Function, report bool, name string) bool {
		if !report {
			switch holdsMemo[f] {
			case 1, 3:
				return false
			case 2:
				return true
			}
		}
		holdsMemo[f] = 1
		found, all := false, true
		for _, b := range f.Blocks {
			for i, ins := range b.Instrs {
				call, ok := ins.(*ssa.Call)
				if !ok {
					continue
				}
				cal := call.Call.StaticCallee()
				if cal == pv {
					found = true
					pos, escapes := reachesReturnAvoiding(b, i+1, stop, excuse)
					if report {
						c.Check(!escapes, "trailing", "json."+name+":eof-test", call.Pos(), "every error-free path tests for end of input",
							"a path from parseValue to the return at "+c.P.Position(pos)+" does not test the next token against tokenEOF: data after the JSON value is accepted silently")
					}
					all = all && !escapes
				} else if inJSON(cal) && cal != f && holdsMemo[cal] != 1 && holds(cal, false, "") {
					found = true
					if report {
						c.OK("trailing", "json."+name+":eof-test", call.Pos(), "delegated to "+cal.Name()+", which tests for end of input on every error-free path")
					}
				}
			}
		}
		involved[f] = true
		r := found && all
		if r {
			holdsMemo[f] = 2
		} else {
			holdsMemo[f] = 3
		}
		if report && !found {
			c.Fail("trailing", "json."+name+":eof-test", f.Pos(), "the entry point does not call parseValue (directly or through a function that tests for end of input)")
		}
		return r
	}
	for _, name := range []string{"parseFileContent", "parseExpression"} {
		fn := c.P.LookupFunc("json", name)
		if fn == nil {
			c.CheckerFail("trailing", "anchor json."+name+" does not resolve")
			continue
		}
		c.Fn(FuncName(fn))
		holds(fn, true, name)
	}
	// the not-EOF edge reports an error, in every function the rule relied on
	var fns []*ssa.Function
	for f := range involved {
		fns = append(fns, f)
	}
	sort.Slice(fns, func(i, j int) bool { return fns[i].Pos() < fns[j].Pos() })
	nTests := 0
	for _, fn := range fns {
		name := fn.Name()
		for _, b := range fn.Blocks {
			for _, ins := range b.Instrs {
				if !isEOFTest(ins) {
					continue
				}
				nTests++
				bo := ins.(*ssa.BinOp)
				// find the If consuming it (possibly through a phi of the && chain)
				var errEdge *ssa.BasicBlock
				for _, r := range *bo.Referrers() {
					if iff, ok := r.(*ssa.If); ok {
						if bo.Op == token.NEQ {
							errEdge = iff.Block().Succs[0]
						} else {
							errEdge = iff.Block().Succs[1]
						}
					}
					if phi, ok := r.(*ssa.Phi); ok {
						for _, r2 := range *phi.Referrers() {
							if iff, ok := r2.(*ssa.If); ok && bo.Op == token.NEQ {
								errEdge = iff.Block().Succs[0]
							}
						}
					}
				}
				if errEdge == nil {
					c.Undecided("trailing", "json."+name+":eof-error", bo.Pos(), "cannot find the branch on the EOF test")
					continue
				}
				pos, silent := reachesReturnAvoiding(errEdge, 0, func(i2 ssa.Instruction) bool {
					if call, ok := i2.(*ssa.Call); ok && isDiagnosticsType(call.Type()) && len(call.Call.Args) == 2 && isErrorDiagPtr(call.Call.Args[1]) {
						return true
					}
					if call, ok := i2.(*ssa.Call); ok {
						if bi, ok := call.Call.Value.(*ssa.Builtin); ok && bi.Name() == "append" && len(call.Call.Args) > 1 && sliceLitHasErrorDiag(call.Call.Args[1]) {
							return true
						}
					}
					return false
				}, nil)
				c.Check(!silent, "trailing", "json."+name+":eof-error", bo.Pos(), "extraneous data is reported as an error",
					"when the next token is not EOF the function can return (at "+c.P.Position(pos)+") without appending an error diagnostic")
			}
		}
	}
	c.Floor("trailing EOF tests", nTests, 1, "the end-of-input test after the root value")
}

// stringEqConst: if cond is `s == "lit"` returns lit.
func stringEqConst(v ssa.Value) (string, bool) {
	bo, ok := v.(*ssa.BinOp)
	if !ok || bo.Op != token.EQL {
		return "", false
	}
	for _, x := range []ssa.Value{bo.X, bo.Y} {
		if cn, ok := x.(*ssa.Const); ok && cn.Value != nil && cn.Value.Kind() == constant.String {
			return constant.StringVal(cn.Value), true
		}
	}
	return "", false
}

// R2
func c13Keywords(c *Ctx) {
	c.Rule("R2 keywords: json.parseKeyword returns a node only on the arms for the spellings true, false and null; every other arm returns nil together with an error diagnostic")
	fn := c.P.LookupFunc("json", "parseKeyword")
	if fn == nil {
		c.CheckerFail("keywords", "anchor json.parseKeyword does not resolve")
		return
	}
	c.Fn(FuncName(fn))
	acceptedSet := map[string]bool{}
	n := 0
	dom := stringTestDomains(fn)
	for _, b := range fn.Blocks {
		r, ok := b.Instrs[len(b.Instrs)-1].(*ssa.Return)
		if !ok || len(r.Results) != 2 {
			continue
		}
		n++
		nodeV := r.Results[0]
		isNil := false
		if cn, ok := nodeV.(*ssa.Const); ok && cn.IsNil() {
			isNil = true
		}
		// `return invalid(detail)`: a helper or closure every return of which rejects with an error
		if ex, ok := nodeV.(*ssa.Extract); ok && ex.Index == 0 {
			if call, ok := ex.Tuple.(*ssa.Call); ok {
				if k := staticCallee(&call.Call); k != nil && inModule(k) && len(k.Blocks) > 0 {
					all, any := true, false
					for _, kb := range k.Blocks {
						kr, ok := kb.Instrs[len(kb.Instrs)-1].(*ssa.Return)
						if !ok || len(kr.Results) != 2 {
							continue
						}
						any = true
						cn, isC := kr.Results[0].(*ssa.Const)
						if !isC || !cn.IsNil() || !isErrorReturn(kr) {
							all = false
						}
					}
					if all && any {
						c.OK("keywords", "json.parseKeyword:reject", r.Pos(), "rejected with an error (through "+FuncName(k)+")")
						continue
					}
				}
			}
		}
		if isNil {
			c.Check(isErrorReturn(r), "keywords", "json.parseKeyword:reject", r.Pos(), "rejected with an error", "a keyword is rejected (nil node) without an error diagnostic")
			continue
		}
		// accepted: the spellings the keyword can have where this node is returned
		d := dom[b]
		var sp []string
		for k := range d {
			sp = append(sp, k)
			acceptedSet[k] = true
		}
		sort.Strings(sp)
		okSp := len(sp) > 0
		for _, k := range sp {
			if k != "true" && k != "false" && k != "null" {
				okSp = false
			}
		}
		c.Check(okSp, "keywords", "json.parseKeyword:accept["+strings.Join(sp, "|")+"]", r.Pos(), "a JSON keyword",
			"parseKeyword returns a node for the spelling(s) `"+strings.Join(sp, "|")+"` (empty: any spelling), which is not a JSON keyword")
	}
	var accepted []string
	for k := range acceptedSet {
		accepted = append(accepted, k)
	}
	sort.Strings(accepted)
	c.Check(strings.Join(accepted, ",") == "false,null,true", "keywords", "json.parseKeyword:set", fn.Pos(), "accepted set = {true,false,null}",
		"the accepted keyword set is {"+strings.Join(accepted, ",")+"}, not {true,false,null}")
	c.Floor("keywords returns", n, 3, "three accepted arms, the JavaScript arm and the default arm")
}

// R6: the syntax of numbers and strings is validated by encoding/json on every accepting path.
func c13Validation(c *Ctx) {
	c.Rule("R6 validated: in json.parseNumber and json.parseString every path to a return that yields a node passes the encoding/json validation of the token bytes (json.Unmarshal) — the scanner is deliberately permissive, so this call is what rejects 01, +1, 1., bad escapes …")
	for _, name := range []string{"parseNumber", "parseString"} {
		fn := c.P.LookupFunc("json", name)
		if fn == nil {
			c.CheckerFail("validated", "anchor json."+name+" does not resolve")
			continue
		}
		c.Fn(FuncName(fn))
		isValidation := func(ins ssa.Instruction) bool {
			call, ok := ins.(*ssa.Call)
			if !ok {
				return false
			}
			cal := call.Call.StaticCallee()
			return cal != nil && fnPkg(cal) != nil && fnPkg(cal).Path() == "encoding/json" && cal.Name() == "Unmarshal"
		}
		// walk from entry; a return of a non-nil node reached without validation is a violation
		bad := token.NoPos
		seen := map[*ssa.BasicBlock]bool{}
		var walk func(b *ssa.BasicBlock)
		walk = func(b *ssa.BasicBlock) {
			if seen[b] {
				return
			}
			seen[b] = true
			for _, ins := range b.Instrs {
				if isValidation(ins) {
					return
				}
				if r, ok := ins.(*ssa.Return); ok {
					if cn, ok := r.Results[0].(*ssa.Const); !(ok && cn.IsNil()) && !bad.IsValid() {
						bad = r.Pos()
					}
					return
				}
			}
			for _, su := range b.Succs {
				walk(su)
			}
		}
		walk(fn.Blocks[0])
		c.Check(!bad.IsValid(), "validated", "json."+name+":unmarshal", fn.Pos(), "every accepting path is validated",
			"a node is returned at "+c.P.Position(bad)+" without the token having passed json.Unmarshal: text that is not valid JSON is accepted")
	}
}

// R6b: who may construct: string and number nodes are only made by the validating functions.
func c13NodeMakers(c *Ctx) {
	c.Rule("R6b node.makers: in the JSON parser (json/parser.go) a *stringVal node is constructed only in parseString and a *numberVal node only in parseNumber, the two functions whose accepting paths pass encoding/json validation (R6): a fast path elsewhere that builds the node from the raw token bytes skips the decoding and validation that define what the literal denotes (escapes, invalid UTF-8 replaced by U+FFFD)")
	makers := map[string]string{"stringVal": "parseString", "numberVal": "parseNumber"}
	n := 0
	for _, fn := range c.P.pkgFuncs("json") {
		if !strings.HasPrefix(c.P.Position(fn.Pos()), "json/parser.go") {
			continue
		}
		for _, b := range fn.Blocks {
			for _, ins := range b.Instrs {
				al, ok := ins.(*ssa.Alloc)
				if !ok {
					continue
				}
				for tn, maker := range makers {
					if !isNamed(al.Type().(*types.Pointer).Elem(), modPath+"/json", tn) {
						continue
					}
					n++
					c.Sites++
					c.Fn(FuncName(fn))
					top := fn
					for top.Parent() != nil {
						top = top.Parent()
					}
					want := c.P.LookupFunc("json", maker)
					c.Check(want != nil && top == want, "node.makers", fmt.Sprintf("%s:new[%s]", FuncName(fn), tn), al.Pos(), "made by "+maker,
						"a "+tn+" node is built outside "+maker+": the token reaches the tree without the decoding and encoding/json validation of "+maker)
				}
			}
		}
	}
	c.Floor("node.makers constructions", n, 2, "the stringVal of parseString and the numberVal of parseNumber")
}

// R3
func c13LiteralMapping(c *Ctx) {
	c.Rule("R3 literal: json.expression.Value has an arm for every node type of the JSON AST; in the string arm the template parser is reached only under ctx != nil (literal mode returns the string verbatim) and, under ctx != nil, every return is preceded by the template parse (a string denotes what the native template parser assigns to it); numbers map through cty.NumberVal of the parsed big float, booleans through cty.BoolVal, arrays through cty.TupleVal, null through cty.NullVal(DynamicPseudoType)")
	fn := c.P.LookupFunc("json", "expression.Value")
	pt := c.P.LookupFunc("hclsyntax", "ParseTemplate")
	pkg := c.P.Pkg("json")
	if fn == nil || pt == nil || pkg == nil {
		c.CheckerFail("literal", "anchor json.expression.Value / ParseTemplate does not resolve")
		return
	}
	c.Fn(FuncName(fn))
	nodeI, _ := pkg.Types.Scope().Lookup("node").Type().Underlying().(*types.Interface)
	if nodeI == nil {
		c.CheckerFail("literal", "json.node interface does not resolve")
		return
	}
	arms := map[string]bool{}
	for _, b := range fn.Blocks {
		for _, ins := range b.Instrs {
			if ta, ok := ins.(*ssa.TypeAssert); ok {
				if n := namedOf(ta.AssertedType); n != nil {
					arms[n.Obj().Name()] = true
				}
			}
		}
	}
	n := 0
	for _, name := range pkg.Types.Scope().Names() {
		tn, ok := pkg.Types.Scope().Lookup(name).(*types.TypeName)
		if !ok || types.IsInterface(tn.Type()) {
			continue
		}
		if !types.Implements(types.NewPointer(tn.Type()), nodeI) && !types.Implements(tn.Type(), nodeI) {
			continue
		}
		if name == "invalidVal" {
			continue // placeholder for unparseable input: handled by the default arm (DynamicVal)
		}
		if !strings.HasSuffix(name, "Val") {
			continue // objectAttr, expression: have Range methods but are not value nodes
		}
		n++
		c.Check(arms[name], "literal", "json.expression.Value:arm["+name+"]", fn.Pos(), "handled", "the JSON node type "+name+" has no arm in expression.Value: such values evaluate to the default (dynamic) placeholder")
	}
	c.Floor("literal node types", n, 6, "objectVal arrayVal stringVal numberVal booleanVal nullVal")
	// string arm
	for _, b := range fn.Blocks {
		for _, ins := range b.Instrs {
			call, ok := ins.(*ssa.Call)
			if !ok || call.Call.StaticCallee() != pt {
				continue
			}
			// dominated by true edge of ctx != nil
			guarded := false
			var ctxArm *ssa.BasicBlock
			for d := b; d != nil; d = d.Idom() {
				idom := d.Idom()
				if idom == nil {
					break
				}
				if iff, ok := idom.Instrs[len(idom.Instrs)-1].(*ssa.If); ok {
					if bo, ok := iff.Cond.(*ssa.BinOp); ok && (isNilConst(bo.X) || isNilConst(bo.Y)) {
						isCtx := isNamed(bo.X.Type(), modPath, "EvalContext") || isNamed(bo.Y.Type(), modPath, "EvalContext")
						if isCtx && ((bo.Op == token.NEQ && idom.Succs[0] == d) || (bo.Op == token.EQL && idom.Succs[1] == d)) {
							guarded = true
							ctxArm = d
						}
					}
				}
			}
			c.Check(guarded, "literal", "json.expression.Value:template-only-with-ctx", call.Pos(), "template parser reached only when a context is given",
				"the template parser is reached without the `ctx != nil` guard: in literal-only mode template sequences in strings would be interpreted")
			if ctxArm != nil {
				pos, skips := reachesReturnAvoiding(ctxArm, 0, func(i2 ssa.Instruction) bool {
					c2, ok := i2.(*ssa.Call)
					return ok && c2.Call.StaticCallee() == pt
				}, nil)
				c.Check(!skips, "literal", "json.expression.Value:template-always-with-ctx", call.Pos(), "with a context every string goes through the template parser",
					"with a context given, the string arm can return (at "+c.P.Position(pos)+") without parsing the string as a template: `%{ … }` directives or `%%{`/`$${` escapes in such strings are returned verbatim")
			}
		}
	}
	// constructor mapping per arm
	want := map[string]string{"numberVal": "NumberVal", "booleanVal": "BoolVal", "arrayVal": "TupleVal", "nullVal": "NullVal"}
	for _, b := range fn.Blocks {
		for _, ins := range b.Instrs {
			ta, ok := ins.(*ssa.TypeAssert)
			if !ok || !ta.CommaOk {
				continue
			}
			nm := namedOf(ta.AssertedType)
			if nm == nil || want[nm.Obj().Name()] == "" {
				continue
			}
			var arm *ssa.BasicBlock
			for _, r := range *ta.Referrers() {
				if ex, ok := r.(*ssa.Extract); ok && ex.Index == 1 {
					for _, r2 := range *ex.Referrers() {
						if iff, ok := r2.(*ssa.If); ok {
							arm = iff.Block().Succs[0]
						}
					}
				}
			}
			if arm == nil {
				continue
			}
			found := false
			for _, b2 := range fn.Blocks {
				if !arm.Dominates(b2) {
					continue
				}
				for _, i2 := range b2.Instrs {
					if call, ok := i2.(*ssa.Call); ok {
						ci := calleeOf(&call.Call)
						if ci.pkg != nil && ci.pkg.Path() == ctyPath && ci.name == want[nm.Obj().Name()] {
							found = true
						}
					}
				}
			}
			c.Check(found, "literal", "json.expression.Value:map["+nm.Obj().Name()+"→cty."+want[nm.Obj().Name()]+"]", ta.Pos(), "", nm.Obj().Name()+" is not mapped through cty."+want[nm.Obj().Name()])
		}
	}
}

// R4
func c13Precision(c *Ctx) {
	c.Rule("R4 precision: nothing reachable from json.parseNumber converts through float64 (strconv.ParseFloat, big.Float.SetFloat64/NewFloat, cty.NumberFloatVal, a conversion to float32/64); the token bytes go to json.Unmarshal into a json.Number and to cty.ParseNumberVal")
	fn := c.P.LookupFunc("json", "parseNumber")
	if fn == nil {
		c.CheckerFail("precision", "anchor json.parseNumber does not resolve")
		return
	}
	c.Fn(FuncName(fn))
	bad := map[string]bool{"strconv.ParseFloat": true, "math/big.NewFloat": true, "math/big.SetFloat64": true, "github.com/zclconf/go-cty/cty.NumberFloatVal": true}
	usesParse, usesNumber := false, false
	viol := 0
	for _, b := range fn.Blocks {
		for _, ins := range b.Instrs {
			switch x := ins.(type) {
			case *ssa.Call:
				if cal := x.Call.StaticCallee(); cal != nil && fnPkg(cal) != nil {
					k := fnPkg(cal).Path() + "." + cal.Name()
					if bad[k] {
						viol++
						c.Fail("precision", "json.parseNumber:call["+cal.Name()+"]", x.Pos(), "number text passes through float64: precision beyond 53 bits is lost")
					}
					if k == ctyPath+".ParseNumberVal" {
						usesParse = true
					}
					if k == "encoding/json.Unmarshal" && len(x.Call.Args) == 2 {
						if mi, ok := x.Call.Args[1].(*ssa.MakeInterface); ok {
							if pt, ok := mi.X.Type().(*types.Pointer); ok && isNamed(pt.Elem(), "encoding/json", "Number") {
								usesNumber = true
							}
						}
					}
				}
			case *ssa.Convert:
				if bt, ok := x.Type().Underlying().(*types.Basic); ok && (bt.Kind() == types.Float64 || bt.Kind() == types.Float32) {
					viol++
					c.Fail("precision", "json.parseNumber:convert[float]", x.Pos(), "a float conversion in number parsing")
				}
			}
		}
	}
	if viol == 0 {
		c.OK("precision", "json.parseNumber:no-float", fn.Pos(), "no float64 on the number path")
	}
	c.Check(usesParse && usesNumber, "precision", "json.parseNumber:exact-parsers", fn.Pos(), "json.Number validation + cty.ParseNumberVal",
		"parseNumber no longer validates with json.Number and parses with cty.ParseNumberVal")
}

// R5
func c13ErrorReturns(c *Ctx) {
	c.Rule("R5 reject.reported: in the JSON parser every return that yields no node (nil) carries an error diagnostic, so a rejected text is never reported clean")
	n := 0
	for _, fn := range c.P.pkgFuncs("json") {
		if !strings.HasPrefix(c.P.Position(fn.Pos()), "json/parser.go") {
			continue
		}
		res := fn.Signature.Results()
		if res.Len() != 2 || !isDiagnosticsType(res.At(1).Type()) || !isNamed(res.At(0).Type(), jsonPkgPath, "node") {
			continue
		}
		c.Fn(FuncName(fn))
		idx := 0
		for _, b := range fn.Blocks {
			r, ok := b.Instrs[len(b.Instrs)-1].(*ssa.Return)
			if !ok {
				continue
			}
			cn, ok := lookThrough(r.Results[0]).(*ssa.Const)
			if !ok || !cn.IsNil() {
				continue
			}
			idx++
			n++
			if propagatesCalleeFailure(r) {
				c.OK("reject.reported", fmt.Sprintf("%s:return-nil", FuncName(fn)), r.Pos(), "propagates the failure (and diagnostics) of a nested parse")
				continue
			}
			c.Check(isErrorReturn(r), "reject.reported", fmt.Sprintf("%s:return-nil", FuncName(fn)), r.Pos(), "carries an error", "a nil node is returned without an error diagnostic: the caller substitutes a placeholder and the text is accepted")
		}
	}
	c.Floor("reject.reported returns", n, 5, "nil returns in parseObject/parseArray/parseNumber/parseString/parseKeyword")
}

// propagatesCalleeFailure: `n, d := parseX(p); diags = diags.Extend(d); if n == nil { return nil, diags }`.
func propagatesCalleeFailure(r *ssa.Return) bool {
	b := r.Block()
	for d := b; d != nil; d = d.Idom() {
		idom := d.Idom()
		if idom == nil {
			break
		}
		iff, ok := idom.Instrs[len(idom.Instrs)-1].(*ssa.If)
		if !ok || idom.Succs[0] != d {
			continue
		}
		bo, ok := iff.Cond.(*ssa.BinOp)
		if !ok || bo.Op != token.EQL || !(isNilConst(bo.X) || isNilConst(bo.Y)) {
			continue
		}
		n := bo.X
		if isNilConst(n) {
			n = bo.Y
		}
		ex, ok := n.(*ssa.Extract)
		if !ok || ex.Index != 0 {
			continue
		}
		call, ok := ex.Tuple.(*ssa.Call)
		if !ok {
			continue
		}
		// the callee's diagnostics flow into the returned diagnostics
		for _, ref := range *call.Referrers() {
			ex1, ok := ref.(*ssa.Extract)
			if !ok || !isDiagnosticsType(ex1.Type()) {
				continue
			}
			for _, rv := range r.Results {
				if isDiagnosticsType(rv.Type()) && diagIncludes(ex1, rv, map[ssa.Value]bool{}) {
					return true
				}
			}
		}
	}
	return false
}

// diagIncludes: x is contained in d through append / Extend / Append / phi.
func diagIncludes(x, d ssa.Value, seen map[ssa.Value]bool) bool {
	if x == d {
		return true
	}
	if seen[d] {
		return false
	}
	seen[d] = true
	switch y := d.(type) {
	case *ssa.Call:
		for _, a := range y.Call.Args {
			if isDiagnosticsType(a.Type()) && diagIncludes(x, a, seen) {
				return true
			}
		}
	case *ssa.Phi:
		for _, e := range y.Edges {
			if diagIncludes(x, e, seen) {
				return true
			}
		}
	}
	return false
}

// R8: the lexical classes of the JSON scanner.
func c13ByteClasses(c *Ctx) {
	c.Rule("R8 byteclass: the byte classes of the hand-written JSON scanner, obtained by interpreting each predicate / loop for all 256 byte values: skipWhitespace skips exactly space, tab, LF, CR; scanNumber keeps every byte a JSON number can contain (digits + - . e E); byteCanStartNumber holds for '-' and the digits and for no byte that starts another token; scanKeyword keeps a-z; byteCanStartKeyword holds for t, f, n")
	set := func(s string) (m [256]bool) {
		for i := 0; i < len(s); i++ {
			m[s[i]] = true
		}
		return
	}
	type inst struct {
		fn      string
		loop    bool
		must    [256]bool // ⊆ class
		mustNot [256]bool // ∩ class = ∅
		exact   bool      // class == must
		what    string
	}
	insts := []inst{
		{"skipWhitespace", true, set(" \t\n\r"), [256]bool{}, true, "JSON whitespace"},
		{"scanNumber", true, set("0123456789+-.eE"), set(" \t\n\r,]}"), false, "the bytes of a JSON number"},
		{"byteCanStartNumber", false, set("-0123456789"), set("\"{}[],:tfn \t\n\r"), false, "the first byte of a JSON number"},
		{"scanKeyword", true, set("abcdefghijklmnopqrstuvwxyz"), set(" \t\n\r,]}:"), false, "the letters of a keyword"},
		{"byteCanStartKeyword", false, set("tfn"), set("\"{}[],:-0123456789 \t\n\r"), false, "the first byte of a keyword"},
	}
	for _, it := range insts {
		fn := c.P.LookupFunc("json", it.fn)
		if fn == nil {
			c.CheckerFail("byteclass", "anchor json."+it.fn+" does not resolve")
			continue
		}
		c.Fn(FuncName(fn))
		var cls [256]bool
		var err string
		if it.loop {
			cls, err = loopClass(fn)
		} else {
			cls, err = predicateClass(fn)
		}
		key := "json." + it.fn + ":class"
		c.Sites++
		if err != "" {
			c.Undecided("byteclass", key, fn.Pos(), err)
			continue
		}
		var missing, extra [256]bool
		bad := false
		for v := 0; v < 256; v++ {
			if it.must[v] && !cls[v] {
				missing[v], bad = true, true
			}
			if cls[v] && (it.mustNot[v] || (it.exact && !it.must[v])) {
				extra[v], bad = true, true
			}
		}
		msg := ""
		if bad {
			msg = "json." + it.fn + " does not implement " + it.what + ": class is {" + classString(cls) + "}"
			if s := classString(missing); s != "" {
				msg += "; missing {" + s + "}"
			}
			if s := classString(extra); s != "" {
				msg += "; must not contain {" + s + "}"
			}
		}
		c.Check(!bad, "byteclass", key, fn.Pos(), "{"+classString(cls)+"}", msg)
	}
}

// R9 string.delims: the string scanner dispatches on the current byte; the bytes it handles
// itself (the closing quote, the backslash) must never be skipped as part of a longer advance.
func c13StringDelims(c *Ctx) {
	c.Rule("R9 string.delims: in json.scanString, where the loop advances by a whole grapheme cluster (the arm that calls textseg.ScanGraphemeClusters), the advance is cut at the first occurrence of every printable byte that the per-byte dispatch handles itself (those for which the dispatch does not reach that arm: the quote and the backslash) — by bytes.IndexAny / IndexByte over the skipped window — so a quote or an escape that segmentation attaches to a preceding character is still seen")
	fn := c.P.LookupFunc("json", "scanString")
	if fn == nil {
		c.CheckerFail("string.delims", "anchor json.scanString does not resolve")
		return
	}
	c.Fn(FuncName(fn))
	// the subject: the byte loaded from the buffer parameter in the loop
	var subj *ssa.UnOp
	for _, b := range fn.Blocks {
		for _, ins := range b.Instrs {
			if ld, ok := ins.(*ssa.UnOp); ok && ld.Op == token.MUL && subj == nil {
				if ia, ok := ld.X.(*ssa.IndexAddr); ok && len(fn.Params) > 0 && (ia.X == ssa.Value(fn.Params[0]) || isSpillOf(ia.X, fn.Params[0])) {
					subj = ld
				}
			}
		}
	}
	if subj == nil {
		c.Undecided("string.delims", FuncName(fn)+":subject", fn.Pos(), "the byte the scanner dispatches on was not identified")
		return
	}
	in, _ := byteDomains(fn, func(v ssa.Value) bool { return v == ssa.Value(subj) })
	n := 0
	for _, b := range fn.Blocks {
		for _, ins := range b.Instrs {
			call, ok := ins.(*ssa.Call)
			if !ok {
				continue
			}
			cal := call.Call.StaticCallee()
			if cal == nil || !subj.Block().Dominates(b) {
				continue
			}
			// the advance: ScanGraphemeClusters itself, or a helper of the package that calls it
			var helper *ssa.Function
			if cal.Name() != "ScanGraphemeClusters" {
				if fnPkg(cal) == nil || fnPkg(cal).Path() != jsonPkgPath || len(cal.Blocks) == 0 {
					continue
				}
				has := false
				for _, hb := range cal.Blocks {
					for _, hi := range hb.Instrs {
						if hc, ok := hi.(*ssa.Call); ok {
							if k := hc.Call.StaticCallee(); k != nil && k.Name() == "ScanGraphemeClusters" {
								has = true
							}
						}
					}
				}
				if !has {
					continue
				}
				helper = cal
			}
			n++
			c.Sites++
			d := in[b]
			var special []byte
			for v := 0x20; v < 0x80; v++ {
				if !d.has(byte(v)) {
					special = append(special, byte(v))
				}
			}
			// the cut set: constants searched for in blocks this arm dominates
			cut := map[byte]bool{}
			var scanBlocks []*ssa.BasicBlock
			for _, b2 := range fn.Blocks {
				if b2 == b || b.Dominates(b2) {
					scanBlocks = append(scanBlocks, b2)
				}
			}
			if helper != nil {
				scanBlocks = append(scanBlocks, helper.Blocks...)
			}
			for _, b2 := range scanBlocks {
				for _, i2 := range b2.Instrs {
					c2, ok := i2.(*ssa.Call)
					if !ok {
						continue
					}
					k := c2.Call.StaticCallee()
					if k == nil || k.Pkg == nil || (k.Pkg.Pkg.Path() != "bytes" && k.Pkg.Pkg.Path() != "strings") || len(c2.Call.Args) != 2 {
						continue
					}
					switch k.Name() {
					case "IndexAny", "ContainsAny":
						if cn, ok := c2.Call.Args[1].(*ssa.Const); ok && cn.Value != nil && cn.Value.Kind() == constant.String {
							for _, ch := range []byte(constant.StringVal(cn.Value)) {
								cut[ch] = true
							}
						}
					case "IndexByte", "IndexRune", "ContainsRune":
						if v, ok := constInt(c2.Call.Args[1]); ok && v >= 0 && v < 256 {
							cut[byte(v)] = true
						}
					}
				}
			}
			var missing []string
			for _, sp := range special {
				if !cut[sp] {
					missing = append(missing, fmt.Sprintf("%q", sp))
				}
			}
			c.Check(len(missing) == 0, "string.delims", FuncName(fn)+":cluster-advance", call.Pos(), fmt.Sprintf("the advance is cut at each of the %d bytes the dispatch handles itself", len(special)),
				"the scanner advances by a whole grapheme cluster without looking for "+strings.Join(missing, ", ")+" inside it, although its per-byte dispatch gives that byte a meaning of its own: a closing quote or an escape attached by segmentation to the preceding character (U+0600 …) is skipped and a valid JSON string is mis-scanned")
		}
	}
	c.Floor("string.delims cluster advances", n, 1, "the default arm of scanString")
}

// R10 entry.verbatim: what is scanned is the caller's text, whole.
func c13EntryVerbatim(c *Ctx) {
	c.Rule("R10 entry.verbatim: from every exported entry point of package json that takes the source as a []byte (Parse, ParseWithStartPos, ParseExpression, ParseExpressionWithStartPos) down to the call of the scanner, each function hands the buffer it was given to the next one unchanged (the parameter itself, not a slice, a trimmed copy or a buffer with a prefix removed): the text judged against the JSON grammar is the caller's text, byte for byte — a byte-order mark, padding or a wrapper stripped on the way in would make the package accept texts that are not JSON")
	scanFn := c.P.LookupFunc("json", "scan")
	if scanFn == nil {
		c.CheckerFail("entry.verbatim", "anchor json.scan does not resolve")
		return
	}
	isBytes := func(t types.Type) bool {
		sl, ok := t.Underlying().(*types.Slice)
		return ok && isByte(sl.Elem())
	}
	var work []*ssa.Function
	for _, fn := range c.P.pkgFuncs("json") {
		if fn.Parent() == nil && fn.Object() != nil && fn.Object().Exported() && fn.Signature.Recv() == nil && len(fn.Params) > 0 && isBytes(fn.Params[0].Type()) {
			work = append(work, fn)
		}
	}
	sort.Slice(work, func(i, j int) bool { return work[i].Pos() < work[j].Pos() })
	seen := map[*ssa.Function]bool{}
	n, reached := 0, false
	for len(work) > 0 {
		fn := work[0]
		work = work[1:]
		if seen[fn] || fn == scanFn {
			continue
		}
		seen[fn] = true
		c.Fn(FuncName(fn))
		k := 0
		for _, b := range fn.Blocks {
			for _, ins := range b.Instrs {
				call, ok := ins.(*ssa.Call)
				if !ok {
					continue
				}
				cal := call.Call.StaticCallee()
				if cal == nil || fnPkg(cal) != fnPkg(fn) || len(cal.Params) == 0 || !isBytes(cal.Params[0].Type()) || len(call.Call.Args) == 0 || cal.Signature.Recv() != nil {
					continue
				}
				n++
				k++
				c.Sites++
				if cal == scanFn {
					reached = true
				}
				key := fmt.Sprintf("%s:call[%s]", FuncName(fn), cal.Name())
				if k > 1 {
					key += fmt.Sprintf("#%d", k)
				}
				arg := call.Call.Args[0]
				c.Check(arg == ssa.Value(fn.Params[0]) || isSpillOf(arg, fn.Params[0]), "entry.verbatim", key, call.Pos(), "the buffer is handed on unchanged",
					"the source buffer handed to "+cal.Name()+" is not the one "+fn.Name()+" was given ("+pathName(arg)+"): part of the caller's text is not judged against the JSON grammar, so texts that are not JSON (a leading byte-order mark, …) can be accepted")
				work = append(work, cal)
			}
		}
	}
	c.Floor("entry.verbatim hand-overs", n, 4, "Parse → ParseWithStartPos → parseFileContent → scan; ParseExpression → ParseExpressionWithStartPos → parseExpression → scan")
	c.Check(reached, "entry.verbatim", "json:scan.reached", scanFn.Pos(), "the chain ends at the scanner", "no entry point reaches json.scan through functions that take the source buffer")
}
