package main

import (
	"go/token"

	"golang.org/x/tools/go/ssa"
)

// byteDomains: for a function that branches on one byte (the subject), the set of values the
// subject can have on entry to each block and along each edge, by forward propagation of the
// equality tests `subject == 'c'` / `subject != 'c'`. Loops are handled by iterating to a fixed
// point (domains only grow).
type byteDom struct {
	neg bool // all bytes except set
	set map[byte]bool
}

func (d byteDom) has(b byte) bool { return d.set[b] != d.neg }

func (d byteDom) empty() bool { return !d.neg && len(d.set) == 0 }

func (d byteDom) values() []byte {
	var out []byte
	for v := 0; v < 256; v++ {
		if d.has(byte(v)) {
			out = append(out, byte(v))
		}
	}
	return out
}

func domUnion(a, b byteDom) byteDom {
	out := byteDom{set: map[byte]bool{}}
	switch {
	case !a.neg && !b.neg:
		for k := range a.set {
			out.set[k] = true
		}
		for k := range b.set {
			out.set[k] = true
		}
	case a.neg && b.neg:
		out.neg = true
		for k := range a.set {
			if b.set[k] {
				out.set[k] = true
			}
		}
	default:
		if b.neg {
			a, b = b, a
		}
		out.neg = true
		for k := range a.set {
			if !b.set[k] {
				out.set[k] = true
			}
		}
	}
	return out
}

func domEqual(a, b byteDom) bool {
	if a.neg != b.neg || len(a.set) != len(b.set) {
		return false
	}
	for k := range a.set {
		if !b.set[k] {
			return false
		}
	}
	return true
}

func domRefine(d byteDom, c byte, eq bool) byteDom {
	out := byteDom{neg: d.neg, set: map[byte]bool{}}
	if eq {
		out.neg = false
		if d.has(c) {
			out.set[c] = true
		}
		return out
	}
	for k := range d.set {
		out.set[k] = true
	}
	if d.neg {
		out.set[c] = true
	} else {
		delete(out.set, c)
	}
	return out
}

// byteDomains returns the domain on entry to each block and on each edge (keyed by [from,to]).
func byteDomains(fn *ssa.Function, isSubject func(ssa.Value) bool) (map[*ssa.BasicBlock]byteDom, map[[2]*ssa.BasicBlock]byteDom) {
	in := map[*ssa.BasicBlock]byteDom{}
	edge := map[[2]*ssa.BasicBlock]byteDom{}
	reached := map[*ssa.BasicBlock]bool{}
	if len(fn.Blocks) == 0 {
		return in, edge
	}
	in[fn.Blocks[0]] = byteDom{neg: true, set: map[byte]bool{}}
	reached[fn.Blocks[0]] = true
	work := []*ssa.BasicBlock{fn.Blocks[0]}
	for steps := 0; len(work) > 0 && steps < 20000; steps++ {
		b := work[len(work)-1]
		work = work[:len(work)-1]
		d := in[b]
		outs := make([]byteDom, len(b.Succs))
		for i := range outs {
			outs[i] = d
		}
		// a definition of the subject's slice in this block resets what is known
		if iff, ok := b.Instrs[len(b.Instrs)-1].(*ssa.If); ok && len(b.Succs) == 2 {
			cond, neg := iff.Cond, false
			for {
				u, ok := cond.(*ssa.UnOp)
				if !ok || u.Op != token.NOT {
					break
				}
				cond, neg = u.X, !neg
			}
			if bo, ok := cond.(*ssa.BinOp); ok && (bo.Op == token.EQL || bo.Op == token.NEQ) {
				var k int64
				var isC, subj bool
				if isSubject(bo.X) {
					k, isC = constInt(bo.Y)
					subj = true
				} else if isSubject(bo.Y) {
					k, isC = constInt(bo.X)
					subj = true
				}
				if subj && isC && k >= 0 && k < 256 {
					eq := (bo.Op == token.EQL) != neg
					outs[0] = domRefine(d, byte(k), eq)
					outs[1] = domRefine(d, byte(k), !eq)
				}
			}
		}
		for i, su := range b.Succs {
			key := [2]*ssa.BasicBlock{b, su}
			if old, ok := edge[key]; ok {
				edge[key] = domUnion(old, outs[i])
			} else {
				edge[key] = outs[i]
			}
			nd := edge[key]
			if reached[su] {
				nd = domUnion(in[su], nd)
				if domEqual(nd, in[su]) {
					continue
				}
			}
			in[su] = nd
			reached[su] = true
			work = append(work, su)
		}
	}
	return in, edge
}
