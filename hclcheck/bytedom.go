package main

import (
	"go/constant"
	"go/token"
	"go/types"
	"regexp"

	"golang.org/x/tools/go/ssa"
)

// byteDomains: for a function that branches on one byte (the subject), the set of values the
// subject can have on entry to each block and along each edge, by forward propagation of the
// equality tests `subject == 'c'` / `subject != 'c'`. Loops are handled by iterating to a fixed
// point (domains only grow).
type byteDom struct {
	neg bool // all bytes except set
	set map[byte]bool
}

func (d byteDom) has(b byte) bool { return d.set[b] != d.neg }

func (d byteDom) empty() bool { return !d.neg && len(d.set) == 0 }

func (d byteDom) values() []byte {
	var out []byte
	for v := 0; v < 256; v++ {
		if d.has(byte(v)) {
			out = append(out, byte(v))
		}
	}
	return out
}

func domUnion(a, b byteDom) byteDom {
	out := byteDom{set: map[byte]bool{}}
	switch {
	case !a.neg && !b.neg:
		for k := range a.set {
			out.set[k] = true
		}
		for k := range b.set {
			out.set[k] = true
		}
	case a.neg && b.neg:
		out.neg = true
		for k := range a.set {
			if b.set[k] {
				out.set[k] = true
			}
		}
	default:
		if b.neg {
			a, b = b, a
		}
		out.neg = true
		for k := range a.set {
			if !b.set[k] {
				out.set[k] = true
			}
		}
	}
	return out
}

func domEqual(a, b byteDom) bool {
	if a.neg != b.neg || len(a.set) != len(b.set) {
		return false
	}
	for k := range a.set {
		if !b.set[k] {
			return false
		}
	}
	return true
}

func domRefine(d byteDom, c byte, eq bool) byteDom {
	out := byteDom{neg: d.neg, set: map[byte]bool{}}
	if eq {
		out.neg = false
		if d.has(c) {
			out.set[c] = true
		}
		return out
	}
	for k := range d.set {
		out.set[k] = true
	}
	if d.neg {
		out.set[c] = true
	} else {
		delete(out.set, c)
	}
	return out
}

// byteDomains returns the domain on entry to each block and on each edge (keyed by [from,to]).
func byteDomains(fn *ssa.Function, isSubject func(ssa.Value) bool) (map[*ssa.BasicBlock]byteDom, map[[2]*ssa.BasicBlock]byteDom) {
	in := map[*ssa.BasicBlock]byteDom{}
	edge := map[[2]*ssa.BasicBlock]byteDom{}
	reached := map[*ssa.BasicBlock]bool{}
	if len(fn.Blocks) == 0 {
		return in, edge
	}
	in[fn.Blocks[0]] = byteDom{neg: true, set: map[byte]bool{}}
	reached[fn.Blocks[0]] = true
	work := []*ssa.BasicBlock{fn.Blocks[0]}
	for steps := 0; len(work) > 0 && steps < 20000; steps++ {
		b := work[len(work)-1]
		work = work[:len(work)-1]
		d := in[b]
		outs := make([]byteDom, len(b.Succs))
		for i := range outs {
			outs[i] = d
		}
		// a condition in value form (`a || b` as a switch case): a phi of the block whose edges
		// carry constants or comparisons of the subject; each edge contributes its own domain
		if iff, ok := b.Instrs[len(b.Instrs)-1].(*ssa.If); ok && len(b.Succs) == 2 {
			if ph, isPhi := iff.Cond.(*ssa.Phi); isPhi && ph.Block() == b {
				var t, f byteDom
				haveT, haveF := false, false
				add := func(dst *byteDom, have *bool, d byteDom) {
					if !*have {
						*dst, *have = d, true
					} else {
						*dst = domUnion(*dst, d)
					}
				}
				for i, e := range ph.Edges {
					ed, ok := edge[[2]*ssa.BasicBlock{b.Preds[i], b}]
					if !ok {
						continue
					}
					if cn, ok := e.(*ssa.Const); ok && cn.Value != nil {
						if cn.Value.String() == "true" {
							add(&t, &haveT, ed)
						} else {
							add(&f, &haveF, ed)
						}
						continue
					}
					if bo, ok := e.(*ssa.BinOp); ok && (bo.Op == token.EQL || bo.Op == token.NEQ) {
						var k int64
						var isC, subj bool
						if isSubject(bo.X) {
							k, isC = constInt(bo.Y)
							subj = true
						} else if isSubject(bo.Y) {
							k, isC = constInt(bo.X)
							subj = true
						}
						if subj && isC && k >= 0 && k < 256 {
							eq := bo.Op == token.EQL
							add(&t, &haveT, domRefine(ed, byte(k), eq))
							add(&f, &haveF, domRefine(ed, byte(k), !eq))
							continue
						}
					}
					add(&t, &haveT, ed)
					add(&f, &haveF, ed)
				}
				if haveT {
					outs[0] = t
				}
				if haveF {
					outs[1] = f
				}
			}
		}
		if iff, ok := b.Instrs[len(b.Instrs)-1].(*ssa.If); ok && len(b.Succs) == 2 {
			cond, neg := iff.Cond, false
			for {
				u, ok := cond.(*ssa.UnOp)
				if !ok || u.Op != token.NOT {
					break
				}
				cond, neg = u.X, !neg
			}
			if bo, ok := cond.(*ssa.BinOp); ok && (bo.Op == token.EQL || bo.Op == token.NEQ) {
				var k int64
				var isC, subj bool
				if isSubject(bo.X) {
					k, isC = constInt(bo.Y)
					subj = true
				} else if isSubject(bo.Y) {
					k, isC = constInt(bo.X)
					subj = true
				}
				if subj && isC && k >= 0 && k < 256 {
					eq := (bo.Op == token.EQL) != neg
					outs[0] = domRefine(d, byte(k), eq)
					outs[1] = domRefine(d, byte(k), !eq)
				}
			}
		}
		for i, su := range b.Succs {
			key := [2]*ssa.BasicBlock{b, su}
			if old, ok := edge[key]; ok {
				edge[key] = domUnion(old, outs[i])
			} else {
				edge[key] = outs[i]
			}
			nd := edge[key]
			if reached[su] {
				nd = domUnion(in[su], nd)
				if domEqual(nd, in[su]) {
					continue
				}
			}
			in[su] = nd
			reached[su] = true
			work = append(work, su)
		}
	}
	return in, edge
}

// readerEscapes: the table of single-character backslash escapes that ParseStringLiteralToken
// implements, read from its SSA: for every append of one constant byte to a byte slice, the values
// the escape selector (the byte at index 1 of the escape) can have there; and for a table-driven
// decoder, the constant entries of the map that is indexed by the selector and whose result is
// appended. unicode: the selectors for which a strconv.Parse* call is reached.
func readerEscapes(p *Program, fn *ssa.Function) (table map[byte]byte, unicode map[byte]bool, conflict string) {
	table, unicode = map[byte]byte{}, map[byte]bool{}
	isSubject := func(v ssa.Value) bool {
		u, ok := v.(*ssa.UnOp)
		if !ok || u.Op != token.MUL {
			return false
		}
		ia, ok := u.X.(*ssa.IndexAddr)
		if !ok {
			return false
		}
		k, isC := constInt(ia.Index)
		return isC && k == 1
	}
	in, _ := byteDomains(fn, isSubject)
	put := func(sel, ch byte) {
		if old, ok := table[sel]; ok && old != ch {
			conflict = "selector decodes to two different characters"
		}
		table[sel] = ch
	}
	singleConstByte := func(v ssa.Value) (byte, bool) {
		sl, ok := v.(*ssa.Slice)
		if !ok {
			return 0, false
		}
		al, ok := sl.X.(*ssa.Alloc)
		if !ok {
			return 0, false
		}
		at, ok := al.Type().(*types.Pointer).Elem().Underlying().(*types.Array)
		if !ok || at.Len() != 1 {
			return 0, false
		}
		for _, r := range *al.Referrers() {
			if ia, ok := r.(*ssa.IndexAddr); ok {
				for _, r2 := range *ia.Referrers() {
					if st, ok := r2.(*ssa.Store); ok {
						if k, isC := constInt(st.Val); isC && k >= 0 && k < 256 {
							return byte(k), true
						}
					}
				}
			}
		}
		return 0, false
	}
	mapEntries := func(m ssa.Value) map[byte]byte {
		out := map[byte]byte{}
		var mm *ssa.MakeMap
		switch x := m.(type) {
		case *ssa.MakeMap:
			mm = x
		case *ssa.UnOp:
			if g, ok := x.X.(*ssa.Global); ok && x.Op == token.MUL && g.Pkg != nil {
				if init := g.Pkg.Func("init"); init != nil {
					for _, b := range init.Blocks {
						for _, ins := range b.Instrs {
							if st, ok := ins.(*ssa.Store); ok && st.Addr == ssa.Value(g) {
								if m2, ok := st.Val.(*ssa.MakeMap); ok {
									mm = m2
								}
							}
						}
					}
				}
			}
		}
		if mm == nil {
			return nil
		}
		for _, r := range *mm.Referrers() {
			if mu, ok := r.(*ssa.MapUpdate); ok {
				k, ok1 := constInt(mu.Key)
				v, ok2 := constInt(mu.Value)
				if ok1 && ok2 && k >= 0 && k < 256 && v >= 0 && v < 256 {
					out[byte(k)] = byte(v)
				}
			}
		}
		return out
	}
	for _, b := range fn.Blocks {
		for _, ins := range b.Instrs {
			call, ok := ins.(*ssa.Call)
			if !ok {
				continue
			}
			parses := false
			if cal := call.Call.StaticCallee(); cal != nil && cal.Pkg != nil {
				if cal.Pkg.Pkg.Path() == "strconv" {
					parses = true
				} else if inModule(cal) && cal != fn {
					// a helper of the package that parses the digits
					for _, hb := range cal.Blocks {
						for _, hi := range hb.Instrs {
							if hc, ok := hi.(*ssa.Call); ok {
								if c2 := hc.Call.StaticCallee(); c2 != nil && c2.Pkg != nil && c2.Pkg.Pkg.Path() == "strconv" {
									parses = true
								}
							}
						}
					}
				}
			}
			if parses {
				if d := in[b]; !d.neg {
					for _, v := range d.values() {
						unicode[v] = true
					}
				}
				continue
			}
			bi, ok := call.Call.Value.(*ssa.Builtin)
			if !ok || bi.Name() != "append" || len(call.Call.Args) != 2 {
				continue
			}
			if sl, ok := call.Type().Underlying().(*types.Slice); !ok || !isByte(sl.Elem()) {
				continue
			}
			d := in[b]
			if ch, ok := singleConstByte(call.Call.Args[1]); ok {
				if !d.neg {
					for _, sel := range d.values() {
						put(sel, ch)
					}
				}
				continue
			}
			// appended value is table[selector]
			if sl, ok := call.Call.Args[1].(*ssa.Slice); ok {
				if al, ok := sl.X.(*ssa.Alloc); ok {
					for _, r := range *al.Referrers() {
						ia, ok := r.(*ssa.IndexAddr)
						if !ok {
							continue
						}
						for _, r2 := range *ia.Referrers() {
							st, ok := r2.(*ssa.Store)
							if !ok {
								continue
							}
							v := st.Val
							if ex, ok := v.(*ssa.Extract); ok && ex.Index == 0 {
								v = ex.Tuple
							}
							if lk, ok := v.(*ssa.Lookup); ok && isSubject(lk.Index) {
								for sel, ch := range mapEntries(lk.X) {
									if d.has(sel) {
										put(sel, ch)
									}
								}
							}
							// a package-level array indexed by the selector (zero = no entry)
							if ld, ok := v.(*ssa.UnOp); ok && ld.Op == token.MUL {
								if ia, ok := ld.X.(*ssa.IndexAddr); ok {
									idx := ia.Index
									if cv, ok := idx.(*ssa.Convert); ok {
										idx = cv.X
									}
									if g, ok := ia.X.(*ssa.Global); ok && isSubject(idx) {
										for sel, ch := range arrayEntries(g) {
											if d.has(sel) && ch != 0 {
												put(sel, ch)
											}
										}
									}
								}
							}
						}
					}
				}
			}
		}
	}
	return table, unicode, conflict
}

func isByte(t types.Type) bool {
	bt, ok := t.Underlying().(*types.Basic)
	return ok && bt.Kind() == types.Uint8
}

// writerEscapeInfo: what hclwrite.escapeQuotedStringLit does, read from its SSA.
type writerEscapeInfo struct {
	table       map[byte][2]byte // character → the two bytes written for it (a backslash escape)
	introducers map[byte]bool    // characters of the arm that tests the next byte against '{'
	doubles     bool             // that arm writes the character once unconditionally and once more on the '{' edge
	nonPrint    bool             // unicode.IsPrint is consulted
	widths      map[string]int   // "u"/"U" → number of hex digits of the format
	subjectOK   bool
}

func moduleCallees(fn *ssa.Function, depth int, seen map[*ssa.Function]bool) []*ssa.Function {
	if seen[fn] || depth < 0 {
		return nil
	}
	seen[fn] = true
	out := []*ssa.Function{fn}
	for _, b := range fn.Blocks {
		for _, ins := range b.Instrs {
			if call, ok := ins.(*ssa.Call); ok {
				if cal := call.Call.StaticCallee(); cal != nil && inModule(cal) && len(cal.Blocks) > 0 {
					out = append(out, moduleCallees(cal, depth-1, seen)...)
				}
			}
		}
	}
	for _, af := range fn.AnonFuncs {
		out = append(out, moduleCallees(af, depth-1, seen)...)
	}
	return out
}

// helperByteTable: for a helper h(c) that returns (k, true) for some characters: c → k, read from
// the domains of its parameter at the returns whose results are constants.
func helperByteTable(h *ssa.Function) map[byte]byte {
	out := map[byte]byte{}
	if len(h.Params) == 0 {
		return out
	}
	par := h.Params[len(h.Params)-1]
	isSubj := func(v ssa.Value) bool {
		for i := 0; i < 4; i++ {
			if v == ssa.Value(par) || isSpillOf(v, par) {
				return true
			}
			cv, ok := v.(*ssa.Convert)
			if !ok {
				return false
			}
			v = cv.X
		}
		return false
	}
	in, _ := byteDomains(h, isSubj)
	for _, b := range h.Blocks {
		ret, ok := b.Instrs[len(b.Instrs)-1].(*ssa.Return)
		if !ok || len(ret.Results) < 1 {
			continue
		}
		k, isC := constInt(ret.Results[0])
		if !isC || k <= 0 || k > 255 {
			continue
		}
		if len(ret.Results) > 1 {
			if c, ok := ret.Results[1].(*ssa.Const); ok && c.Value != nil && c.Value.String() != "true" {
				continue
			}
		}
		if d := in[b]; !d.neg {
			for _, ch := range d.values() {
				out[ch] = byte(k)
			}
		}
	}
	return out
}

func writerEscapes(fn *ssa.Function) writerEscapeInfo {
	info := writerEscapeInfo{table: map[byte][2]byte{}, introducers: map[byte]bool{}, widths: map[string]int{}}
	// the subject: the rune of a range over the string parameter
	var subj ssa.Value
	for _, b := range fn.Blocks {
		for _, ins := range b.Instrs {
			if ex, ok := ins.(*ssa.Extract); ok && ex.Index == 2 {
				if nx, ok := ex.Tuple.(*ssa.Next); ok && nx.IsString {
					subj = ex
				}
			}
		}
	}
	if subj == nil {
		return info
	}
	info.subjectOK = true
	isSubj := func(v ssa.Value) bool {
		for i := 0; i < 4; i++ {
			if v == subj {
				return true
			}
			cv, ok := v.(*ssa.Convert)
			if !ok {
				return false
			}
			v = cv.X
		}
		return false
	}
	in, _ := byteDomains(fn, isSubj)
	// two-byte appends: '\\' followed by a constant or by the result of a table helper
	for _, b := range fn.Blocks {
		for _, ins := range b.Instrs {
			call, ok := ins.(*ssa.Call)
			if !ok {
				continue
			}
			bi, ok := call.Call.Value.(*ssa.Builtin)
			if !ok || bi.Name() != "append" || len(call.Call.Args) != 2 {
				continue
			}
			sl, ok := call.Call.Args[1].(*ssa.Slice)
			if !ok {
				continue
			}
			al, ok := sl.X.(*ssa.Alloc)
			if !ok {
				continue
			}
			at, ok := al.Type().(*types.Pointer).Elem().Underlying().(*types.Array)
			if !ok || at.Len() != 2 {
				continue
			}
			var elems [2]ssa.Value
			for _, r := range *al.Referrers() {
				if ia, ok := r.(*ssa.IndexAddr); ok {
					if k, isC := constInt(ia.Index); isC && k >= 0 && k < 2 {
						for _, r2 := range *ia.Referrers() {
							if st, ok := r2.(*ssa.Store); ok {
								elems[k] = st.Val
							}
						}
					}
				}
			}
			if k0, ok := constInt(elems[0]); !ok || k0 != '\\' {
				continue
			}
			d := in[b]
			if k1, ok := constInt(elems[1]); ok {
				if !d.neg {
					for _, ch := range d.values() {
						info.table[ch] = [2]byte{'\\', byte(k1)}
					}
				}
				continue
			}
			v := elems[1]
			if ex, ok := v.(*ssa.Extract); ok && ex.Index == 0 {
				v = ex.Tuple
			}
			if hc, ok := v.(*ssa.Call); ok {
				if h := hc.Call.StaticCallee(); h != nil && inModule(h) && len(h.Blocks) > 0 {
					for ch, k := range helperByteTable(h) {
						if d.has(ch) {
							info.table[ch] = [2]byte{'\\', k}
						}
					}
				}
			}
		}
	}
	// the introducer arm: a comparison with '{' in a block where the subject is one of a few characters
	appendsSubject := func(b *ssa.BasicBlock) bool {
		for _, ins := range b.Instrs {
			if call, ok := ins.(*ssa.Call); ok {
				for _, a := range call.Call.Args {
					if isSubj(a) {
						return true
					}
				}
			}
		}
		return false
	}
	for _, b := range fn.Blocks {
		iff, ok := b.Instrs[len(b.Instrs)-1].(*ssa.If)
		if !ok {
			continue
		}
		bo, ok := iff.Cond.(*ssa.BinOp)
		if !ok || bo.Op != token.EQL {
			continue
		}
		k, isC := constInt(bo.Y)
		if !isC || k != '{' {
			continue
		}
		d := in[b]
		if d.neg || len(d.values()) == 0 {
			continue
		}
		for _, ch := range d.values() {
			info.introducers[ch] = true
		}
		// once before the test (in a dominating block of the arm with the same domain), once on the true edge
		before := false
		for x := b; x != nil; x = x.Idom() {
			if dx := in[x]; !dx.neg && domEqual(dx, d) && appendsSubject(x) {
				before = true
			}
		}
		if before && appendsSubject(b.Succs[0]) && !appendsSubject(b.Succs[1]) {
			info.doubles = true
		}
	}
	for _, f := range moduleCallees(fn, 2, map[*ssa.Function]bool{}) {
		for _, b := range f.Blocks {
			for _, ins := range b.Instrs {
				if call, ok := ins.(*ssa.Call); ok {
					if cal := call.Call.StaticCallee(); cal != nil && cal.Pkg != nil && cal.Pkg.Pkg.Path() == "unicode" && cal.Name() == "IsPrint" {
						info.nonPrint = true
					}
					for _, a := range call.Call.Args {
						if cn, ok := a.(*ssa.Const); ok && cn.Value != nil && cn.Value.Kind() == constant.String {
							if m := hexFormatRe.FindAllStringSubmatch(constant.StringVal(cn.Value), -1); m != nil {
								for _, g := range m {
									info.widths[g[1]] = int(g[2][0] - '0')
								}
							}
						}
					}
				}
			}
		}
	}
	return info
}

var hexFormatRe = regexp.MustCompile(`\\(u|U)%0(\d)x`)

// readerUndoubles: ParseStringLiteralToken compares the second byte of a slice with its first and
// the third with '{' (the un-doubling of $${ and %%{).
func readerUndoubles1(fn *ssa.Function) bool {
	idxLoad := func(v ssa.Value, want int64) bool {
		u, ok := v.(*ssa.UnOp)
		if !ok || u.Op != token.MUL {
			return false
		}
		ia, ok := u.X.(*ssa.IndexAddr)
		if !ok {
			return false
		}
		k, isC := constInt(ia.Index)
		return isC && k == want
	}
	same, brace := false, false
	for _, b := range fn.Blocks {
		for _, ins := range b.Instrs {
			bo, ok := ins.(*ssa.BinOp)
			if !ok || bo.Op != token.EQL {
				continue
			}
			if (idxLoad(bo.X, 1) && idxLoad(bo.Y, 0)) || (idxLoad(bo.X, 0) && idxLoad(bo.Y, 1)) {
				same = true
			}
			if k, isC := constInt(bo.Y); isC && k == '{' && idxLoad(bo.X, 2) {
				brace = true
			}
		}
	}
	return same && brace
}

// arrayEntries: the constant elements a package-level byte array is initialised with.
func arrayEntries(g *ssa.Global) map[byte]byte {
	out := map[byte]byte{}
	if g.Pkg == nil {
		return out
	}
	init := g.Pkg.Func("init")
	if init == nil {
		return out
	}
	for _, b := range init.Blocks {
		for _, ins := range b.Instrs {
			st, ok := ins.(*ssa.Store)
			if !ok {
				continue
			}
			ia, ok := st.Addr.(*ssa.IndexAddr)
			if !ok || ia.X != ssa.Value(g) {
				continue
			}
			k, ok1 := constInt(ia.Index)
			v, ok2 := constInt(st.Val)
			if ok1 && ok2 && k >= 0 && k < 256 && v >= 0 && v < 256 {
				out[byte(k)] = byte(v)
			}
		}
	}
	return out
}
