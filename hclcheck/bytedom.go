package main

import (
	"go/token"
	"go/types"

	"golang.org/x/tools/go/ssa"
)

// byteDomains: for a function that branches on one byte (the subject), the set of values the
// subject can have on entry to each block and along each edge, by forward propagation of the
// equality tests `subject == 'c'` / `subject != 'c'`. Loops are handled by iterating to a fixed
// point (domains only grow).
type byteDom struct {
	neg bool // all bytes except set
	set map[byte]bool
}

func (d byteDom) has(b byte) bool { return d.set[b] != d.neg }

func (d byteDom) empty() bool { return !d.neg && len(d.set) == 0 }

func (d byteDom) values() []byte {
	var out []byte
	for v := 0; v < 256; v++ {
		if d.has(byte(v)) {
			out = append(out, byte(v))
		}
	}
	return out
}

func domUnion(a, b byteDom) byteDom {
	out := byteDom{set: map[byte]bool{}}
	switch {
	case !a.neg && !b.neg:
		for k := range a.set {
			out.set[k] = true
		}
		for k := range b.set {
			out.set[k] = true
		}
	case a.neg && b.neg:
		out.neg = true
		for k := range a.set {
			if b.set[k] {
				out.set[k] = true
			}
		}
	default:
		if b.neg {
			a, b = b, a
		}
		out.neg = true
		for k := range a.set {
			if !b.set[k] {
				out.set[k] = true
			}
		}
	}
	return out
}

func domEqual(a, b byteDom) bool {
	if a.neg != b.neg || len(a.set) != len(b.set) {
		return false
	}
	for k := range a.set {
		if !b.set[k] {
			return false
		}
	}
	return true
}

func domRefine(d byteDom, c byte, eq bool) byteDom {
	out := byteDom{neg: d.neg, set: map[byte]bool{}}
	if eq {
		out.neg = false
		if d.has(c) {
			out.set[c] = true
		}
		return out
	}
	for k := range d.set {
		out.set[k] = true
	}
	if d.neg {
		out.set[c] = true
	} else {
		delete(out.set, c)
	}
	return out
}

// byteDomains returns the domain on entry to each block and on each edge (keyed by [from,to]).
func byteDomains(fn *ssa.Function, isSubject func(ssa.Value) bool) (map[*ssa.BasicBlock]byteDom, map[[2]*ssa.BasicBlock]byteDom) {
	in := map[*ssa.BasicBlock]byteDom{}
	edge := map[[2]*ssa.BasicBlock]byteDom{}
	reached := map[*ssa.BasicBlock]bool{}
	if len(fn.Blocks) == 0 {
		return in, edge
	}
	in[fn.Blocks[0]] = byteDom{neg: true, set: map[byte]bool{}}
	reached[fn.Blocks[0]] = true
	work := []*ssa.BasicBlock{fn.Blocks[0]}
	for steps := 0; len(work) > 0 && steps < 20000; steps++ {
		b := work[len(work)-1]
		work = work[:len(work)-1]
		d := in[b]
		outs := make([]byteDom, len(b.Succs))
		for i := range outs {
			outs[i] = d
		}
		// a definition of the subject's slice in this block resets what is known
		if iff, ok := b.Instrs[len(b.Instrs)-1].(*ssa.If); ok && len(b.Succs) == 2 {
			cond, neg := iff.Cond, false
			for {
				u, ok := cond.(*ssa.UnOp)
				if !ok || u.Op != token.NOT {
					break
				}
				cond, neg = u.X, !neg
			}
			if bo, ok := cond.(*ssa.BinOp); ok && (bo.Op == token.EQL || bo.Op == token.NEQ) {
				var k int64
				var isC, subj bool
				if isSubject(bo.X) {
					k, isC = constInt(bo.Y)
					subj = true
				} else if isSubject(bo.Y) {
					k, isC = constInt(bo.X)
					subj = true
				}
				if subj && isC && k >= 0 && k < 256 {
					eq := (bo.Op == token.EQL) != neg
					outs[0] = domRefine(d, byte(k), eq)
					outs[1] = domRefine(d, byte(k), !eq)
				}
			}
		}
		for i, su := range b.Succs {
			key := [2]*ssa.BasicBlock{b, su}
			if old, ok := edge[key]; ok {
				edge[key] = domUnion(old, outs[i])
			} else {
				edge[key] = outs[i]
			}
			nd := edge[key]
			if reached[su] {
				nd = domUnion(in[su], nd)
				if domEqual(nd, in[su]) {
					continue
				}
			}
			in[su] = nd
			reached[su] = true
			work = append(work, su)
		}
	}
	return in, edge
}

// readerEscapes: the table of single-character backslash escapes that ParseStringLiteralToken
// implements, read from its SSA: for every append of one constant byte to a byte slice, the values
// the escape selector (the byte at index 1 of the escape) can have there; and for a table-driven
// decoder, the constant entries of the map that is indexed by the selector and whose result is
// appended. unicode: the selectors for which a strconv.Parse* call is reached.
func readerEscapes(p *Program, fn *ssa.Function) (table map[byte]byte, unicode map[byte]bool, conflict string) {
	table, unicode = map[byte]byte{}, map[byte]bool{}
	isSubject := func(v ssa.Value) bool {
		u, ok := v.(*ssa.UnOp)
		if !ok || u.Op != token.MUL {
			return false
		}
		ia, ok := u.X.(*ssa.IndexAddr)
		if !ok {
			return false
		}
		k, isC := constInt(ia.Index)
		return isC && k == 1
	}
	in, _ := byteDomains(fn, isSubject)
	put := func(sel, ch byte) {
		if old, ok := table[sel]; ok && old != ch {
			conflict = "selector decodes to two different characters"
		}
		table[sel] = ch
	}
	singleConstByte := func(v ssa.Value) (byte, bool) {
		sl, ok := v.(*ssa.Slice)
		if !ok {
			return 0, false
		}
		al, ok := sl.X.(*ssa.Alloc)
		if !ok {
			return 0, false
		}
		at, ok := al.Type().(*types.Pointer).Elem().Underlying().(*types.Array)
		if !ok || at.Len() != 1 {
			return 0, false
		}
		for _, r := range *al.Referrers() {
			if ia, ok := r.(*ssa.IndexAddr); ok {
				for _, r2 := range *ia.Referrers() {
					if st, ok := r2.(*ssa.Store); ok {
						if k, isC := constInt(st.Val); isC && k >= 0 && k < 256 {
							return byte(k), true
						}
					}
				}
			}
		}
		return 0, false
	}
	mapEntries := func(m ssa.Value) map[byte]byte {
		out := map[byte]byte{}
		var mm *ssa.MakeMap
		switch x := m.(type) {
		case *ssa.MakeMap:
			mm = x
		case *ssa.UnOp:
			if g, ok := x.X.(*ssa.Global); ok && x.Op == token.MUL && g.Pkg != nil {
				if init := g.Pkg.Func("init"); init != nil {
					for _, b := range init.Blocks {
						for _, ins := range b.Instrs {
							if st, ok := ins.(*ssa.Store); ok && st.Addr == ssa.Value(g) {
								if m2, ok := st.Val.(*ssa.MakeMap); ok {
									mm = m2
								}
							}
						}
					}
				}
			}
		}
		if mm == nil {
			return nil
		}
		for _, r := range *mm.Referrers() {
			if mu, ok := r.(*ssa.MapUpdate); ok {
				k, ok1 := constInt(mu.Key)
				v, ok2 := constInt(mu.Value)
				if ok1 && ok2 && k >= 0 && k < 256 && v >= 0 && v < 256 {
					out[byte(k)] = byte(v)
				}
			}
		}
		return out
	}
	for _, b := range fn.Blocks {
		for _, ins := range b.Instrs {
			call, ok := ins.(*ssa.Call)
			if !ok {
				continue
			}
			if cal := call.Call.StaticCallee(); cal != nil && cal.Pkg != nil && cal.Pkg.Pkg.Path() == "strconv" {
				if d := in[b]; !d.neg {
					for _, v := range d.values() {
						unicode[v] = true
					}
				}
				continue
			}
			bi, ok := call.Call.Value.(*ssa.Builtin)
			if !ok || bi.Name() != "append" || len(call.Call.Args) != 2 {
				continue
			}
			if sl, ok := call.Type().Underlying().(*types.Slice); !ok || !isByte(sl.Elem()) {
				continue
			}
			d := in[b]
			if ch, ok := singleConstByte(call.Call.Args[1]); ok {
				if !d.neg {
					for _, sel := range d.values() {
						put(sel, ch)
					}
				}
				continue
			}
			// appended value is table[selector]
			if sl, ok := call.Call.Args[1].(*ssa.Slice); ok {
				if al, ok := sl.X.(*ssa.Alloc); ok {
					for _, r := range *al.Referrers() {
						ia, ok := r.(*ssa.IndexAddr)
						if !ok {
							continue
						}
						for _, r2 := range *ia.Referrers() {
							st, ok := r2.(*ssa.Store)
							if !ok {
								continue
							}
							v := st.Val
							if ex, ok := v.(*ssa.Extract); ok && ex.Index == 0 {
								v = ex.Tuple
							}
							if lk, ok := v.(*ssa.Lookup); ok && isSubject(lk.Index) {
								for sel, ch := range mapEntries(lk.X) {
									if d.has(sel) {
										put(sel, ch)
									}
								}
							}
						}
					}
				}
			}
		}
	}
	return table, unicode, conflict
}

func isByte(t types.Type) bool {
	bt, ok := t.Underlying().(*types.Basic)
	return ok && bt.Kind() == types.Uint8
}
