package main

import (
	"fmt"
	"go/token"
	"go/types"
	"sort"
	"strings"

	"golang.org/x/tools/go/ssa"
)

func init() { register("C17", checkC17) }

func checkC17(c *Ctx) {
	c17Guard(c)
	c17LockPairs(c)
	c17SetClear(c)
	c17SharedWrites(c)
	c17ProbeContext(c)
	c17UserfuncContext(c)
	c.NotCovered("equality of concurrent and sequential results beyond isolation by context key")
	c.NotCovered("races inside go-cty or inside application-supplied functions")
	c.NotCovered("writes through reflection or unsafe (import scan only)")
	c.Trust("cty.Value is immutable; CHA∩VTA call graph; freshness by local definitions and summaries (no points-to analysis)")
}

// guarded fields: struct field `x` next to a sync.Mutex/RWMutex field `xLock`/`xMu`.
type guardInst struct {
	owner   *types.Named
	field   *types.Var
	lock    *types.Var
	fieldIx int
	lockIx  int
}

func discoverGuards(c *Ctx) []guardInst {
	var out []guardInst
	for _, pkg := range c.P.ModPkgs {
		sc := pkg.Types.Scope()
		for _, n := range sc.Names() {
			tn, ok := sc.Lookup(n).(*types.TypeName)
			if !ok {
				continue
			}
			named, ok := tn.Type().(*types.Named)
			if !ok {
				continue
			}
			st, ok := named.Underlying().(*types.Struct)
			if !ok {
				continue
			}
			for i := 0; i < st.NumFields(); i++ {
				f := st.Field(i)
				if !(isNamed(f.Type(), "sync", "Mutex") || isNamed(f.Type(), "sync", "RWMutex")) {
					continue
				}
				base := strings.TrimSuffix(strings.TrimSuffix(f.Name(), "Lock"), "Mu")
				found := false
				for j := 0; j < st.NumFields(); j++ {
					if st.Field(j).Name() == base && j != i {
						out = append(out, guardInst{named, st.Field(j), f, j, i})
						found = true
					}
				}
				if !found {
					c.Undecided("guard", shortPkg(pkg.PkgPath)+"."+n+"."+f.Name(), f.Pos(), "mutex field without a recognisable guarded field: add a rule instance")
				}
			}
		}
	}
	return out
}

// lockset state: 0 none, 1 read-held, 2 write-held (must-analysis: min at joins)
func c17Guard(c *Ctx) {
	c.Rule("R1 guard: every access to a mutex-guarded struct field (AnonSymbolExpr.values ↔ valuesLock) happens in a method of the owning type, reads while RLock or Lock is held, writes (map update, delete, assignment) while Lock is held on the same receiver, on every path; the map is indexed only by the method's *hcl.EvalContext parameter; the map value never escapes")
	guards := discoverGuards(c)
	c.Floor("guard instances", len(guards), 1, "AnonSymbolExpr.values ↔ valuesLock")
	for _, g := range guards {
		gname := shortPkg(g.owner.Obj().Pkg().Path()) + "." + g.owner.Obj().Name() + "." + g.field.Name()
		nAcc := 0
		for _, fn := range c.P.pkgFuncs() {
			// find accesses
			var accs []*ssa.FieldAddr
			for _, b := range fn.Blocks {
				for _, ins := range b.Instrs {
					if fa, ok := ins.(*ssa.FieldAddr); ok && fieldVarOf(fa.X.Type(), fa.Field) == g.field {
						accs = append(accs, fa)
					}
				}
			}
			if len(accs) == 0 {
				continue
			}
			name := FuncName(fn)
			c.Fn(name)
			isMethod := fn.Signature.Recv() != nil && namedOf(fn.Signature.Recv().Type()) == g.owner
			if !isMethod {
				for _, fa := range accs {
					c.Fail("guard", name+":access["+gname+"]", fa.Pos(), "guarded field accessed outside the methods of "+g.owner.Obj().Name()+" (who-may-touch)")
				}
				continue
			}
			held := locksetAnalysis(fn, g)
			for _, fa := range accs {
				nAcc++
				c.Sites++
				st := held[fa]
				for _, ref := range *fa.Referrers() {
					switch r := ref.(type) {
					case *ssa.Store: // e.values = ...
						key := name + ":write[" + gname + "]"
						c.Check(held[r] == 2, "guard", key, r.Pos(), "assignment under Lock", "assignment to "+gname+" without holding "+g.lock.Name()+".Lock() on every path")
						// the table is shared by all evaluations in flight: it may be created when
						// absent, never replaced or dropped (that would erase other contexts' entries)
						_, fresh := r.Val.(*ssa.MakeMap)
						lazy := false
						for d := r.Block(); d != nil && d.Idom() != nil; d = d.Idom() {
							iff, ok := lastIf(d.Idom())
							if !ok || len(d.Preds) != 1 {
								continue
							}
							bo, ok := iff.Cond.(*ssa.BinOp)
							if !ok || (bo.Op != token.EQL && bo.Op != token.NEQ) {
								continue
							}
							for _, pr := range [][2]ssa.Value{{bo.X, bo.Y}, {bo.Y, bo.X}} {
								if !isNilConst(pr[1]) {
									continue
								}
								if ld, ok := pr[0].(*ssa.UnOp); ok {
									if f2, ok := ld.X.(*ssa.FieldAddr); ok && fieldVarOf(f2.X.Type(), f2.Field) == g.field {
										nilEdge := 0
										if bo.Op == token.NEQ {
											nilEdge = 1
										}
										if d.Idom().Succs[nilEdge] == d {
											lazy = true
										}
									}
								}
							}
						}
						c.Check(fresh && lazy, "guard", name+":init["+gname+"]", r.Pos(), "created only when absent",
							gname+" is assigned something other than a new map under a nil test: replacing or dropping the table erases the entries other evaluations in flight have stored in it")
					case *ssa.UnOp: // load of the map
						for _, use := range *r.Referrers() {
							c17GuardUse(c, fn, g, gname, name, use, r, held)
						}
					default:
						c.Fail("guard", name+":escape["+gname+"]", fa.Pos(), fmt.Sprintf("address of the guarded field is used by %T", ref))
					}
				}
				_ = st
			}
		}
		c.Floor("guard accesses "+gname, nAcc, 3, "Value, setValue (nil test, make, update), clearValue (nil test, delete)")
	}
}

func c17GuardUse(c *Ctx, fn *ssa.Function, g guardInst, gname, name string, use ssa.Instruction, loaded ssa.Value, held map[ssa.Instruction]int) {
	ctxParam := func(v ssa.Value) bool {
		p, ok := v.(*ssa.Parameter)
		return ok && p.Parent() == fn && isNamed(p.Type(), modPath, "EvalContext")
	}
	switch u := use.(type) {
	case *ssa.Lookup:
		key := name + ":read[" + gname + "]"
		if held[u] < 1 {
			c.Fail("guard", key, u.Pos(), "map read without holding "+g.lock.Name()+" (RLock or Lock) on every path")
		} else if !ctxParam(u.Index) {
			c.Fail("guard", key, u.Pos(), "map indexed by something other than the caller's *hcl.EvalContext parameter: evaluations are no longer isolated by context")
		} else {
			c.OK("guard", key, u.Pos(), "lookup by ctx under lock")
		}
	case *ssa.MapUpdate:
		key := name + ":write[" + gname + "]"
		if held[u] < 2 {
			c.Fail("guard", key, u.Pos(), "map update without holding "+g.lock.Name()+".Lock() on every path")
		} else if !ctxParam(u.Key) {
			c.Fail("guard", key, u.Pos(), "map updated under a key other than the caller's *hcl.EvalContext parameter")
		} else {
			c.OK("guard", key, u.Pos(), "update by ctx under Lock")
		}
	case *ssa.BinOp: // nil comparison
		key := name + ":read[" + gname + "]"
		c.Check(held[u] >= 1, "guard", key, u.Pos(), "nil test under lock", "read of "+gname+" (nil test) without holding "+g.lock.Name()+" on every path")
	case *ssa.Range:
		key := name + ":read[" + gname + "]"
		c.Check(held[u] >= 1, "guard", key, u.Pos(), "range under lock", "range over "+gname+" without holding the lock")
	case *ssa.Call:
		if bi, ok := u.Call.Value.(*ssa.Builtin); ok {
			switch bi.Name() {
			case "delete":
				key := name + ":write[" + gname + "]"
				if held[u] < 2 {
					c.Fail("guard", key, u.Pos(), "delete without holding "+g.lock.Name()+".Lock() on every path")
				} else if !ctxParam(u.Call.Args[1]) {
					c.Fail("guard", key, u.Pos(), "delete under a key other than the caller's *hcl.EvalContext parameter")
				} else {
					c.OK("guard", key, u.Pos(), "delete by ctx under Lock")
				}
				return
			case "len":
				key := name + ":read[" + gname + "]"
				c.Check(held[u] >= 1, "guard", key, u.Pos(), "len under lock", "len of "+gname+" without holding the lock")
				return
			case "clear":
				key := name + ":write[" + gname + "]"
				c.Check(held[u] >= 2, "guard", key, u.Pos(), "clear under Lock", "clear of "+gname+" without holding Lock")
				return
			}
		}
		c.Fail("guard", name+":escape["+gname+"]", u.Pos(), "guarded map passed to a call: it escapes the lock discipline")
	case *ssa.DebugRef:
	case *ssa.Phi:
		// a local alias of the table (or of the new table made when it was absent): its uses are
		// uses of the table
		for _, e := range u.Edges {
			if _, isMake := e.(*ssa.MakeMap); !isMake && e != loaded {
				c.Fail("guard", name+":escape["+gname+"]", use.Pos(), "guarded map merged with another value: it escapes the lock discipline")
				return
			}
		}
		for _, use2 := range *u.Referrers() {
			c17GuardUse(c, fn, g, gname, name, use2, u, held)
		}
	default:
		c.Fail("guard", name+":escape["+gname+"]", use.Pos(), fmt.Sprintf("guarded map used by %T: it escapes the lock discipline", use))
	}
}

// locksetAnalysis returns, for every instruction of fn, the lock mode that is
// definitely held on the receiver's guard mutex (0 none, 1 read, 2 write).
func locksetAnalysis(fn *ssa.Function, g guardInst) map[ssa.Instruction]int {
	recv := fn.Params[0]
	isGuardLock := func(v ssa.Value) bool {
		fa, ok := v.(*ssa.FieldAddr)
		return ok && fieldVarOf(fa.X.Type(), fa.Field) == g.lock && fa.X == recv
	}
	delta := func(cc *ssa.CallCommon) (string, bool) {
		cal := cc.StaticCallee()
		if cal == nil || cal.Signature.Recv() == nil || len(cc.Args) == 0 || !isGuardLock(cc.Args[0]) {
			return "", false
		}
		if pk := fnPkg(cal); pk == nil || pk.Path() != "sync" {
			return "", false
		}
		return cal.Name(), true
	}
	in := make([]int, len(fn.Blocks))
	for i := range in {
		in[i] = -1 // unvisited (top)
	}
	in[0] = 0
	out := map[ssa.Instruction]int{}
	work := []*ssa.BasicBlock{fn.Blocks[0]}
	for len(work) > 0 {
		b := work[len(work)-1]
		work = work[:len(work)-1]
		st := in[b.Index]
		for _, ins := range b.Instrs {
			out[ins] = st
			if call, ok := ins.(*ssa.Call); ok {
				if m, ok := delta(&call.Call); ok {
					switch m {
					case "Lock":
						st = 2
					case "RLock":
						if st < 1 {
							st = 1
						}
					case "Unlock", "RUnlock":
						st = 0
					}
				}
			}
			// deferred unlocks run at function exit: lock stays held until then
		}
		for _, s := range b.Succs {
			n := st
			if in[s.Index] != -1 && in[s.Index] < n {
				n = in[s.Index]
			}
			if in[s.Index] == -1 || n != in[s.Index] {
				in[s.Index] = n
				work = append(work, s)
			}
		}
	}
	return out
}

// R2a: Lock/Unlock pairing for every sync mutex in the evaluation packages.
func c17LockPairs(c *Ctx) {
	c.Rule("R2 pair.lock: every sync.(RW)Mutex Lock/RLock in hcl, hclsyntax, json, hcldec, ext/dynblock is released on every path to every return (deferred releases applied at exits)")
	inst := pairInst{
		name: "mutex",
		classify: func(call *ssa.CallCommon) (int, string) {
			cal := call.StaticCallee()
			if cal == nil || cal.Signature.Recv() == nil {
				return 0, ""
			}
			if pk := fnPkg(cal); pk == nil || pk.Path() != "sync" {
				return 0, ""
			}
			if !(isNamed(cal.Signature.Recv().Type(), "sync", "Mutex") || isNamed(cal.Signature.Recv().Type(), "sync", "RWMutex")) {
				return 0, ""
			}
			switch cal.Name() {
			case "Lock", "RLock":
				return 1, cal.Name()
			case "Unlock", "RUnlock":
				return -1, cal.Name()
			}
			return 0, ""
		},
	}
	fns := c.P.pkgFuncs(c.Scope("hcl", "hclsyntax", "json", "hcldec", "ext/dynblock")...)
	results := analysePairs(inst, fns)
	n := 0
	for _, f := range fns {
		r := results[f]
		if !r.relevant {
			continue
		}
		n++
		name := FuncName(f)
		c.Fn(name)
		net := 0
		for d := range r.exitDelta {
			net = d
		}
		switch {
		case len(r.problems) > 0:
			for _, pr := range r.problems {
				c.Fail("pair.lock", name, pr.pos, pr.msg)
			}
		case len(r.exitDelta) > 1 || net != 0:
			c.Fail("pair.lock", name, f.Pos(), "a return leaves the mutex locked (or unlocks it twice)")
		default:
			c.OK("pair.lock", name, f.Pos(), fmt.Sprintf("%d lock/unlock sites balanced on every path", len(r.sites)))
		}
	}
	c.Floor("pair.lock functions", n, 3, "AnonSymbolExpr.Value, setValue, clearValue")
}

// R2b: every setValue is followed by clearValue on every path to a return.
func c17SetClear(c *Ctx) {
	c.Rule("R2 setclear: in every function that calls (*AnonSymbolExpr).setValue, every path from a setValue call to a return passes (*AnonSymbolExpr).clearValue with the same context argument (the per-evaluation entry is removed again)")
	set := c.P.LookupFunc("hclsyntax", "AnonSymbolExpr.setValue")
	clr := c.P.LookupFunc("hclsyntax", "AnonSymbolExpr.clearValue")
	if set == nil || clr == nil {
		c.CheckerFail("setclear", "anchor (*AnonSymbolExpr).setValue/clearValue does not resolve")
		return
	}
	n := 0
	for _, fn := range c.P.pkgFuncs("hclsyntax") {
		// may-be-set dataflow keyed by the ctx argument value
		type site struct {
			ins ssa.Instruction
			ctx ssa.Value
		}
		var sets []site
		for _, b := range fn.Blocks {
			for _, ins := range b.Instrs {
				if call, ok := ins.(*ssa.Call); ok && call.Call.StaticCallee() == set {
					sets = append(sets, site{call, call.Call.Args[1]})
				}
			}
		}
		if len(sets) == 0 {
			continue
		}
		name := FuncName(fn)
		c.Fn(name)
		for _, s := range sets {
			n++
			c.Sites++
			// forward reachability from s avoiding clearValue(ctx): reaching a Return is a violation
			leak := token.NoPos
			seen := map[*ssa.BasicBlock]bool{}
			var walk func(b *ssa.BasicBlock, from int) bool
			walk = func(b *ssa.BasicBlock, from int) bool {
				for i := from; i < len(b.Instrs); i++ {
					switch x := b.Instrs[i].(type) {
					case *ssa.Call:
						if x.Call.StaticCallee() == clr && sameCell(x.Call.Args[1], s.ctx) {
							return false
						}
					case *ssa.Defer:
						if x.Call.StaticCallee() == clr {
							return false
						}
					case *ssa.Return:
						leak = x.Pos()
						return true
					}
				}
				for _, su := range b.Succs {
					if seen[su] {
						continue
					}
					seen[su] = true
					if walk(su, 0) {
						return true
					}
				}
				return false
			}
			idx := 0
			for i, ins := range s.ins.Block().Instrs {
				if ins == s.ins {
					idx = i + 1
				}
			}
			if walk(s.ins.Block(), idx) {
				c.Fail("setclear", name+":call[setValue]", s.ins.Pos(), "a path from this setValue reaches the return at "+c.P.Position(leak)+" without clearValue for the same context")
			} else {
				c.OK("setclear", name+":call[setValue]", s.ins.Pos(), "every path to a return passes clearValue(ctx)")
			}
		}
	}
	c.Floor("setclear sites", n, 2, "SplatExpr.Value: two probes in resultTy and the element loop")
}

// R4: type probing in SplatExpr uses a child context as key.
func c17ProbeContext(c *Ctx) {
	c.Rule("R4 probe: inside closures of SplatExpr.Value (type probing), the context passed to setValue is the result of (*hcl.EvalContext).NewChild(), never the caller's context, so probing cannot clobber an in-flight element value")
	set := c.P.LookupFunc("hclsyntax", "AnonSymbolExpr.setValue")
	splat := c.P.LookupFunc("hclsyntax", "SplatExpr.Value")
	newChild := c.P.LookupFunc("", "EvalContext.NewChild")
	if set == nil || splat == nil || newChild == nil {
		c.CheckerFail("probe", "anchor SplatExpr.Value / setValue / EvalContext.NewChild does not resolve")
		return
	}
	n := 0
	// closures at any nesting depth
	var closures []*ssa.Function
	var collect func(f *ssa.Function)
	collect = func(f *ssa.Function) {
		for _, af := range f.AnonFuncs {
			closures = append(closures, af)
			collect(af)
		}
	}
	collect(splat)
	for _, af := range closures {
		for _, b := range af.Blocks {
			for _, ins := range b.Instrs {
				call, ok := ins.(*ssa.Call)
				if !ok || call.Call.StaticCallee() != set {
					continue
				}
				n++
				c.Fn(FuncName(af))
				ctx := call.Call.Args[1]
				isChild := false
				// the context may be held in a local or a captured variable: every store into it
				var isNewChild func(v ssa.Value, d int) bool
				isNewChild = func(v ssa.Value, d int) bool {
					if d > 4 {
						return false
					}
					if cc, ok := v.(*ssa.Call); ok && cc.Call.StaticCallee() == newChild {
						return true
					}
					if ld, ok := v.(*ssa.UnOp); ok && ld.Op == token.MUL {
						var cell ssa.Value = ld.X
						if fv, ok := cell.(*ssa.FreeVar); ok {
							// the variable of the enclosing function bound to this free variable
							fn := fv.Parent()
							for i, f := range fn.FreeVars {
								if f == fv && fn.Parent() != nil {
									for _, pb := range fn.Parent().Blocks {
										for _, pi := range pb.Instrs {
											if mc, ok := pi.(*ssa.MakeClosure); ok && mc.Fn == fn {
												cell = mc.Bindings[i]
											}
										}
									}
								}
							}
						}
						if al, ok := cell.(*ssa.Alloc); ok {
							sts := storesInto(al)
							if len(sts) == 0 {
								return false
							}
							for _, st := range sts {
								if st.Addr != ssa.Value(al) || !isNewChild(st.Val, d+1) {
									return false
								}
							}
							return true
						}
					}
					return false
				}
				isChild = isNewChild(ctx, 0)
				c.Check(isChild, "probe", FuncName(af)+":call[setValue]", call.Pos(), "keyed by ctx.NewChild()",
					"type probe stores its placeholder under a context that is not a fresh NewChild(): a concurrent or in-flight element value for the caller's context is overwritten")
			}
		}
	}
	c.Floor("probe sites", n, 1, "the type probes of resultTy")
}

// R3: no shared write reachable from evaluation entry points.
func c17SharedWrites(c *Ctx) {
	c.Rule("R3 effects: in every module function reachable (CHA∩VTA) from the methods of hcl.Expression, hcl.Body, hclsyntax.Node, hcldec.Spec implementations, hcl.Traversal methods, hcldec.Decode/PartialDecode/Variables/ImpliedType/SourceRange and dynblock.Expand*/Variables*, every store through a field/index address, map update/delete/clear, copy destination, in-place append and sort targets memory that is fresh (allocated by the invocation or by a fresh-returning callee), except AnonSymbolExpr.values (decided by R1)")
	roots := map[*ssa.Function]bool{}
	ifaces := []struct{ pkg, name string }{{"", "Expression"}, {"", "Body"}, {"hclsyntax", "Node"}, {"hcldec", "Spec"}, {"", "Traverser"}}
	var ifaceTypes []*types.Interface
	for _, it := range ifaces {
		pk := c.P.Pkg(it.pkg)
		if pk == nil || pk.Types.Scope().Lookup(it.name) == nil {
			c.CheckerFail("effects", "anchor interface "+it.pkg+"."+it.name+" does not resolve")
			return
		}
		ifaceTypes = append(ifaceTypes, pk.Types.Scope().Lookup(it.name).Type().Underlying().(*types.Interface))
	}
	evalPkgs := map[string]bool{"hcl": true, "hclsyntax": true, "json": true, "hcldec": true, "ext/dynblock": true, "ext/customdecode": true,
		"ext/typeexpr": true, "ext/tryfunc": true, "ext/userfunc": true, "ext/transform": true, "hclparse": false}
	nTypes := 0
	for _, pkg := range c.P.ModPkgs {
		if !evalPkgs[shortPkg(pkg.PkgPath)] {
			continue
		}
		sc := pkg.Types.Scope()
		for _, n := range sc.Names() {
			tn, ok := sc.Lookup(n).(*types.TypeName)
			if !ok || types.IsInterface(tn.Type()) {
				continue
			}
			for _, typ := range []types.Type{tn.Type(), types.NewPointer(tn.Type())} {
				impl := false
				for _, it := range ifaceTypes {
					if types.Implements(typ, it) {
						impl = true
					}
				}
				if !impl {
					continue
				}
				nTypes++
				ms := c.P.SSA.MethodSets.MethodSet(typ)
				for i := 0; i < ms.Len(); i++ {
					// entry points: exported methods and the (possibly unexported)
					// methods of the interfaces themselves; unexported helpers get
					// their arguments from the analysed callers.
					mobj := ms.At(i).Obj()
					isEntry := mobj.Exported()
					for _, it := range ifaceTypes {
						for k := 0; k < it.NumMethods(); k++ {
							if it.Method(k).Name() == mobj.Name() {
								isEntry = true
							}
						}
					}
					if !isEntry {
						continue
					}
					if fn := c.P.SSA.MethodValue(ms.At(i)); fn != nil {
						if fn.Synthetic != "" {
							if f2 := c.P.SSA.FuncValue(ms.At(i).Obj().(*types.Func)); f2 != nil {
								fn = f2
							}
						}
						roots[fn] = true
					}
				}
			}
		}
	}
	for _, a := range [][2]string{{"hcldec", "Decode"}, {"hcldec", "PartialDecode"}, {"hcldec", "Variables"}, {"hcldec", "ImpliedType"}, {"hcldec", "SourceRange"},
		{"hcldec", "ImpliedSchema"}, {"hcldec", "ChildBlockTypes"},
		{"ext/dynblock", "Expand"}, {"ext/dynblock", "VariablesHCLDec"}, {"ext/dynblock", "ExpandVariablesHCLDec"}, {"ext/dynblock", "WalkVariables"}, {"ext/dynblock", "WalkExpandVariables"},
		{"", "Index"}, {"", "GetAttr"}, {"", "ApplyPath"}, {"", "MergeBodies"}, {"", "MergeFiles"},
		{"", "Traversal.TraverseAbs"}, {"", "Traversal.TraverseRel"}, {"hclsyntax", "Variables"}, {"hclsyntax", "Walk"}, {"hclsyntax", "VisitAll"}} {
		if f := c.P.LookupFunc(a[0], a[1]); f != nil {
			roots[f] = true
		} else {
			c.CheckerFail("effects", "anchor "+a[0]+"."+a[1]+" does not resolve")
		}
	}
	// Parsing entry points build a fresh tree that is not shared until they
	// return: the call graph is cut there (their results are fresh, their
	// internals are construction code, covered by C15 not C17).
	cut := map[*ssa.Function]bool{}
	for _, a := range [][2]string{{"hclsyntax", "ParseConfig"}, {"hclsyntax", "ParseExpression"}, {"hclsyntax", "ParseTemplate"}, {"hclsyntax", "ParseTraversalAbs"},
		{"hclsyntax", "ParseTraversalPartial"}, {"hclsyntax", "LexConfig"}, {"hclsyntax", "LexExpression"}, {"hclsyntax", "LexTemplate"},
		{"json", "Parse"}, {"json", "ParseExpression"}, {"json", "ParseWithStartPos"}, {"json", "ParseExpressionWithStartPos"}, {"json", "ParseFile"}} {
		if f := c.P.LookupFunc(a[0], a[1]); f != nil {
			cut[f] = true
		} else {
			c.CheckerFail("effects", "anchor "+a[0]+"."+a[1]+" does not resolve")
		}
	}
	nFns, nWrites := runEffects(c, "effects", roots, evalPkgs, cut, "reachable from concurrent evaluation entry points, so two goroutines may write the same memory")
	c.Floor("effects functions", nFns, 300, "functions reachable from evaluation entry points")
	c.Floor("effects writes", nWrites, 220, "stores/map updates/appends classified")
	c.Floor("effects root types", nTypes, 40, "implementers of Expression, Body, Node, Spec, Traverser")
}

// Transient types: per-call working state that is never part of a parsed
// configuration, a spec or an evaluation context. A write whose outermost target
// object has one of these types is not a write to shared configuration state.
// Everything else (AST nodes, bodies, specs, schemas, contexts, files, and any type
// added later) is protected by default.
var effTransientTypes = map[string]string{
	"hclsyntax.parser":               "parser state, created per Parse* call",
	"hclsyntax.peeker":               "token cursor, created per Parse* call",
	"hclsyntax.templateParser":       "template parser state, created per parseTemplate call",
	"hclsyntax.tokenAccum":           "scanner accumulator, created per scanTokens call",
	"hclsyntax.templateParts":        "intermediate template token list, created per parseTemplateParts call",
	"hclsyntax.templateLiteralToken": "intermediate template token, created per parseTemplateParts call",
	"hclsyntax.variablesWalker":      "walker state, created per Variables call",
	"hcl.Diagnostic":                 "diagnostics are created per call and owned by the caller",
	"json.peeker":                    "token cursor, created per parse call",
	"hcl.Pos":                        "value type (only reached here as part of a transient token)",
	"hcl.Range":                      "value type (only reached here as part of a transient token)",
}

func effTransient(w effWrite) (string, bool) {
	if w.rootT != nil {
		if n := namedOf(w.rootT); n != nil && n.Obj().Pkg() != nil {
			if why, ok := effTransientTypes[shortPkg(n.Obj().Pkg().Path())+"."+n.Obj().Name()]; ok {
				return why, true
			}
		}
		return "", false
	}
	// no enclosing object: a bare slice/map/pointer value
	if strings.Contains(w.target, "hcl.Diagnostics") {
		return "diagnostics slices are built per call and owned by the caller", true
	}
	return "", false
}

// Named exceptions: one construct each, with the reason the write is not a
// violation of C17.
var effExceptions = map[string]string{
	"ext/dynblock.optCheckForEach.applyExpandOption:append[slice []func(cty.Value, hcl.Expression, *hcl.EvalContext) hcl.Diagnostics]": "ExpandOption values are applied inside dynblock.Expand to the expandBody it has just allocated, before that body is returned to anyone",
}

// sameCell: identical SSA value or loads of the same variable cell.
func sameCell(a, b ssa.Value) bool {
	if a == b {
		return true
	}
	ua, ok1 := a.(*ssa.UnOp)
	ub, ok2 := b.(*ssa.UnOp)
	return ok1 && ok2 && ua.Op == token.MUL && ub.Op == token.MUL && sameAddr(ua.X, ub.X)
}

// sameAddr: structurally the same address expression (go/ssa does no CSE, so
// `x.f` evaluated twice yields two FieldAddr instructions).
func sameAddr(a, b ssa.Value) bool {
	if a == b {
		return true
	}
	switch x := a.(type) {
	case *ssa.FieldAddr:
		y, ok := b.(*ssa.FieldAddr)
		return ok && x.Field == y.Field && (sameAddr(x.X, y.X) || sameCell(x.X, y.X))
	case *ssa.IndexAddr:
		y, ok := b.(*ssa.IndexAddr)
		return ok && x.Index == y.Index && (sameAddr(x.X, y.X) || sameCell(x.X, y.X))
	}
	return false
}

// runEffects enumerates and classifies every write in the module functions reachable from roots.
func runEffects(c *Ctx, rule string, roots map[*ssa.Function]bool, pkgs map[string]bool, cut map[*ssa.Function]bool, consequence string) (int, int) {
	return runEffectsFiltered(c, rule, roots, pkgs, cut, consequence, nil)
}

// runEffectsFiltered: as runEffects; writes for which skip returns true are not obligations.
func runEffectsFiltered(c *Ctx, rule string, roots map[*ssa.Function]bool, pkgs map[string]bool, cut map[*ssa.Function]bool, consequence string, skip func(effWrite) (bool, string)) (int, int) {
	keep := func(f *ssa.Function) bool {
		pk := fnPkg(f)
		return pk != nil && strings.HasPrefix(pk.Path(), modPath) && pkgs[shortPkg(pk.Path())] && !cut[f]
	}
	var rootList []*ssa.Function
	for f := range roots {
		rootList = append(rootList, f)
	}
	scope := c.P.ReachableFrom(rootList, keep)
	eng := newEffEngine(c.P, scope, roots)
	var fns []*ssa.Function
	for f := range scope {
		fns = append(fns, f)
	}
	sort.Slice(fns, func(i, j int) bool {
		if fns[i].Pos() != fns[j].Pos() {
			return fns[i].Pos() < fns[j].Pos()
		}
		return FuncName(fns[i]) < FuncName(fns[j])
	})
	guardField := map[*types.Var]bool{}
	for _, g := range discoverGuards(&Ctx{P: c.P, keys: map[string]int{}, Funcs: map[string]bool{}}) {
		guardField[g.field] = true
	}
	nWrites := 0
	for _, fn := range fns {
		name := FuncName(fn)
		c.Fn(name)
		for _, w := range eng.Writes(fn) {
			accepted := ""
			if skip != nil {
				drop, why := skip(w)
				if drop {
					continue
				}
				accepted = why
			}
			nWrites++
			c.Sites++
			key := fmt.Sprintf("%s:%s[%s]", name, w.kind, w.target)
			if w.fresh {
				c.OK(rule, key, w.pos, "")
				continue
			}
			if accepted != "" {
				c.OK(rule, key, w.pos, accepted)
				continue
			}
			if why, transient := effTransient(w); transient {
				c.OK(rule, key, w.pos, "not shared configuration state: "+why)
				continue
			}
			if w.field != nil && guardField[w.field] {
				c.OK(rule, key, w.pos, "lock-guarded field (decided by the guard rule)")
				continue
			}
			if why, ok := effExceptions[key]; ok {
				c.OK(rule, key, w.pos, "named exception: "+why)
				c.Assumption("effects exception " + key + ": " + why)
				continue
			}
			c.Fail(rule, key, w.pos, fmt.Sprintf("%s to %s which is not provably fresh (%s): %s", w.kind, w.target, w.why, consequence))
		}
	}
	return len(fns), nWrites
}

// R6 call.ctx: a user-defined function evaluates its result in a context of its own.
func c17UserfuncContext(c *Ctx) {
	c.Rule("R6 call.ctx: in ext/userfunc every evaluation of an expression inside the implementation closure of a decoded function (a function.Spec Impl) is given a context obtained from NewChild() on every path, never the shared base context itself: per-evaluation state of the syntax tree (the splat's current item) is keyed by the context, so two concurrent calls that evaluated in the base context would overwrite each other's state")
	n := 0
	for _, fn := range c.P.pkgFuncs("ext/userfunc") {
		if fn.Parent() == nil {
			continue // closures only: the Impl of the function being decoded
		}
		for _, b := range fn.Blocks {
			for _, ins := range b.Instrs {
				call, ok := ins.(*ssa.Call)
				if !ok || !call.Call.IsInvoke() || call.Call.Method.Name() != "Value" || len(call.Call.Args) != 1 {
					continue
				}
				if !isNamed(call.Call.Args[0].Type().(*types.Pointer).Elem(), modPath, "EvalContext") {
					continue
				}
				n++
				c.Sites++
				c.Fn(FuncName(fn))
				c.Check(derivesFromNewChild(call.Call.Args[0], map[ssa.Value]bool{}), "call.ctx", FuncName(fn)+":eval["+pathName(call.Call.Value)+"]", call.Pos(), "evaluated in a fresh child context",
					"the function body is evaluated in a context that is not (on every path) a fresh child of the base context: calls running concurrently share the context that keys the per-evaluation state of the syntax tree")
			}
		}
	}
	c.Floor("call.ctx evaluations", n, 1, "the result expression of a user-defined function")
}
