package main

import (
	"fmt"
	"go/token"
	"go/types"
	"sort"

	"golang.org/x/tools/go/ssa"
)

func init() { register("C14", checkC14) }

// E-linform: linear forms over named symbols, obtained by symbolically executing
// the straight-line syntax of a small function.

func checkC14(c *Ctx) {
	c14LinformSSA(c)
	c14EOFRule(c)
	c14BufferSame(c, "buffer.same")
	c14RangeScanner(c)
	c14RangeTracks(c)
	c14NodeRangeStart(c)
	c14TokenKind(c, "R7")
	c14RangeParam(c, "R8")
	c14PeekerIndex(c, "R9")
}

// range.tracks: a parser loop that accumulates items in a slice and tracks the source range of the
// last item in a variable of type hcl.Range updates the tracker on every iteration path that
// appends an item.
func c14RangeTracks(c *Ctx) {
	c.Rule("range.tracks: in hclsyntax, in every loop whose header carries both a slice that is extended by append in the loop and a variable of type hcl.Range that is reassigned in the loop (the range of the last item consumed, later used as the end of RangeBetween), each path round the loop that extends the slice also reassigns the range variable: the node range covers every item that was appended")
	n := 0
	for _, fn := range c.P.pkgFuncs("hclsyntax") {
		for _, b := range fn.Blocks {
			var slices, ranges []*ssa.Phi
			for _, ins := range b.Instrs {
				ph, ok := ins.(*ssa.Phi)
				if !ok {
					break
				}
				if _, isSlice := ph.Type().Underlying().(*types.Slice); isSlice && !isNamed(ph.Type(), modPath, "Diagnostics") {
					slices = append(slices, ph)
				}
				if isNamed(ph.Type(), modPath, "Range") {
					ranges = append(ranges, ph)
				}
			}
			if len(slices) == 0 || len(ranges) == 0 {
				continue
			}
			// back edges: predecessors dominated by this header
			var back []int
			for i, p := range b.Preds {
				if b.Dominates(p) {
					back = append(back, i)
				}
			}
			if len(back) == 0 {
				continue
			}
			appended := func(ph *ssa.Phi, i int) bool {
				// the edge value is an append (possibly through inner phis) that extends ph
				seen := map[ssa.Value]bool{}
				var walk func(v ssa.Value, d int) bool
				walk = func(v ssa.Value, d int) bool {
					if v == nil || seen[v] || d > 8 || v == ssa.Value(ph) {
						return false
					}
					seen[v] = true
					switch x := v.(type) {
					case *ssa.Call:
						if bt, ok := x.Call.Value.(*ssa.Builtin); ok && bt.Name() == "append" {
							return true
						}
					case *ssa.Phi:
						for _, e := range x.Edges {
							if walk(e, d+1) {
								return true
							}
						}
					}
					return false
				}
				return walk(ph.Edges[i], 0)
			}
			for _, sl := range slices {
				for _, rg := range ranges {
					// the pair is tracked together if some back edge changes both
					together := false
					for _, i := range back {
						if appended(sl, i) && rg.Edges[i] != ssa.Value(rg) {
							together = true
						}
					}
					if !together {
						continue
					}
					for _, i := range back {
						if !appended(sl, i) {
							continue
						}
						n++
						c.Sites++
						c.Fn(FuncName(fn))
						pos := b.Preds[i].Instrs[len(b.Preds[i].Instrs)-1].Pos()
						if pos == token.NoPos {
							pos = sl.Edges[i].Pos()
						}
						key := fmt.Sprintf("%s:loop[%s,%s]", FuncName(fn), sl.Comment, rg.Comment)
						c.Check(rg.Edges[i] != ssa.Value(rg), "range.tracks", key, pos, "the range of the last item is updated with the item",
							"a path round the loop appends to `"+sl.Comment+"` without updating `"+rg.Comment+"`: the node's source range (RangeBetween(first, "+rg.Comment+")) stops before the last item, so slicing the source by the range does not give the expression back")
					}
				}
			}
		}
	}
	// the same pairing when the two variables live in memory cells (captured by a closure that
	// records a step): after an append is stored into the slice cell, the range cell is stored
	// before the function returns or appends again
	for _, fn := range c.P.pkgFuncs("hclsyntax") {
		cellOf := func(addr ssa.Value) ssa.Value {
			switch addr.(type) {
			case *ssa.FreeVar, *ssa.Alloc:
				return addr
			}
			return nil
		}
		var tStores, rStores []*ssa.Store
		for _, b := range fn.Blocks {
			for _, ins := range b.Instrs {
				st, ok := ins.(*ssa.Store)
				if !ok || cellOf(st.Addr) == nil {
					continue
				}
				et := st.Addr.Type().Underlying().(*types.Pointer).Elem()
				if isNamed(et, modPath, "Range") {
					rStores = append(rStores, st)
					continue
				}
				if _, isSlice := et.Underlying().(*types.Slice); !isSlice || isNamed(et, modPath, "Diagnostics") {
					continue
				}
				if call, ok := st.Val.(*ssa.Call); ok {
					if bt, ok := call.Call.Value.(*ssa.Builtin); ok && bt.Name() == "append" {
						if ld, ok := call.Call.Args[0].(*ssa.UnOp); ok && ld.Op == token.MUL && ld.X == st.Addr {
							tStores = append(tStores, st)
						}
					}
				}
			}
		}
		if len(tStores) == 0 || len(rStores) == 0 {
			continue
		}
		for _, ts := range tStores {
			for _, rcell := range func() []ssa.Value {
				seen := map[ssa.Value]bool{}
				var out []ssa.Value
				for _, rs := range rStores {
					if !seen[rs.Addr] {
						seen[rs.Addr] = true
						out = append(out, rs.Addr)
					}
				}
				return out
			}() {
				isR := func(ins ssa.Instruction) bool {
					st, ok := ins.(*ssa.Store)
					return ok && st.Addr == rcell
				}
				// tracked together: some append-store to this slice cell is followed by a store to rcell
				follows := func(from *ssa.Store) (bool, token.Pos) {
					b := from.Block()
					idx := 0
					for i, ins := range b.Instrs {
						if ins == ssa.Instruction(from) {
							idx = i + 1
						}
					}
					seen := map[*ssa.BasicBlock]bool{}
					bad := token.NoPos
					var walk func(bb *ssa.BasicBlock, i0 int) bool // true: every path passes an R store first
					walk = func(bb *ssa.BasicBlock, i0 int) bool {
						for _, ins := range bb.Instrs[i0:] {
							if isR(ins) {
								return true
							}
							if r, ok := ins.(*ssa.Return); ok {
								bad = r.Pos()
								return false
							}
							if st, ok := ins.(*ssa.Store); ok && st.Addr == from.Addr {
								bad = st.Pos()
								return false
							}
						}
						for _, su := range bb.Succs {
							if seen[su] {
								continue
							}
							seen[su] = true
							if !walk(su, 0) {
								return false
							}
						}
						return true
					}
					ok := walk(b, idx)
					return ok, bad
				}
				together := false
				for _, t2 := range tStores {
					if t2.Addr == ts.Addr {
						if ok, _ := follows(t2); ok {
							together = true
						}
					}
				}
				if !together {
					continue
				}
				n++
				c.Sites++
				c.Fn(FuncName(fn))
				ok, _ := follows(ts)
				key := fmt.Sprintf("%s:cells[%s,%s]", FuncName(fn), ts.Addr.Name(), rcell.Name())
				c.Check(ok, "range.tracks", key, ts.Pos(), "the range of the last item is stored with the item",
					"an item is appended to `"+ts.Addr.Name()+"` and the function returns or appends again without storing `"+rcell.Name()+"`: the node's source range stops before the last item")
			}
		}
	}
	c.Floor("range.tracks paths", n, 1, "the attribute-only splat traversal loop")
}

// scanner.snapshot: in RangeScanner.Scan the running position `new` is advanced per grapheme
// cluster (byte, column, and line/column on a newline) and copied into `end` while the token is
// not yet exhausted. The copy must be of the fully advanced position: within one iteration no
// field of the running position is written after it has been copied.
func c14RangeScanner(c *Ctx) {
	c.Rule("scanner.snapshot: in hcl.RangeScanner.Scan, the position cell that becomes sc.pos (the running position) is copied into the cell that becomes Range.End only after every update of the running position in that loop iteration (no store to a field of the running position is reachable from the copy without passing the loop header), and both cells start as copies of sc.pos")
	fn := c.P.LookupFunc("", "RangeScanner.Scan")
	if fn == nil {
		c.CheckerFail("scanner.snapshot", "anchor hcl.RangeScanner.Scan does not resolve")
		return
	}
	c.Fn(FuncName(fn))
	// cells of type hcl.Pos
	var cells []*ssa.Alloc
	for _, b := range fn.Blocks {
		for _, ins := range b.Instrs {
			if al, ok := ins.(*ssa.Alloc); ok && isNamed(al.Type().(*types.Pointer).Elem(), modPath, "Pos") {
				cells = append(cells, al)
			}
		}
	}
	cellOf := func(v ssa.Value) *ssa.Alloc {
		if u, ok := v.(*ssa.UnOp); ok && u.Op == token.MUL {
			if al, ok := u.X.(*ssa.Alloc); ok {
				return al
			}
		}
		return nil
	}
	// running: the cell whose content is stored into the receiver's pos field
	var running *ssa.Alloc
	for _, b := range fn.Blocks {
		for _, ins := range b.Instrs {
			st, ok := ins.(*ssa.Store)
			if !ok {
				continue
			}
			if fa, ok := st.Addr.(*ssa.FieldAddr); ok {
				if fv := fieldVarOf(fa.X.Type(), fa.Field); fv != nil && fv.Name() == "pos" {
					if al := cellOf(st.Val); al != nil {
						running = al
					}
				}
			}
		}
	}
	if running == nil {
		c.Undecided("scanner.snapshot", FuncName(fn)+":running", fn.Pos(), "the cell stored into sc.pos is not recognised")
		return
	}
	n := 0
	for _, scc := range sccBlocks(fn.Blocks, nil) {
		if len(scc) < 2 {
			continue
		}
		in := map[*ssa.BasicBlock]bool{}
		for _, b := range scc {
			in[b] = true
		}
		var header *ssa.BasicBlock
		for _, b := range scc {
			for _, p := range b.Preds {
				if !in[p] {
					header = b
				}
			}
		}
		writesRunning := func(ins ssa.Instruction) bool {
			st, ok := ins.(*ssa.Store)
			if !ok {
				return false
			}
			if st.Addr == ssa.Value(running) {
				return true
			}
			fa, ok := st.Addr.(*ssa.FieldAddr)
			return ok && fa.X == ssa.Value(running)
		}
		for _, b := range scc {
			for i, ins := range b.Instrs {
				ld, ok := ins.(*ssa.UnOp)
				if !ok || ld.Op != token.MUL || ld.X != ssa.Value(running) {
					continue
				}
				dstName := "end"
				for _, r := range *ld.Referrers() {
					if ph, ok := r.(*ssa.Phi); ok && ph.Comment != "" {
						dstName = ph.Comment
					}
					if st, ok := r.(*ssa.Store); ok {
						if al, ok := st.Addr.(*ssa.Alloc); ok {
							dstName = al.Comment
						}
					}
				}
				n++
				c.Sites++
				// anything written to the running position later in this iteration?
				late := token.NoPos
				seen := map[*ssa.BasicBlock]bool{}
				var walk func(bb *ssa.BasicBlock, from int)
				walk = func(bb *ssa.BasicBlock, from int) {
					for _, x := range bb.Instrs[from:] {
						if writesRunning(x) && late == token.NoPos {
							late = x.Pos()
						}
					}
					for _, s2 := range bb.Succs {
						if !in[s2] || s2 == header || seen[s2] {
							continue
						}
						seen[s2] = true
						walk(s2, 0)
					}
				}
				walk(b, i+1)
				c.Check(late == token.NoPos, "scanner.snapshot", FuncName(fn)+":copy["+dstName+"<-"+running.Comment+"]", ld.Pos(), "copied after the last update of the iteration",
					"the running position is copied into `"+dstName+"` before it has been fully advanced for this grapheme cluster (it is written again at "+c.P.Position(late)+"): the reported end of a token that ends in a newline has the column/line of the position before the newline was counted")
			}
		}
	}
	c.Floor("scanner.snapshot copies", n, 1, "end = new in the grapheme loop")
	_ = cells
}

func c14EOF(c *Ctx) {
	fn := c.P.LookupFunc("hclsyntax", "scanTokens")
	emit := c.P.LookupFunc("hclsyntax", "tokenAccum.emitToken")
	eof, ok := constIntOf(c.P, "hclsyntax", "TokenEOF")
	if fn == nil || emit == nil || !ok {
		c.CheckerFail("eof", "anchor scanTokens / emitToken / TokenEOF does not resolve")
		return
	}
	c.Fn(FuncName(fn))
	n := 0
	for _, b := range fn.Blocks {
		r, isRet := b.Instrs[len(b.Instrs)-1].(*ssa.Return)
		if !isRet {
			continue
		}
		n++
		// last emitToken call before the return in this block or its unique predecessor chain
		found := false
		for d := b; d != nil && !found; {
			for i := len(d.Instrs) - 1; i >= 0; i-- {
				if call, ok := d.Instrs[i].(*ssa.Call); ok && call.Call.StaticCallee() == emit {
					ty, ok1 := constInt(call.Call.Args[1])
					isLen := func(v ssa.Value) bool {
						cl, ok := v.(*ssa.Call)
						if !ok {
							return false
						}
						bi, ok := cl.Call.Value.(*ssa.Builtin)
						return ok && bi.Name() == "len"
					}
					found = ok1 && ty == eof && isLen(call.Call.Args[2]) && isLen(call.Call.Args[3])
					d = nil
					break
				}
			}
			if d == nil {
				break
			}
			if len(d.Preds) == 1 {
				d = d.Preds[0]
			} else {
				break
			}
		}
		c.Check(found, "eof", "hclsyntax.scanTokens:return", r.Pos(), "EOF token emitted at len(data)", "scanTokens can return without emitting TokenEOF at (len(data), len(data)) as its last token")
	}
	c.Floor("eof returns", n, 1, "the single exit of the generated scanner")
}

// R3: the accumulator cuts tokens from the buffer the scanner scans.
func c14BufferSame(c *Ctx, rule string) {
	c.Rule("R3 buffer.same: in hclsyntax.scanTokens the byte slice given to tokenAccum.Bytes is the very slice the state machine indexes (after the byte-order mark has been stripped), and StartByte/Pos are taken from the position that was advanced by the stripped length: token offsets produced by the machine and the bytes cut for each token refer to the same buffer")
	fn := c.P.LookupFunc("hclsyntax", "scanTokens")
	if fn == nil {
		c.CheckerFail(rule, "anchor hclsyntax.scanTokens does not resolve")
		return
	}
	c.Fn(FuncName(fn))
	// the buffer the machine reads: base of the IndexAddr instructions on a []byte
	bases := map[ssa.Value]int{}
	for _, b := range fn.Blocks {
		for _, ins := range b.Instrs {
			if ia, ok := ins.(*ssa.IndexAddr); ok {
				if sl, ok := ia.X.Type().Underlying().(*types.Slice); ok {
					if bt, ok := sl.Elem().Underlying().(*types.Basic); ok && bt.Kind() == types.Uint8 {
						// not the machine's own tables (package variables)
						if ld, ok := ia.X.(*ssa.UnOp); ok {
							if _, isGlobal := ld.X.(*ssa.Global); isGlobal {
								continue
							}
						}
						bases[cellContent(fn, ia.X)]++
					}
				}
			}
		}
	}
	var scanned ssa.Value
	best := 0
	for v, n := range bases {
		if n > best {
			scanned, best = v, n
		}
	}
	if scanned == nil {
		c.Undecided(rule, "hclsyntax.scanTokens:buffer", fn.Pos(), "the scanned buffer was not identified")
		return
	}
	var stored ssa.Value
	var pos token.Pos
	for _, b := range fn.Blocks {
		for _, ins := range b.Instrs {
			st, ok := ins.(*ssa.Store)
			if !ok {
				continue
			}
			fa, ok := st.Addr.(*ssa.FieldAddr)
			if !ok || !isNamed(fa.X.Type(), hclsyntaxPath, "tokenAccum") {
				continue
			}
			if fv := fieldVarOf(fa.X.Type(), fa.Field); fv != nil && fv.Name() == "Bytes" {
				stored, pos = st.Val, st.Pos()
			}
		}
	}
	// `data` lives in a cell (it is captured by the scanner's closures): compare what the cell holds
	stored, scanned = cellContent(fn, stored), cellContent(fn, scanned)
	c.Sites++
	c.Check(stored != nil && (stored == scanned || sameValue(stored, scanned)), rule, "hclsyntax.scanTokens:tokenAccum.Bytes", pos, fmt.Sprintf("the buffer indexed %d times by the machine", best),
		"tokenAccum.Bytes is not the buffer the state machine scans (e.g. the buffer before the byte-order mark was stripped): every token's Bytes and end position are cut a few bytes away from its Range")
	// the scanned buffer is the BOM-stripped one
	call, isCall := scanned.(*ssa.Call)
	c.Check(isCall && call.Call.StaticCallee() != nil && call.Call.StaticCallee().Name() == "stripUTF8BOM", rule, "hclsyntax.scanTokens:bom", fn.Pos(), "the machine scans the BOM-stripped buffer", "the state machine does not scan the result of stripUTF8BOM")
}

// cellContent: if v is a load of a local cell all of whose stores are in the entry block, the value
// the cell holds at that load (the last store before it); otherwise v itself.
func cellContent(fn *ssa.Function, v ssa.Value) ssa.Value {
	ld, ok := v.(*ssa.UnOp)
	if !ok || ld.Op != token.MUL {
		return v
	}
	al, ok := ld.X.(*ssa.Alloc)
	if !ok {
		return v
	}
	entry := fn.Blocks[0]
	var last ssa.Value
	for _, r := range *al.Referrers() {
		if st, ok := r.(*ssa.Store); ok && st.Addr == ssa.Value(al) && st.Block() != entry {
			return v // reassigned later: not decided here
		}
	}
	for _, ins := range entry.Instrs {
		if ins == ssa.Instruction(ld) {
			break
		}
		if st, ok := ins.(*ssa.Store); ok && st.Addr == ssa.Value(al) {
			last = st.Val
		}
	}
	if last == nil {
		return v
	}
	return last
}

func c14EOFRule(c *Ctx) {
	c.Rule("R2 eof: every return of hclsyntax.scanTokens is preceded by emitToken(TokenEOF, len(data), len(data))")
	c14EOF(c)
	c.NotCovered("tiling, ordering and gap content of the token stream: produced by the Ragel automaton (scan_tokens.go, ≈ 5 000 generated lines of goto), out of reach of shape rules")
	c.NotCovered("range fidelity of parser nodes (RangeBetween arithmetic in the parser) and RangeScanner: value-level")
}

// range.start: the recorded range of a syntax node is never derived from StartRange().
func c14NodeRangeStart(c *Ctx) {
	c.Rule("range.start: in hclsyntax no value obtained from an expression's StartRange() flows (directly, through hcl.RangeBetween, locals or phis) into an hcl.Range field of a syntax node: StartRange() is the 'interesting' start used to point diagnostics (the bracket of an IndexExpr, the marker of a SplatExpr, the first part of a template, the left operand's own StartRange for operators), not the first byte of the construct, so a node range built from it starts inside the construct")
	pkg := c.P.Pkg("hclsyntax")
	var nodeI *types.Interface
	if pkg != nil {
		if tn, ok := pkg.Types.Scope().Lookup("Node").(*types.TypeName); ok {
			nodeI, _ = tn.Type().Underlying().(*types.Interface)
		}
	}
	if nodeI == nil {
		c.CheckerFail("range.start", "anchor hclsyntax.Node does not resolve")
		return
	}
	n := 0
	for _, fn := range c.P.pkgFuncs("hclsyntax") {
		for _, b := range fn.Blocks {
			for _, ins := range b.Instrs {
				call, ok := ins.(*ssa.Call)
				if !ok {
					continue
				}
				name := ""
				if call.Call.IsInvoke() {
					name = call.Call.Method.Name()
				} else if cal := call.Call.StaticCallee(); cal != nil && cal.Signature.Recv() != nil {
					name = cal.Name()
				}
				if name != "StartRange" || !isNamed(call.Type(), modPath, "Range") {
					continue
				}
				n++
				c.Sites++
				c.Fn(FuncName(fn))
				// forward flow
				var hit *ssa.Store
				seen := map[ssa.Value]bool{}
				var fwd func(v ssa.Value)
				fwd = func(v ssa.Value) {
					if seen[v] || hit != nil || v.Referrers() == nil {
						return
					}
					seen[v] = true
					for _, r := range *v.Referrers() {
						switch x := r.(type) {
						case *ssa.Phi:
							fwd(x)
						case *ssa.ChangeType:
							fwd(x)
						case *ssa.Call:
							if cal := x.Call.StaticCallee(); cal != nil && cal.Name() == "RangeBetween" && isNamed(x.Type(), modPath, "Range") {
								fwd(x)
							}
						case *ssa.Store:
							if x.Val != v {
								continue
							}
							switch a := x.Addr.(type) {
							case *ssa.Alloc:
								// a local: its loads
								for _, r2 := range *a.Referrers() {
									if u, ok := r2.(*ssa.UnOp); ok && u.Op == token.MUL {
										fwd(u)
									}
								}
							case *ssa.FieldAddr:
								pt := a.X.Type()
								if types.Implements(pt, nodeI) || types.Implements(types.NewPointer(pt), nodeI) {
									hit = x
								} else if p, ok := pt.Underlying().(*types.Pointer); ok && types.Implements(p.Elem(), nodeI) {
									hit = x
								}
							}
						}
					}
				}
				fwd(call)
				key := fmt.Sprintf("%s:StartRange[%s]", FuncName(fn), pathName(call.Call.Value))
				if call.Call.IsInvoke() == false && len(call.Call.Args) > 0 {
					key = fmt.Sprintf("%s:StartRange[%s]", FuncName(fn), pathName(call.Call.Args[0]))
				}
				if hit == nil {
					c.OK("range.start", key, call.Pos(), "used for a diagnostic or returned")
				} else {
					c.Fail("range.start", key, hit.Pos(), "the range of a syntax node is built from StartRange(), which for index, splat, template and operator expressions lies inside the construct: Range().SliceBytes(src) is then not the construct's text")
				}
			}
		}
	}
	c.Floor("range.start StartRange uses", n, 8, "the delegating StartRange methods and the diagnostics of FunctionCallExpr.Value")
}

// token.kind: a token variable that is deliberately assigned tokens of one type is not, on some
// other path, assigned a token whose test for that type has just failed (contradiction rule).
func c14TokenKind(c *Ctx, rule string) {
	c.Rule(rule + " token.kind: in hclsyntax, when a Token variable is assigned on some paths a token established to have type K (read right after Peek().Type == K, or copied from a token under its own Type == K test), it is on no path assigned a copy of a token whose Type == K test failed on that path (unless that token passed a test for a type that other assignments of the variable establish as well: a variable for 'either kind'): the variable records 'the K token' (the closing parenthesis whose range becomes CloseParenRange, …) and a token known not to be one is the wrong token")
	pkg := c.P.Pkg("hclsyntax")
	if pkg == nil {
		c.CheckerFail("token.kind", "package hclsyntax not loaded")
		return
	}
	isTok := func(t types.Type) bool { return isNamed(t, modPath+"/hclsyntax", "Token") }
	// facts about the token held in cell d at block b: kinds it is known to have / known not to have
	typeTests := func(d ssa.Value, b *ssa.BasicBlock) (pos, neg map[int64]bool) {
		pos, neg = map[int64]bool{}, map[int64]bool{}
		for cur := b; cur != nil; cur = cur.Idom() {
			idom := cur.Idom()
			if idom == nil {
				break
			}
			iff, ok := idom.Instrs[len(idom.Instrs)-1].(*ssa.If)
			if !ok || len(cur.Preds) != 1 {
				continue
			}
			bo, ok := iff.Cond.(*ssa.BinOp)
			if !ok || (bo.Op != token.EQL && bo.Op != token.NEQ) {
				continue
			}
			k, ok := constInt(bo.Y)
			x := bo.X
			if !ok {
				k, ok = constInt(bo.X)
				x = bo.Y
			}
			if !ok {
				continue
			}
			// x = d.Type
			isTypeOf := false
			switch t := x.(type) {
			case *ssa.UnOp:
				if fa, ok := t.X.(*ssa.FieldAddr); ok && fa.Field == 0 && fa.X == d {
					isTypeOf = true
				}
			case *ssa.Field:
				if t.Field == 0 && t.X == d {
					isTypeOf = true
				}
			}
			if !isTypeOf {
				continue
			}
			onTrue := idom.Succs[0] == cur
			if (bo.Op == token.EQL) == onTrue {
				pos[int64(k)] = true
			} else {
				neg[int64(k)] = true
			}
		}
		return
	}
	cells := 0
	for _, fn := range c.P.pkgFuncs("hclsyntax") {
		for _, b := range fn.Blocks {
			for _, ins := range b.Instrs {
				al, ok := ins.(*ssa.Alloc)
				if !ok || !isTok(al.Type().(*types.Pointer).Elem()) {
					continue
				}
				type st struct {
					s        *ssa.Store
					pos, neg map[int64]bool
				}
				var stores []st
				for _, r := range *al.Referrers() {
					s, ok := r.(*ssa.Store)
					if !ok || s.Addr != ssa.Value(al) {
						continue
					}
					e := st{s: s, pos: map[int64]bool{}, neg: map[int64]bool{}}
					switch v := s.Val.(type) {
					case *ssa.Call:
						if cal := v.Call.StaticCallee(); cal != nil && cal.Name() == "Read" && len(v.Call.Args) == 1 {
							// the token peeked last: a Peek() result tested on the way here
							// only the test that directly guards this block, with no other read before this one
							firstRead := true
							for _, i2 := range s.Block().Instrs {
								if i2 == ssa.Instruction(v) {
									break
								}
								if c2, ok := i2.(*ssa.Call); ok {
									if cal := c2.Call.StaticCallee(); cal != nil && (cal.Name() == "Read" || cal.Name() == "Peek") {
										firstRead = false
									}
								}
							}
							for cur := s.Block(); cur != nil && firstRead; cur = nil {
								idom := cur.Idom()
								if idom == nil {
									break
								}
								iff, ok := idom.Instrs[len(idom.Instrs)-1].(*ssa.If)
								if !ok || len(cur.Preds) != 1 {
									continue
								}
								bo, ok := iff.Cond.(*ssa.BinOp)
								if !ok || (bo.Op != token.EQL && bo.Op != token.NEQ) {
									continue
								}
								k, ok := constInt(bo.Y)
								if !ok {
									continue
								}
								var src ssa.Value
								switch t := bo.X.(type) {
								case *ssa.Field:
									src = t.X
								case *ssa.UnOp:
									if fa, ok := t.X.(*ssa.FieldAddr); ok && fa.Field == 0 {
										if cell, ok := fa.X.(*ssa.Alloc); ok {
											// the single value stored into a peeked-token cell
											for _, r2 := range *cell.Referrers() {
												if s2, ok := r2.(*ssa.Store); ok && s2.Addr == ssa.Value(cell) {
													src = s2.Val
												}
											}
										}
									}
								}
								pk, ok := src.(*ssa.Call)
								if !ok {
									continue
								}
								if cal := pk.Call.StaticCallee(); cal == nil || cal.Name() != "Peek" {
									continue
								}
								if (bo.Op == token.EQL) == (idom.Succs[0] == cur) {
									e.pos[int64(k)] = true
								}
								break
							}
						}
					case *ssa.UnOp:
						if d, ok := v.X.(*ssa.Alloc); ok && v.Op == token.MUL && isTok(d.Type().(*types.Pointer).Elem()) {
							e.pos, e.neg = typeTests(d, s.Block())
						}
					}
					stores = append(stores, e)
				}
				kinds := map[int64]int{}
				for _, e := range stores {
					for k := range e.pos {
						kinds[k]++
					}
				}
				if len(kinds) == 0 {
					continue
				}
				cells++
				c.Sites++
				c.Fn(FuncName(fn))
				var bad *st
				var badK int64
				for i := range stores {
					e := &stores[i]
					// a type this token passed that other assignments establish too: a variable for
					// "either kind", no contradiction
					shared := false
					for k := range e.pos {
						if kinds[k] > 1 {
							shared = true
						}
					}
					if shared {
						continue
					}
					for k := range e.neg {
						if (len(e.pos) == 0 && kinds[k] > 0) || kinds[k] > 1 {
							bad, badK = e, k
						}
					}
				}
				key := fmt.Sprintf("%s:token[%s]", FuncName(fn), al.Comment)
				if bad == nil {
					c.OK("token.kind", key, al.Pos(), fmt.Sprintf("%d assignments, kinds %v", len(stores), sortedKinds(kinds)))
				} else {
					c.Fail("token.kind", key, bad.s.Pos(), fmt.Sprintf("`%s` holds the token of type %q on the other paths, but is assigned here a token whose test for that type has just failed (a separator, not the closing token): the range recorded from it ends before the construct does, and the writer's loader, which assigns tokens to nodes by these ranges, misplaces the real closing token", al.Comment, rune(badK)))
				}
			}
		}
	}
	c.Floor("token.kind token variables with an established type", cells, 3, "closeTok of finishParsingFunctionCall and the close tokens of the bracketed constructs")
}

func sortedKinds(m map[int64]int) []string {
	var out []string
	for k := range m {
		out = append(out, string(rune(k)))
	}
	sort.Strings(out)
	return out
}

// range.param: a parser helper that is handed the range of what it appends uses it on every arm.
func c14RangeParam(c *Ctx, rule string) {
	c.Rule(rule + " range.param: in an hclsyntax function that has a single parameter of type hcl.Range and stores node ranges computed from it (makeRelativeTraversal: the range of the step being appended), every store into an hcl.Range field of a syntax node in that function is computed from that parameter (directly or as an argument of hcl.RangeBetween): an arm that derives the node's range from something else (the steps collected so far) leaves the new step outside the node's range, and the writer's loader, which assigns tokens by these ranges, puts its tokens after the item")
	pkg := c.P.Pkg("hclsyntax")
	var nodeI *types.Interface
	if pkg != nil {
		if tn, ok := pkg.Types.Scope().Lookup("Node").(*types.TypeName); ok {
			nodeI, _ = tn.Type().Underlying().(*types.Interface)
		}
	}
	if nodeI == nil {
		c.CheckerFail("range.param", "anchor hclsyntax.Node does not resolve")
		return
	}
	n := 0
	for _, fn := range c.P.pkgFuncs("hclsyntax") {
		if fn.Parent() != nil {
			continue
		}
		var rng *ssa.Parameter
		cnt := 0
		for _, p := range fn.Params {
			if isNamed(p.Type(), modPath, "Range") {
				rng = p
				cnt++
			}
		}
		if cnt != 1 {
			continue
		}
		var fromParam func(v ssa.Value, d int) bool
		fromParam = func(v ssa.Value, d int) bool {
			if v == ssa.Value(rng) {
				return true
			}
			if d > 4 {
				return false
			}
			switch x := v.(type) {
			case *ssa.Call:
				if cal := x.Call.StaticCallee(); cal != nil && cal.Name() == "RangeBetween" {
					for _, a := range x.Call.Args {
						if fromParam(a, d+1) {
							return true
						}
					}
				}
			case *ssa.Phi:
				for _, e := range x.Edges {
					if !fromParam(e, d+1) {
						return false
					}
				}
				return len(x.Edges) > 0
			}
			return false
		}
		type site struct {
			st *ssa.Store
			ok bool
		}
		var sites []site
		for _, b := range fn.Blocks {
			for _, ins := range b.Instrs {
				st, ok := ins.(*ssa.Store)
				if !ok || !isNamed(st.Val.Type(), modPath, "Range") {
					continue
				}
				fa, ok := st.Addr.(*ssa.FieldAddr)
				if !ok {
					continue
				}
				pt := fa.X.Type()
				isNode := types.Implements(pt, nodeI)
				if p, ok := pt.Underlying().(*types.Pointer); ok && !isNode {
					isNode = types.Implements(p.Elem(), nodeI) || types.Implements(types.NewPointer(p.Elem()), nodeI)
				}
				if !isNode {
					continue
				}
				sites = append(sites, site{st, fromParam(st.Val, 0)})
			}
		}
		uses := 0
		for _, s := range sites {
			if s.ok {
				uses++
			}
		}
		if uses == 0 {
			continue // the parameter is not what node ranges are made from here
		}
		c.Fn(FuncName(fn))
		for i, s := range sites {
			n++
			c.Sites++
			key := fmt.Sprintf("%s:range#%d", FuncName(fn), i+1)
			c.Check(s.ok, "range.param", key, s.st.Pos(), "computed from the range handed in",
				"this arm computes the node's range without the range parameter that the other arms use: the element being appended is left outside the node's recorded range")
		}
	}
	c.Floor("range.param stores", n, 3, "the three arms of makeRelativeTraversal")
}

// peeker.index: Read advances to exactly the index nextToken reported.
func c14PeekerIndex(c *Ctx, rule string) {
	c.Rule(rule + " peeker.index: hclsyntax.(*peeker).Read stores into NextIndex exactly the index returned by nextToken for the token it returns (not a phi, not an index advanced any further): PrevRange() reads Tokens[NextIndex-1], which the parser takes as the end of the construct it has just finished, so an index stepped over further tokens (comments) makes every such range end at the wrong token")
	rd := c.P.LookupFunc("hclsyntax", "peeker.Read")
	nt := c.P.LookupFunc("hclsyntax", "peeker.nextToken")
	if rd == nil || nt == nil {
		c.CheckerFail("peeker.index", "anchor peeker.Read / peeker.nextToken does not resolve")
		return
	}
	c.Fn(FuncName(rd))
	n := 0
	for _, b := range rd.Blocks {
		for _, ins := range b.Instrs {
			st, ok := ins.(*ssa.Store)
			if !ok {
				continue
			}
			fa, ok := st.Addr.(*ssa.FieldAddr)
			if !ok {
				continue
			}
			if fv := fieldVarOf(fa.X.Type(), fa.Field); fv == nil || fv.Name() != "NextIndex" {
				continue
			}
			n++
			c.Sites++
			good := false
			if ex, ok := st.Val.(*ssa.Extract); ok && ex.Index == 1 {
				if call, ok := ex.Tuple.(*ssa.Call); ok && call.Call.StaticCallee() == nt {
					good = true
				}
			}
			c.Check(good, "peeker.index", FuncName(rd)+":NextIndex", st.Pos(), "the index nextToken returned",
				"Read stores an index other than the one nextToken returned ("+pathName(st.Val)+"): PrevRange() no longer is the range of the token just read")
		}
	}
	c.Floor("peeker.index stores", n, 1, "p.NextIndex = nextIdx")
}
