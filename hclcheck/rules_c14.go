package main

import (
	"fmt"
	"go/token"
	"go/types"

	"golang.org/x/tools/go/ssa"
)

func init() { register("C14", checkC14) }

// E-linform: linear forms over named symbols, obtained by symbolically executing
// the straight-line syntax of a small function.

func checkC14(c *Ctx) {
	c14LinformSSA(c)
	c14EOFRule(c)
	c14BufferSame(c, "buffer.same")
}

func c14EOF(c *Ctx) {
	fn := c.P.LookupFunc("hclsyntax", "scanTokens")
	emit := c.P.LookupFunc("hclsyntax", "tokenAccum.emitToken")
	eof, ok := constIntOf(c.P, "hclsyntax", "TokenEOF")
	if fn == nil || emit == nil || !ok {
		c.CheckerFail("eof", "anchor scanTokens / emitToken / TokenEOF does not resolve")
		return
	}
	c.Fn(FuncName(fn))
	n := 0
	for _, b := range fn.Blocks {
		r, isRet := b.Instrs[len(b.Instrs)-1].(*ssa.Return)
		if !isRet {
			continue
		}
		n++
		// last emitToken call before the return in this block or its unique predecessor chain
		found := false
		for d := b; d != nil && !found; {
			for i := len(d.Instrs) - 1; i >= 0; i-- {
				if call, ok := d.Instrs[i].(*ssa.Call); ok && call.Call.StaticCallee() == emit {
					ty, ok1 := constInt(call.Call.Args[1])
					isLen := func(v ssa.Value) bool {
						cl, ok := v.(*ssa.Call)
						if !ok {
							return false
						}
						bi, ok := cl.Call.Value.(*ssa.Builtin)
						return ok && bi.Name() == "len"
					}
					found = ok1 && ty == eof && isLen(call.Call.Args[2]) && isLen(call.Call.Args[3])
					d = nil
					break
				}
			}
			if d == nil {
				break
			}
			if len(d.Preds) == 1 {
				d = d.Preds[0]
			} else {
				break
			}
		}
		c.Check(found, "eof", "hclsyntax.scanTokens:return", r.Pos(), "EOF token emitted at len(data)", "scanTokens can return without emitting TokenEOF at (len(data), len(data)) as its last token")
	}
	c.Floor("eof returns", n, 1, "the single exit of the generated scanner")
}

// R3: the accumulator cuts tokens from the buffer the scanner scans.
func c14BufferSame(c *Ctx, rule string) {
	c.Rule("R3 buffer.same: in hclsyntax.scanTokens the byte slice given to tokenAccum.Bytes is the very slice the state machine indexes (after the byte-order mark has been stripped), and StartByte/Pos are taken from the position that was advanced by the stripped length: token offsets produced by the machine and the bytes cut for each token refer to the same buffer")
	fn := c.P.LookupFunc("hclsyntax", "scanTokens")
	if fn == nil {
		c.CheckerFail(rule, "anchor hclsyntax.scanTokens does not resolve")
		return
	}
	c.Fn(FuncName(fn))
	// the buffer the machine reads: base of the IndexAddr instructions on a []byte
	bases := map[ssa.Value]int{}
	for _, b := range fn.Blocks {
		for _, ins := range b.Instrs {
			if ia, ok := ins.(*ssa.IndexAddr); ok {
				if sl, ok := ia.X.Type().Underlying().(*types.Slice); ok {
					if bt, ok := sl.Elem().Underlying().(*types.Basic); ok && bt.Kind() == types.Uint8 {
						// not the machine's own tables (package variables)
						if ld, ok := ia.X.(*ssa.UnOp); ok {
							if _, isGlobal := ld.X.(*ssa.Global); isGlobal {
								continue
							}
						}
						bases[cellContent(fn, ia.X)]++
					}
				}
			}
		}
	}
	var scanned ssa.Value
	best := 0
	for v, n := range bases {
		if n > best {
			scanned, best = v, n
		}
	}
	if scanned == nil {
		c.Undecided(rule, "hclsyntax.scanTokens:buffer", fn.Pos(), "the scanned buffer was not identified")
		return
	}
	var stored ssa.Value
	var pos token.Pos
	for _, b := range fn.Blocks {
		for _, ins := range b.Instrs {
			st, ok := ins.(*ssa.Store)
			if !ok {
				continue
			}
			fa, ok := st.Addr.(*ssa.FieldAddr)
			if !ok || !isNamed(fa.X.Type(), hclsyntaxPath, "tokenAccum") {
				continue
			}
			if fv := fieldVarOf(fa.X.Type(), fa.Field); fv != nil && fv.Name() == "Bytes" {
				stored, pos = st.Val, st.Pos()
			}
		}
	}
	// `data` lives in a cell (it is captured by the scanner's closures): compare what the cell holds
	stored, scanned = cellContent(fn, stored), cellContent(fn, scanned)
	c.Sites++
	c.Check(stored != nil && (stored == scanned || sameValue(stored, scanned)), rule, "hclsyntax.scanTokens:tokenAccum.Bytes", pos, fmt.Sprintf("the buffer indexed %d times by the machine", best),
		"tokenAccum.Bytes is not the buffer the state machine scans (e.g. the buffer before the byte-order mark was stripped): every token's Bytes and end position are cut a few bytes away from its Range")
	// the scanned buffer is the BOM-stripped one
	call, isCall := scanned.(*ssa.Call)
	c.Check(isCall && call.Call.StaticCallee() != nil && call.Call.StaticCallee().Name() == "stripUTF8BOM", rule, "hclsyntax.scanTokens:bom", fn.Pos(), "the machine scans the BOM-stripped buffer", "the state machine does not scan the result of stripUTF8BOM")
}

// cellContent: if v is a load of a local cell all of whose stores are in the entry block, the value
// the cell holds at that load (the last store before it); otherwise v itself.
func cellContent(fn *ssa.Function, v ssa.Value) ssa.Value {
	ld, ok := v.(*ssa.UnOp)
	if !ok || ld.Op != token.MUL {
		return v
	}
	al, ok := ld.X.(*ssa.Alloc)
	if !ok {
		return v
	}
	entry := fn.Blocks[0]
	var last ssa.Value
	for _, r := range *al.Referrers() {
		if st, ok := r.(*ssa.Store); ok && st.Addr == ssa.Value(al) && st.Block() != entry {
			return v // reassigned later: not decided here
		}
	}
	for _, ins := range entry.Instrs {
		if ins == ssa.Instruction(ld) {
			break
		}
		if st, ok := ins.(*ssa.Store); ok && st.Addr == ssa.Value(al) {
			last = st.Val
		}
	}
	if last == nil {
		return v
	}
	return last
}

func c14EOFRule(c *Ctx) {
	c.Rule("R2 eof: every return of hclsyntax.scanTokens is preceded by emitToken(TokenEOF, len(data), len(data))")
	c14EOF(c)
	c.NotCovered("tiling, ordering and gap content of the token stream: produced by the Ragel automaton (scan_tokens.go, ≈ 5 000 generated lines of goto), out of reach of shape rules")
	c.NotCovered("range fidelity of parser nodes (RangeBetween arithmetic in the parser) and RangeScanner: value-level")
}
