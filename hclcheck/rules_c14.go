package main

import (
	"fmt"
	"go/ast"
	"go/constant"
	"go/token"
	"go/types"
	"sort"
	"strings"

	"golang.org/x/tools/go/packages"
	"golang.org/x/tools/go/ssa"
)

func init() { register("C14", checkC14) }

// E-linform: linear forms over named symbols, obtained by symbolically executing
// the straight-line syntax of a small function.

type linForm struct {
	coef map[string]int
	k    int
}

func lfSym(s string) linForm { return linForm{coef: map[string]int{s: 1}} }
func lfConst(k int) linForm  { return linForm{coef: map[string]int{}, k: k} }
func (a linForm) add(b linForm, sign int) linForm {
	r := linForm{coef: map[string]int{}, k: a.k + sign*b.k}
	for s, c := range a.coef {
		r.coef[s] += c
	}
	for s, c := range b.coef {
		r.coef[s] += sign * c
	}
	for s, c := range r.coef {
		if c == 0 {
			delete(r.coef, s)
		}
	}
	return r
}
func (a linForm) String() string {
	var ks []string
	for s := range a.coef {
		ks = append(ks, s)
	}
	sort.Strings(ks)
	var parts []string
	for _, s := range ks {
		c := a.coef[s]
		switch {
		case c == 1:
			parts = append(parts, "+"+s)
		case c == -1:
			parts = append(parts, "-"+s)
		default:
			parts = append(parts, fmt.Sprintf("%+d*%s", c, s))
		}
	}
	if a.k != 0 || len(parts) == 0 {
		parts = append(parts, fmt.Sprintf("%+d", a.k))
	}
	return strings.TrimPrefix(strings.Join(parts, " "), "+")
}

// symEnv maps dotted paths ("start.Column") to linear forms; unknown paths are symbols of themselves.
type symEnv struct {
	vals    map[string]linForm
	structs map[string]string // struct variable -> the path it was copied from (for unset fields)
	pkg     *packages.Package
	err     string
}

func (e *symEnv) pathOf(x ast.Expr) (string, bool) {
	switch v := x.(type) {
	case *ast.Ident:
		return v.Name, true
	case *ast.SelectorExpr:
		if p, ok := e.pathOf(v.X); ok {
			return p + "." + v.Sel.Name, true
		}
	case *ast.ParenExpr:
		return e.pathOf(v.X)
	}
	return "", false
}

// lookup resolves a dotted path through struct copies.
func (e *symEnv) lookup(path string) linForm {
	if v, ok := e.vals[path]; ok {
		return v
	}
	// x.F where x was copied from y: y.F
	parts := strings.Split(path, ".")
	for i := len(parts) - 1; i >= 1; i-- {
		prefix := strings.Join(parts[:i], ".")
		if src, ok := e.structs[prefix]; ok {
			return e.lookup(src + "." + strings.Join(parts[i:], "."))
		}
	}
	return lfSym(path)
}

func (e *symEnv) eval(x ast.Expr) linForm {
	if tv, ok := e.pkg.TypesInfo.Types[x]; ok && tv.Value != nil && tv.Value.Kind() == constant.Int {
		if n, ok := constant.Int64Val(tv.Value); ok {
			return lfConst(int(n))
		}
	}
	switch v := x.(type) {
	case *ast.ParenExpr:
		return e.eval(v.X)
	case *ast.BinaryExpr:
		switch v.Op {
		case token.ADD:
			return e.eval(v.X).add(e.eval(v.Y), 1)
		case token.SUB:
			return e.eval(v.X).add(e.eval(v.Y), -1)
		}
	case *ast.Ident, *ast.SelectorExpr:
		if p, ok := e.pathOf(x); ok {
			return e.lookup(p)
		}
	case *ast.CallExpr:
		if id, ok := v.Fun.(*ast.Ident); ok && id.Name == "len" && len(v.Args) == 1 {
			return lfSym("len(" + exprStr(v.Args[0]) + ")")
		}
	}
	return lfSym("<" + exprStr(x) + ">")
}

// structFields copies every explicitly set field of struct src to dst.
func (e *symEnv) copyStruct(dst, src string) {
	for p := range e.vals {
		if strings.HasPrefix(p, dst+".") {
			delete(e.vals, p)
		}
	}
	// materialise the fields set on src so that later writes to src do not leak into dst
	for p, v := range e.vals {
		if strings.HasPrefix(p, src+".") {
			e.vals[dst+strings.TrimPrefix(p, src)] = v
		}
	}
	if s2, ok := e.structs[src]; ok {
		e.structs[dst] = s2
	} else {
		e.structs[dst] = src
	}
}

func (e *symEnv) assign(lhs ast.Expr, tok token.Token, rhs ast.Expr) {
	lp, ok := e.pathOf(lhs)
	if !ok {
		e.err = "unsupported assignment target " + exprStr(lhs)
		return
	}
	switch tok {
	case token.ASSIGN, token.DEFINE:
		// struct copy?
		if rp, ok := e.pathOf(rhs); ok {
			if tv, ok := e.pkg.TypesInfo.Types[rhs]; ok {
				if _, isStruct := tv.Type.Underlying().(interface{ NumFields() int }); isStruct {
					e.copyStruct(lp, rp)
					return
				}
			}
		}
		e.vals[lp] = e.eval(rhs)
	case token.ADD_ASSIGN:
		e.vals[lp] = e.lookup(lp).add(e.eval(rhs), 1)
	case token.SUB_ASSIGN:
		e.vals[lp] = e.lookup(lp).add(e.eval(rhs), -1)
	default:
		e.err = "unsupported assignment operator"
	}
}

func checkC14(c *Ctx) {
	c14Linform(c)
	c14BufferSame(c, "buffer.same")
}

func c14Linform(c *Ctx) {
	c.Rule("R1 linform: tokenAccum.emitToken, executed symbolically over its syntax: Token.Bytes = f.Bytes[startOfs:endOfs]; Range.Start.Byte = startOfs + f.StartByte; Range.End.Byte = endOfs + f.StartByte; Range.Start.Line = f.Pos.Line; Range.Start.Column = f.Pos.Column + (startOfs + f.StartByte − f.Pos.Byte); the end position starts as a copy of the start position and is advanced by a loop over the grapheme clusters of exactly the token's bytes, each cluster doing either Line++, Column = 1 (for the clusters \"\\n\" and \"\\r\\n\") or Column++; f.Pos is set to the end position before the token is appended")
	c.Rule("R2 eof: every return of hclsyntax.scanTokens is preceded by emitToken(TokenEOF, len(data), len(data))")
	fd, pkg := c.P.LookupDecl("hclsyntax", "tokenAccum.emitToken")
	if fd == nil {
		c.CheckerFail("linform", "anchor tokenAccum.emitToken does not resolve")
		return
	}
	name := declName(pkg, fd)
	c.Fn(name)
	env := &symEnv{vals: map[string]linForm{}, structs: map[string]string{}, pkg: pkg}
	// names of the local position variables and of the receiver are taken from the code
	endVar, recvVar := "end", "f"
	if fd.Recv != nil && len(fd.Recv.List) > 0 && len(fd.Recv.List[0].Names) > 0 {
		recvVar = fd.Recv.List[0].Names[0].Name
	}
	ast.Inspect(fd.Body, func(n ast.Node) bool {
		if kv, ok := n.(*ast.KeyValueExpr); ok && exprStr(kv.Key) == "End" {
			if id, ok := kv.Value.(*ast.Ident); ok {
				endVar = id.Name
			}
		}
		return true
	})
	norm := func(s string) string {
		// canonical names in the expected forms: receiver "f", offsets as declared
		return s
	}
	_ = norm
	var loop *ast.ForStmt
	var bytesInit ast.Expr // b := f.Bytes[...]
	var tokenLit *ast.CompositeLit
	posSetBeforeAppend := false
	posSet := false
	var endAtLoop map[string]linForm
	for _, st := range fd.Body.List {
		switch s := st.(type) {
		case *ast.AssignStmt:
			if len(s.Lhs) == 1 && len(s.Rhs) == 1 {
				// b := f.Bytes[startOfs:endOfs]
				if se, ok := s.Rhs[0].(*ast.SliceExpr); ok {
					if lp, ok := env.pathOf(s.Lhs[0]); ok && loop == nil {
						bytesInit = se
						_ = lp
						continue
					}
				}
				// f.Tokens = append(f.Tokens, Token{...})
				if call, ok := s.Rhs[0].(*ast.CallExpr); ok {
					if id, ok := call.Fun.(*ast.Ident); ok && id.Name == "append" && len(call.Args) == 2 {
						if cl, ok := call.Args[1].(*ast.CompositeLit); ok {
							tokenLit = cl
							posSetBeforeAppend = posSet
							continue
						}
					}
				}
				if lp, ok := env.pathOf(s.Lhs[0]); ok && lp == recvVar+".Pos" {
					posSet = true
					if rp, ok := env.pathOf(s.Rhs[0]); !ok || rp != endVar {
						c.Fail("linform", name+":thread[f.Pos]", s.Pos(), "f.Pos is set to something other than the computed end position: the next token's line/column start from a stale position")
					}
					continue
				}
				env.assign(s.Lhs[0], s.Tok, s.Rhs[0])
			} else {
				env.err = "multi-assignment outside the cluster loop"
			}
		case *ast.ForStmt:
			if loop != nil {
				env.err = "more than one loop"
			}
			loop = s
			endAtLoop = map[string]linForm{"Line": env.lookup(endVar + ".Line"), "Column": env.lookup(endVar + ".Column"), "Byte": env.lookup(endVar + ".Byte")}
		case *ast.DeclStmt, *ast.EmptyStmt:
		default:
			env.err = fmt.Sprintf("unsupported statement %T at %s (the bookkeeping is no longer straight-line code plus one cluster loop)", st, c.P.Position(st.Pos()))
		}
		if env.err != "" {
			break
		}
	}
	if env.err != "" {
		c.Undecided("linform", name+":symbolic-execution", fd.Pos(), env.err)
		return
	}
	if tokenLit == nil || loop == nil || bytesInit == nil {
		c.Undecided("linform", name+":shape", fd.Pos(), "emitToken no longer has the shape: position arithmetic, one loop over clusters, append of a Token literal")
		return
	}
	params := []string{"startOfs", "endOfs"}
	if fd.Type.Params != nil {
		var names []string
		for _, fl := range fd.Type.Params.List {
			for _, nm := range fl.Names {
				names = append(names, nm.Name)
			}
		}
		if len(names) == 3 {
			params = names[1:]
		}
	}
	want := func(key, got, exp string) {
		// expected forms are written with the canonical names f / startOfs / endOfs
		got = strings.NewReplacer(recvVar+".", "f.", params[0], "startOfs", params[1], "endOfs").Replace(got)
		c.Check(got == exp, "linform", name+":"+key, fd.Pos(), key+" = "+exp, key+" = "+got+", but the property prescribes "+exp)
	}
	// token literal fields
	var rangeLit *ast.CompositeLit
	for _, el := range tokenLit.Elts {
		kv, ok := el.(*ast.KeyValueExpr)
		if !ok {
			continue
		}
		switch exprStr(kv.Key) {
		case "Bytes":
			se, ok := kv.Value.(*ast.SliceExpr)
			got := exprStr(kv.Value)
			if ok {
				got = exprStr(se.X) + "[" + env.eval(se.Low).String() + ":" + env.eval(se.High).String() + "]"
			}
			want("Token.Bytes", got, "f.Bytes[startOfs:endOfs]")
		case "Range":
			rangeLit, _ = kv.Value.(*ast.CompositeLit)
		}
	}
	if rangeLit == nil {
		c.Undecided("linform", name+":Range", tokenLit.Pos(), "Token.Range is not a literal")
		return
	}
	for _, el := range rangeLit.Elts {
		kv, ok := el.(*ast.KeyValueExpr)
		if !ok {
			continue
		}
		p, _ := env.pathOf(kv.Value)
		switch exprStr(kv.Key) {
		case "Start":
			want("Range.Start.Byte", env.lookup(p+".Byte").String(), "f.StartByte +startOfs")
			want("Range.Start.Line", env.lookup(p+".Line").String(), "f.Pos.Line")
			want("Range.Start.Column", env.lookup(p+".Column").String(), "-f.Pos.Byte +f.Pos.Column +f.StartByte +startOfs")
		case "End":
			want("Range.End.Byte", env.lookup(p+".Byte").String(), "endOfs +f.StartByte")
			c.Check(p == endVar, "linform", name+":Range.End", kv.Pos(), "Range.End is the advanced end position", "Range.End is not the position advanced by the cluster loop")
		}
	}
	// end starts as a copy of start
	want("end.Line@loop", endAtLoop["Line"].String(), "f.Pos.Line")
	want("end.Column@loop", endAtLoop["Column"].String(), "-f.Pos.Byte +f.Pos.Column +f.StartByte +startOfs")
	// loop over exactly the token's bytes
	if se, ok := bytesInit.(*ast.SliceExpr); ok {
		got := exprStr(se.X) + "[" + env.eval(se.Low).String() + ":" + env.eval(se.High).String() + "]"
		want("cluster-loop.bytes", got, "f.Bytes[startOfs:endOfs]")
	}
	c14Loop(c, name, pkg, loop, endVar)
	c.Check(posSetBeforeAppend, "linform", name+":thread[f.Pos]-before-append", fd.Pos(), "f.Pos = end before the token is appended", "f.Pos is not updated to the end position before the token is appended: positions of later tokens drift")
	c14EOF(c)
	c.NotCovered("tiling, ordering and gap content of the token stream: produced by the Ragel automaton (scan_tokens.go, ≈ 5 000 generated lines of goto), out of reach of shape rules")
	c.NotCovered("range fidelity of parser nodes (RangeBetween arithmetic in the parser) and RangeScanner: value-level")
}

// c14Loop checks the shape of the cluster loop and evaluates its newline test on sample clusters.
func c14Loop(c *Ctx, name string, pkg *packages.Package, loop *ast.ForStmt, endVar string) {
	// condition len(b) > 0
	condOK := false
	if be, ok := loop.Cond.(*ast.BinaryExpr); ok && be.Op == token.GTR {
		if call, ok := be.X.(*ast.CallExpr); ok {
			if id, ok := call.Fun.(*ast.Ident); ok && id.Name == "len" {
				condOK = true
			}
		}
	}
	c.Check(condOK && loop.Init == nil && loop.Post == nil, "linform", name+":cluster-loop.cond", loop.Pos(), "runs until the bytes are exhausted", "the cluster loop does not run while len(b) > 0")
	var scanCall *ast.CallExpr
	var ifs *ast.IfStmt
	advanceVar, seqVar, bytesVar := "", "", ""
	resliced := false
	for _, st := range loop.Body.List {
		switch s := st.(type) {
		case *ast.AssignStmt:
			if len(s.Rhs) == 1 {
				if call, ok := s.Rhs[0].(*ast.CallExpr); ok {
					if sel, ok := call.Fun.(*ast.SelectorExpr); ok && sel.Sel.Name == "ScanGraphemeClusters" && len(s.Lhs) >= 2 {
						scanCall = call
						advanceVar, seqVar = exprStr(s.Lhs[0]), exprStr(s.Lhs[1])
						if len(call.Args) > 0 {
							bytesVar = exprStr(call.Args[0])
						}
						continue
					}
				}
				if se, ok := s.Rhs[0].(*ast.SliceExpr); ok && exprStr(s.Lhs[0]) == bytesVar && exprStr(se.X) == bytesVar && se.Low != nil && exprStr(se.Low) == advanceVar && se.High == nil {
					resliced = true
					continue
				}
			}
		case *ast.IfStmt:
			ifs = s
			continue
		}
		c.Undecided("linform", name+":cluster-loop.body", st.Pos(), "unexpected statement in the cluster loop: "+fmt.Sprintf("%T", st))
	}
	c.Check(scanCall != nil, "linform", name+":cluster-loop.scan", loop.Pos(), "advances by grapheme clusters", "the loop does not advance with textseg.ScanGraphemeClusters: columns no longer count grapheme clusters")
	c.Check(resliced, "linform", name+":cluster-loop.advance", loop.Pos(), "b = b[advance:]", "the loop does not consume exactly the scanned cluster (b = b[advance:])")
	if ifs == nil {
		c.Fail("linform", name+":cluster-loop.newline", loop.Pos(), "the loop has no newline / column distinction")
		return
	}
	// branches: then {end.Line++; end.Column = 1} else {end.Column++}
	thenS := stmtsString(ifs.Body.List)
	elseS := ""
	if blk, ok := ifs.Else.(*ast.BlockStmt); ok {
		elseS = stmtsString(blk.List)
	}
	thenS = strings.ReplaceAll(thenS, endVar+".", "end.")
	elseS = strings.ReplaceAll(elseS, endVar+".", "end.")
	c.Check((thenS == "end.Line++;end.Column = 1" || thenS == "end.Column = 1;end.Line++") && elseS == "end.Column++", "linform", name+":cluster-loop.update", ifs.Pos(), "newline: Line++, Column = 1; otherwise Column++",
		"the per-cluster update is `"+thenS+"` / `"+elseS+"`, not `end.Line++; end.Column = 1` / `end.Column++`")
	// the newline test on sample clusters
	samples := []struct {
		seq  string
		want bool
	}{{"\n", true}, {"\r\n", true}, {"a", false}, {"\r", false}, {"é", false}, {"ab", false}, {"\n\n", false}}
	for _, sm := range samples {
		got, ok := evalBytePred(pkg, ifs.Cond, seqVar, sm.seq)
		key := fmt.Sprintf("%s:cluster-loop.newline[%q]", name, sm.seq)
		if !ok {
			c.Undecided("linform", key, ifs.Pos(), "cannot interpret the newline test")
			continue
		}
		c.Check(got == sm.want, "linform", key, ifs.Pos(), fmt.Sprintf("test(%q) = %v", sm.seq, got),
			fmt.Sprintf("the newline test gives %v for the cluster %q (expected %v): line/column of every later token are wrong", got, sm.seq, sm.want))
	}
}

func stmtsString(l []ast.Stmt) string {
	var out []string
	for _, s := range l {
		switch x := s.(type) {
		case *ast.IncDecStmt:
			out = append(out, exprStr(x.X)+x.Tok.String())
		case *ast.AssignStmt:
			if len(x.Lhs) == 1 && len(x.Rhs) == 1 {
				out = append(out, exprStr(x.Lhs[0])+" "+x.Tok.String()+" "+exprStr(x.Rhs[0]))
			} else {
				out = append(out, "?")
			}
		default:
			out = append(out, "?")
		}
	}
	return strings.Join(out, ";")
}

// evalBytePred interprets a boolean expression over one byte-slice variable bound to a concrete string.
func evalBytePred(pkg *packages.Package, e ast.Expr, v string, val string) (result bool, ok bool) {
	defer func() {
		if recover() != nil {
			ok = false
		}
	}()
	var ev func(e ast.Expr) constant.Value
	ev = func(e ast.Expr) constant.Value {
		if tv, has := pkg.TypesInfo.Types[e]; has && tv.Value != nil {
			return tv.Value
		}
		switch x := e.(type) {
		case *ast.ParenExpr:
			return ev(x.X)
		case *ast.CallExpr:
			if id, isID := x.Fun.(*ast.Ident); isID && id.Name == "len" && len(x.Args) == 1 && exprStr(x.Args[0]) == v {
				return constant.MakeInt64(int64(len(val)))
			}
		case *ast.IndexExpr:
			if exprStr(x.X) == v {
				i, _ := constant.Int64Val(ev(x.Index))
				if int(i) >= len(val) {
					panic("index out of range") // Go would panic too; short-circuit evaluation must prevent it
				}
				return constant.MakeInt64(int64(val[i]))
			}
		case *ast.UnaryExpr:
			if x.Op == token.NOT {
				return constant.MakeBool(!constant.BoolVal(ev(x.X)))
			}
		case *ast.BinaryExpr:
			switch x.Op {
			case token.LAND:
				if !constant.BoolVal(ev(x.X)) {
					return constant.MakeBool(false)
				}
				return ev(x.Y)
			case token.LOR:
				if constant.BoolVal(ev(x.X)) {
					return constant.MakeBool(true)
				}
				return ev(x.Y)
			case token.EQL, token.NEQ, token.LSS, token.GTR, token.LEQ, token.GEQ:
				return constant.MakeBool(constant.Compare(ev(x.X), x.Op, ev(x.Y)))
			}
		}
		panic("unsupported")
	}
	r := ev(e)
	return constant.BoolVal(r), true
}

func c14EOF(c *Ctx) {
	fn := c.P.LookupFunc("hclsyntax", "scanTokens")
	emit := c.P.LookupFunc("hclsyntax", "tokenAccum.emitToken")
	eof, ok := constIntOf(c.P, "hclsyntax", "TokenEOF")
	if fn == nil || emit == nil || !ok {
		c.CheckerFail("eof", "anchor scanTokens / emitToken / TokenEOF does not resolve")
		return
	}
	c.Fn(FuncName(fn))
	n := 0
	for _, b := range fn.Blocks {
		r, isRet := b.Instrs[len(b.Instrs)-1].(*ssa.Return)
		if !isRet {
			continue
		}
		n++
		// last emitToken call before the return in this block or its unique predecessor chain
		found := false
		for d := b; d != nil && !found; {
			for i := len(d.Instrs) - 1; i >= 0; i-- {
				if call, ok := d.Instrs[i].(*ssa.Call); ok && call.Call.StaticCallee() == emit {
					ty, ok1 := constInt(call.Call.Args[1])
					isLen := func(v ssa.Value) bool {
						cl, ok := v.(*ssa.Call)
						if !ok {
							return false
						}
						bi, ok := cl.Call.Value.(*ssa.Builtin)
						return ok && bi.Name() == "len"
					}
					found = ok1 && ty == eof && isLen(call.Call.Args[2]) && isLen(call.Call.Args[3])
					d = nil
					break
				}
			}
			if d == nil {
				break
			}
			if len(d.Preds) == 1 {
				d = d.Preds[0]
			} else {
				break
			}
		}
		c.Check(found, "eof", "hclsyntax.scanTokens:return", r.Pos(), "EOF token emitted at len(data)", "scanTokens can return without emitting TokenEOF at (len(data), len(data)) as its last token")
	}
	c.Floor("eof returns", n, 1, "the single exit of the generated scanner")
}

// R3: the accumulator cuts tokens from the buffer the scanner scans.
func c14BufferSame(c *Ctx, rule string) {
	c.Rule("R3 buffer.same: in hclsyntax.scanTokens the byte slice given to tokenAccum.Bytes is the very slice the state machine indexes (after the byte-order mark has been stripped), and StartByte/Pos are taken from the position that was advanced by the stripped length: token offsets produced by the machine and the bytes cut for each token refer to the same buffer")
	fn := c.P.LookupFunc("hclsyntax", "scanTokens")
	if fn == nil {
		c.CheckerFail(rule, "anchor hclsyntax.scanTokens does not resolve")
		return
	}
	c.Fn(FuncName(fn))
	// the buffer the machine reads: base of the IndexAddr instructions on a []byte
	bases := map[ssa.Value]int{}
	for _, b := range fn.Blocks {
		for _, ins := range b.Instrs {
			if ia, ok := ins.(*ssa.IndexAddr); ok {
				if sl, ok := ia.X.Type().Underlying().(*types.Slice); ok {
					if bt, ok := sl.Elem().Underlying().(*types.Basic); ok && bt.Kind() == types.Uint8 {
						// not the machine's own tables (package variables)
						if ld, ok := ia.X.(*ssa.UnOp); ok {
							if _, isGlobal := ld.X.(*ssa.Global); isGlobal {
								continue
							}
						}
						bases[cellContent(fn, ia.X)]++
					}
				}
			}
		}
	}
	var scanned ssa.Value
	best := 0
	for v, n := range bases {
		if n > best {
			scanned, best = v, n
		}
	}
	if scanned == nil {
		c.Undecided(rule, "hclsyntax.scanTokens:buffer", fn.Pos(), "the scanned buffer was not identified")
		return
	}
	var stored ssa.Value
	var pos token.Pos
	for _, b := range fn.Blocks {
		for _, ins := range b.Instrs {
			st, ok := ins.(*ssa.Store)
			if !ok {
				continue
			}
			fa, ok := st.Addr.(*ssa.FieldAddr)
			if !ok || !isNamed(fa.X.Type(), hclsyntaxPath, "tokenAccum") {
				continue
			}
			if fv := fieldVarOf(fa.X.Type(), fa.Field); fv != nil && fv.Name() == "Bytes" {
				stored, pos = st.Val, st.Pos()
			}
		}
	}
	// `data` lives in a cell (it is captured by the scanner's closures): compare what the cell holds
	stored, scanned = cellContent(fn, stored), cellContent(fn, scanned)
	c.Sites++
	c.Check(stored != nil && (stored == scanned || sameValue(stored, scanned)), rule, "hclsyntax.scanTokens:tokenAccum.Bytes", pos, fmt.Sprintf("the buffer indexed %d times by the machine", best),
		"tokenAccum.Bytes is not the buffer the state machine scans (e.g. the buffer before the byte-order mark was stripped): every token's Bytes and end position are cut a few bytes away from its Range")
	// the scanned buffer is the BOM-stripped one
	call, isCall := scanned.(*ssa.Call)
	c.Check(isCall && call.Call.StaticCallee() != nil && call.Call.StaticCallee().Name() == "stripUTF8BOM", rule, "hclsyntax.scanTokens:bom", fn.Pos(), "the machine scans the BOM-stripped buffer", "the state machine does not scan the result of stripUTF8BOM")
}

// cellContent: if v is a load of a local cell all of whose stores are in the entry block, the value
// the cell holds at that load (the last store before it); otherwise v itself.
func cellContent(fn *ssa.Function, v ssa.Value) ssa.Value {
	ld, ok := v.(*ssa.UnOp)
	if !ok || ld.Op != token.MUL {
		return v
	}
	al, ok := ld.X.(*ssa.Alloc)
	if !ok {
		return v
	}
	entry := fn.Blocks[0]
	var last ssa.Value
	for _, r := range *al.Referrers() {
		if st, ok := r.(*ssa.Store); ok && st.Addr == ssa.Value(al) && st.Block() != entry {
			return v // reassigned later: not decided here
		}
	}
	for _, ins := range entry.Instrs {
		if ins == ssa.Instruction(ld) {
			break
		}
		if st, ok := ins.(*ssa.Store); ok && st.Addr == ssa.Value(al) {
			last = st.Val
		}
	}
	if last == nil {
		return v
	}
	return last
}
