package main

import (
	"fmt"
	"go/token"
	"go/types"
	"os"
	"sort"

	"golang.org/x/tools/go/ssa"
)

// E-nonnil: "result i of this function is never nil", decided structurally, three-valued: a value is
// NONNIL, may be an explicit NIL (the nil constant can flow into it), or UNKNOWN (parameters of
// functions with unknown callers, loaded fields, results of calls outside the module: nothing is
// claimed about them). A value is non-nil
// when it is a boxed concrete value (MakeInterface of a non-pointer, or of a non-nil pointer), the
// address of an allocation, a closure, a value under a dominating `!= nil` test of itself, a phi
// of such values, or result i of a call of a module function with the same property (assumed for
// functions on the current stack: the property is a greatest fixed point over recursion).
type nonNilEngine struct {
	reach map[string]int // nilReach memo: 1 in progress, 2 yes, 3 no
	p     *Program
	depth int
	newNo bool
	round []string
	memo  map[string]int // 0 unknown, 1 in progress, 2 yes, 3 no
	why   map[string]string
	whyAt map[string]token.Pos
}

func newNonNilEngine(p *Program) *nonNilEngine {
	return &nonNilEngine{p: p, reach: map[string]int{}, memo: map[string]int{}, why: map[string]string{}, whyAt: map[string]token.Pos{}}
}

func nilable(t types.Type) bool {
	switch t.Underlying().(type) {
	case *types.Interface, *types.Pointer, *types.Map, *types.Slice, *types.Signature, *types.Chan:
		return true
	}
	return false
}

// resultNonNil: optimistic on recursion; when a function on which others were judged optimistically
// turns out to be nilable, the judgements of that round are discarded and recomputed.
func (e *nonNilEngine) resultNonNil(fn *ssa.Function, idx int) bool {
	if e.depth > 0 {
		return e.compute(fn, idx)
	}
	for {
		e.newNo, e.round = false, nil
		e.depth++
		r := e.compute(fn, idx)
		e.depth--
		if !e.newNo || !r {
			return r
		}
		for _, k := range e.round {
			delete(e.memo, k)
		}
	}
}

func (e *nonNilEngine) compute(fn *ssa.Function, idx int) bool {
	key := fmt.Sprintf("%p/%d", fn, idx)
	switch e.memo[key] {
	case 1, 2:
		return true
	case 3:
		return false
	}
	if len(fn.Blocks) == 0 {
		e.memo[key] = 3
		e.why[key] = "no body"
		return false
	}
	e.memo[key] = 1
	ok := true
	for _, b := range fn.Blocks {
		ret, isRet := b.Instrs[len(b.Instrs)-1].(*ssa.Return)
		if !isRet || idx >= len(ret.Results) {
			continue
		}
		if !e.valueNonNil(ret.Results[idx], b, map[ssa.Value]bool{}, 0) {
			ok = false
			e.why[key] = "returns " + pathName(ret.Results[idx]) + ", which may be nil"
			e.whyAt[key] = ret.Pos()
			break
		}
	}
	if ok {
		e.memo[key] = 2
		e.round = append(e.round, key)
	} else {
		e.memo[key] = 3
		e.newNo = true
		if os.Getenv("HCLCHECK_NONNIL_DEBUG") != "" {
			fmt.Fprintf(os.Stderr, "nonnil: %s#%d %s\n", FuncName(fn), idx, e.why[key])
		}
	}
	return ok
}

// nilGuarded: at block b, v is known to be non-nil by a dominating comparison with nil.
func nilGuarded(v ssa.Value, b *ssa.BasicBlock) bool {
	for d := b; d != nil; d = d.Idom() {
		dom := d.Idom()
		if dom == nil {
			break
		}
		iff, ok := dom.Instrs[len(dom.Instrs)-1].(*ssa.If)
		if !ok || dom.Succs[0] == dom.Succs[1] {
			continue
		}
		bo, ok := iff.Cond.(*ssa.BinOp)
		if !ok || (bo.Op != token.NEQ && bo.Op != token.EQL) {
			continue
		}
		var other ssa.Value
		if sameVal(bo.X, v) {
			other = bo.Y
		} else if sameVal(bo.Y, v) {
			other = bo.X
		} else {
			continue
		}
		if c, ok := other.(*ssa.Const); !ok || !c.IsNil() {
			continue
		}
		side := 0
		if bo.Op == token.EQL {
			side = 1
		}
		succ := dom.Succs[side]
		if len(succ.Preds) == 1 && (succ == b || succ.Dominates(b)) {
			return true
		}
	}
	return false
}

func sameVal(a, b ssa.Value) bool {
	if a == b {
		return true
	}
	ua, ok1 := a.(*ssa.UnOp)
	ub, ok2 := b.(*ssa.UnOp)
	return ok1 && ok2 && ua.Op == token.MUL && ub.Op == token.MUL && sameAddr(ua.X, ub.X)
}

func (e *nonNilEngine) valueNonNil(v ssa.Value, at *ssa.BasicBlock, seen map[ssa.Value]bool, d int) bool {
	if v == nil || d > 12 {
		return false
	}
	if seen[v] {
		return true // a cycle of phis: decided by the other edges
	}
	seen[v] = true
	if !nilable(v.Type()) {
		return true
	}
	if nilGuarded(v, at) {
		return true
	}
	switch x := v.(type) {
	case *ssa.Const:
		return !x.IsNil()
	case *ssa.MakeInterface:
		if nilable(x.X.Type()) {
			return e.valueNonNil(x.X, at, seen, d+1)
		}
		return true
	case *ssa.Alloc, *ssa.MakeClosure, *ssa.MakeMap, *ssa.MakeSlice, *ssa.FieldAddr, *ssa.IndexAddr, *ssa.Function, *ssa.Global:
		return true
	case *ssa.ChangeInterface:
		return e.valueNonNil(x.X, at, seen, d+1)
	case *ssa.ChangeType:
		return e.valueNonNil(x.X, at, seen, d+1)
	case *ssa.Phi:
		for i, ed := range x.Edges {
			pred := x.Block().Preds[i]
			if !e.valueNonNil(ed, pred, seen, d+1) {
				// the edge itself may carry the nil test
				if iff, ok := pred.Instrs[len(pred.Instrs)-1].(*ssa.If); ok {
					if bo, ok := iff.Cond.(*ssa.BinOp); ok && (bo.Op == token.NEQ || bo.Op == token.EQL) {
						var other ssa.Value
						if sameVal(bo.X, ed) {
							other = bo.Y
						} else if sameVal(bo.Y, ed) {
							other = bo.X
						}
						if c, ok := other.(*ssa.Const); ok && c.IsNil() {
							side := 0
							if bo.Op == token.EQL {
								side = 1
							}
							if pred.Succs[side] == x.Block() && pred.Succs[0] != pred.Succs[1] {
								continue
							}
						}
					}
				}
				return false
			}
		}
		return true
	case *ssa.TypeAssert:
		if !x.CommaOk {
			return e.valueNonNil(x.X, at, seen, d+1)
		}
	case *ssa.Extract:
		if ta, ok := x.Tuple.(*ssa.TypeAssert); ok && x.Index == 0 {
			// the asserted value on the ok edge is what the interface held
			for _, r := range *ta.Referrers() {
				if okv, isEx := r.(*ssa.Extract); isEx && okv.Index == 1 {
					for _, rr := range *okv.Referrers() {
						if iff, isIf := rr.(*ssa.If); isIf {
							succ := iff.Block().Succs[0]
							if len(succ.Preds) == 1 && (succ == at || succ.Dominates(at)) {
								return e.valueNonNil(ta.X, at, seen, d+1)
							}
						}
					}
				}
			}
			return false
		}
		if call, ok := x.Tuple.(*ssa.Call); ok {
			if cal := call.Call.StaticCallee(); cal != nil && inModule(cal) {
				return e.compute(cal, x.Index)
			}
			if mc, ok := call.Call.Value.(*ssa.MakeClosure); ok {
				return e.compute(mc.Fn.(*ssa.Function), x.Index)
			}
		}
	case *ssa.Call:
		if cal := x.Call.StaticCallee(); cal != nil && inModule(cal) {
			return e.compute(cal, 0)
		}
		if mc, ok := x.Call.Value.(*ssa.MakeClosure); ok {
			return e.compute(mc.Fn.(*ssa.Function), 0)
		}
		if b, ok := x.Call.Value.(*ssa.Builtin); ok && b.Name() == "append" && len(x.Call.Args) == 2 {
			// append yields nil only for a nil slice extended by nothing
			if e.valueNonNil(x.Call.Args[0], at, seen, d+1) {
				return true
			}
			if sl, ok := x.Call.Args[1].(*ssa.Slice); ok && sl.Low == nil && sl.High == nil {
				if pt, ok := sl.X.Type().Underlying().(*types.Pointer); ok {
					if at2, ok := pt.Elem().Underlying().(*types.Array); ok && at2.Len() > 0 {
						return true
					}
				}
			}
			return false
		}
	case *ssa.UnOp:
		if x.Op == token.MUL {
			if al, ok := x.X.(*ssa.Alloc); ok {
				sts := storesInto(al)
				if len(sts) == 0 {
					return false
				}
				for _, st := range sts {
					if st.Addr != ssa.Value(al) || !e.valueNonNil(st.Val, st.Block(), seen, d+1) {
						return false
					}
				}
				return true
			}
		}
	case *ssa.Parameter:
		return e.paramNonNil(x)
	}
	return false
}

// paramNonNil: the parameter of a function that is only called statically from module code, and
// every call passes a non-nil value.
func (e *nonNilEngine) paramNonNil(par *ssa.Parameter) bool {
	fn := par.Parent()
	key := fmt.Sprintf("%p/par/%s", fn, par.Name())
	switch e.memo[key] {
	case 1, 2:
		return true
	case 3:
		return false
	}
	idx := -1
	for i, q := range fn.Params {
		if q == par {
			idx = i
		}
	}
	if idx < 0 || e.p == nil || apiVisible(fn) || !staticCallersOnly(e.p, fn) {
		e.memo[key] = 3
		if os.Getenv("HCLCHECK_NONNIL_DEBUG") != "" {
			fmt.Fprintf(os.Stderr, "nonnil: param %s of %s: not only static callers\n", par.Name(), FuncName(fn))
		}
		return false
	}
	e.memo[key] = 1
	ok := true
	for _, in := range e.p.CallGraph().Nodes[fn].In {
		args := in.Site.Common().Args
		if idx >= len(args) {
			ok = false
			break
		}
		if !e.valueNonNil(args[idx], in.Site.Block(), map[ssa.Value]bool{}, 0) {
			ok = false
			if os.Getenv("HCLCHECK_NONNIL_DEBUG") != "" {
				fmt.Fprintf(os.Stderr, "nonnil: param %s of %s: %s passes %s\n", par.Name(), FuncName(fn), FuncName(in.Site.Parent()), pathName(args[idx]))
			}
			break
		}
	}
	if ok {
		e.memo[key] = 2
		e.round = append(e.round, key)
	} else {
		e.memo[key] = 3
		e.newNo = true
	}
	return ok
}

// nilReach: the nil constant can flow into v (a may-analysis, least fixed point: what is still
// being computed counts as "no"). Values about which nothing is known (loaded fields, results of
// calls outside the module, parameters of functions with unknown callers) are not nil-reaching.
func (e *nonNilEngine) nilReach(v ssa.Value, at *ssa.BasicBlock, seen map[ssa.Value]bool, d int) bool {
	if v == nil || d > 12 || seen[v] || !nilable(v.Type()) {
		return false
	}
	seen[v] = true
	if at != nil && nilGuarded(v, at) {
		return false
	}
	switch x := v.(type) {
	case *ssa.Const:
		return x.IsNil()
	case *ssa.MakeInterface:
		return nilable(x.X.Type()) && e.nilReach(x.X, at, seen, d+1)
	case *ssa.ChangeInterface:
		return e.nilReach(x.X, at, seen, d+1)
	case *ssa.ChangeType:
		return e.nilReach(x.X, at, seen, d+1)
	case *ssa.Phi:
		for i, ed := range x.Edges {
			if e.nilReach(ed, x.Block().Preds[i], seen, d+1) {
				return true
			}
		}
	case *ssa.Extract:
		if call, ok := x.Tuple.(*ssa.Call); ok {
			if cal := call.Call.StaticCallee(); cal != nil && inModule(cal) {
				return e.resultNilReach(cal, x.Index)
			}
			if mc, ok := call.Call.Value.(*ssa.MakeClosure); ok {
				return e.resultNilReach(mc.Fn.(*ssa.Function), x.Index)
			}
		}
	case *ssa.Call:
		if cal := x.Call.StaticCallee(); cal != nil && inModule(cal) {
			return e.resultNilReach(cal, 0)
		}
		if mc, ok := x.Call.Value.(*ssa.MakeClosure); ok {
			return e.resultNilReach(mc.Fn.(*ssa.Function), 0)
		}
		if b, ok := x.Call.Value.(*ssa.Builtin); ok && b.Name() == "append" && len(x.Call.Args) == 2 {
			if sl, ok := x.Call.Args[1].(*ssa.Slice); ok && sl.Low == nil && sl.High == nil {
				if pt, ok := sl.X.Type().Underlying().(*types.Pointer); ok {
					if at2, ok := pt.Elem().Underlying().(*types.Array); ok && at2.Len() > 0 {
						return false
					}
				}
			}
			return e.nilReach(x.Call.Args[0], at, seen, d+1)
		}
	case *ssa.UnOp:
		if x.Op == token.MUL {
			if al, ok := x.X.(*ssa.Alloc); ok {
				sts := storesInto(al)
				if len(sts) == 0 {
					return true // a zero-valued local
				}
				for _, st := range sts {
					if st.Addr == ssa.Value(al) && e.nilReach(st.Val, st.Block(), seen, d+1) {
						return true
					}
				}
			}
		}
	case *ssa.Parameter:
		fn := x.Parent()
		idx := -1
		for i, q := range fn.Params {
			if q == x {
				idx = i
			}
		}
		if idx < 0 || e.p == nil || apiVisible(fn) || !staticCallersOnly(e.p, fn) {
			return false
		}
		key := fmt.Sprintf("%p/par/%d", fn, idx)
		switch e.reach[key] {
		case 1, 3:
			return false
		case 2:
			return true
		}
		e.reach[key] = 1
		r := false
		for _, in := range e.p.CallGraph().Nodes[fn].In {
			args := in.Site.Common().Args
			if idx < len(args) && e.nilReach(args[idx], in.Site.Block(), map[ssa.Value]bool{}, 0) {
				r = true
				break
			}
		}
		if r {
			e.reach[key] = 2
		} else {
			e.reach[key] = 3
		}
		return r
	}
	return false
}

func (e *nonNilEngine) resultNilReach(fn *ssa.Function, idx int) bool {
	key := fmt.Sprintf("%p/%d", fn, idx)
	switch e.reach[key] {
	case 1, 3:
		return false
	case 2:
		return true
	}
	e.reach[key] = 1
	r := false
	for _, b := range fn.Blocks {
		ret, isRet := b.Instrs[len(b.Instrs)-1].(*ssa.Return)
		if !isRet || idx >= len(ret.Results) {
			continue
		}
		if e.nilReach(ret.Results[idx], b, map[ssa.Value]bool{}, 0) {
			r = true
			break
		}
	}
	if r {
		e.reach[key] = 2
	} else {
		e.reach[key] = 3
	}
	return r
}

// nonNilSites: in the given functions, every method invocation / field access / dereference whose
// receiver is (result i of) a call of a module function in pkgs, without a dominating nil test.
type nonNilSite struct {
	undecided bool // neither provably non-nil nor reachable by an explicit nil
	fn        *ssa.Function
	pos       token.Pos
	callee    *ssa.Function
	idx       int
	use       string
	ok        bool
	why       string
}

func (e *nonNilEngine) sites(fns []*ssa.Function) []nonNilSite {
	var out []nonNilSite
	for _, fn := range fns {
		for _, b := range fn.Blocks {
			for _, ins := range b.Instrs {
				var recv ssa.Value
				use := ""
				switch x := ins.(type) {
				case *ssa.Call:
					if x.Call.IsInvoke() {
						recv, use = x.Call.Value, "."+x.Call.Method.Name()+"()"
					}
				case *ssa.FieldAddr:
					recv, use = x.X, ".field"
				case *ssa.UnOp:
					if x.Op == token.MUL {
						if _, isAlloc := x.X.(*ssa.Alloc); !isAlloc {
							recv, use = x.X, "*"
						}
					}
				}
				if recv == nil {
					continue
				}
				var callee *ssa.Function
				idx := 0
				switch r := recv.(type) {
				case *ssa.Extract:
					if call, ok := r.Tuple.(*ssa.Call); ok {
						callee, idx = call.Call.StaticCallee(), r.Index
					}
				case *ssa.Call:
					callee = r.Call.StaticCallee()
				}
				if callee == nil || !inModule(callee) || fnPkg(callee) != fnPkg(fn) {
					continue
				}
				if nilGuarded(recv, b) {
					continue
				}
				s := nonNilSite{fn: fn, pos: ins.Pos(), callee: callee, idx: idx, use: use}
				s.ok = e.resultNonNil(callee, idx)
				if !s.ok {
					if e.resultNilReach(callee, idx) {
						s.why = e.explain(callee, idx, 0)
					} else {
						s.undecided = true
					}
				}
				out = append(out, s)
			}
		}
	}
	sort.Slice(out, func(i, j int) bool { return out[i].pos < out[j].pos })
	return out
}

func (e *nonNilEngine) explain(fn *ssa.Function, idx, d int) string {
	key := fmt.Sprintf("%p/%d", fn, idx)
	w := e.why[key]
	if w == "" {
		w = "may return nil"
	}
	out := FuncName(fn) + " " + w
	if d < 6 {
		// follow the offending return into the callee it comes from
		for _, b := range fn.Blocks {
			ret, isRet := b.Instrs[len(b.Instrs)-1].(*ssa.Return)
			if !isRet || idx >= len(ret.Results) || ret.Pos() != e.whyAt[key] {
				continue
			}
			var walk func(v ssa.Value, n int) string
			walk = func(v ssa.Value, n int) string {
				if n > 6 {
					return ""
				}
				switch x := v.(type) {
				case *ssa.Extract:
					if call, ok := x.Tuple.(*ssa.Call); ok {
						if cal := call.Call.StaticCallee(); cal != nil && inModule(cal) && e.memo[fmt.Sprintf("%p/%d", cal, x.Index)] == 3 {
							return e.explain(cal, x.Index, d+1)
						}
					}
				case *ssa.Call:
					if cal := x.Call.StaticCallee(); cal != nil && inModule(cal) && e.memo[fmt.Sprintf("%p/%d", cal, 0)] == 3 {
						return e.explain(cal, 0, d+1)
					}
				case *ssa.Phi:
					for _, ed := range x.Edges {
						if s := walk(ed, n+1); s != "" {
							return s
						}
					}
				case *ssa.MakeInterface:
					return walk(x.X, n+1)
				case *ssa.ChangeInterface:
					return walk(x.X, n+1)
				case *ssa.Parameter:
					return "parameter " + x.Name() + " of " + FuncName(x.Parent()) + " is not known to be non-nil at every call"
				}
				return ""
			}
			if s := walk(ret.Results[idx], 0); s != "" {
				out += " <- " + s
			}
		}
	}
	return out
}

// apiVisible: the function can be called from outside the module (exported, and so is its receiver
// type if it has one): the call sites in the module are not all there are.
func apiVisible(fn *ssa.Function) bool {
	if fn.Parent() != nil || fn.Object() == nil || !fn.Object().Exported() {
		return false
	}
	if recv := fn.Signature.Recv(); recv != nil {
		if nt := namedOf(recv.Type()); nt != nil && !nt.Obj().Exported() {
			return false
		}
	}
	return true
}
