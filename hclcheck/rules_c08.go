package main

import (
	"fmt"
	"go/token"
	"go/types"
	"strings"

	"golang.org/x/tools/go/ssa"
)

func init() { register("C08", checkC08) }

// E-typeterm: symbolic cty type terms extracted from SSA.
//   Dyn | Prim(x) | List(t) | Set(t) | Map(t) | Map*(t) | Tuple() | Object() |
//   Field(f) | Implied(self) | Implied(f) | TypeOf(f)
// WithoutOptionalAttributesDeep is transparent.

// typeTermEnv binds parameters of a helper being expanded to the receiver field their argument was
// loaded from at the call site (so that wrapped.impliedType() in the helper reads Implied(Wrapped)).
var typeTermEnv = map[ssa.Value]string{}

func typeTerm(v ssa.Value, recv *ssa.Parameter, depth int) string {
	if depth > 15 {
		return "?"
	}
	switch x := v.(type) {
	case *ssa.UnOp:
		if x.Op == token.MUL {
			switch a := x.X.(type) {
			case *ssa.Global:
				if a.Pkg != nil && a.Pkg.Pkg.Path() == ctyPath {
					switch a.Name() {
					case "DynamicPseudoType":
						return "Dyn"
					case "String", "Number", "Bool":
						return "Prim(" + a.Name() + ")"
					case "EmptyObject":
						return "Object()"
					case "EmptyTuple":
						return "Tuple()"
					case "NilType":
						return "Nil"
					}
				}
			case *ssa.FieldAddr:
				if fv := fieldVarOf(a.X.Type(), a.Field); fv != nil && (a.X == ssa.Value(recv) || isSpillOf(a.X, recv)) {
					return "Field(" + fv.Name() + ")"
				}
			case *ssa.Alloc:
				// local variable: single store
				var val ssa.Value
				n := 0
				for _, st := range storesInto(a) {
					if st.Addr == ssa.Value(a) {
						val = st.Val
						n++
					}
				}
				if n == 1 {
					return typeTerm(val, recv, depth+1)
				}
			}
		}
	case *ssa.Call:
		ci := calleeOf(&x.Call)
		if ci.isCtyTypeMethod() && len(x.Call.Args) > 0 {
			switch ci.name {
			case "WithoutOptionalAttributesDeep":
				return typeTerm(x.Call.Args[0], recv, depth+1)
			case "ElementType":
				inner := typeTerm(x.Call.Args[0], recv, depth+1)
				for _, p := range []string{"List(", "Set(", "Map("} {
					if strings.HasPrefix(inner, p) && strings.HasSuffix(inner, ")") {
						return inner[len(p) : len(inner)-1]
					}
				}
				return "Elem(" + inner + ")"
			}
		}
		if ci.isCtyValueMethod("Type") && len(x.Call.Args) > 0 {
			if u, ok := x.Call.Args[0].(*ssa.UnOp); ok {
				if fa, ok := u.X.(*ssa.FieldAddr); ok {
					if fv := fieldVarOf(fa.X.Type(), fa.Field); fv != nil {
						return "TypeOf(" + fv.Name() + ")"
					}
				}
			}
			return "TypeOf(?)"
		}
		if ci.pkg != nil && ci.pkg.Path() == ctyPath && ci.recvT == nil {
			switch ci.name {
			case "List", "Set", "Map":
				return ci.name + "(" + typeTerm(x.Call.Args[0], recv, depth+1) + ")"
			case "Object":
				return "Object(...)"
			case "Tuple":
				return "Tuple(...)"
			}
		}
		// an unexported method of the receiver that returns a type: its (single) returned term
		if ci.static != nil && ci.name != "impliedType" && isNamed(x.Type(), ctyPath, "Type") && len(x.Call.Args) == 1 && recv != nil &&
			(x.Call.Args[0] == ssa.Value(recv) || isSpillOf(x.Call.Args[0], recv)) && ci.static.Object() != nil && !ci.static.Object().Exported() && len(ci.static.Blocks) > 0 && depth < 6 {
			term := ""
			for _, hb := range ci.static.Blocks {
				if hr, ok := hb.Instrs[len(hb.Instrs)-1].(*ssa.Return); ok && len(hr.Results) == 1 {
					t := typeTerm(hr.Results[0], ci.static.Params[0], depth+1)
					if term != "" && term != t {
						return "?"
					}
					term = t
				}
			}
			if term != "" {
				return term
			}
		}
		if ci.name == "impliedType" {
			if x.Call.IsInvoke() {
				// s.Nested.impliedType()
				if u, ok := x.Call.Value.(*ssa.UnOp); ok {
					if fa, ok := u.X.(*ssa.FieldAddr); ok {
						if fv := fieldVarOf(fa.X.Type(), fa.Field); fv != nil {
							return "Implied(" + fv.Name() + ")"
						}
					}
				}
				if f, ok := typeTermEnv[x.Call.Value]; ok {
					return "Implied(" + f + ")"
				}
				return "Implied(?)"
			}
			if len(x.Call.Args) > 0 && (x.Call.Args[0] == ssa.Value(recv) || isSpillOf(x.Call.Args[0], recv)) {
				return "Implied(self)"
			}
			return "Implied(?)"
		}
	case *ssa.Phi:
		// ret = X; for … { ret = cty.Map(ret) }  →  Map*(X)
		var base string
		star := false
		for _, e := range x.Edges {
			if call, ok := e.(*ssa.Call); ok {
				ci := calleeOf(&call.Call)
				if ci.pkg != nil && ci.pkg.Path() == ctyPath && ci.name == "Map" && len(call.Call.Args) == 1 && call.Call.Args[0] == ssa.Value(x) {
					star = true
					continue
				}
			}
			t := typeTerm(e, recv, depth+1)
			if base != "" && base != t {
				return "?"
			}
			base = t
		}
		if star {
			return "Map*(" + base + ")"
		}
		return base
	case *ssa.Extract:
		return "?"
	}
	return "?"
}

// valueTerm: the type term of a freshly constructed value; ok=false if v is not fresh.
func valueTerm(v ssa.Value, recv *ssa.Parameter) (string, bool) {
	switch x := v.(type) {
	case *ssa.UnOp:
		if g, ok := x.X.(*ssa.Global); ok && x.Op == token.MUL && g.Pkg != nil && g.Pkg.Pkg.Path() == ctyPath {
			switch g.Name() {
			case "DynamicVal":
				return "Dyn", true
			case "EmptyObjectVal":
				return "Object()", true
			case "EmptyTupleVal":
				return "Tuple()", true
			case "True", "False":
				return "Prim(Bool)", true
			case "NilVal":
				return "Nil", true
			}
		}
	case *ssa.Call:
		ci := calleeOf(&x.Call)
		if ci.pkg != nil && ci.pkg.Path() == ctyPath && ci.recvT == nil {
			switch ci.name {
			case "UnknownVal", "NullVal":
				return typeTerm(x.Call.Args[0], recv, 0), true
			case "ListValEmpty":
				return "List(" + typeTerm(x.Call.Args[0], recv, 0) + ")", true
			case "SetValEmpty":
				return "Set(" + typeTerm(x.Call.Args[0], recv, 0) + ")", true
			case "MapValEmpty":
				return "Map(" + typeTerm(x.Call.Args[0], recv, 0) + ")", true
			case "StringVal":
				return "Prim(String)", true
			case "BoolVal":
				return "Prim(Bool)", true
			case "NumberIntVal", "NumberVal", "NumberFloatVal":
				return "Prim(Number)", true
			}
		}
		// refinements keep the type
		if ci.isCtyValueMethod("RefineNotNull", "WithMarks", "WithSameMarks", "Mark") && len(x.Call.Args) > 0 {
			return valueTerm(x.Call.Args[0], recv)
		}
	}
	return "", false
}

// prepareBodyValFn: hcldec.prepareBodyVal, resolved as an anchor (rename-aware).
var prepareBodyValFn *ssa.Function

func checkC08(c *Ctx) {
	prepareBodyValFn = c.P.LookupFunc("hcldec", "prepareBodyVal")
	c.Rule("R1 typeterm: for every hcldec Spec kind, every freshly constructed value that decode (or an unexported helper it returns the result of) can return (cty.UnknownVal/NullVal/ListValEmpty/SetValEmpty/MapValEmpty/EmptyObjectVal/EmptyTupleVal/DynamicVal/StringVal on the absent, empty, unknown-body and error paths) has a type term equal to the term of that spec's impliedType(), modulo WithoutOptionalAttributesDeep, unless the implied type is dynamic; and no decode whose implied type is a fixed term returns the raw result of an expression evaluation (it must pass convert.Convert or be replaced by an unknown of the implied type)")
	pkg := c.P.Pkg("hcldec")
	specI := pkg.Types.Scope().Lookup("Spec").Type().Underlying().(*types.Interface)
	nSpecs, nRets := 0, 0
	for _, name := range pkg.Types.Scope().Names() {
		tn, ok := pkg.Types.Scope().Lookup(name).(*types.TypeName)
		if !ok || types.IsInterface(tn.Type()) {
			continue
		}
		if !types.Implements(types.NewPointer(tn.Type()), specI) && !types.Implements(tn.Type(), specI) {
			continue
		}
		dec := c.P.LookupFunc("hcldec", name+".decode")
		imp := c.P.LookupFunc("hcldec", name+".impliedType")
		if dec == nil || imp == nil || len(dec.Params) == 0 {
			continue
		}
		nSpecs++
		c.Fn(FuncName(dec))
		c.Fn(FuncName(imp))
		// implied term
		implied := "?"
		for _, b := range imp.Blocks {
			if r, ok := b.Instrs[len(b.Instrs)-1].(*ssa.Return); ok && len(r.Results) == 1 {
				t := typeTerm(r.Results[0], imp.Params[0], 0)
				if implied == "?" {
					implied = t
				} else if implied != t {
					implied = "mixed(" + implied + "," + t + ")"
				}
			}
		}
		if strings.Contains(implied, "?") || strings.HasPrefix(implied, "mixed") {
			// computed from the child specs (ObjectSpec, TupleSpec) or from a function's return
			// type (TransformFuncSpec): only Implied(self) can be compared
			implied = "Computed"
		}
		c.OK("typeterm.implied", "hcldec."+name+".impliedType="+implied, imp.Pos(), "")
		// fresh returns of decode
		rd := (&flowFn{p: c.P, fn: dec}).retDescs()
		for _, b := range dec.Blocks {
			r, ok := b.Instrs[len(b.Instrs)-1].(*ssa.Return)
			if !ok || len(r.Results) == 0 {
				continue
			}
			var cands []ssa.Value
			seen := map[ssa.Value]bool{}
			var expand func(v ssa.Value)
			expand = func(v ssa.Value) {
				v = lookThrough(v)
				if seen[v] {
					return
				}
				seen[v] = true
				if phi, ok := v.(*ssa.Phi); ok {
					for _, e := range phi.Edges {
						expand(e)
					}
					return
				}
				cands = append(cands, v)
			}
			expand(r.Results[0])
			// helpers: a value returned by an unexported hcldec helper is judged by the helper's own
			// fresh returns, with the helper's Spec parameters bound to the receiver fields passed
			type cand struct {
				v    ssa.Value
				recv *ssa.Parameter
				env  map[ssa.Value]string
			}
			var all []cand
			for _, v := range cands {
				all = append(all, cand{v, dec.Params[0], nil})
				var call *ssa.Call
				switch x := v.(type) {
				case *ssa.Extract:
					if x.Index == 0 {
						call, _ = x.Tuple.(*ssa.Call)
					}
				case *ssa.Call:
					call = x
				}
				if call == nil {
					continue
				}
				cal := call.Call.StaticCallee()
				if cal == nil || fnPkg(cal) == nil || fnPkg(cal).Path() != modPath+"/hcldec" || cal.Object() == nil || cal.Object().Exported() || cal.Name() == "decode" || len(cal.Blocks) == 0 {
					continue
				}
				env := map[ssa.Value]string{}
				for i, a := range call.Call.Args {
					if i < len(cal.Params) {
						if lf := loadedField(a); lf != nil {
							env[cal.Params[i]] = lf.Name()
						}
					}
				}
				for _, hb := range cal.Blocks {
					if hr, ok := hb.Instrs[len(hb.Instrs)-1].(*ssa.Return); ok && len(hr.Results) > 0 && isCtyValue(hr.Results[0].Type()) {
						hv := lookThrough(hr.Results[0])
						if phi, ok := hv.(*ssa.Phi); ok {
							for _, e := range phi.Edges {
								all = append(all, cand{e, nil, env})
							}
						} else {
							all = append(all, cand{hv, nil, env})
						}
					}
				}
			}
			for _, cd := range all {
				v := cd.v
				typeTermEnv = cd.env
				term, fresh := valueTerm(v, cd.recv)
				typeTermEnv = map[ssa.Value]string{}
				if !fresh {
					// the raw result of evaluating an expression has whatever type the expression has
					if rawEvaluation(v) && implied != "Dyn" && implied != "Computed" {
						nRets++
						c.Sites++
						c.Fail("typeterm", fmt.Sprintf("hcldec.%s.decode:return[%s]=raw", name, rd[r]), r.Pos(),
							"decode returns the result of evaluating an expression as it is, without converting it to the implied type "+implied+": on this path the decoded value has whatever type the expression produced (e.g. cty.DynamicVal after an evaluation error)")
					}
					continue
				}
				nRets++
				c.Sites++
				key := fmt.Sprintf("hcldec.%s.decode:return[%s]=%s", name, rd[r], term)
				pos := r.Pos()
				if ins, ok := v.(ssa.Instruction); ok && ins.Pos().IsValid() {
					pos = ins.Pos()
				}
				ok := term == implied || implied == "Dyn" || term == "Implied(self)" || (term == "Nil")
				if implied == "Computed" && !ok {
					c.Undecided("typeterm", key, pos, "the implied type of this spec is computed from its children; a fresh value other than UnknownVal(s.impliedType()) cannot be compared")
					continue
				}
				// TypeOf(Value) for literal specs: the value itself is returned
				if strings.Contains(term, "?") {
					c.Undecided("typeterm", key, pos, "cannot derive the type term of this fresh value")
					continue
				}
				c.Check(ok, "typeterm", key, pos, "conforms to "+implied,
					fmt.Sprintf("decode returns a fresh value of type %s but the spec's impliedType() is %s: callers that rely on the implied type (conversion, unknown placeholders, schemas) get a non-conforming value", term, implied))
			}
		}
	}
	c.Floor("typeterm spec kinds", nSpecs, 15, "hcldec spec kinds")
	c.Floor("typeterm fresh returns", nRets, 15, "fresh values returned on absent/empty/unknown/error paths")
	c08UnknownBody(c)
	c08Labels(c)
	c.NotCovered("values assembled from decoded children (ListVal(elems), ObjectVal(vals)): conformance there is inductive over values")
	c.NotCovered("the 'exactly the described value' clause for error-free decoding; panics of cty constructors on inconsistent element types")
}

// rawEvaluation: v is result 0 of Expression.Value(ctx).
func rawEvaluation(v ssa.Value) bool {
	ex, ok := v.(*ssa.Extract)
	if !ok || ex.Index != 0 {
		return false
	}
	call, ok := ex.Tuple.(*ssa.Call)
	if !ok {
		return false
	}
	if call.Call.IsInvoke() {
		return call.Call.Method.Name() == "Value" && isNamed(call.Call.Value.Type(), modPath, "Expression")
	}
	// a custom expression decoder registered for a capsule type returns values of that type by the
	// contract of ext/customdecode: not raw in this sense
	return false
}

// R2: block specs agree on unknown bodies (shared with C18).
func c08UnknownBody(c *Ctx) {
	c.Rule("R2 unknownbody: every hcldec block spec that decodes child block bodies (decode(childBlock.Body, …)) tests the child body for UnknownBody and returns cty.UnknownVal(impliedType) for it, as its sibling specs do")
	dec := c.P.LookupFunc("hcldec", "decode")
	if dec == nil {
		c.CheckerFail("unknownbody", "anchor hcldec.decode does not resolve")
		return
	}
	n := 0
	for _, fn := range c.P.pkgFuncs("hcldec") {
		if fn.Name() != "decode" || fn.Signature.Recv() == nil {
			continue
		}
		decodesChild := false
		var pos token.Pos
		for _, xf := range c.P.expandedFuncs(fn) {
			for _, b := range xf.Blocks {
				for _, ins := range b.Instrs {
					if call, ok := ins.(*ssa.Call); ok && call.Call.StaticCallee() == dec && strings.HasSuffix(pathName(call.Call.Args[0]), ".Body") {
						decodesChild = true
						pos = call.Pos()
					}
				}
			}
		}
		if !decodesChild {
			continue
		}
		n++
		c.Fn(FuncName(fn))
		tests := false
		var hasTest func(f *ssa.Function, d int) bool
		hasTest = func(f *ssa.Function, d int) bool {
			for _, b := range f.Blocks {
				for _, ins := range b.Instrs {
					if ta, ok := ins.(*ssa.TypeAssert); ok && isNamed(ta.AssertedType, modPath+"/hcldec", "UnknownBody") {
						return true
					}
					// a helper of the package that is handed the body
					if call, ok := ins.(*ssa.Call); ok && d < 2 {
						if cal := call.Call.StaticCallee(); cal != nil && cal != dec && fnPkg(cal) != nil && fnPkg(cal).Path() == modPath+"/hcldec" && len(cal.Blocks) > 0 {
							takesBody := false
							for _, a := range call.Call.Args {
								if isNamed(a.Type(), modPath, "Body") {
									takesBody = true
								}
							}
							if takesBody && hasTest(cal, d+1) {
								return true
							}
						}
					}
				}
			}
			return false
		}
		for _, xf := range c.P.expandedFuncs(fn) {
			if hasTest(xf, 0) {
				tests = true
			}
		}
		c.Check(tests, "unknownbody", FuncName(fn)+":child[UnknownBody]", pos, "unknown child bodies yield an unknown value",
			"the spec decodes child block bodies but has no UnknownBody test: with an unknown for_each it returns a known value although zero or many blocks are possible")
		// once a child body has been found unknown, no error is recorded on the way to the return
		for _, b := range fn.Blocks {
			iff, ok := b.Instrs[len(b.Instrs)-1].(*ssa.If)
			if !ok {
				continue
			}
			call, ok := iff.Cond.(*ssa.Call)
			if !ok || !(call.Call.IsInvoke() && call.Call.Method.Name() == "Unknown") {
				// through a helper that performs the test
				if !ok {
					continue
				}
				cal := call.Call.StaticCallee()
				if cal == nil || fnPkg(cal) == nil || fnPkg(cal).Path() != modPath+"/hcldec" || len(cal.Blocks) == 0 || !hasTest(cal, 1) {
					continue
				}
			}
			seen := map[*ssa.BasicBlock]bool{b.Succs[0]: true}
			work := []*ssa.BasicBlock{b.Succs[0]}
			bad := token.NoPos
			for len(work) > 0 && bad == token.NoPos {
				x := work[0]
				work = work[1:]
				for _, ins := range x.Instrs {
					if recordsError(ins) {
						bad = ins.Pos()
						break
					}
				}
				for _, su := range x.Succs {
					if !seen[su] {
						seen[su] = true
						work = append(work, su)
					}
				}
			}
			c.Check(bad == token.NoPos, "unknownbody", FuncName(fn)+":unknown[noerror]", iff.Cond.Pos(), "no error is recorded after a child body was found unknown",
				"after a child body has been found unknown (unknown for_each: zero or many blocks possible) an error diagnostic can still be recorded (at "+c.P.Position(bad)+") before the unknown result is returned: a count or duplicate check is applied to a placeholder block")
		}
		// in a per-block loop: once the child has been decoded the iteration cannot end without the test
		for _, scc := range sccBlocks(fn.Blocks, nil) {
			if len(scc) < 2 {
				continue
			}
			in := map[*ssa.BasicBlock]bool{}
			for _, b := range scc {
				in[b] = true
			}
			var decB, testB []*ssa.BasicBlock
			for _, b := range scc {
				for _, ins := range b.Instrs {
					if call, ok := ins.(*ssa.Call); ok {
						if call.Call.StaticCallee() == dec && strings.HasSuffix(pathName(call.Call.Args[0]), ".Body") {
							decB = append(decB, b)
						} else if cal := call.Call.StaticCallee(); cal != nil && cal != dec && fnPkg(cal) != nil && fnPkg(cal).Path() == modPath+"/hcldec" && len(cal.Blocks) > 0 && hasTest(cal, 1) {
							for _, a := range call.Call.Args {
								if isNamed(a.Type(), modPath, "Body") {
									testB = append(testB, b)
								}
							}
						}
					}
					if ta, ok := ins.(*ssa.TypeAssert); ok && isNamed(ta.AssertedType, modPath+"/hcldec", "UnknownBody") {
						testB = append(testB, b)
					}
				}
			}
			if len(decB) == 0 || len(testB) == 0 {
				continue
			}
			var header *ssa.BasicBlock
			for _, b := range scc {
				for _, p := range b.Preds {
					if !in[p] {
						header = b
					}
				}
			}
			if header == nil {
				continue
			}
			dom := func(by []*ssa.BasicBlock, b *ssa.BasicBlock) bool {
				for _, d := range by {
					if d == b || d.Dominates(b) {
						return true
					}
				}
				return false
			}
			for _, p := range header.Preds {
				if !in[p] || !dom(decB, p) {
					continue
				}
				at := pos
				for _, x := range p.Instrs {
					if x.Pos() != token.NoPos {
						at = x.Pos()
					}
				}
				c.Check(dom(testB, p), "unknownbody", FuncName(fn)+":loop[next]", at, "the UnknownBody test is passed before the iteration ends",
					"after decoding a child block the loop goes on to the next block on a path that has not tested the body for UnknownBody: an unknown placeholder block (unknown for_each) that takes this path (a duplicate label, say) yields a known result and a spurious error")
			}
		}
	}
	c.Floor("unknownbody specs", n, 6, "BlockSpec, BlockListSpec, BlockTupleSpec, BlockSetSpec, BlockMapSpec, BlockObjectSpec")
}

// elemTerm: the type term of a value that is put into a result collection.
func elemTerm(v ssa.Value, recv *ssa.Parameter, seen map[ssa.Value]bool) []string {
	if seen[v] {
		return nil
	}
	seen[v] = true
	switch x := v.(type) {
	case *ssa.Phi:
		var out []string
		for _, e := range x.Edges {
			out = append(out, elemTerm(e, recv, seen)...)
		}
		return out
	case *ssa.Extract:
		call, ok := x.Tuple.(*ssa.Call)
		if !ok || x.Index != 0 {
			return []string{"?"}
		}
		ci := calleeOf(&call.Call)
		switch {
		case ci.pkg != nil && ci.pkg.Path() == ctyPath+"/convert" && ci.name == "Convert":
			return []string{typeTerm(call.Call.Args[1], recv, 0)}
		case ci.static != nil && ci.name == "decode" && ci.pkg != nil && ci.pkg.Path() == modPath+"/hcldec" && ci.recvT == nil:
			// decode(body, labels, ctx, spec, partial): by induction a value of the spec's implied type
			if u, ok := call.Call.Args[3].(*ssa.UnOp); ok {
				if fa, ok := u.X.(*ssa.FieldAddr); ok {
					if fv := fieldVarOf(fa.X.Type(), fa.Field); fv != nil {
						return []string{"Implied(" + fv.Name() + ")"}
					}
				}
			}
			return []string{"?"}
		case ci.static == nil && !call.Call.IsInvoke():
			// a function value: custom expression decoder obtained for a type, or a cty conversion
			if isNamed(call.Call.Value.Type(), ctyPath+"/convert", "Conversion") {
				return []string{"Unified"}
			}
			if src, ok := call.Call.Value.(*ssa.Call); ok {
				sci := calleeOf(&src.Call)
				if sci.name == "CustomExpressionDecoderForType" && len(src.Call.Args) == 1 {
					return []string{typeTerm(src.Call.Args[0], recv, 0)}
				}
			}
			if ph, ok := call.Call.Value.(*ssa.Phi); ok {
				_ = ph
			}
			return []string{"?"}
		}
		return []string{"?"}
	case *ssa.Call:
		if t, ok := valueTerm(x, recv); ok {
			return []string{t}
		}
		ci := calleeOf(&x.Call)
		if ci.static != nil && (ci.static == prepareBodyValFn || (prepareBodyValFn == nil && ci.name == "prepareBodyVal")) {
			return elemTerm(x.Call.Args[0], recv, seen)
		}
		if ci.static == nil && !x.Call.IsInvoke() && isNamed(x.Call.Value.Type(), ctyPath+"/convert", "Conversion") {
			return []string{"Unified"}
		}
		return []string{"?"}
	case *ssa.UnOp:
		if t, ok := valueTerm(x, recv); ok {
			return []string{t}
		}
		if x.Op == token.MUL {
			// element read back from the same collection (elems[i]) keeps its term
			if _, ok := x.X.(*ssa.IndexAddr); ok {
				return nil
			}
			if al, ok := x.X.(*ssa.Alloc); ok {
				var out []string
				for _, st := range storesInto(al) {
					if st.Addr == ssa.Value(al) {
						out = append(out, elemTerm(st.Val, recv, seen)...)
					}
				}
				return out
			}
		}
	}
	return []string{"?"}
}

func init() { registerExtra("C08", c08Elements) }

// R3: elements put into a typed result collection have the element type the spec implies.
func c08Elements(c *Ctx) {
	c.Rule("R3 elements: in every hcldec Spec whose implied type is map(T) / list(T) / set(T), every value that decode puts into the collection it returns through cty.MapVal / ListVal / SetVal has type term T: the result of convert.Convert(_, T) (replaced on the error path), cty.UnknownVal(T), a custom decoder obtained for T, decode(…, s.Nested, …) for T = Implied(Nested), or the result of a unifying conversion")
	pkg := c.P.Pkg("hcldec")
	n := 0
	for _, name := range pkg.Types.Scope().Names() {
		dec := c.P.LookupFunc("hcldec", name+".decode")
		imp := c.P.LookupFunc("hcldec", name+".impliedType")
		if dec == nil || imp == nil || len(dec.Params) == 0 {
			continue
		}
		implied := ""
		for _, b := range imp.Blocks {
			if r, ok := b.Instrs[len(b.Instrs)-1].(*ssa.Return); ok && len(r.Results) == 1 {
				implied = typeTerm(r.Results[0], imp.Params[0], 0)
			}
		}
		var want string
		for _, p := range []string{"Map(", "List(", "Set("} {
			if strings.HasPrefix(implied, p) && strings.HasSuffix(implied, ")") {
				want = implied[len(p) : len(implied)-1]
			}
		}
		if want == "" {
			continue
		}
		recv := dec.Params[0]
		for _, b := range dec.Blocks {
			for _, ins := range b.Instrs {
				call, ok := ins.(*ssa.Call)
				if !ok {
					continue
				}
				ci := calleeOf(&call.Call)
				if ci.pkg == nil || ci.pkg.Path() != ctyPath || (ci.name != "MapVal" && ci.name != "ListVal" && ci.name != "SetVal") {
					continue
				}
				cont := call.Call.Args[0]
				// values inserted into the container
				var inserted []ssa.Value
				var poss []token.Pos
				roots := map[ssa.Value]bool{cont: true}
				if ph, ok := cont.(*ssa.Phi); ok {
					for _, e := range ph.Edges {
						roots[e] = true
					}
				}
				for _, b2 := range dec.Blocks {
					for _, i2 := range b2.Instrs {
						switch x := i2.(type) {
						case *ssa.MapUpdate:
							if roots[x.Map] {
								inserted = append(inserted, x.Value)
								poss = append(poss, x.Pos())
							}
						case *ssa.Store:
							if ia, ok := x.Addr.(*ssa.IndexAddr); ok && (roots[ia.X]) {
								inserted = append(inserted, x.Val)
								poss = append(poss, x.Pos())
							}
						case *ssa.Call:
							if bi, ok := x.Call.Value.(*ssa.Builtin); ok && bi.Name() == "append" && (roots[x] || roots[x.Call.Args[0]]) {
								roots[x] = true
								if sl, ok := x.Call.Args[1].(*ssa.Slice); ok {
									if al, ok := sl.X.(*ssa.Alloc); ok {
										for _, st := range storesInto(al) {
											inserted = append(inserted, st.Val)
											poss = append(poss, x.Pos())
										}
									}
								}
							}
						}
					}
				}
				for i, v := range inserted {
					n++
					c.Fn(FuncName(dec))
					terms := elemTerm(v, recv, map[ssa.Value]bool{})
					bad := ""
					for _, t := range terms {
						if t != want && t != "Unified" && !(want == "Dyn") {
							bad = t
						}
					}
					key := fmt.Sprintf("hcldec.%s.decode:%s.element", name, ci.name)
					c.Check(bad == "", "elements", key, poss[i], "element type "+want,
						fmt.Sprintf("a value of type %s may be put into the %s result whose implied element type is %s (e.g. the unconverted value on the conversion-error path): the collection constructor panics or the result does not conform", map[bool]string{true: "unknown origin", false: bad}[bad == "?"], ci.name, want))
				}
			}
		}
	}
	c.Floor("elements insertions", n, 3, "BlockAttrsSpec map elements, BlockListSpec/BlockSetSpec/BlockMapSpec elements")
}

// R3 labels: a block spec that declares its own labels (a LabelNames field) consumes exactly
// those: its implied type nests one level per label name, and the nested spec is handed the
// block's labels minus len(LabelNames); a spec without LabelNames hands all of them on.
func c08Labels(c *Ctx) {
	c.Rule("R3 labels: for every hcldec block spec, (labels.consumed) each call decode(child.Body, L, ctx, s.Nested, …) in its decode method and each call sourceRange(child.Body, L, s.Nested) passes L (for sourceRange all labels are accepted as well: too many labels cannot make a label index panic, too few can) = all labels of the block when the spec declares no labels of its own, and L = labels[len(s.LabelNames):] when it has a LabelNames field (neither more nor fewer: the nested BlockLabelSpec indices count from the first label that the enclosing spec did not use); (labels.depth) the impliedType of a spec with LabelNames is dynamic or is built by a loop over s.LabelNames (one collection level per label), as its decode builds one level per label")
	pkg := c.P.Pkg("hcldec")
	decFn := c.P.LookupFunc("hcldec", "decode")
	srcRangeFn := c.P.LookupFunc("hcldec", "sourceRange")
	if pkg == nil || decFn == nil || srcRangeFn == nil {
		c.CheckerFail("labels.consumed", "anchor hcldec.decode / hcldec.sourceRange does not resolve")
		return
	}
	var specI *types.Interface
	if tn, ok := pkg.Types.Scope().Lookup("Spec").(*types.TypeName); ok {
		specI, _ = tn.Type().Underlying().(*types.Interface)
	}
	if specI == nil {
		c.CheckerFail("labels.consumed", "hcldec.Spec is not an interface")
		return
	}
	names := pkg.Types.Scope().Names()
	sites, withLN := 0, 0
	for _, name := range names {
		tn, ok := pkg.Types.Scope().Lookup(name).(*types.TypeName)
		if !ok || types.IsInterface(tn.Type()) {
			continue
		}
		if !types.Implements(types.NewPointer(tn.Type()), specI) && !types.Implements(tn.Type(), specI) {
			continue
		}
		st, ok := tn.Type().Underlying().(*types.Struct)
		if !ok {
			continue
		}
		lnField := -1
		for i := 0; i < st.NumFields(); i++ {
			if sl, ok := st.Field(i).Type().Underlying().(*types.Slice); ok && st.Field(i).Name() == "LabelNames" {
				if bt, ok := sl.Elem().Underlying().(*types.Basic); ok && bt.Kind() == types.String {
					lnField = i
				}
			}
		}
		dec := c.P.LookupFunc("hcldec", name+".decode")
		imp := c.P.LookupFunc("hcldec", name+".impliedType")
		if dec == nil || imp == nil || len(dec.Params) == 0 {
			continue
		}
		readsLN := func(fn *ssa.Function, v ssa.Value) bool {
			// v = len(recv.LabelNames)
			call, ok := v.(*ssa.Call)
			if !ok {
				return false
			}
			if b, ok := call.Call.Value.(*ssa.Builtin); !ok || b.Name() != "len" {
				return false
			}
			u, ok := call.Call.Args[0].(*ssa.UnOp)
			if !ok {
				return false
			}
			fa, ok := u.X.(*ssa.FieldAddr)
			return ok && fa.Field == lnField && lnField >= 0 && isSpillOf(fa.X, fn.Params[0])
		}
		if lnField >= 0 {
			withLN++
			c.Fn(FuncName(imp))
			term := "?"
			loops := false
			for _, b := range imp.Blocks {
				for _, ins := range b.Instrs {
					if fa, ok := ins.(*ssa.FieldAddr); ok && fa.Field == lnField && isSpillOf(fa.X, imp.Params[0]) {
						// the field is read: by the range loop that wraps the type once per name
						loops = true
					}
				}
				if r, ok := b.Instrs[len(b.Instrs)-1].(*ssa.Return); ok && len(r.Results) == 1 {
					term = typeTerm(r.Results[0], imp.Params[0], 0)
				}
			}
			okDepth := term == "Dyn" || (strings.Contains(term, "*(") && loops)
			c.Check(okDepth, "labels.depth", "hcldec."+name+".impliedType", imp.Pos(), "implied type "+term,
				fmt.Sprintf("the spec declares LabelNames and its decode nests one collection level per label, but impliedType is %s, which does not depend on the number of label names: with two labels the decoded value and the unknown placeholders made from the implied type disagree", term))
		}
		fns := append([]*ssa.Function{dec}, dec.AnonFuncs...)
		srcRange := c.P.LookupFunc("hcldec", name+".sourceRange")
		if srcRange != nil {
			fns = append(fns, srcRange)
			fns = append(fns, srcRange.AnonFuncs...)
		}
		k := 0
		for _, fn := range fns {
			for _, b := range fn.Blocks {
				for _, ins := range b.Instrs {
					call, ok := ins.(*ssa.Call)
					if !ok || !((call.Call.StaticCallee() == decFn && len(call.Call.Args) >= 4) || (call.Call.StaticCallee() == srcRangeFn && len(call.Call.Args) == 3)) {
						continue
					}
					sites++
					k++
					c.Sites++
					c.Fn(FuncName(dec))
					arg := lookThrough(call.Call.Args[1])
					isAll := func(v ssa.Value) bool {
						v = lookThrough(v)
						lc, ok := v.(*ssa.Call)
						if !ok {
							return false
						}
						cal := lc.Call.StaticCallee()
						if cal == nil || cal.Pkg == nil || cal.Pkg.Pkg != pkg.Types || len(cal.Params) != 1 {
							return false
						}
						return isNamed(cal.Params[0].Type(), modPath, "Block")
					}
					form := "other"
					switch x := arg.(type) {
					case *ssa.Call:
						if isAll(x) {
							form = "all"
						}
					case *ssa.Slice:
						wholeHigh := x.High == nil
						if x.High != nil {
							if lx, cc, ok := lenMinus(x.High); ok && cc == 0 {
								wholeHigh = (&boundsCtx{fn: fn}).sameSeq(lx, x.X)
							}
						}
						if isAll(x.X) && wholeHigh && x.Max == nil {
							switch {
							case x.Low == nil:
								form = "all"
							case fn.Parent() == nil && readsLN(fn, x.Low):
								form = "rest"
							}
						}
					}
					want := "all"
					if lnField >= 0 {
						want = "rest"
					}
					key := fmt.Sprintf("hcldec.%s.%s:nested.labels", name, strings.TrimPrefix(fn.Name(), "decode$"))
					if fn == dec {
						key = fmt.Sprintf("hcldec.%s.decode:nested.labels", name)
					}
					if k > 1 {
						key += fmt.Sprintf("#%d", k)
					}
					good := form == want
					if call.Call.StaticCallee() == srcRangeFn && form == "all" {
						// sourceRange only locates: with all labels a nested label index stays in range
						// (BlockMapSpec/BlockObjectSpec.sourceRange do this; the range found is that of
						// the key label, which no property here speaks about)
						good = true
					}
					c.Check(good, "labels.consumed", key, call.Pos(), "labels handed on: "+form,
						fmt.Sprintf("the nested spec is handed %s where a spec %s must hand on %s: a nested BlockLabelSpec{Index: i} then reads the wrong label or indexes past the end",
							map[string]string{"all": "all labels of the block", "rest": "labels[len(s.LabelNames):]", "other": "a different part of the labels"}[form],
							map[bool]string{true: "with LabelNames", false: "without labels of its own"}[lnField >= 0],
							map[string]string{"all": "all labels of the block", "rest": "labels[len(s.LabelNames):]"}[want]))
				}
			}
		}
	}
	c.Floor("labels.consumed nested decode calls", sites, 6, "BlockSpec, BlockListSpec, BlockTupleSpec, BlockSetSpec, BlockMapSpec, BlockObjectSpec")
	c.Floor("labels.depth specs with LabelNames", withLN, 2, "BlockMapSpec, BlockObjectSpec")
}
