package main

import (
	"bufio"
	"encoding/json"
	"fmt"
	"go/token"
	"os"
	"path/filepath"
	"sort"
	"strings"
	"time"
)

// Oblig is one decided obligation: a rule instance on one construct.
type Oblig struct {
	Rule    string   `json:"rule"`
	Key     string   `json:"key"` // rule@pkg.Func:construct — stable, never a line number
	Pos     string   `json:"pos"`
	Verdict string   `json:"verdict"` // ok | violation | known-finding | undecided
	Msg     string   `json:"msg,omitempty"`
	Path    []string `json:"path,omitempty"`
}

type knownFinding struct {
	Prop, Key, Text string
	used            bool
}

// Ctx collects the obligations of one property run.
type Ctx struct {
	P        *Program
	Prop     string
	Tier     string
	Obligs   []Oblig
	Funcs    map[string]bool
	Sites    int
	RuleText []string
	Floors   []string
	Trusted  []string
	Assume   []string
	NotCov   []string
	Only     string
	Verbose  bool
	keys     map[string]int
}

func newCtx(p *Program, prop, tier string) *Ctx {
	return &Ctx{P: p, Prop: prop, Tier: tier, Funcs: map[string]bool{}, keys: map[string]int{}}
}

func (c *Ctx) Thorough() bool { return c.Tier == "thorough" }

// thoroughExtra: the packages the thorough tier adds to the evaluation-side scope of the
// scope-based rules (flow, unmarked, taint, effects): the extensions and the reflection layer.
var thoroughExtra = []string{"ext/typeexpr", "ext/tryfunc", "ext/userfunc", "ext/customdecode", "ext/transform", "gohcl", "hclparse", "hclsimple", "hcled"}

// Scope returns base, plus thoroughExtra in the thorough tier.
func (c *Ctx) Scope(base ...string) []string { return c.ScopeWith(thoroughExtra, base...) }

// ScopeWith returns base, plus extra in the thorough tier.
func (c *Ctx) ScopeWith(extra []string, base ...string) []string {
	if !c.Thorough() {
		return base
	}
	out := append([]string{}, base...)
	seen := map[string]bool{}
	for _, b := range base {
		seen[b] = true
	}
	for _, x := range extra {
		if !seen[x] {
			out = append(out, x)
		}
	}
	return out
}

// uniq makes a key unique within a run by appending #n for repeats (ordered by
// occurrence within the function, which follows source order).
func (c *Ctx) uniq(key string) string {
	c.keys[key]++
	if n := c.keys[key]; n > 1 {
		return fmt.Sprintf("%s#%d", key, n)
	}
	return key
}

func (c *Ctx) add(rule, key string, pos token.Pos, verdict, msg string, path []string) {
	k := c.uniq(strings.ReplaceAll(rule+"@"+key, " ", ""))
	if c.Only != "" && c.Only != k {
		return
	}
	c.Obligs = append(c.Obligs, Oblig{Rule: rule, Key: k, Pos: c.P.Position(pos), Verdict: verdict, Msg: msg, Path: path})
}

func (c *Ctx) OK(rule, key string, pos token.Pos, msg string) { c.add(rule, key, pos, "ok", msg, nil) }
func (c *Ctx) Fail(rule, key string, pos token.Pos, msg string, path ...string) {
	c.add(rule, key, pos, "violation", msg, path)
}
func (c *Ctx) Undecided(rule, key string, pos token.Pos, msg string) {
	c.add(rule, key, pos, "undecided", msg, nil)
}

// Check records ok or violation.
func (c *Ctx) Check(ok bool, rule, key string, pos token.Pos, okMsg, failMsg string) bool {
	if ok {
		c.OK(rule, key, pos, okMsg)
	} else {
		c.Fail(rule, key, pos, failMsg)
	}
	return ok
}

// CheckerFail records a failure of the checker itself (anchor missing, floor, fixture).
func (c *Ctx) CheckerFail(rule, what string) {
	c.add(rule, "checker:"+what, token.NoPos, "violation", "checker failure (fail closed): "+what, []string{"kind=checker"})
}

func (c *Ctx) Fn(name string)         { c.Funcs[name] = true }
func (c *Ctx) Rule(text string)       { c.RuleText = append(c.RuleText, text) }
func (c *Ctx) NotCovered(text string) { c.NotCov = append(c.NotCov, text) }
func (c *Ctx) Trust(text string)      { c.Trusted = append(c.Trusted, text) }
func (c *Ctx) Assumption(text string) { c.Assume = append(c.Assume, text) }
func (c *Ctx) Floor(rule string, got, min int, reason string) {
	c.Floors = append(c.Floors, fmt.Sprintf("%s: %d >= %d (%s)", rule, got, min, reason))
	if got < min {
		c.CheckerFail(rule, fmt.Sprintf("instance count %d below confirmed floor %d (%s)", got, min, reason))
	}
}

func loadKnown(path string) ([]*knownFinding, error) {
	f, err := os.Open(path)
	if err != nil {
		if os.IsNotExist(err) {
			return nil, nil
		}
		return nil, err
	}
	defer f.Close()
	var out []*knownFinding
	sc := bufio.NewScanner(f)
	sc.Buffer(make([]byte, 1<<20), 1<<20)
	for sc.Scan() {
		line := strings.TrimSpace(sc.Text())
		if !strings.HasPrefix(line, "finding:") {
			continue // "fixed:" entries and comments suppress nothing
		}
		rest := strings.TrimSpace(strings.TrimPrefix(line, "finding:"))
		kf := &knownFinding{}
		fields := strings.Fields(rest)
		var text []string
		for _, fl := range fields {
			switch {
			case strings.HasPrefix(fl, "property=") && kf.Prop == "":
				kf.Prop = strings.TrimPrefix(fl, "property=")
			case strings.HasPrefix(fl, "key=") && kf.Key == "":
				kf.Key = strings.TrimPrefix(fl, "key=")
			default:
				text = append(text, fl)
			}
		}
		kf.Text = strings.Join(text, " ")
		if kf.Prop == "" || kf.Key == "" {
			return nil, fmt.Errorf("malformed known finding line: %q", line)
		}
		out = append(out, kf)
	}
	return out, sc.Err()
}

type evidence struct {
	PropertyID  string         `json:"property_id"`
	Tier        string         `json:"tier"`
	Seed        int            `json:"seed"`
	Level       string         `json:"level"`
	Coverage    map[string]any `json:"coverage"`
	Assumptions []string       `json:"assumptions"`
	WallS       float64        `json:"wall_s"`
	Violations  int            `json:"violations"`
}

// finish applies known findings, prints the report, writes evidence and replay
// files, and returns the exit code.
func (c *Ctx) finish(verifDir string, seed int, start time.Time, loadNote string) int {
	known, err := loadKnown(filepath.Join(verifDir, "known_findings.txt"))
	if err != nil {
		c.CheckerFail("known-findings", err.Error())
	}
	evDir := filepath.Join(verifDir, "evidence")
	replayDir := filepath.Join(evDir, "replay")
	os.MkdirAll(replayDir, 0o755)
	// remove stale replay files of this property
	if ms, _ := filepath.Glob(filepath.Join(replayDir, c.Prop+"-*.json")); ms != nil {
		for _, m := range ms {
			os.Remove(m)
		}
	}
	nOK, nViol, nKnown, nUndec := 0, 0, 0, 0
	var violLines []string
	rules := map[string]int{}
	distinct := map[string]bool{}
	for i := range c.Obligs {
		o := &c.Obligs[i]
		rules[o.Rule]++
		distinct[o.Key] = true
		if o.Verdict == "violation" || o.Verdict == "undecided" {
			for _, k := range known {
				if k.Prop == c.Prop && k.Key == o.Key && o.Verdict == "violation" {
					o.Verdict = "known-finding"
					k.used = true
					fmt.Printf("KNOWN-FINDING: property=%s %s [%s at %s]\n", c.Prop, k.Text, o.Key, o.Pos)
					break
				}
			}
		}
		switch o.Verdict {
		case "ok":
			nOK++
		case "known-finding":
			nKnown++
		case "undecided":
			nUndec++
			fallthrough
		case "violation":
			nViol++
			rp := filepath.Join(replayDir, fmt.Sprintf("%s-%d.json", c.Prop, nViol))
			b, _ := json.MarshalIndent(map[string]any{"property": c.Prop, "obligation": o, "rules": c.RuleText,
				"replay": fmt.Sprintf("./check %s %s -only '%s'", c.Prop, c.Tier, o.Key)}, "", " ")
			os.WriteFile(rp, append(b, '\n'), 0o644)
			fmt.Printf("%s: %s: %s: %s\n", o.Pos, o.Rule, o.Key, o.Msg)
			for _, p := range o.Path {
				fmt.Printf("    %s\n", p)
			}
			violLines = append(violLines, fmt.Sprintf("VIOLATION property=%s replay=%s", c.Prop, rp))
		}
	}
	// A listed finding that no longer fires is only noted (a fix may have landed).
	for _, k := range known {
		if k.Prop == c.Prop && !k.used && c.Only == "" {
			fmt.Printf("note: listed finding no longer reported: property=%s key=%s\n", k.Prop, k.Key)
		}
	}
	funcs := make([]string, 0, len(c.Funcs))
	for f := range c.Funcs {
		funcs = append(funcs, f)
	}
	sort.Strings(funcs)
	ruleNames := make([]string, 0, len(rules))
	for r := range rules {
		ruleNames = append(ruleNames, fmt.Sprintf("%s=%d", r, rules[r]))
	}
	sort.Strings(ruleNames)
	// samples: up to 3 per rule, plus all non-ok
	var samples []Oblig
	perRule := map[string]int{}
	for _, o := range c.Obligs {
		if o.Verdict != "ok" || perRule[o.Rule] < 3 {
			perRule[o.Rule]++
			samples = append(samples, o)
		}
	}
	expl := "Static analysis (no repository code is executed). Rules decided on this run: " + strings.Join(c.RuleText, " | ") +
		" || NOT covered by this check: " + strings.Join(c.NotCov, " | ")
	nn := func(x []string) []string {
		if x == nil {
			return []string{}
		}
		return x
	}
	cov := map[string]any{
		"explanation":          expl,
		"obligations":          len(c.Obligs),
		"discharged":           nOK,
		"known_findings":       nKnown,
		"undecided":            nUndec,
		"evaluations":          len(c.Obligs),
		"distinct_nontrivial":  len(distinct),
		"rule":                 "every obligation is one (rule, construct) pair enumerated from /repo's current source; distinct = distinct rule@construct keys; all are non-trivial in that each names a concrete construct the rule had to decide",
		"samples":              samples,
		"obligations_per_rule": ruleNames,
		"functions_analysed":   funcs,
		"functions_count":      len(funcs),
		"call_sites":           c.Sites,
		"floors":               nn(c.Floors),
		"trusted_base":         nn(c.Trusted),
		"exhaustive":           true,
		"load":                 loadNote,
		"checker_cmd":          fmt.Sprintf("/verif/check %s %s", c.Prop, c.Tier),
	}
	ev := evidence{PropertyID: c.Prop, Tier: c.Tier, Seed: seed, Level: "other", Coverage: cov,
		Assumptions: append([]string{}, c.Assume...), WallS: time.Since(start).Seconds(), Violations: nViol}
	if ev.Assumptions == nil {
		ev.Assumptions = []string{}
	}
	b, _ := json.MarshalIndent(ev, "", " ")
	if c.Only == "" {
		if err := os.WriteFile(filepath.Join(evDir, c.Prop+".json"), append(b, '\n'), 0o644); err != nil {
			fmt.Printf("cannot write evidence: %v\n", err)
			return 2
		}
	}
	fmt.Printf("%s %s: %d obligations (%s): %d ok, %d known findings, %d violations (%d undecided); %d functions; %.1fs\n",
		c.Prop, c.Tier, len(c.Obligs), strings.Join(ruleNames, " "), nOK, nKnown, nViol, nUndec, len(funcs), time.Since(start).Seconds())
	if c.Verbose {
		for _, o := range c.Obligs {
			fmt.Printf("  [%s] %s %s %s\n", o.Verdict, o.Pos, o.Key, o.Msg)
		}
	}
	if len(c.Obligs) == 0 && c.Only == "" {
		fmt.Printf("VIOLATION property=%s replay=%s\n", c.Prop, "none (checker decided zero obligations: fail closed)")
		return 1
	}
	for _, l := range violLines {
		fmt.Println(l)
	}
	if nViol > 0 {
		return 1
	}
	return 0
}
