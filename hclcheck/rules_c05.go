package main

import (
	"fmt"
	"go/token"
	"go/types"
	"sort"
	"strings"

	"golang.org/x/tools/go/ssa"
)

// freshUnknown: v is a newly constructed unknown value (cty.UnknownVal, cty.DynamicVal), possibly
// refined or (re)marked.
func freshUnknown(v ssa.Value, d int) bool {
	if d > 8 {
		return false
	}
	switch x := v.(type) {
	case *ssa.UnOp:
		if g, ok := x.X.(*ssa.Global); ok && x.Op == token.MUL && g.Pkg != nil && g.Pkg.Pkg.Path() == ctyPath && g.Name() == "DynamicVal" {
			return true
		}
	case *ssa.Call:
		ci := calleeOf(&x.Call)
		if ci.pkg != nil && ci.pkg.Path() == ctyPath && ci.recvT == nil && ci.name == "UnknownVal" {
			return true
		}
		if ci.isCtyValueMethod("WithMarks", "WithSameMarks", "Mark", "RefineNotNull") && len(x.Call.Args) > 0 {
			return freshUnknown(x.Call.Args[0], d+1)
		}
		// refinement builder: v.Refine()....NewValue()
		if ci.name == "NewValue" && len(x.Call.Args) > 0 {
			return freshUnknown(x.Call.Args[0], d+1)
		}
		if ci.recvT != nil && isNamed(ci.recvT, ctyPath, "RefinementBuilder") && len(x.Call.Args) > 0 {
			return freshUnknown(x.Call.Args[0], d+1)
		}
		if ci.isCtyValueMethod("Refine") && len(x.Call.Args) > 0 {
			return freshUnknown(x.Call.Args[0], d+1)
		}
	}
	return false
}

func init() { register("C05", checkC05) }

// Named exceptions: one return each, with the reason no unknown operand is needed.
var unknownOriginExceptions = map[string]string{
	"hclsyntax.(*AnonSymbolExpr).Value:return[cty.DynamicVal]": "the anonymous symbol of a splat evaluates to cty.DynamicVal when no value has been set for the context: that happens only when the node is evaluated directly through the Go API, outside the traversal of a splat expression (SplatExpr.Value sets the value before evaluating Each)",
	"json.(*expression).Value:return[cty.DynamicVal]":          "the default arm of the node-type switch (a node kind that only a failed parse produces, kept so that invalid ASTs can be partially evaluated): not reachable from an error-free parse result",
}

func checkC05(c *Ctx) {
	c.Rule("R1 unknown.origin (the converse clause only): in the evaluators of hclsyntax (expression*.go), hcl.Index/GetAttr and json expression.Value, every return that yields a freshly made unknown value (cty.UnknownVal, cty.DynamicVal, refined or re-marked) is an error return, or is reached only when some operand is unknown: on every path an IsKnown()/IsWhollyKnown() test of an operand was false, or a value shown not to be null has the dynamic pseudo-type, or the return is under a boolean flag every assignment of which was made under such a witness, after an error was recorded, or when the flag already had that value — an error-free evaluation with no unknown input cannot make up an unknown result")
	e, err := newKnownEngine(c.P)
	if err != nil {
		c.CheckerFail("unknown.origin", err.Error())
		return
	}
	n := 0
	for _, fn := range flowBoundaries(c) {
		file := c.P.Position(fn.Pos())
		if !(strings.HasPrefix(file, "hclsyntax/expression") || strings.HasPrefix(file, "ops.go") || strings.HasPrefix(file, "json/structure.go")) {
			continue
		}
		rd := (&flowFn{p: c.P, fn: fn}).retDescs()
		for _, b := range fn.Blocks {
			ret, ok := b.Instrs[len(b.Instrs)-1].(*ssa.Return)
			if !ok || len(ret.Results) == 0 || !isCtyValue(ret.Results[0].Type()) {
				continue
			}
			var cands []ssa.Value
			seen := map[ssa.Value]bool{}
			var expand func(v ssa.Value)
			expand = func(v ssa.Value) {
				v = lookThrough(v)
				if seen[v] {
					return
				}
				seen[v] = true
				if phi, ok := v.(*ssa.Phi); ok {
					for _, ed := range phi.Edges {
						expand(ed)
					}
					return
				}
				cands = append(cands, v)
			}
			expand(ret.Results[0])
			for _, v := range cands {
				if !freshUnknown(v, 0) || isErrorReturn(ret) {
					continue
				}
				n++
				c.Sites++
				c.Fn(FuncName(fn))
				key := fmt.Sprintf("%s:return[%s]", FuncName(fn), rd[ret])
				ok, why := e.unknownWitness(b)
				if !ok && (fn.Parent() != nil || (fn.Object() != nil && !fn.Object().Exported())) && staticCallersOnly(c.P, fn) {
					// a helper or closure that only builds the unknown result: decided where it is called
					all := true
					for _, in := range c.P.CallGraph().Nodes[fn].In {
						sb := in.Site.Block()
						if w, _ := e.unknownWitness(sb); !w && !errorEvidence(sb) {
							all = false
						}
					}
					if all {
						ok, why = true, "helper: every call site is reached only with an unknown operand"
					}
				}
				excKey := key
				if i := strings.LastIndex(excKey, "#"); i > 0 && strings.HasSuffix(excKey[:i], "]") {
					excKey = excKey[:i]
				}
				if exc, isExc := unknownOriginExceptions[excKey]; isExc && !ok {
					c.OK("unknown.origin", key, ret.Pos(), "named exception: "+exc)
					c.Assumption("unknown.origin exception " + excKey + ": " + exc)
					continue
				}
				c.Check(ok, "unknown.origin", key, ret.Pos(), why,
					"an unknown value is made up and returned without an error on a path where no operand was found to be unknown: with every input known the evaluation still yields an unknown result")
			}
		}
	}
	c.Floor("unknown.origin returns", n, 15, "unknown-operand returns of Index, GetAttr, FunctionCall, ObjectCons, For, Splat, the logical operators, TemplateJoin, JSON objects")
	c.NotCovered("the main clause of the property: that a known part of an abstract result equals the concrete result and that refinements (not-null, prefixes, bounds, lengths) hold for every concretisation — arithmetic over cty ranges")
	c.NotCovered("unknown values that appear inside a returned collection, and unknown results produced by go-cty operations themselves")
	c.Rule("R2 unknown.noerror: in every function of hclsyntax (expression*.go), json (structure.go), ext/dynblock and hcl (ops.go) that evaluates operand expressions, with the operands (all together, and each alone) taken to be cty.DynamicVal — for which every cty predicate has a fixed answer: IsKnown/IsWhollyKnown/IsNull/CanIterateElements false, every Type().IsXType() false, Type() == DynamicPseudoType true — no branch decided by those answers is followed by an error diagnostic on every path to a return: a value that is merely not known yet is never rejected")
	var evalFns []*ssa.Function
	for _, fn := range c.P.pkgFuncs("hclsyntax", "ext/dynblock", "hcl", "json") {
		file := c.P.Position(fn.Pos())
		if strings.HasPrefix(file, "hclsyntax/expression") || strings.HasPrefix(file, "ext/dynblock/") || strings.HasPrefix(file, "ops.go") || strings.HasPrefix(file, "json/structure.go") {
			evalFns = append(evalFns, fn)
		}
	}
	sort.Slice(evalFns, func(i, j int) bool { return evalFns[i].Pos() < evalFns[j].Pos() })
	c05UnknownNoError(c, "unknown.noerror", evalFns)
	c05FlagMonotone(c, evalFns)
}

// unknownWitness: on every path with which block b can be reached some operand is unknown: an
// IsKnown / IsWhollyKnown test was false, or a value known not to be null has the dynamic
// pseudo-type (only unknown values and null have it), or the block lies under a boolean flag all
// of whose assignments of that truth value were made under such a witness.
func (e *knownEngine) unknownWitness(b *ssa.BasicBlock) (bool, string) {
	if ok, why := e.atomWitness(b); ok {
		return true, why
	}
	if e.pathsJustified(b, 0, map[*ssa.BasicBlock]bool{}) {
		return true, "every path here has seen an unknown operand or recorded an error"
	}
	// a dominating test of a flag
	for d := b; d != nil && d.Idom() != nil; d = d.Idom() {
		iff, ok := lastIf(d.Idom())
		if !ok || len(d.Preds) != 1 || d.Idom().Succs[0] == d.Idom().Succs[1] {
			continue
		}
		cond, inv := stripBool(iff.Cond)
		want := (d.Idom().Succs[0] == d) != inv
		if ld, isLd := cond.(*ssa.UnOp); isLd && ld.Op == token.MUL {
			// a flag that lives in a cell (it is shared with a closure)
			if e.cellFlagUnderWitness(ld.X, want) {
				return true, "under a flag that is set only when an operand is unknown"
			}
			continue
		}
		if _, isPhi := cond.(*ssa.Phi); !isPhi {
			continue
		}
		if e.flagUnderWitness(cond, want, map[ssa.Value]bool{}) {
			return true, "under a flag that is set only when an operand is unknown"
		}
	}
	return false, "reachable with every tested operand known"
}

// flagUnderWitness: the boolean v can have the truth value want only if it was assigned under
// an unknown-operand witness.
func (e *knownEngine) flagUnderWitness(v ssa.Value, want bool, seen map[ssa.Value]bool) bool {
	if seen[v] {
		return true
	}
	seen[v] = true
	switch x := v.(type) {
	case *ssa.Const:
		return false // judged at the phi edge (needs the block)
	case *ssa.Phi:
		for i, ed := range x.Edges {
			if cn, ok := ed.(*ssa.Const); ok && cn.Value != nil {
				if (cn.Value.String() == "true") != want {
					continue
				}
				// the edge itself comes from a test showing that the flag already had this value
				// (the value form of `flag = flag || …` / `flag = flag && …`)
				pb := x.Block().Preds[i]
				if iff, ok := lastIf(pb); ok && pb.Succs[0] != pb.Succs[1] {
					cond, inv := stripBool(iff.Cond)
					if ph, ok := cond.(*ssa.Phi); ok && (seen[ph] || ph == x) && ((pb.Succs[0] == x.Block()) != inv) == want {
						continue
					}
				}
				if !e.assignmentJustified(x.Block().Preds[i], x, want, 0, map[*ssa.BasicBlock]bool{}) {
					return false
				}
				continue
			}
			// a computed value: fine when it is assigned under a witness anyway
			if e.assignmentJustified(x.Block().Preds[i], x, want, 0, map[*ssa.BasicBlock]bool{}) {
				continue
			}
			if !e.flagUnderWitness(ed, want, seen) {
				return false
			}
		}
		return true
	case *ssa.UnOp:
		if x.Op == token.NOT {
			return e.flagUnderWitness(x.X, !want, seen)
		}
	case *ssa.Call:
		// the flag is itself the outcome of a known-ness test
		if cal := x.Call.StaticCallee(); cal != nil && isCtyValueMethod(cal) && (cal.Name() == "IsKnown" || cal.Name() == "IsWhollyKnown") {
			return !want
		}
		// … or of an error test
		if cal := x.Call.StaticCallee(); cal != nil && cal.Name() == "HasErrors" {
			return want
		}
	}
	return false
}

func (e *knownEngine) atomWitness(b *ssa.BasicBlock) (bool, string) {
	a := e.abstraction(b.Parent(), nil)
	if a.n == 0 {
		return false, "no known-ness test in the function"
	}
	return witnessIn(a, a.state[b])
}

// pathsJustified: every edge into b is taken only with an unknown-operand witness or after an
// error was recorded (a return shared by an error path and an unknown-operand path).
func (e *knownEngine) pathsJustified(b *ssa.BasicBlock, depth int, seen map[*ssa.BasicBlock]bool) bool {
	if depth > 4 || seen[b] || len(b.Preds) == 0 {
		return false
	}
	seen[b] = true
	a := e.abstraction(b.Parent(), nil)
	for _, p := range b.Preds {
		if errorEvidence(p) {
			continue
		}
		if a.n > 0 {
			if ok, _ := witnessIn(a, a.edgeState(p, b)); ok {
				continue
			}
		}
		if ok, _ := e.unknownWitness(p); ok {
			continue
		}
		// a plain fall-through block: judge its own predecessors
		if _, isIf := lastIf(p); !isIf && e.pathsJustified(p, depth+1, seen) {
			continue
		}
		return false
	}
	return true
}

func witnessIn(a *knAbs, st []uint64) (bool, string) {
	if st == nil {
		return false, "unreachable?"
	}
	any := false
	for val := 0; val < 1<<uint(a.n); val++ {
		if st[val/64]&(1<<uint(val%64)) == 0 {
			continue
		}
		any = true
		wit := false
		for i, at := range a.atoms {
			if (at.kind == "IsKnown" || at.kind == "IsWhollyKnown") && val&(1<<uint(i)) == 0 {
				wit = true
			}
			if at.kind == "IsDyn" && val&(1<<uint(i)) != 0 {
				// dynamic type and not null
				for j, at2 := range a.atoms {
					if at2.kind == "IsNull" && val&(1<<uint(j)) == 0 && sameKnownClass(at2.rep, at.rep) {
						wit = true
					}
				}
			}
		}
		if !wit {
			return false, "reachable with every tested operand known"
		}
	}
	if !any {
		return false, "unreachable under the tests made"
	}
	return true, "some operand is unknown on every path"
}

// errorEvidence: block b is only reached after an error diagnostic has been recorded: every path
// into it passes a block that appends one (directly or through a helper that always does), or
// the true edge of a HasErrors() test.
func errorEvidence(b *ssa.BasicBlock) bool {
	return errorEvidenceRec(b, 0, map[*ssa.BasicBlock]bool{})
}

func errorEvidenceRec(b *ssa.BasicBlock, depth int, seen map[*ssa.BasicBlock]bool) bool {
	if depth > 10 || seen[b] {
		return false
	}
	seen[b] = true
	isErrAppend := func(ins ssa.Instruction) bool {
		call, ok := ins.(*ssa.Call)
		if !ok {
			return false
		}
		if bi, ok := call.Call.Value.(*ssa.Builtin); ok && bi.Name() == "append" && len(call.Call.Args) > 1 && isDiagnosticsType(call.Type()) && sliceLitHasErrorDiag(call.Call.Args[1]) {
			return true
		}
		if cal := staticCallee(&call.Call); cal != nil {
			if isDiagnosticsType(call.Type()) && len(call.Call.Args) == 2 && isErrorDiagPtr(call.Call.Args[1]) {
				return true
			}
			if alwaysRecordsError(cal) {
				return true
			}
		}
		return false
	}
	for _, ins := range b.Instrs {
		if isErrAppend(ins) {
			return true
		}
	}
	if len(b.Preds) == 0 {
		return false
	}
	for _, p := range b.Preds {
		if iff, ok := lastIf(p); ok && p.Succs[0] != p.Succs[1] {
			cond, inv := stripBool(iff.Cond)
			if call, ok := cond.(*ssa.Call); ok {
				if cal := call.Call.StaticCallee(); cal != nil && cal.Name() == "HasErrors" && (p.Succs[0] == b) != inv {
					continue
				}
			}
		}
		if !errorEvidenceRec(p, depth+1, seen) {
			return false
		}
	}
	return true
}

// assignmentJustified: every path into block b (where the flag receives the truth value `want`)
// has seen an unknown operand, has recorded an error, or comes from a test showing that the flag
// already had that value.
func (e *knownEngine) assignmentJustified(b *ssa.BasicBlock, flag *ssa.Phi, want bool, depth int, seen map[*ssa.BasicBlock]bool) bool {
	if depth > 8 || seen[b] {
		return false
	}
	seen[b] = true
	if ok, _ := e.atomWitness(b); ok {
		return true
	}
	if errorEvidence(b) {
		return true
	}
	if ok, _ := e.unknownWitness(b); ok {
		return true
	}
	if len(b.Preds) == 0 || b == flag.Block() {
		return false
	}
	for _, p := range b.Preds {
		if iff, ok := lastIf(p); ok && p.Succs[0] != p.Succs[1] {
			cond, inv := stripBool(iff.Cond)
			onTrue := (p.Succs[0] == b) != inv
			if cond == ssa.Value(flag) && onTrue == want {
				continue // the flag already had this value
			}
		}
		if !e.assignmentJustified(p, flag, want, depth+1, seen) {
			return false
		}
	}
	return true
}

// cellFlagUnderWitness: the boolean cell (a local or a captured variable) is given the value want
// only under an unknown-operand witness, after a recorded error, or when it already had it —
// in the function that owns it and in every closure that captures it.
func (e *knownEngine) cellFlagUnderWitness(addr ssa.Value, want bool) bool {
	// the owning Alloc
	var owner *ssa.Alloc
	switch x := addr.(type) {
	case *ssa.Alloc:
		owner = x
	case *ssa.FreeVar:
		// walk out to the defining function
		fn := x.Parent()
		cur := ssa.Value(x)
		for depth := 0; depth < 4 && owner == nil; depth++ {
			fv, ok := cur.(*ssa.FreeVar)
			if !ok {
				break
			}
			idx := -1
			for i, f := range fn.FreeVars {
				if f == fv {
					idx = i
				}
			}
			parent := fn.Parent()
			if parent == nil || idx < 0 {
				return false
			}
			found := false
			for _, b := range parent.Blocks {
				for _, ins := range b.Instrs {
					if mc, ok := ins.(*ssa.MakeClosure); ok && mc.Fn == fn && !found {
						cur = mc.Bindings[idx]
						found = true
					}
				}
			}
			if !found {
				return false
			}
			if al, ok := cur.(*ssa.Alloc); ok {
				owner = al
			}
			fn = parent
		}
	}
	if owner == nil {
		return false
	}
	// all views of the cell: the Alloc and the FreeVars bound to it (transitively)
	views := map[ssa.Value]bool{owner: true}
	var collect func(fn *ssa.Function)
	collect = func(fn *ssa.Function) {
		for _, b := range fn.Blocks {
			for _, ins := range b.Instrs {
				if mc, ok := ins.(*ssa.MakeClosure); ok {
					cf := mc.Fn.(*ssa.Function)
					for i, bnd := range mc.Bindings {
						if views[bnd] {
							views[cf.FreeVars[i]] = true
						}
					}
					collect(cf)
				}
			}
		}
	}
	collect(owner.Parent())
	stores := 0
	for v := range views {
		refs := v.Referrers()
		if refs == nil {
			continue
		}
		for _, r := range *refs {
			st, ok := r.(*ssa.Store)
			if !ok || st.Addr != v {
				continue
			}
			cn, ok := st.Val.(*ssa.Const)
			if !ok || cn.Value == nil {
				return false // computed value: not a simple flag
			}
			if (cn.Value.String() == "true") != want {
				continue
			}
			stores++
			if !e.cellAssignmentJustified(st.Block(), views, want, 0, map[*ssa.BasicBlock]bool{}) &&
				!e.cellAssignmentJustifiedAfter(st, views, want) {
				return false
			}
		}
	}
	return stores > 0
}

func (e *knownEngine) cellAssignmentJustified(b *ssa.BasicBlock, views map[ssa.Value]bool, want bool, depth int, seen map[*ssa.BasicBlock]bool) bool {
	if depth > 8 || seen[b] {
		return false
	}
	seen[b] = true
	if ok, _ := e.atomWitness(b); ok {
		return true
	}
	if errorEvidence(b) {
		return true
	}
	if len(b.Preds) == 0 {
		return false
	}
	for _, p := range b.Preds {
		if iff, ok := lastIf(p); ok && p.Succs[0] != p.Succs[1] {
			cond, inv := stripBool(iff.Cond)
			onTrue := (p.Succs[0] == b) != inv
			if ld, ok := cond.(*ssa.UnOp); ok && ld.Op == token.MUL && views[ld.X] && onTrue == want {
				continue // the flag already had this value
			}
		}
		if !e.cellAssignmentJustified(p, views, want, depth+1, seen) {
			return false
		}
	}
	return true
}

// R2 unknown.noerror: an operand that is cty.DynamicVal (unknown value of unknown type) never
// unavoidably produces an error.
func c05UnknownNoError(c *Ctx, rule string, fns []*ssa.Function) {
	n, nDecided := 0, 0
	for _, fn := range fns {
		seeds := operandSeeds(fn)
		if len(seeds) == 0 {
			continue
		}
		n++
		c.Fn(FuncName(fn))
		// every operand unknown at once, and each one alone
		configs := []map[ssa.Value]bool{{}}
		for _, sd := range seeds {
			configs[0][sd] = true
		}
		if len(seeds) > 1 {
			for _, sd := range seeds {
				configs = append(configs, map[ssa.Value]bool{sd: true})
			}
		}
		reported := map[token.Pos]bool{}
		bad := false
		if exc, ok := unknownNoErrorExceptions[FuncName(fn)]; ok {
			c.Sites++
			c.OK(rule, FuncName(fn)+":operands", fn.Pos(), "named exception: "+exc)
			c.Assumption(rule + " exception " + FuncName(fn) + ": " + exc)
			continue
		}
		for _, cfg := range configs {
			d := newDynval(fn, cfg)
			for _, f := range d.spuriousErrors() {
				nDecided++
				if reported[f.pos] {
					continue
				}
				reported[f.pos] = true
				bad = true
				which := "every operand"
				if len(cfg) == 1 && len(seeds) > 1 {
					for sd := range cfg {
						which = pathName(sd)
					}
				}
				c.Sites++
				at := f.at.Cond.Pos()
				if at == token.NoPos {
					at = f.pos
				}
				c.Fail(rule, fmt.Sprintf("%s:error[%s]", FuncName(fn), condDesc(f.at.Cond)), at,
					fmt.Sprintf("with %s evaluating to cty.DynamicVal (an unknown value of unknown type) the branch on %s is decided and every path from there records an error diagnostic (at %s): the evaluator rejects an operand whose value is simply not known yet, although a concrete value of a suitable type would be accepted", which, condDesc(f.at.Cond), c.P.Position(f.pos)))
			}
		}
		if !bad {
			c.Sites++
			c.OK(rule, FuncName(fn)+":operands", fn.Pos(), fmt.Sprintf("%d operand(s): no decided branch leads unavoidably to an error", len(seeds)))
		}
	}
	c.Floor(rule+" evaluators", n, 3, "functions that evaluate operand expressions")
}

// Named exceptions of unknown.noerror: one function each, with the reason the rejection of an
// unknown operand is the contract.
var unknownNoErrorExceptions = map[string]string{
	"ext/dynblock.(*expandSpec).newBlock": "the labels of an hcl.Block are static Go strings: a label that is not known yet cannot be represented and is rejected by design, with a diagnostic that says so ('Dynamic block labels must be immediately-known values')",
}

// R3 unknown.flag: a "still known" flag only ever goes from true to false.
func c05FlagMonotone(c *Ctx, fns []*ssa.Function) {
	c.Rule("R3 unknown.flag: in the evaluators, a boolean variable carried round a loop that starts true and is set to false somewhere in the loop (a 'known so far' flag: the result is replaced by an unknown value when it ends up false) is never set back: every value it takes round the loop is itself, the constant false, or `flag && x` — an item that is known again must not make the evaluator forget an earlier unknown one")
	n := 0
	for _, fn := range fns {
		for _, b := range fn.Blocks {
			for _, ins := range b.Instrs {
				ph, ok := ins.(*ssa.Phi)
				if !ok {
					break
				}
				if bt, ok := ph.Type().Underlying().(*types.Basic); !ok || bt.Kind() != types.Bool {
					continue
				}
				var back []int
				initTrue := false
				for i, p := range b.Preds {
					if b.Dominates(p) {
						back = append(back, i)
					} else if cn, ok := ph.Edges[i].(*ssa.Const); ok && cn.Value != nil && cn.Value.String() == "true" {
						initTrue = true
					}
				}
				if len(back) == 0 || !initTrue {
					continue
				}
				// values the flag takes round the loop
				cleared := false
				var bad ssa.Value
				var visit func(v ssa.Value, d int)
				seen := map[ssa.Value]bool{}
				visit = func(v ssa.Value, d int) {
					if v == ssa.Value(ph) || seen[v] || d > 8 {
						return
					}
					seen[v] = true
					switch x := v.(type) {
					case *ssa.Const:
						if x.Value != nil && x.Value.String() == "false" {
							cleared = true
							return
						}
					case *ssa.Phi:
						// flag && x in value form: false on the edge where the flag was false, and
						// every other edge is reached only through the edge where it was true
						if len(x.Edges) >= 2 {
							var short *ssa.BasicBlock
							for k, e := range x.Edges {
								pred := x.Block().Preds[k]
								if cn, ok := e.(*ssa.Const); ok && cn.Value != nil && cn.Value.String() == "false" {
									if iff, ok := pred.Instrs[len(pred.Instrs)-1].(*ssa.If); ok && iff.Cond == ssa.Value(ph) && pred.Succs[1] == x.Block() && pred.Succs[0] != x.Block() {
										short = pred
									}
								}
							}
							if short != nil {
								conj := len(short.Succs[0].Preds) == 1
								for k := range x.Edges {
									pred := x.Block().Preds[k]
									if pred != short && !short.Succs[0].Dominates(pred) {
										conj = false
									}
								}
								if conj {
									cleared = true
									return
								}
							}
						}
						for k, e := range x.Edges {
							pred := x.Block().Preds[k]
							if cn, ok := e.(*ssa.Const); ok && cn.Value != nil && cn.Value.String() == "false" {
								if iff, ok := pred.Instrs[len(pred.Instrs)-1].(*ssa.If); ok && iff.Cond == ssa.Value(ph) {
									continue
								}
							}
							visit(e, d+1)
						}
						return
					case *ssa.BinOp:
						if x.Op == token.AND && (x.X == ssa.Value(ph) || x.Y == ssa.Value(ph)) {
							return
						}
					}
					// assigned from IsKnown()/IsWhollyKnown(): this is a 'known so far' flag that
					// the assignment can clear — and set back
					if call, ok := v.(*ssa.Call); ok && calleeOf(&call.Call).isCtyValueMethod("IsKnown", "IsWhollyKnown") {
						cleared = true
					}
					if bad == nil {
						bad = v
					}
				}
				for _, i := range back {
					visit(ph.Edges[i], 0)
				}
				if !cleared {
					continue // not a "goes false and stays false" flag
				}
				n++
				c.Sites++
				c.Fn(FuncName(fn))
				why := ""
				if bad != nil {
					why = pathName(bad)
				}
				c.Check(bad == nil, "unknown.flag", fmt.Sprintf("%s:flag[%s]", FuncName(fn), ph.Comment), ph.Pos(), "only ever cleared",
					"the flag `"+ph.Comment+"` starts true and is cleared in the loop, but is also assigned "+why+", which can set it back to true: an unknown item followed by a known one leaves the flag true and the evaluator returns a known result that ignores the unknown item")
			}
		}
	}
	c.Floor("unknown.flag flags", n, 3, "known/isKnown flags of the object, for and template evaluators")
}

// cellAssignmentJustifiedAfter: the flag is given the value first and the justification follows —
// `was := flag; flag = false; if !was { return }; diags = append(diags, <error>)`. Every path from
// the store to a return of its function records an error, or leaves by an edge on which the value
// the flag had BEFORE the store (a load that precedes the store in its block) is shown to have been
// the assigned value already.
func (e *knownEngine) cellAssignmentJustifiedAfter(st *ssa.Store, views map[ssa.Value]bool, want bool) bool {
	// loads of the cell that precede the store in its block
	before := map[ssa.Value]bool{}
	for _, ins := range st.Block().Instrs {
		if ins == ssa.Instruction(st) {
			break
		}
		if ld, ok := ins.(*ssa.UnOp); ok && ld.Op == token.MUL && views[ld.X] {
			before[ld] = true
		}
	}
	seen := map[*ssa.BasicBlock]bool{}
	var fwd func(b *ssa.BasicBlock, first bool) bool
	fwd = func(b *ssa.BasicBlock, first bool) bool {
		if !first {
			if seen[b] {
				return true
			}
			seen[b] = true
			if errorEvidence(b) {
				return true
			}
		}
		if _, isRet := b.Instrs[len(b.Instrs)-1].(*ssa.Return); isRet {
			return false
		}
		if len(b.Succs) == 0 {
			return true // panic
		}
		if iff, ok := lastIf(b); ok && b.Succs[0] != b.Succs[1] {
			cond, inv := stripBool(iff.Cond)
			if before[cond] {
				for i, su := range b.Succs {
					onTrue := (i == 0) != inv
					if onTrue == want {
						continue // the flag already had this value
					}
					if !fwd(su, false) {
						return false
					}
				}
				return true
			}
		}
		for _, su := range b.Succs {
			if !fwd(su, false) {
				return false
			}
		}
		return true
	}
	// an error recorded later in the store's own block counts as well
	if errorEvidence(st.Block()) {
		return true
	}
	return fwd(st.Block(), true)
}
