package main

import (
	"fmt"
	"go/constant"
	"go/token"
	"go/types"
	"os"
	"sort"
	"strings"

	"golang.org/x/tools/go/ssa"
)

// R10 bounded.index — a contradiction rule (Engler et al.) on the index guards of the front ends.
//
// A *site* is an index or slice operation on a slice or string whose index is a constant or is
// len(x)-c for a constant c ≥ 1: x[c] needs len(x) ≥ c+1, x[len(x)-c] and x[:len(x)-c] need
// len(x) ≥ c, x[c:] needs len(x) ≥ c. A site is *proven* when that lower bound follows, on every
// path to it, from comparisons of len(x) with constants that dominate it (if/for conditions,
// switch cases on len(x)), or from how x was made (make with a constant length, an append of at
// least that many fixed elements, a slice literal) — x meaning the same SSA value, or a reload of
// the same field with no store to it in between.
//
// A function is *disciplined* when at least one of its sites is proven by a comparison (it does
// test lengths before indexing), or when it is in the table of functions that were on the
// reference tree. In a disciplined function every site must be proven: an unproven one means
// either the guard was dropped or never written, while its siblings show it is needed. Functions
// that never test lengths rely on invariants established elsewhere and are not decided.

type idxSite struct {
	idx      ssa.Value // variable index: base+off must be below len(x)
	variable bool
	skip     bool // not decided at all
	fn       *ssa.Function
	pos      token.Pos
	x        ssa.Value // the slice / string
	need     int64
	desc     string
	ok       bool
	byCmp    bool
	why      string
}

func constIntVal(v ssa.Value) (int64, bool) {
	c, ok := v.(*ssa.Const)
	if !ok || c.Value == nil || c.Value.Kind() != constant.Int {
		return 0, false
	}
	return constant.Int64Val(c.Value)
}

func stripConv(v ssa.Value) ssa.Value {
	for {
		switch x := v.(type) {
		case *ssa.Convert:
			if bt, ok := x.Type().Underlying().(*types.Basic); ok && bt.Info()&types.IsInteger != 0 {
				v = x.X
				continue
			}
		case *ssa.ChangeType:
			v = x.X
			continue
		}
		return v
	}
}

// lenOf: v is len(x) → x.
func lenOf(v ssa.Value) ssa.Value {
	call, ok := stripConv(v).(*ssa.Call)
	if !ok {
		return nil
	}
	if b, ok := call.Call.Value.(*ssa.Builtin); ok && b.Name() == "len" && len(call.Call.Args) == 1 {
		return call.Call.Args[0]
	}
	return nil
}

// lenMinus: v is len(x) - c with c ≥ 0 → (x, c). Follows single-edge phis and +/- constants.
func lenMinus(v ssa.Value) (ssa.Value, int64, bool) {
	v = stripConv(v)
	if x := lenOf(v); x != nil {
		return x, 0, true
	}
	if b, ok := v.(*ssa.BinOp); ok {
		if k, isC := constIntVal(b.Y); isC {
			if x, c, ok := lenMinus(b.X); ok {
				switch b.Op {
				case token.SUB:
					return x, c + k, true
				case token.ADD:
					return x, c - k, true
				}
			}
		}
	}
	return nil, 0, false
}

func isSliceOrString(t types.Type) bool {
	switch u := t.Underlying().(type) {
	case *types.Slice:
		return true
	case *types.Basic:
		return u.Info()&types.IsString != 0
	}
	return false
}

// sameSeq: a and b denote the same sequence value at their respective program points.
func (bc *boundsCtx) sameSeq(a, b ssa.Value) bool {
	if a == b {
		return true
	}
	ua, ok1 := a.(*ssa.UnOp)
	ub, ok2 := b.(*ssa.UnOp)
	if ok1 && ok2 && ua.Op == token.MUL && ub.Op == token.MUL && sameAddr(ua.X, ub.X) {
		return true
	}
	return false
}

type boundsCtx struct {
	fn    *ssa.Function
	depth int
}

// storesBetween: a store to the address loaded by `use` may happen after the edge from→to and
// before the instruction `at` (searching backwards from `at` without passing through `from`).
func (bc *boundsCtx) storeBetween(from, to *ssa.BasicBlock, at ssa.Instruction, addr ssa.Value) bool {
	isStore := func(ins ssa.Instruction) bool {
		switch s := ins.(type) {
		case *ssa.Store:
			return sameAddr(s.Addr, addr)
		}
		return false
	}
	useBlock := at.Block()
	seen := map[*ssa.BasicBlock]bool{}
	var walk func(b *ssa.BasicBlock, upto ssa.Instruction) bool
	walk = func(b *ssa.BasicBlock, upto ssa.Instruction) bool {
		for _, ins := range b.Instrs {
			if ins == upto {
				break
			}
			if isStore(ins) {
				return true
			}
		}
		if b == to {
			// reached the guarded successor; entries other than from→to are back edges from blocks
			// dominated by `to` (checked by the caller), which are walked as predecessors below
		}
		for _, p := range b.Preds {
			if p == from && b == to {
				continue
			}
			if !to.Dominates(p) {
				continue
			}
			if seen[p] {
				continue
			}
			seen[p] = true
			if walk(p, nil) {
				return true
			}
		}
		return false
	}
	seen[useBlock] = true
	if walk(useBlock, at) {
		return true
	}
	// a loop through the use block itself: instructions after `at`
	return false
}

// writeBetween: like storeBetween, and any call (which may run a closure that has captured the
// cell) counts as a write.
func (bc *boundsCtx) writeBetween(from, to *ssa.BasicBlock, at ssa.Instruction, addr ssa.Value) bool {
	if bc.storeBetween(from, to, at, addr) {
		return true
	}
	isCall := func(ins ssa.Instruction) bool {
		switch c := ins.(type) {
		case *ssa.Call:
			_, isB := c.Call.Value.(*ssa.Builtin)
			return !isB
		case *ssa.Defer, *ssa.Go:
			return true
		}
		return false
	}
	seen := map[*ssa.BasicBlock]bool{}
	var walk func(b *ssa.BasicBlock, upto ssa.Instruction) bool
	walk = func(b *ssa.BasicBlock, upto ssa.Instruction) bool {
		for _, ins := range b.Instrs {
			if ins == upto {
				break
			}
			if isCall(ins) {
				return true
			}
		}
		for _, p := range b.Preds {
			if (p == from && b == to) || !to.Dominates(p) || seen[p] {
				continue
			}
			seen[p] = true
			if walk(p, nil) {
				return true
			}
		}
		return false
	}
	seen[at.Block()] = true
	return walk(at.Block(), at)
}

// infeasibleWhenShort: the block of `at` is unreachable for every length below s.need.
func (bc *boundsCtx) infeasibleWhenShort(s *idxSite, at ssa.Instruction) bool {
	fn := at.Parent()
	if fn == nil {
		return false
	}
	// string subjects compared with constants in the function, and the constants
	subjects := map[string]map[string]bool{}
	for _, b := range fn.Blocks {
		for _, ins := range b.Instrs {
			bo, ok := ins.(*ssa.BinOp)
			if !ok || (bo.Op != token.EQL && bo.Op != token.NEQ) {
				continue
			}
			for _, pr := range [][2]ssa.Value{{bo.X, bo.Y}, {bo.Y, bo.X}} {
				if cn, ok := pr[1].(*ssa.Const); ok && cn.Value != nil && cn.Value.Kind() == constant.String {
					if _, isC := pr[0].(*ssa.Const); isC {
						continue
					}
					n := pathName(pr[0])
					if n == "" || n == "?" {
						continue
					}
					if subjects[n] == nil {
						subjects[n] = map[string]bool{}
					}
					subjects[n][constant.StringVal(cn.Value)] = true
				}
			}
		}
	}
	var names []string
	for n := range subjects {
		names = append(names, n)
	}
	sort.Strings(names)
	if len(names) > 2 {
		names = names[:0] // too many to enumerate: lengths only
	}
	total := 1
	var doms [][]string
	for _, n := range names {
		var vs []string
		for v := range subjects[n] {
			vs = append(vs, v)
		}
		sort.Strings(vs)
		vs = append(vs, "\x00other")
		doms = append(doms, vs)
		total *= len(vs)
	}
	if total > 400 {
		return false
	}
	decided := false
	for l := int64(0); l < s.need; l++ {
		idx := make([]int, len(names))
		for {
			a := &condAtoms{hasLen: true, lenVal: l, lenSeq: func(v ssa.Value) bool { return bc.sameSeq(v, s.x) }, strVals: map[string]string{}, strEq: map[string]string{}, assign: map[string]bool{}}
			for i, n := range names {
				a.strVals[n] = doms[i][idx[i]]
			}
			run := a.run(fn, 0)
			if run.reach[at.Block()] {
				return false
			}
			decided = true
			// next combination
			k := 0
			for k < len(idx) {
				idx[k]++
				if idx[k] < len(doms[k]) {
					break
				}
				idx[k] = 0
				k++
			}
			if k == len(idx) {
				break
			}
		}
	}
	return decided
}

// cmpBound: on the given outcome of cond, a lower bound for len(x) (x returned), if cond is a
// comparison of a length with a constant.
func cmpBound(cond ssa.Value, outcome bool) (ssa.Value, int64, bool) {
	if u, ok := cond.(*ssa.UnOp); ok && u.Op == token.NOT {
		return cmpBound(u.X, !outcome)
	}
	b, ok := cond.(*ssa.BinOp)
	if !ok {
		return nil, 0, false
	}
	op := b.Op
	var x ssa.Value
	var off, k int64
	if xx, c, ok := lenMinus(b.X); ok {
		if kk, isC := constIntVal(b.Y); isC {
			x, off, k = xx, c, kk
		}
	}
	if x == nil {
		if xx, c, ok := lenMinus(b.Y); ok {
			if kk, isC := constIntVal(b.X); isC {
				x, off, k = xx, c, kk
				switch op { // k op len  →  len op' k
				case token.LSS:
					op = token.GTR
				case token.LEQ:
					op = token.GEQ
				case token.GTR:
					op = token.LSS
				case token.GEQ:
					op = token.LEQ
				}
			}
		}
	}
	if x == nil {
		return nil, 0, false
	}
	k += off // len - off op k  ⇔  len op k+off
	if !outcome {
		switch op {
		case token.LSS:
			op = token.GEQ
		case token.LEQ:
			op = token.GTR
		case token.GTR:
			op = token.LEQ
		case token.GEQ:
			op = token.LSS
		case token.EQL:
			op = token.NEQ
		case token.NEQ:
			op = token.EQL
		}
	}
	switch op {
	case token.GTR:
		return x, k + 1, true
	case token.GEQ:
		return x, k, true
	case token.EQL:
		return x, k, true
	case token.NEQ:
		if k == 0 {
			return x, 1, true
		}
	}
	return nil, 0, false
}

// cmpExcl: on the given outcome of cond, a value that len(x) is known to differ from.
func cmpExcl(cond ssa.Value, outcome bool) (ssa.Value, int64, bool) {
	if u, ok := cond.(*ssa.UnOp); ok && u.Op == token.NOT {
		return cmpExcl(u.X, !outcome)
	}
	b, ok := cond.(*ssa.BinOp)
	if !ok || (b.Op != token.EQL && b.Op != token.NEQ) {
		return nil, 0, false
	}
	if (b.Op == token.NEQ) != outcome {
		return nil, 0, false // the equality holds: handled as a bound
	}
	if x, c, ok := lenMinus(b.X); ok {
		if k, isC := constIntVal(b.Y); isC {
			return x, k + c, true
		}
	}
	if x, c, ok := lenMinus(b.Y); ok {
		if k, isC := constIntVal(b.X); isC {
			return x, k + c, true
		}
	}
	return nil, 0, false
}

// madeLen: a lower bound of len(v) from the way v was made.
func madeLen(v ssa.Value, depth int) int64 {
	if depth > 6 {
		return 0
	}
	switch x := v.(type) {
	case *ssa.MakeSlice:
		if k, ok := constIntVal(x.Len); ok {
			return k
		}
	case *ssa.Slice:
		if x.Low == nil && x.High == nil {
			if pt, ok := x.X.Type().Underlying().(*types.Pointer); ok {
				if at, ok := pt.Elem().Underlying().(*types.Array); ok {
					return at.Len()
				}
			}
		}
	case *ssa.Call:
		if b, ok := x.Call.Value.(*ssa.Builtin); ok && b.Name() == "append" && len(x.Call.Args) == 2 {
			return madeLen(x.Call.Args[0], depth+1) + madeLen(x.Call.Args[1], depth+1)
		}
	case *ssa.Const:
		if x.Value != nil && x.Value.Kind() == constant.String {
			return int64(len(constant.StringVal(x.Value)))
		}
	case *ssa.Phi:
		min := int64(-1)
		for _, e := range x.Edges {
			if e == ssa.Value(x) {
				continue
			}
			l := madeLen(e, depth+1)
			if min < 0 || l < min {
				min = l
			}
		}
		if min > 0 {
			return min
		}
	case *ssa.ChangeType:
		return madeLen(x.X, depth+1)
	}
	return 0
}

func (bc *boundsCtx) prove(s *idxSite, at ssa.Instruction) {
	if l := madeLen(s.x, 0); l >= s.need {
		s.ok, s.why = true, fmt.Sprintf("made with at least %d elements", l)
		return
	}
	// a join: every incoming value is long enough where it comes from (the edge's own condition counts)
	if ph, ok := s.x.(*ssa.Phi); ok && bc.depth < 4 {
		all, anyCmp := len(ph.Edges) > 0, false
		for i, e := range ph.Edges {
			pred := ph.Block().Preds[i]
			sub := &idxSite{fn: s.fn, x: e, need: s.need}
			if e == ssa.Value(ph) {
				continue
			}
			if iff, ok := pred.Instrs[len(pred.Instrs)-1].(*ssa.If); ok && pred.Succs[0] != pred.Succs[1] {
				side := 0
				if pred.Succs[1] == ph.Block() {
					side = 1
				}
				if x, lb, ok := cmpBound(iff.Cond, side == 0); ok && lb >= s.need && bc.sameSeq(x, e) {
					anyCmp = true
					continue
				}
			}
			bc.depth++
			bc.prove(sub, pred.Instrs[len(pred.Instrs)-1])
			bc.depth--
			if !sub.ok {
				all = false
				break
			}
			anyCmp = anyCmp || sub.byCmp
		}
		if all {
			s.ok, s.byCmp, s.why = true, anyCmp, "long enough on every incoming path"
			return
		}
	}
	// make(T, len(y)-c): as long as y is
	if mk, ok := s.x.(*ssa.MakeSlice); ok {
		if y, c, ok := lenMinus(mk.Len); ok && c >= 0 {
			sub := &idxSite{fn: s.fn, x: y, need: s.need + c}
			bc.prove(sub, mk)
			if sub.ok {
				s.ok, s.byCmp, s.why = true, sub.byCmp, "made as long as a sequence that is "+sub.why
				return
			}
		}
	}
	// a reload of a location stored to just before, in the same block, nothing in between
	if ld, ok := s.x.(*ssa.UnOp); ok && ld.Op == token.MUL {
		if v := precedingStore(ld); v != nil {
			sub := &idxSite{fn: s.fn, x: v, need: s.need}
			bc.prove(sub, ld)
			if sub.ok {
				s.ok, s.byCmp, s.why = true, sub.byCmp, "holds what was stored just before, which is "+sub.why
				return
			}
		}
	}
	// y[low:] under low < len(y) has at least one element
	if sl, ok := s.x.(*ssa.Slice); ok && sl.High == nil && sl.Low != nil && s.need == 1 {
		ub := at.Block()
		for b := ub.Idom(); b != nil; b = b.Idom() {
			iff, ok := b.Instrs[len(b.Instrs)-1].(*ssa.If)
			if !ok {
				continue
			}
			cmp, ok := iff.Cond.(*ssa.BinOp)
			if !ok {
				continue
			}
			for si, succ := range b.Succs {
				if succ == b.Succs[1-si] || !succ.Dominates(ub) || len(succ.Preds) != 1 {
					continue
				}
				op := cmp.Op
				if si == 1 {
					switch op {
					case token.GEQ:
						op = token.LSS
					case token.LEQ:
						op = token.GTR
					default:
						continue
					}
				}
				var lo, ln ssa.Value
				switch op {
				case token.LSS:
					lo, ln = cmp.X, cmp.Y
				case token.GTR:
					lo, ln = cmp.Y, cmp.X
				default:
					continue
				}
				if y := lenOf(ln); y != nil && stripConv(lo) == stripConv(sl.Low) && bc.sameSeq(y, sl.X) {
					s.ok, s.byCmp, s.why = true, true, "a tail cut at an offset tested to be below the length"
					return
				}
			}
		}
	}
	// dominating comparisons: the best lower bound, raised past every value the length is known to differ from
	ub := at.Block()
	best := int64(0)
	excl := map[int64]bool{}
	for b := ub.Idom(); b != nil; b = b.Idom() {
		iff, ok := b.Instrs[len(b.Instrs)-1].(*ssa.If)
		if !ok {
			continue
		}
		for si, succ := range b.Succs {
			if succ == b.Succs[1-si] || !succ.Dominates(ub) {
				continue
			}
			entryOK := true
			for _, p := range succ.Preds {
				if p != b && !succ.Dominates(p) {
					entryOK = false
				}
			}
			if !entryOK {
				continue
			}
			usable := func(x ssa.Value) bool {
				if !bc.sameSeq(x, s.x) {
					return false
				}
				if x != s.x {
					// two loads of one location: nothing may be stored to it in between
					if bc.storeBetween(b, succ, at, s.x.(*ssa.UnOp).X) {
						return false
					}
				}
				return true
			}
			if x, lb, ok := cmpBound(iff.Cond, si == 0); ok && usable(x) && lb > best {
				best = lb
			}
			if x, k, ok := cmpExcl(iff.Cond, si == 0); ok && usable(x) {
				excl[k] = true
			}
		}
	}
	for excl[best] {
		best++
	}
	if best >= s.need {
		s.ok, s.byCmp = true, true
		s.why = fmt.Sprintf("under dominating tests that len ≥ %d", best)
		return
	}
	// the paths on which the sequence is too short cannot reach the site: for every shorter length
	// and every value of the strings the function branches on, the branch conditions (evaluated
	// with those values, E-condeval) never lead here
	if s.need <= 3 && bc.depth == 0 && bc.infeasibleWhenShort(s, at) {
		s.ok, s.byCmp = true, true
		s.why = fmt.Sprintf("unreachable whenever len < %d (branch conditions evaluated for every shorter length)", s.need)
		return
	}
	s.why = fmt.Sprintf("no dominating test or construction shows len ≥ %d", s.need)
}

// precedingStore: the value stored to the loaded location earlier in the same block, when no call
// and no other store that could alias it lies in between.
func precedingStore(ld *ssa.UnOp) ssa.Value {
	b := ld.Block()
	idx := -1
	for i, ins := range b.Instrs {
		if ins == ssa.Instruction(ld) {
			idx = i
		}
	}
	for hops := 0; hops < 8; hops++ {
		for i := idx - 1; i >= 0; i-- {
			switch x := b.Instrs[i].(type) {
			case *ssa.Store:
				if sameAddr(x.Addr, ld.X) {
					return x.Val
				}
				fa, ok1 := x.Addr.(*ssa.FieldAddr)
				fb, ok2 := ld.X.(*ssa.FieldAddr)
				if ok1 && ok2 && fa.Field != fb.Field {
					continue
				}
				if _, isAlloc := x.Addr.(*ssa.Alloc); isAlloc {
					continue
				}
				return nil
			case *ssa.Call:
				if _, isB := x.Call.Value.(*ssa.Builtin); isB {
					continue
				}
				return nil
			case *ssa.Defer, *ssa.Go:
				return nil
			}
		}
		// straight-line code only: go on in the one predecessor
		if len(b.Preds) != 1 {
			return nil
		}
		b = b.Preds[0]
		idx = len(b.Instrs)
	}
	return nil
}

// baseOff: v as base + off with a constant off (following +/- constants and integer conversions).
func baseOff(v ssa.Value) (ssa.Value, int64) {
	off := int64(0)
	for i := 0; i < 8; i++ {
		v = stripConv(v)
		b, ok := v.(*ssa.BinOp)
		if !ok {
			break
		}
		if k, isC := constIntVal(b.Y); isC && b.Op == token.ADD {
			v, off = b.X, off+k
			continue
		}
		if k, isC := constIntVal(b.Y); isC && b.Op == token.SUB {
			v, off = b.X, off-k
			continue
		}
		if k, isC := constIntVal(b.X); isC && b.Op == token.ADD {
			v, off = b.Y, off+k
			continue
		}
		break
	}
	return stripConv(v), off
}

// upperFact: on the given outcome of cond, a fact base + A < len(x): returns (base, x, A).
func upperFact(cond ssa.Value, outcome bool) (ssa.Value, ssa.Value, int64, bool) {
	if u, ok := cond.(*ssa.UnOp); ok && u.Op == token.NOT {
		return upperFact(u.X, !outcome)
	}
	b, ok := cond.(*ssa.BinOp)
	if !ok {
		return nil, nil, 0, false
	}
	op := b.Op
	if !outcome {
		switch op {
		case token.LSS:
			op = token.GEQ
		case token.LEQ:
			op = token.GTR
		case token.GTR:
			op = token.LEQ
		case token.GEQ:
			op = token.LSS
		default:
			return nil, nil, 0, false
		}
	}
	l, r := b.X, b.Y
	switch op {
	case token.GTR:
		l, r, op = r, l, token.LSS
	case token.GEQ:
		l, r, op = r, l, token.LEQ
	}
	if op != token.LSS && op != token.LEQ {
		return nil, nil, 0, false
	}
	// l (<|<=) r with r = len(x) - c
	x, c, ok := lenMinus(r)
	if !ok {
		return nil, nil, 0, false
	}
	base, a := baseOff(l)
	if _, isC := base.(*ssa.Const); isC {
		return nil, nil, 0, false
	}
	A := a + c
	if op == token.LEQ {
		A--
	}
	return base, x, A, true
}

// proveVar: idx < len(x) at the instruction, from dominating comparisons.
func (bc *boundsCtx) proveVar(s *idxSite, at ssa.Instruction) {
	base, off := baseOff(s.idx)
	if off < 0 {
		s.skip = true
		s.why = "index with a negative offset (lower bound not decided)"
		return
	}
	try := func(cond ssa.Value, outcome bool, from, to *ssa.BasicBlock) bool {
		fb, fx, A, ok := upperFact(cond, outcome)
		if !ok || off > A || !bc.sameSeq(fx, s.x) {
			return false
		}
		if fb != base {
			// two evaluations of len(y) for one y are the same number; two loads of one local
			// cell (a variable captured by a closure) are the same number if nothing can have
			// written the cell in between
			ly, lb := lenOf(fb), lenOf(base)
			l1, ok1 := fb.(*ssa.UnOp)
			l2, ok2 := base.(*ssa.UnOp)
			switch {
			case ly != nil && lb != nil && bc.sameSeq(ly, lb):
			case ok1 && ok2 && l1.Op == token.MUL && l2.Op == token.MUL && l1.X == l2.X:
				if _, isCell := l1.X.(*ssa.Alloc); !isCell || bc.writeBetween(from, to, at, l1.X) {
					return false
				}
			default:
				return false
			}
		}
		if fx != s.x {
			if ld, isLd := s.x.(*ssa.UnOp); isLd && bc.storeBetween(from, to, at, ld.X) {
				return false
			}
		}
		return true
	}
	ub := at.Block()
	for b := ub.Idom(); b != nil; b = b.Idom() {
		iff, ok := b.Instrs[len(b.Instrs)-1].(*ssa.If)
		if !ok {
			continue
		}
		for si, succ := range b.Succs {
			if succ == b.Succs[1-si] || !succ.Dominates(ub) {
				continue
			}
			entryOK := true
			for _, p := range succ.Preds {
				if p != b && !succ.Dominates(p) {
					entryOK = false
				}
			}
			if entryOK && try(iff.Cond, si == 0, b, succ) {
				s.ok, s.byCmp, s.why = true, true, "under a dominating test that the index is below the length"
				return
			}
		}
	}
	s.why = "no dominating test shows the index to be below the length"
}

func seqName(v ssa.Value) string {
	n := pathName(v)
	if n == "" {
		n = v.Name()
	}
	return n
}

func boundsSites(fn *ssa.Function) []*idxSite {
	bc := &boundsCtx{fn: fn}
	var out []*idxSite
	add := func(at ssa.Instruction, x ssa.Value, need int64, desc string) {
		if need <= 0 || !isSliceOrString(x.Type()) {
			return
		}
		s := &idxSite{fn: fn, pos: at.Pos(), x: x, need: need, desc: desc}
		if s.pos == token.NoPos {
			if v, ok := at.(ssa.Value); ok {
				for _, r := range *v.Referrers() {
					if r.Pos() != token.NoPos {
						s.pos = r.Pos()
						break
					}
				}
			}
		}
		bc.prove(s, at)
		out = append(out, s)
	}
	index := func(at ssa.Instruction, x, idx ssa.Value) {
		if k, ok := constIntVal(idx); ok {
			add(at, x, k+1, fmt.Sprintf("%s[%d]", seqName(x), k))
			return
		}
		if lx, c, ok := lenMinus(idx); ok && c >= 1 && bc.sameSeq(lx, x) {
			add(at, x, c, fmt.Sprintf("%s[len-%d]", seqName(x), c))
			return
		}
		if !boundsVarIndex || !isSliceOrString(x.Type()) {
			return
		}
		if isRangeIndex(idx) {
			return // the index variable of a range loop over x: in bounds by construction
		}
		base, off := baseOff(idx)
		desc := fmt.Sprintf("%s[%s", seqName(x), seqName(base))
		if off != 0 {
			desc += fmt.Sprintf("%+d", off)
		}
		s := &idxSite{fn: fn, pos: at.Pos(), x: x, idx: idx, desc: desc + "]", variable: true}
		bc.proveVar(s, at)
		out = append(out, s)
	}
	for _, b := range fn.Blocks {
		for _, ins := range b.Instrs {
			switch x := ins.(type) {
			case *ssa.IndexAddr:
				index(x, x.X, x.Index)
			case *ssa.Lookup:
				if !x.CommaOk {
					index(x, x.X, x.Index)
				}
			case *ssa.Slice:
				if x.High != nil {
					if lx, c, ok := lenMinus(x.High); ok && c >= 1 && bc.sameSeq(lx, x.X) {
						add(x, x.X, c, fmt.Sprintf("%s[:len-%d]", seqName(x.X), c))
					}
				}
				if x.Low != nil && x.High == nil {
					if k, ok := constIntVal(x.Low); ok && k >= 1 {
						add(x, x.X, k, fmt.Sprintf("%s[%d:]", seqName(x.X), k))
					} else if lx, c, ok := lenMinus(x.Low); ok && c >= 1 && bc.sameSeq(lx, x.X) {
						add(x, x.X, c, fmt.Sprintf("%s[len-%d:]", seqName(x.X), c))
					}
				}
			}
		}
	}
	return out
}

// Functions that tested lengths before every constant or last-element index on the reference
// tree: they stay under the rule even if every test is removed.
var boundsDisciplined = [][2]string{
	{"hcl", "Diagnostics.Error"}, {"hcl", "RangeScanner.Scan"}, {"hcl", "RelTraversalForExpr"},
	{"hcl", "Traversal.IsRelative"}, {"hcl", "Traversal.SourceRange"}, {"hcl", "mergedBodies.MissingItemRange"},
	{"hclsyntax", "Block.DefRange"}, {"hclsyntax", "Blocks.Range"}, {"hclsyntax", "Body.JustAttributes"},
	{"hclsyntax", "FunctionCallExpr.Value"}, {"hclsyntax", "TemplateExpr.IsStringLiteral"}, {"hclsyntax", "ValidIdentifier"},
	{"hclsyntax", "parser.parseBinaryOps"}, {"hclsyntax", "parser.parseExpressionTerm"}, {"hclsyntax", "parser.parseTemplate"},
	{"hclsyntax", "parser.parseTemplateInner"}, {"hclsyntax", "parser.parseTemplateParts"}, {"hclsyntax", "parser.recoverAfterBodyItem"},
	{"hclsyntax", "templateParser.parseFor"}, {"hclsyntax", "tokenAccum.emitToken"}, {"hclwrite", "blockLabels.Current"},
	{"hclwrite", "formatIndent"}, {"hclwrite", "linesForFormat"}, {"hclwrite", "parseBlockLabels"},
	{"hclwrite", "partitionLineEndTokens"}, {"hclwrite", "tokenIsNewline"}, {"json", "body.unpackBlock"},
	{"json", "navigation.ContextString"}, {"json", "scan"},
}

// Functions in which every variable index x[i] (i with a non-negative constant offset) was proven
// to be below len(x) on the reference tree.
var boundsVarDisciplined = [][2]string{
	{"ext/dynblock", "expandBody.decodeSpec"}, {"hclsyntax", "FunctionCallExpr.Value"}, {"hclsyntax", "meldConsecutiveStringLiterals"},
	{"hclsyntax", "peeker.nextToken"}, {"hclwrite", "formatSpaces"}, {"hclwrite", "partitionLineEndTokens"},
	{"hclwrite", "partitionTokens"}, {"json", "scanKeyword"}, {"json", "scanNumber"},
	{"json", "scanString"}, {"json", "skipWhitespace"},
}

// Named exceptions: unproven sites in disciplined functions, with the invariant that makes them safe.
var boundsExceptions = map[string]string{}

var dumpBounds = os.Getenv("HCLCHECK_DUMP_BOUNDS") != ""
var boundsVarIndex = true
var bc0 = &boundsCtx{}

func c15BoundedIndex(c *Ctx) {
	c.Rule("R10 bounded.index (contradiction rule): in hcl, hclsyntax, json, hclwrite, hcldec, ext/dynblock, a sequence whose length is tested before one constant or last-element index/slice in a function is tested before every such index in that function, and the functions in which every such index was proven on the reference tree (table) keep every one proven: x[c] under len(x) ≥ c+1, x[len(x)-c] and x[:len(x)-c] under len(x) ≥ c, on every path, by dominating comparisons of len(x) with constants or by construction (make/append/literal). Sequences that are never length-tested in a function rely on invariants established elsewhere and are not decided. Variable indices x[i+k] (k ≥ 0, not the index variable of a range loop) are decided in the functions where every one of them was proven on the reference tree (table): each stays under a dominating comparison i+k < len(x) (in any of its forms, also through len(x)-c); negative offsets and lower bounds are not decided")
	fns := c.P.pkgFuncs(c.Scope("hcl", "hclsyntax", "json", "hclwrite", "hcldec", "ext/dynblock")...)
	sort.Slice(fns, func(i, j int) bool { return FuncName(fns[i]) < FuncName(fns[j]) })
	nDisc, nSites, nSkipped := 0, 0, 0
	refFn, refVarFn := map[*ssa.Function]bool{}, map[*ssa.Function]bool{}
	for _, e := range boundsDisciplined {
		if f := c.P.LookupFunc(e[0], e[1]); f != nil {
			refFn[f] = true
		}
	}
	for _, e := range boundsVarDisciplined {
		if f := c.P.LookupFunc(e[0], e[1]); f != nil {
			refVarFn[f] = true
		}
	}
	for _, fn := range fns {
		if fn.Synthetic != "" || len(fn.Blocks) == 0 {
			continue
		}
		if f := c.P.Fset.File(fn.Pos()); f != nil && (strings.HasSuffix(f.Name(), "scan_tokens.go") || strings.HasSuffix(f.Name(), "scan_string_lit.go")) {
			continue // generated Ragel machines
		}
		sites := boundsSites(fn)
		if len(sites) == 0 {
			continue
		}
		name := FuncName(fn)
		byCmp := false
		varAll, varAny := true, false
		for _, s := range sites {
			if s.skip {
				continue
			}
			if s.variable {
				varAny = true
				varAll = varAll && s.ok
				continue
			}
			if s.byCmp {
				byCmp = true
			}
		}
		ref, refVar := refFn[fn], refVarFn[fn]
		if dumpBounds && fn.Parent() == nil {
			all := true
			for _, s := range sites {
				if !s.variable && !s.skip {
					all = all && s.ok
				}
			}
			k, _ := funcKeyAndSig(fn)
			if all && byCmp {
				fmt.Printf("BOUNDS-REF\t{%q, %q},\n", shortPkg(fnPkg(fn).Path()), k)
			}
			if varAny && varAll {
				fmt.Printf("BOUNDS-VAR\t{%q, %q},\n", shortPkg(fnPkg(fn).Path()), k)
			}
		}
		counted := false
		for _, s := range sites {
			if s.skip {
				nSkipped++
				continue
			}
			if s.variable {
				// variable indices: only in the functions where every one was proven on the reference tree
				if !refVar {
					if !s.ok {
						nSkipped++
					}
					continue
				}
			} else if !byCmp && !ref {
				nSkipped++
				continue
			} else if !s.ok && !ref {
				// contradiction: the same sequence is tested before another index in this function
				tested := false
				for _, t := range sites {
					if !t.variable && t.byCmp && bc0.sameSeq(t.x, s.x) {
						tested = true
					}
				}
				if !tested {
					nSkipped++
					continue
				}
			}
			if !counted {
				counted = true
				nDisc++
				c.Fn(name)
			}
			nSites++
			c.Sites++
			key := fmt.Sprintf("%s:%s", name, s.desc)
			if exc, ok := boundsExceptions[key]; ok && !s.ok {
				c.OK("bounded.index", key, s.pos, "named exception: "+exc)
				continue
			}
			what := fmt.Sprintf("%s needs len ≥ %d but %s", s.desc, s.need, s.why)
			if s.variable {
				what = s.desc + ": " + s.why
			}
			c.Check(s.ok, "bounded.index", key, s.pos, s.why,
				what+", while other indexing in this function is guarded: panics (index out of range) on input for which the sequence is shorter")
		}
	}
	c.Floor("bounded.index disciplined functions", nDisc, 8, "functions of the front ends that guard their constant / last-element indexing")
	c.Assumption(fmt.Sprintf("bounded.index: %d constant/last-element index sites in functions that never test a length are not decided (they rely on invariants established elsewhere)", nSkipped))
}
