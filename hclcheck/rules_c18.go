package main

import (
	"fmt"
	"go/token"
	"go/types"
	"sort"

	"golang.org/x/tools/go/ssa"
)

func init() { register("C18", checkC18) }

func checkC18(c *Ctx) {
	c18ExpandBlocks(c)
	c18EvalContext(c)
	c18Scopes(c)
	c18Inherit(c)
	c18LabelCount(c)
	c08UnknownBody(c)  // R4: block specs agree on unknown bodies
	c07Dynblock(c)     // R5: variables reported for expansion
	c07VisitRecurse(c) // ChildBlockTypes feeds the dynamic-block walkers
	c.NotCovered("the 'as if written out' equality of decoded values; iteration order of the for_each collection (delegated to cty's ElementIterator)")
	c.Rule("R9 unknown.noerror (shared with C05): in ext/dynblock, an operand (for_each, labels, iterator) that evaluates to cty.DynamicVal takes no branch, decided by the fixed answers of the cty predicates on such a value, after which an error is recorded on every path: an unknown for_each is expanded to an unknown body, never rejected")
	var dynFns []*ssa.Function
	for _, fn := range c.P.pkgFuncs("ext/dynblock") {
		dynFns = append(dynFns, fn)
	}
	sort.Slice(dynFns, func(i, j int) bool { return dynFns[i].Pos() < dynFns[j].Pos() })
	c05UnknownNoError(c, "unknown.noerror", dynFns)
}

// R1/R2: every block produced by expandBlocks gets an expanded child body with the right iteration.
func c18ExpandBlocks(c *Ctx) {
	c.Rule("R1 expand.child: every *hcl.Block that expandBody.expandBlocks appends to its result has its Body assigned from b.expandChild(…) (directly or as the template of an unknownBody); generated blocks (known and unknown for_each) pass the NEW child iteration made by b.iteration.MakeChild, static blocks pass b.iteration")
	c.Rule("R2 expand.order: expandBlocks appends in one loop over the raw blocks, in loop order, and never sorts or re-orders the result")
	fn := c.P.LookupFunc("ext/dynblock", "expandBody.expandBlocks")
	ec := c.P.LookupFunc("ext/dynblock", "expandBody.expandChild")
	mk := c.P.LookupFunc("ext/dynblock", "iteration.MakeChild")
	nb := c.P.LookupFunc("ext/dynblock", "expandSpec.newBlock")
	if fn == nil || ec == nil || mk == nil || nb == nil {
		c.CheckerFail("expand.child", "anchor expandBlocks / expandChild / MakeChild / newBlock does not resolve")
		return
	}
	c.Fn(FuncName(fn))
	var analyseBlock func(f *ssa.Function, blk ssa.Value, at *ssa.BasicBlock, pos token.Pos, depth int)
	analyseBlock = func(f *ssa.Function, blk ssa.Value, at *ssa.BasicBlock, pos token.Pos, depth int) {
		frecv := f.Params[0]
		isRecvIteration := func(v ssa.Value) bool {
			u, ok := v.(*ssa.UnOp)
			if !ok {
				return false
			}
			fa, ok := u.X.(*ssa.FieldAddr)
			if !ok {
				return false
			}
			fv := fieldVarOf(fa.X.Type(), fa.Field)
			return fv != nil && fv.Name() == "iteration" && (fa.X == ssa.Value(frecv) || isSpillOf(fa.X, frecv))
		}
		kind := "static"
		var blockObj ssa.Value = blk
		// generated blocks come from spec.newBlock
		if ex, ok := blk.(*ssa.Extract); ok {
			if c2, ok := ex.Tuple.(*ssa.Call); ok && c2.Call.StaticCallee() == nb {
				kind = "generated"
			}
		}
		// a helper method of the body that makes the block: judged on what it returns
		hcall, hidx := (*ssa.Call)(nil), 0
		if c2, ok := blk.(*ssa.Call); ok {
			hcall = c2
		} else if ex, ok := blk.(*ssa.Extract); ok {
			if c2, ok := ex.Tuple.(*ssa.Call); ok && c2.Call.StaticCallee() != nb {
				hcall, hidx = c2, ex.Index
			}
		}
		if c2 := hcall; c2 != nil && depth < 2 {
			if h := c2.Call.StaticCallee(); h != nil && h != nb && inModule(h) && len(h.Blocks) > 0 && h.Signature.Recv() != nil && namedOf(h.Signature.Recv().Type()) == namedOf(f.Signature.Recv().Type()) && len(c2.Call.Args) > 0 && (c2.Call.Args[0] == ssa.Value(frecv) || isSpillOf(c2.Call.Args[0], frecv)) {
				for _, hb := range h.Blocks {
					if r, ok := hb.Instrs[len(hb.Instrs)-1].(*ssa.Return); ok && len(r.Results) > hidx {
						if cn, ok := r.Results[hidx].(*ssa.Const); ok && cn.IsNil() {
							continue // no block made on this path
						}
						analyseBlock(h, r.Results[hidx], hb, r.Pos(), depth+1)
					}
				}
				return
			}
		}
		// the Body store on that block object
		var bodyStore *ssa.Store
		for _, b2 := range f.Blocks {
			for _, i2 := range b2.Instrs {
				s2, ok := i2.(*ssa.Store)
				if !ok {
					continue
				}
				fa, ok := s2.Addr.(*ssa.FieldAddr)
				if !ok {
					continue
				}
				fv := fieldVarOf(fa.X.Type(), fa.Field)
				if fv == nil || fv.Name() != "Body" || !isNamed(fa.X.Type(), modPath, "Block") {
					continue
				}
				if fa.X == blockObj && (s2.Block() == at || s2.Block().Dominates(at) || coveredUnlessNil(f, blockObj, s2.Block(), at)) {
					bodyStore = s2
				}
			}
		}
		key := fmt.Sprintf("ext/dynblock.expandBody.expandBlocks:append[%s]", kind)
		if bodyStore == nil {
			c.Fail("expand.child", key, pos, "a block is appended to the expansion result without its Body being replaced by an expanded child body: nested dynamic blocks and iterator references inside it are not processed")
			return
		}
		// value stored: expandChild(...) or unknownBody{template: expandChild(...)}
		var ecCall *ssa.Call
		val := bodyStore.Val
		if mi, ok := val.(*ssa.MakeInterface); ok {
			val = mi.X
		}
		if c3, ok := val.(*ssa.Call); ok && c3.Call.StaticCallee() == ec {
			ecCall = c3
		} else if u, ok := val.(*ssa.UnOp); ok && u.Op == token.MUL {
			if al2, ok := u.X.(*ssa.Alloc); ok && isNamed(al2.Type(), modPath+"/ext/dynblock", "unknownBody") {
				kind += "-unknown"
				key = fmt.Sprintf("ext/dynblock.expandBody.expandBlocks:append[%s]", kind)
				for _, s3 := range storesInto(al2) {
					if fa, ok := s3.Addr.(*ssa.FieldAddr); ok {
						if fv := fieldVarOf(fa.X.Type(), fa.Field); fv != nil && fv.Name() == "template" {
							v3 := s3.Val
							if mi, ok := v3.(*ssa.MakeInterface); ok {
								v3 = mi.X
							}
							if c3, ok := v3.(*ssa.Call); ok && c3.Call.StaticCallee() == ec {
								ecCall = c3
							}
						}
					}
				}
			}
		}
		if ecCall == nil {
			c.Fail("expand.child", key, bodyStore.Pos(), "the Body of a block in the expansion result is not produced by expandChild")
			return
		}
		iterArg := ecCall.Call.Args[2]
		fromMakeChild := false
		if c4, ok := iterArg.(*ssa.Call); ok && c4.Call.StaticCallee() == mk {
			fromMakeChild = true
		}
		switch {
		case kind == "static":
			c.Check(isRecvIteration(iterArg), "expand.child", key, ecCall.Pos(), "static block inherits b.iteration",
				"a static block's child body is expanded with an iteration other than b.iteration: inherited iterators are not visible inside it")
		default:
			c.Check(fromMakeChild, "expand.child", key, ecCall.Pos(), "generated block gets the new child iteration",
				"the child body of a generated block is expanded with an iteration that is not the new one made by MakeChild (e.g. the parent's): the block's own iterator is not bound inside it")
		}
	}
	// every append to the []*hcl.Block result
	n := 0
	for _, b := range fn.Blocks {
		for _, ins := range b.Instrs {
			call, ok := ins.(*ssa.Call)
			if !ok {
				continue
			}
			bi, ok := call.Call.Value.(*ssa.Builtin)
			if !ok || bi.Name() != "append" || !isNamed(call.Type(), modPath, "Blocks") {
				if ok && bi.Name() == "append" {
					// []*hcl.Block unnamed
					if s := sliceElem(call.Type()); !isNamed(s, modPath, "Block") {
						continue
					}
				} else {
					continue
				}
			}
			sl, ok := call.Call.Args[1].(*ssa.Slice)
			if !ok {
				continue
			}
			al, ok := sl.X.(*ssa.Alloc)
			if !ok {
				continue
			}
			for _, st := range storesInto(al) {
				n++
				analyseBlock(fn, st.Val, st.Block(), call.Pos(), 0)
			}
		}
	}
	c.Floor("expand.child appended blocks", n, 2, "known for_each, unknown for_each, static block")
	// no sort of the result
	sorted := false
	for _, b := range fn.Blocks {
		for _, ins := range b.Instrs {
			if call, ok := ins.(*ssa.Call); ok {
				if cal := call.Call.StaticCallee(); cal != nil {
					if pk := fnPkg(cal); pk != nil && (pk.Path() == "sort" || pk.Path() == "slices") {
						sorted = true
					}
				}
			}
		}
	}
	c.Check(!sorted, "expand.order", "ext/dynblock.expandBody.expandBlocks:nosort", fn.Pos(), "result keeps loop order", "expandBlocks re-orders its result: source order of static and generated blocks is lost")
}

// R3a: own iterator binding wins over inherited ones.
func c18EvalContext(c *Ctx) {
	c.Rule("R3 evalctx.order: in iteration.EvalContext the binding of the iteration's own iterator name is the last update of the new Variables map on every path (an inherited iterator of the same name must not shadow the innermost one)")
	fn := c.P.LookupFunc("ext/dynblock", "iteration.EvalContext")
	if fn == nil {
		c.CheckerFail("evalctx.order", "anchor iteration.EvalContext does not resolve")
		return
	}
	c.Fn(FuncName(fn))
	var own, inherited []*ssa.MapUpdate
	for _, b := range fn.Blocks {
		for _, ins := range b.Instrs {
			mu, ok := ins.(*ssa.MapUpdate)
			if !ok {
				continue
			}
			isOwn := false
			for fv := range fieldTrail(mu.Key) {
				if fv.Name() == "IteratorName" {
					isOwn = true
				}
			}
			if isOwn {
				own = append(own, mu)
			} else {
				inherited = append(inherited, mu)
			}
		}
	}
	if len(own) != 1 || len(inherited) == 0 {
		c.Fail("evalctx.order", "ext/dynblock.iteration.EvalContext:bindings", fn.Pos(), fmt.Sprintf("expected one own-iterator binding and the inherited bindings, found %d and %d", len(own), len(inherited)))
		return
	}
	// no inherited update is reachable after the own update
	reach := reachFrom(fn, own[0].Block())
	bad := false
	for _, mu := range inherited {
		if reach[mu.Block()] {
			bad = true
		}
		if mu.Block() == own[0].Block() {
			after := false
			for _, ins := range mu.Block().Instrs {
				if ins == ssa.Instruction(own[0]) {
					after = true
				}
				if ins == ssa.Instruction(mu) && after {
					bad = true
				}
			}
		}
	}
	c.Check(!bad, "evalctx.order", "ext/dynblock.iteration.EvalContext:own-last", own[0].Pos(), "own iterator bound last",
		"an inherited iterator can be written into Variables after the iteration's own iterator: with nested dynamic blocks that share an iterator name the outer iteration shadows the innermost one")
}

// R3b: labels and content attributes are evaluated in the iterator scope.
func c18Scopes(c *Ctx) {
	c.Rule("R3 scope: expandSpec.newBlock evaluates every label expression in i.EvalContext(ctx) of the iteration it is given; exprWrap.Value evaluates the wrapped expression in e.i.EvalContext(ctx) whenever an iteration is present; decodeSpec evaluates for_each in b.forEachCtx")
	ev := c.P.LookupFunc("ext/dynblock", "iteration.EvalContext")
	if ev == nil {
		c.CheckerFail("scope", "anchor iteration.EvalContext does not resolve")
		return
	}
	check := func(fnName, what string, wantIterCtx bool) {
		fn := c.P.LookupFunc("ext/dynblock", fnName)
		if fn == nil {
			c.CheckerFail("scope", "anchor "+fnName+" does not resolve")
			return
		}
		c.Fn(FuncName(fn))
		n := 0
		for _, b := range fn.Blocks {
			for _, ins := range b.Instrs {
				call, ok := ins.(*ssa.Call)
				if !ok || !call.Call.IsInvoke() || call.Call.Method.Name() != "Value" || len(call.Call.Args) != 1 {
					continue
				}
				n++
				ctx := call.Call.Args[0]
				// the edge (p -> to) or block b is only taken when there is no iteration
				nilGuard := func(p, to *ssa.BasicBlock) bool {
					isNilTest := func(blk, succ *ssa.BasicBlock) bool {
						iff, ok := lastIf(blk)
						if !ok || blk.Succs[0] == blk.Succs[1] {
							return false
						}
						bo, ok := iff.Cond.(*ssa.BinOp)
						if !ok || !(isNilConst(bo.X) || isNilConst(bo.Y)) {
							return false
						}
						other := bo.X
						if isNilConst(bo.X) {
							other = bo.Y
						}
						if pt, ok := other.Type().(*types.Pointer); !ok || !isNamed(pt.Elem(), dynblockPath, "iteration") {
							return false
						}
						nilEdge := 0
						if bo.Op == token.NEQ {
							nilEdge = 1
						}
						return blk.Succs[nilEdge] == succ
					}
					if to != nil && isNilTest(p, to) {
						return true
					}
					for d := p; d != nil && d.Idom() != nil; d = d.Idom() {
						if len(d.Preds) == 1 && isNilTest(d.Idom(), d) {
							return true
						}
					}
					return false
				}
				// every origin of the context is the iteration's context, or the caller's on a no-iteration path
				var iterOnly func(v ssa.Value, at *ssa.BasicBlock, d int) (allIter bool, ok bool)
				iterOnly = func(v ssa.Value, at *ssa.BasicBlock, d int) (bool, bool) {
					if d > 6 {
						return false, false
					}
					if ld, isLd := v.(*ssa.UnOp); isLd && ld.Op == token.MUL {
						if al, isAl := ld.X.(*ssa.Alloc); isAl {
							if st := reachingStore(al, ld); st != nil {
								return iterOnly(st.Val, st.Block(), d+1)
							}
							// several stores: every one of them must qualify where it is made
							all := true
							for _, st := range storesInto(al) {
								it, ok := iterOnly(st.Val, st.Block(), d+1)
								if !ok {
									return false, false
								}
								all = all && it
							}
							return all, true
						}
					}
					if c2, isCall := v.(*ssa.Call); isCall && c2.Call.StaticCallee() == ev {
						return true, true
					}
					if phi, isPhi := v.(*ssa.Phi); isPhi {
						all := true
						for i, e := range phi.Edges {
							it, ok := iterOnly(e, phi.Block().Preds[i], d+1)
							if !ok {
								if nilGuard(phi.Block().Preds[i], phi.Block()) {
									all = false
									continue
								}
								return false, false
							}
							all = all && it
						}
						return all, true
					}
					// the caller's context
					if nilGuard(at, nil) {
						return false, true
					}
					return false, false
				}
				allIter, okCtx := iterOnly(ctx, b, 0)
				fromIter := okCtx && allIter
				key := "ext/dynblock." + fnName + ":eval[" + what + "]"
				if wantIterCtx {
					if !fromIter {
						c.Check(okCtx, "scope", key, call.Pos(), "outer context only when there is no iteration",
							what+" is evaluated in the caller's context although an iteration exists: the iterator variables are not bound")
						continue
					}
					c.OK("scope", key, call.Pos(), "evaluated in the iteration's context")
				} else {
					c.Check(!fromIter, "scope", key, call.Pos(), "evaluated in the enclosing context", what+" is evaluated with the block's own iterator bound")
				}
			}
		}
		if n == 0 {
			c.Fail("scope", "ext/dynblock."+fnName+":eval["+what+"]", fn.Pos(), "no evaluation found")
		}
	}
	check("expandSpec.newBlock", "labels", true)
	check("exprWrap.Value", "wrapped expression", true)
	check("expandBody.decodeSpec", "for_each", false)
}

// R6: a child iteration inherits every enclosing iterator.
func c18Inherit(c *Ctx) {
	c.Rule("R6 inherit.complete: the iteration built by (*iteration).MakeChild for a non-nil parent has an Inherited map that receives every entry of the parent's Inherited map (a range-copy loop over it) and the parent itself under the parent's IteratorName — an attribute at nesting depth three or more can still refer to the outermost iterator")
	fn := c.P.LookupFunc("ext/dynblock", "iteration.MakeChild")
	if fn == nil {
		c.CheckerFail("inherit.complete", "anchor (*iteration).MakeChild does not resolve")
		return
	}
	c.Fn(FuncName(fn))
	recv := fn.Params[0]
	copied, self := false, false
	for _, b := range fn.Blocks {
		for _, ins := range b.Instrs {
			mu, ok := ins.(*ssa.MapUpdate)
			if !ok {
				continue
			}
			mt, ok := mu.Map.Type().Underlying().(*types.Map)
			if !ok {
				continue
			}
			if pt, ok := mt.Elem().(*types.Pointer); !ok || !isNamed(pt.Elem(), dynblockPath, "iteration") {
				continue
			}
			// key/value yielded by ranging over recv.Inherited
			if ex, ok := mu.Key.(*ssa.Extract); ok {
				if nx, ok := ex.Tuple.(*ssa.Next); ok {
					if rg, ok := nx.Iter.(*ssa.Range); ok {
						if lf := loadedField(rg.X); lf != nil && lf.Name() == "Inherited" {
							if vx, ok := mu.Value.(*ssa.Extract); ok && vx.Tuple == ex.Tuple {
								copied = true
							}
						}
					}
				}
			}
			// recv under recv.IteratorName
			if mu.Value == ssa.Value(recv) || isSpillOf(mu.Value, recv) {
				if lf := loadedField(mu.Key); lf != nil && lf.Name() == "IteratorName" {
					self = true
				}
			}
		}
	}
	c.Sites += 2
	c.Check(copied, "inherit.complete", "ext/dynblock.iteration.MakeChild:copy[Inherited]", fn.Pos(), "parent's inherited iterators copied", "the child iteration does not receive the parent's inherited iterators: iterators of blocks two or more levels up are unknown inside the child")
	c.Check(self, "inherit.complete", "ext/dynblock.iteration.MakeChild:parent", fn.Pos(), "parent bound under its iterator name", "the child iteration does not inherit its parent iterator")
}

// coveredUnlessNil: every path from the entry of f to block at passes through block via, except
// paths that leave a nil test of v on its nil edge (v is nil there: no block was made).
func coveredUnlessNil(f *ssa.Function, v ssa.Value, via, at *ssa.BasicBlock) bool {
	if len(f.Blocks) == 0 {
		return false
	}
	seen := map[*ssa.BasicBlock]bool{}
	var walk func(b *ssa.BasicBlock) bool // true if at is reached
	walk = func(b *ssa.BasicBlock) bool {
		if b == via || seen[b] {
			return false
		}
		if b == at {
			return true
		}
		seen[b] = true
		skip := -1
		if iff, ok := b.Instrs[len(b.Instrs)-1].(*ssa.If); ok {
			if bo, ok := iff.Cond.(*ssa.BinOp); ok && (bo.Op == token.NEQ || bo.Op == token.EQL) {
				var other ssa.Value
				if bo.X == v {
					other = bo.Y
				} else if bo.Y == v {
					other = bo.X
				}
				if cn, ok := other.(*ssa.Const); ok && cn.IsNil() {
					if bo.Op == token.NEQ {
						skip = 1
					} else {
						skip = 0
					}
				}
			}
		}
		for i, su := range b.Succs {
			if i == skip {
				continue
			}
			if walk(su) {
				return true
			}
		}
		return false
	}
	return !walk(f.Blocks[0])
}

// label.count: a dynamic block spec is accepted only with exactly as many label expressions as
// the block type has label names.
func c18LabelCount(c *Ctx) {
	c.Rule("label.count: in expandBody.decodeSpec the label expressions that are stored in the expandSpec (and later become the labels of every generated block) come from hcl.ExprList only on paths where the comparisons of len(labelExprs) with len(blockS.LabelNames) have established equality (not greater and not less, or an equality test): a generated block with fewer labels than its schema declares is handed to Content/PartialContent as if it were well-formed, and consumers index labels by the schema's count")
	fn := c.P.LookupFunc("ext/dynblock", "expandBody.decodeSpec")
	if fn == nil {
		c.CheckerFail("label.count", "anchor expandBody.decodeSpec does not resolve")
		return
	}
	c.Fn(FuncName(fn))
	// the store into expandSpec.labelExprs
	n := 0
	for _, b := range fn.Blocks {
		for _, ins := range b.Instrs {
			st, ok := ins.(*ssa.Store)
			if !ok {
				continue
			}
			fa, ok := st.Addr.(*ssa.FieldAddr)
			if !ok {
				continue
			}
			fv := fieldVarOf(fa.X.Type(), fa.Field)
			if fv == nil || fv.Name() != "labelExprs" || !isNamed(fa.X.Type(), modPath+"/ext/dynblock", "expandSpec") {
				continue
			}
			// origins of the stored value
			type origin struct {
				v     ssa.Value
				at    *ssa.BasicBlock
				extra []ctlEdge // the branch edge by which the predecessor enters the phi's block
			}
			var origins []origin
			var expand func(v ssa.Value, at *ssa.BasicBlock, extra []ctlEdge, d int)
			expand = func(v ssa.Value, at *ssa.BasicBlock, extra []ctlEdge, d int) {
				if ph, ok := v.(*ssa.Phi); ok && d < 4 {
					for i, e := range ph.Edges {
						p := ph.Block().Preds[i]
						var ex []ctlEdge
						if pif, ok := p.Instrs[len(p.Instrs)-1].(*ssa.If); ok && p.Succs[0] != p.Succs[1] {
							ex = append(ex, ctlEdge{pif, p.Succs[0] == ph.Block()})
						}
						expand(e, p, ex, d+1)
					}
					return
				}
				origins = append(origins, origin{v, at, extra})
			}
			expand(st.Val, b, nil, 0)
			for _, o := range origins {
				if cn, ok := o.v.(*ssa.Const); ok && cn.IsNil() {
					continue // no labels attribute: the schema requires one whenever the type has labels
				}
				n++
				c.Sites++
				// comparisons of len(o.v) with len(<…>.LabelNames) on the way
				notGreater, notLess := false, false
				for _, ce := range append(append([]ctlEdge{}, o.extra...), ctlEdges(o.at)...) {
					bo, ok := ce.iff.Cond.(*ssa.BinOp)
					if !ok {
						continue
					}
					isLenOf := func(v ssa.Value, want func(ssa.Value) bool) bool {
						x := lenOf(stripConv(v))
						return x != nil && want(x)
					}
					isExprs := func(x ssa.Value) bool { return x == o.v }
					isNames := func(x ssa.Value) bool {
						for fv := range fieldTrail(x) {
							if fv.Name() == "LabelNames" {
								return true
							}
						}
						return false
					}
					op := bo.Op
					switch {
					case isLenOf(bo.X, isExprs) && isLenOf(bo.Y, isNames):
					case isLenOf(bo.Y, isExprs) && isLenOf(bo.X, isNames):
						switch op {
						case token.LSS:
							op = token.GTR
						case token.GTR:
							op = token.LSS
						case token.LEQ:
							op = token.GEQ
						case token.GEQ:
							op = token.LEQ
						}
					default:
						continue
					}
					t := ce.onTrue
					switch op {
					case token.GTR:
						if !t {
							notGreater = true
						}
					case token.LSS:
						if !t {
							notLess = true
						}
					case token.LEQ:
						if t {
							notGreater = true
						}
					case token.GEQ:
						if t {
							notLess = true
						}
					case token.EQL:
						if t {
							notGreater, notLess = true, true
						}
					case token.NEQ:
						if !t {
							notGreater, notLess = true, true
						}
					}
				}
				why := ""
				switch {
				case !notLess && !notGreater:
					why = "neither too few nor too many label expressions are excluded"
				case !notLess:
					why = "too few label expressions are not excluded"
				case !notGreater:
					why = "too many label expressions are not excluded"
				}
				c.Check(notLess && notGreater, "label.count", FuncName(fn)+":labelExprs", st.Pos(), "exactly len(LabelNames) label expressions",
					"the label expressions of a dynamic block are accepted although "+why+": every generated block then has a label count that differs from the block type's schema")
			}
		}
	}
	c.Floor("label.count stores", n, 1, "the labelExprs of the expandSpec literal")
}
