package main

import (
	"fmt"
	"go/ast"
	"go/token"
	"go/types"
	"sort"
	"strings"

	"golang.org/x/tools/go/packages"
	"golang.org/x/tools/go/ssa"
)

func init() { register("C15", checkC15) }

const hclsyntaxPath = modPath + "/hclsyntax"

func checkC15(c *Ctx) {
	c15NewlineStack(c)
	c15Literals(c)
	c15Progress(c)
	c15Unmarked(c)
	c15Determinism(c)
	c15RecoverReported(c)
	c15Known(c)
	c15DiagsKept(c)
	c.Rule("R9 bounded: every slice of the fixed-size padding buffer in hclwrite.Tokens.WriteTo has an upper bound that is clamped to the buffer's length (a comparison with len(buffer) on every path): the serialiser behind Format and File.Bytes cannot panic on a token that is preceded by many spaces")
	paddingBounded(c, "bounded")
	c15BoundedIndex(c)
	c15NonNil(c)
	c15MustCalls(c)
	c15RuneLenGuard(c)
	c.NotCovered("index-out-of-range / nil dereference / failed type assertion on arbitrary damaged input (value reasoning)")
	c.NotCovered("in-bounds source ranges of diagnostics")
	c.NotCovered("progress of byte-level scanners (Ragel machines, json scanner): arithmetic facts")
	c.NotCovered("'same result when called again' beyond the structural determinism rule R5")
}

// R1: newline-stack balance (E-pair instance).
func c15NewlineStack(c *Ctx) {
	c.Rule("R1 pair.newlines: in every hclsyntax function each (*peeker).PushIncludeNewlines is matched by exactly one PopIncludeNewlines on every path to every return (deferred pops applied at exits, wrapper summaries propagated to callers); package-level entry points have net depth 0 and every AssertEmptyIncludeNewlinesStack call is reached at depth 0")
	push := c.P.LookupFunc("hclsyntax", "peeker.PushIncludeNewlines")
	pop := c.P.LookupFunc("hclsyntax", "peeker.PopIncludeNewlines")
	assert := c.P.LookupFunc("hclsyntax", "peeker.AssertEmptyIncludeNewlinesStack")
	if push == nil || pop == nil || assert == nil {
		c.CheckerFail("pair.newlines", "anchor (*peeker).PushIncludeNewlines/PopIncludeNewlines/AssertEmptyIncludeNewlinesStack does not resolve")
		return
	}
	inst := pairInst{
		name: "IncludeNewlines stack",
		classify: func(call *ssa.CallCommon) (int, string) {
			switch staticCallee(call) {
			case push:
				return 1, "PushIncludeNewlines"
			case pop:
				return -1, "PopIncludeNewlines"
			}
			return 0, ""
		},
		observe: func(call *ssa.CallCommon) string {
			if staticCallee(call) == assert {
				return "AssertEmptyIncludeNewlinesStack"
			}
			return ""
		},
	}
	var fns []*ssa.Function
	for _, f := range c.P.pkgFuncs("hclsyntax") {
		if f == push || f == pop {
			continue
		}
		fns = append(fns, f)
	}
	results := analysePairs(inst, fns)
	pushSites, asserts, relevantFns := 0, 0, 0
	for _, f := range fns {
		r := results[f]
		if !r.relevant && len(r.observed) == 0 {
			continue
		}
		relevantFns++
		name := FuncName(f)
		c.Fn(name)
		for _, s := range r.sites {
			if s.delta > 0 {
				pushSites++
			}
			c.Sites++
		}
		key := name
		switch {
		case len(r.problems) > 0:
			var path []string
			for _, s := range r.sites {
				path = append(path, fmt.Sprintf("%s: %s (%+d)", c.P.Position(s.pos), s.what, s.delta))
			}
			for _, pr := range r.problems {
				c.Fail("pair.newlines", key, pr.pos, pr.msg, path...)
			}
		case len(r.exitDelta) > 1:
			var path []string
			for d, pos := range r.exitDelta {
				path = append(path, fmt.Sprintf("return at %s leaves net depth %+d", c.P.Position(pos), d))
			}
			c.Fail("pair.newlines", key, f.Pos(), "returns disagree on the net IncludeNewlines depth: some exit skips a pop", path...)
		default:
			net := 0
			for d := range r.exitDelta {
				net = d
			}
			// Entry points callable from outside the package must be balanced.
			exportedEntry := f.Parent() == nil && f.Object() != nil && f.Object().Exported() && f.Signature.Recv() == nil
			if exportedEntry && net != 0 {
				c.Fail("pair.newlines", key, f.Pos(), fmt.Sprintf("package entry point returns with net IncludeNewlines depth %+d", net))
			} else {
				c.OK("pair.newlines", key, f.Pos(), fmt.Sprintf("%d push/pop sites balanced on every path (net %+d)", len(r.sites), net))
			}
		}
		for _, o := range r.observed {
			asserts++
			c.Check(o.depth == 0, "pair.newlines.assert", name+":call[AssertEmptyIncludeNewlinesStack]", o.pos,
				"reached at depth 0", fmt.Sprintf("AssertEmptyIncludeNewlinesStack reached at depth %+d: it panics on every input", o.depth))
		}
	}
	c.Floor("pair.newlines push sites", pushSites, 9, "push sites counted by hand in parser.go, parser_template.go, public.go")
	c.Floor("pair.newlines assert sites", asserts, 5, "ParseConfig, ParseExpression, ParseTemplate, ParseTraversalAbs, ParseTraversalPartial")
	_ = relevantFns
}

// R4: every diagnostic literal has a severity and a summary (E-literal).
func c15Literals(c *Ctx) {
	c.Rule("R4 literal.diag: every hcl.Diagnostic composite literal in non-test code of the module sets Severity to DiagError/DiagWarning and Summary to a non-empty expression")
	hclPkg := c.P.Pkg("")
	if hclPkg == nil {
		c.CheckerFail("literal.diag", "root package not loaded")
		return
	}
	diagObj := hclPkg.Types.Scope().Lookup("Diagnostic")
	if diagObj == nil {
		c.CheckerFail("literal.diag", "hcl.Diagnostic does not resolve")
		return
	}
	diagT := diagObj.Type()
	n := 0
	c.P.eachFuncDecl(nil, func(pkg *packages.Package, fd *ast.FuncDecl) {
		fname := declName(pkg, fd)
		idx := 0
		ast.Inspect(fd.Body, func(nd ast.Node) bool {
			cl, ok := nd.(*ast.CompositeLit)
			if !ok {
				return true
			}
			tv, ok := pkg.TypesInfo.Types[cl]
			if !ok || !types.Identical(tv.Type, diagT) {
				return true
			}
			idx++
			n++
			c.Fn(fname)
			var sev, sum ast.Expr
			keyed := true
			for _, el := range cl.Elts {
				kv, ok := el.(*ast.KeyValueExpr)
				if !ok {
					keyed = false
					continue
				}
				if id, ok := kv.Key.(*ast.Ident); ok {
					switch id.Name {
					case "Severity":
						sev = kv.Value
					case "Summary":
						sum = kv.Value
					}
				}
			}
			sumText := ""
			if sum != nil {
				if s, ok := constString(pkg.TypesInfo, sum); ok {
					sumText = s
				} else {
					sumText = "<" + exprStr(sum) + ">"
				}
			}
			key := fmt.Sprintf("%s:diag[%s]", fname, sumText)
			switch {
			case !keyed:
				c.Undecided("literal.diag", key, cl.Pos(), "positional Diagnostic literal")
			case sev == nil:
				c.Fail("literal.diag", key, cl.Pos(), "Diagnostic literal without Severity (zero value DiagInvalid)")
			case sum == nil:
				c.Fail("literal.diag", key, cl.Pos(), "Diagnostic literal without Summary")
			default:
				if s, ok := constString(pkg.TypesInfo, sum); ok && s == "" {
					c.Fail("literal.diag", key, cl.Pos(), "Diagnostic literal with empty Summary")
					return true
				}
				if tvs, ok := pkg.TypesInfo.Types[sev]; ok && tvs.Value != nil && tvs.Value.ExactString() == "0" {
					c.Fail("literal.diag", key, cl.Pos(), "Diagnostic literal with Severity DiagInvalid (0)")
					return true
				}
				c.OK("literal.diag", key, cl.Pos(), "")
			}
			return true
		})
	})
	c.Floor("literal.diag", n, 200, "271 Diagnostic literals counted in non-test function bodies on the pinned tree")
}

// R2: token progress in parser loops (E-progress).
func c15Progress(c *Ctx) {
	c.Rule("R2 progress: every cycle of the CFG of every function in hclsyntax/parser*.go and json/parser.go that inspects the token stream (calls a peeker/templateParser method or a function that may) and is not bounded by a range loop contains a call that always consumes a token ((*peeker).Read, (*templateParser).Read, or a function every path of which reaches one); a cycle without one cannot terminate by running out of input")
	prims := map[*ssa.Function]bool{}
	for _, a := range [][2]string{{"hclsyntax", "peeker.Read"}, {"hclsyntax", "templateParser.Read"}, {"json", "peeker.Read"}} {
		f := c.P.LookupFunc(a[0], a[1])
		if f == nil {
			c.CheckerFail("progress", "anchor "+a[0]+"."+a[1]+" does not resolve")
			return
		}
		prims[f] = true
	}
	fns := c.P.pkgFuncs("hclsyntax", "json")
	stream := map[*ssa.Function]bool{}
	for _, f := range fns {
		if r := f.Signature.Recv(); r != nil && f.Parent() == nil {
			if isNamed(r.Type(), hclsyntaxPath, "peeker") || isNamed(r.Type(), hclsyntaxPath, "templateParser") || isNamed(r.Type(), modPath+"/json", "peeker") {
				stream[f] = true
			}
		}
	}
	e := newProgress(fns, prims, stream)
	nLoops, nConsuming := 0, 0
	for _, f := range fns {
		file := c.P.Position(f.Pos())
		inScope := strings.HasPrefix(file, "hclsyntax/parser") || strings.HasPrefix(file, "json/parser.go")
		if !inScope {
			continue
		}
		name := FuncName(f)
		if e.always[f] {
			nConsuming++
		}
		for _, lp := range e.Loops(f) {
			nLoops++
			c.Fn(name)
			key := fmt.Sprintf("%s:loop", name)
			switch lp.kind {
			case "stuck":
				c.Fail("progress", key, lp.pos, "loop has a cycle that consumes no token ("+lp.detail+"): it cannot terminate by exhausting the input")
			case "consumes":
				c.OK("progress", key, lp.pos, "every cycle passes a token-consuming call")
			case "range":
				c.OK("progress", key, lp.pos, "bounded range loop")
			case "data":
				c.OK("progress", key, lp.pos, "data loop: no cycle inspects the token stream (out of scope of the token-progress rule)")
			default:
				c.Undecided("progress", key, lp.pos, "loop without classification")
			}
		}
	}
	c.Floor("progress loops", nLoops, 15, "≈ 25 loops in the token parsers")
	c.Floor("progress always-consuming functions", nConsuming, 5, "recover*, parseExpr etc.")
}

// R3: no marked-value panic (E-unmarked).
func c15Unmarked(c *Ctx) {
	c.Rule("R3 unmarked: the receiver of every call of a cty.Value method that panics on marked values (" + strings.Join(frozenMarkedPanics, ", ") + ") is provably top-level unmarked: result 0 of Unmark*, a fresh cty constructor/constant, a ValueRange bound, a primitive operation or primitive conversion of unmarked values, a value under the false edge of IsMarked(), a phi/local/captured local of such, or a parameter of an unexported function all of whose call sites pass such")
	e, err := newUnmarkedEngine(c.P)
	if err != nil {
		c.CheckerFail("unmarked", err.Error())
		return
	}
	c.Trust("go-cty v1.16.3: the set of cty.Value methods that panic on marked receivers is re-derived from its SSA on every run and equals the frozen list")
	scope := c.ScopeWith([]string{"gohcl", "hclparse", "hclsimple", "hcled", "ext/userfunc", "ext/transform", "ext/tryfunc"}, "hcl", "hclsyntax", "json", "hcldec", "ext/dynblock")
	fns := c.P.pkgFuncs(scope...)
	sites := e.Sites(fns)
	perFn := map[string]int{}
	for _, s := range sites {
		name := FuncName(s.fn)
		c.Fn(name)
		c.Sites++
		perFn[name+"."+s.method]++
		key := fmt.Sprintf("%s:call[%s]", name, s.method)
		if s.ok {
			c.OK("unmarked", key, s.pos, s.why)
		} else {
			c.Fail("unmarked", key, s.pos, fmt.Sprintf("%s() on a value that is not provably unmarked (%s): panics with \"value is marked\" when the value carries a mark", s.method, s.why))
		}
	}
	for f, why := range e.usedFieldRules {
		c.Assumption("unmarked: named exception " + f + ": " + why)
	}
	c.Floor("unmarked sites", len(sites), 30, "≈ 60 call sites of marked-panicking cty methods in hcl, hclsyntax, json, hcldec, dynblock")
}
func c15Determinism(c *Ctx) {
	var roots []*ssa.Function
	for _, a := range [][2]string{{"hclsyntax", "ParseConfig"}, {"hclsyntax", "ParseExpression"}, {"hclsyntax", "ParseTemplate"}, {"hclsyntax", "ParseTraversalAbs"}, {"hclsyntax", "ParseTraversalPartial"},
		{"json", "Parse"}, {"json", "ParseExpression"}, {"json", "ParseWithStartPos"}, {"json", "ParseExpressionWithStartPos"}, {"hclwrite", "ParseConfig"}, {"hclwrite", "Format"}} {
		f := c.P.LookupFunc(a[0], a[1])
		if f == nil {
			c.CheckerFail("determinism", "anchor "+a[0]+"."+a[1]+" does not resolve")
			continue
		}
		roots = append(roots, f)
	}
	c.Rule("R5 determinism: in the parser/scanner/loader/formatter functions reachable from the parsing entry points: no call into time or math/rand, no read of a package variable that any non-init function writes, and every range over a map whose body appends or calls out is followed (dominated by the loop exit) by a sort of the result")
	reach := c.P.ReachableFrom(roots, inModule)
	inScopeFile := func(file string) bool {
		for _, pre := range []string{"hclsyntax/parser", "hclsyntax/peeker.go", "hclsyntax/token.go", "hclsyntax/scan_", "hclsyntax/public.go", "hclsyntax/keywords.go",
			"json/parser.go", "json/scanner.go", "json/peeker.go", "json/public.go", "hclwrite/parser.go", "hclwrite/format.go", "hclwrite/public.go", "hclwrite/tokens.go", "hclwrite/node.go", "hclwrite/ast", "hclwrite/native_node_sorter.go"} {
			if strings.HasPrefix(file, pre) {
				return true
			}
		}
		return false
	}
	// package variables written outside init
	mutable := map[*ssa.Global]token.Pos{}
	for _, fn := range c.P.pkgFuncs() {
		top := fn
		for top.Parent() != nil {
			top = top.Parent()
		}
		if top.Name() == "init" || strings.HasPrefix(top.Name(), "init#") {
			continue // package initialisation runs once, before any parse
		}
		for _, b := range fn.Blocks {
			for _, ins := range b.Instrs {
				if st, ok := ins.(*ssa.Store); ok {
					if g, ok := rootGlobal(st.Addr); ok {
						mutable[g] = st.Pos()
					}
				}
			}
		}
	}
	var fns []*ssa.Function
	for fn := range reach {
		if inScopeFile(c.P.Position(fn.Pos())) {
			fns = append(fns, fn)
		}
	}
	sort.Slice(fns, func(i, j int) bool { return FuncName(fns[i]) < FuncName(fns[j]) })
	nMapRanges := 0
	for _, fn := range fns {
		name := FuncName(fn)
		c.Fn(name)
		bad := false
		for _, b := range fn.Blocks {
			for _, ins := range b.Instrs {
				switch x := ins.(type) {
				case *ssa.Call:
					if cal := x.Call.StaticCallee(); cal != nil {
						if pk := fnPkg(cal); pk != nil && (pk.Path() == "time" || strings.HasPrefix(pk.Path(), "math/rand")) {
							c.Fail("determinism.source", name+":call["+pk.Name()+"."+cal.Name()+"]", x.Pos(), "parsing path calls "+pk.Path()+"."+cal.Name()+": result may differ between calls")
							bad = true
						}
					}
				case *ssa.UnOp:
					if x.Op == token.MUL {
						if g, ok := rootGlobal(x.X); ok {
							if wpos, isMut := mutable[g]; isMut && strings.HasPrefix(g.Pkg.Pkg.Path(), modPath) {
								c.Fail("determinism.source", name+":global["+g.Name()+"]", x.Pos(), "parsing path reads package variable "+g.Name()+" which is written at "+c.P.Position(wpos))
								bad = true
							}
						}
					}
				case *ssa.Range:
					if _, isMap := x.X.Type().Underlying().(*types.Map); !isMap {
						continue
					}
					nMapRanges++
					key := name + ":maprange"
					sensitive, sorted := mapRangeOrderSensitive(x)
					switch {
					case !sensitive:
						c.OK("determinism.maprange", key, x.Pos(), "loop body neither appends nor calls out: order-independent")
					case sorted:
						c.OK("determinism.maprange", key, x.Pos(), "result is sorted after the loop")
					default:
						c.Fail("determinism.maprange", key, x.Pos(), "range over a map appends/calls in iteration order and no sort follows the loop: result order differs between calls")
					}
				}
			}
		}
		if !bad {
			c.OK("determinism.source", name, fn.Pos(), "no time/rand call, no read of a mutable package variable")
		}
	}
	c.Floor("determinism functions", len(fns), 45, "parser, scanner, loader and formatter functions")
	c.Floor("determinism map ranges", nMapRanges, 2, "hclwrite.parseBody, nodeSet.Clear")
}

func rootGlobal(v ssa.Value) (*ssa.Global, bool) {
	for {
		switch x := v.(type) {
		case *ssa.Global:
			return x, true
		case *ssa.FieldAddr:
			v = x.X
		case *ssa.IndexAddr:
			v = x.X
		default:
			return nil, false
		}
	}
}

// mapRangeOrderSensitive: the loop body (blocks dominated by the block holding
// the Next instruction's body edge) contains an append or a non-builtin call;
// sorted: a call into package sort / slices.Sort* exists in a block dominated by
// the loop's exit.
func mapRangeOrderSensitive(r *ssa.Range) (sensitive, sorted bool) {
	fn := r.Parent()
	// find the loop header: block containing Next(r)
	var header *ssa.BasicBlock
	for _, ref := range *r.Referrers() {
		if nx, ok := ref.(*ssa.Next); ok {
			header = nx.Block()
		}
	}
	if header == nil || len(header.Succs) != 2 {
		return true, false
	}
	body, exit := header.Succs[0], header.Succs[1]
	for _, b := range fn.Blocks {
		if b.Dominates(header) && b != header {
			continue
		}
		inBody := body.Dominates(b)
		afterLoop := exit.Dominates(b)
		for _, ins := range b.Instrs {
			call, ok := ins.(*ssa.Call)
			if !ok {
				continue
			}
			if inBody {
				if bi, ok := call.Call.Value.(*ssa.Builtin); ok {
					if bi.Name() == "append" {
						sensitive = true
					}
					continue
				}
				sensitive = true
			}
			if afterLoop {
				if cal := call.Call.StaticCallee(); cal != nil {
					if pk := fnPkg(cal); pk != nil && (pk.Path() == "sort" || (pk.Path() == "slices" && strings.HasPrefix(cal.Name(), "Sort"))) {
						sorted = true
					}
				}
			}
		}
	}
	return
}

// R6: a parser recovery is never silent.
func c15RecoverReported(c *Ctx) {
	c.Rule("R6 recover.reported: every call of (*parser).recover / recoverOver / recoverAfterBodyItem / setRecovery in hclsyntax is reached, on every path from the function's entry, only after an error diagnostic was appended in that function, or with p.recovery already true (an earlier error was reported), or under the true edge of X.HasErrors(); recovering first makes the following `if !p.recovery` diagnostic dead and the damaged input is accepted silently")
	targets := map[*ssa.Function]string{}
	for _, n := range []string{"recover", "recoverOver", "recoverAfterBodyItem", "setRecovery"} {
		f := c.P.LookupFunc("hclsyntax", "parser."+n)
		if f == nil {
			c.CheckerFail("recover.reported", "anchor (*parser)."+n+" does not resolve")
			return
		}
		targets[f] = n
	}
	isRecoveryLoad := func(v ssa.Value) bool {
		u, ok := v.(*ssa.UnOp)
		if !ok || u.Op != token.MUL {
			return false
		}
		fa, ok := u.X.(*ssa.FieldAddr)
		if !ok {
			return false
		}
		fv := fieldVarOf(fa.X.Type(), fa.Field)
		return fv != nil && fv.Name() == "recovery" && isNamed(fa.X.Type(), hclsyntaxPath, "parser")
	}
	n := 0
	lifted := map[*ssa.Function]bool{}
	// a closure or unexported helper that recovers without having reported hands the obligation to
	// its callers: it becomes a recovery target itself and its call sites are judged instead
	analyseAll := func(emit bool) []*ssa.Function {
		var toLift []*ssa.Function
		for _, fn := range c.P.pkgFuncs("hclsyntax") {
			if targets[fn] != "" && !lifted[fn] {
				continue
			}
			has := false
			for _, b := range fn.Blocks {
				for _, ins := range b.Instrs {
					if call, ok := ins.(*ssa.Call); ok && targets[staticCallee(&call.Call)] != "" {
						has = true
					}
				}
			}
			if !has {
				continue
			}
			name := FuncName(fn)
			c.Fn(name)
			// must-analysis: reported[b] at block entry (AND over predecessors)
			in := make([]int, len(fn.Blocks)) // -1 unvisited, 0 false, 1 true
			for i := range in {
				in[i] = -1
			}
			in[0] = 0
			// a closure defined in a function inherits nothing: conservative
			work := []*ssa.BasicBlock{fn.Blocks[0]}
			type site struct {
				call *ssa.Call
				ok   bool
			}
			sites := map[*ssa.Call]bool{}
			for len(work) > 0 {
				b := work[len(work)-1]
				work = work[:len(work)-1]
				st := in[b.Index]
				for _, ins := range b.Instrs {
					switch x := ins.(type) {
					case *ssa.Call:
						if t := targets[staticCallee(&x.Call)]; t != "" {
							sites[x] = st == 1
							st = 1 // recovery is now set: later recoveries follow a reported error or this one
							continue
						}
						if isDiagnosticsType(x.Type()) {
							if bi, ok := x.Call.Value.(*ssa.Builtin); ok && bi.Name() == "append" && len(x.Call.Args) > 1 && sliceLitHasErrorDiag(x.Call.Args[1]) {
								st = 1
							}
						}
					case *ssa.Slice:
						if isDiagnosticsType(x.Type()) && sliceLitHasErrorDiag(x) {
							st = 1
						}
					}
				}
				for si, s := range b.Succs {
					n := st
					if iff, ok := b.Instrs[len(b.Instrs)-1].(*ssa.If); ok && b.Succs[0] != b.Succs[1] {
						cond := iff.Cond
						neg := false
						if u, ok := cond.(*ssa.UnOp); ok && u.Op == token.NOT {
							neg = true
							cond = u.X
						}
						onTrue := (si == 0) != neg
						if isRecoveryLoad(cond) && onTrue {
							n = 1
						}
						if call, ok := cond.(*ssa.Call); ok && onTrue {
							if cal := call.Call.StaticCallee(); cal != nil && cal.Name() == "HasErrors" {
								n = 1
							}
						}
					}
					if in[s.Index] == -1 {
						in[s.Index] = n
						work = append(work, s)
					} else if n < in[s.Index] {
						in[s.Index] = n
						work = append(work, s)
					}
				}
			}
			var calls []*ssa.Call
			for call := range sites {
				calls = append(calls, call)
			}
			sort.Slice(calls, func(i, j int) bool { return calls[i].Pos() < calls[j].Pos() })
			// second chance: the recovery is followed, on every path to a return, by an
			// error report that does not depend on p.recovery being false
			reportedAfter := func(call *ssa.Call) bool {
				seen := map[*ssa.BasicBlock]bool{}
				var walk func(b *ssa.BasicBlock, from int) bool
				walk = func(b *ssa.BasicBlock, from int) bool {
					for i := from; i < len(b.Instrs); i++ {
						switch x := b.Instrs[i].(type) {
						case *ssa.Call:
							if isDiagnosticsType(x.Type()) {
								if bi, ok := x.Call.Value.(*ssa.Builtin); ok && bi.Name() == "append" && len(x.Call.Args) > 1 && sliceLitHasErrorDiag(x.Call.Args[1]) {
									return true
								}
							}
						case *ssa.Slice:
							if isDiagnosticsType(x.Type()) && sliceLitHasErrorDiag(x) {
								return true
							}
						case *ssa.Return:
							return isErrorReturn(x)
						case *ssa.Panic:
							return true
						}
					}
					for si, su := range b.Succs {
						if iff, ok := b.Instrs[len(b.Instrs)-1].(*ssa.If); ok && b.Succs[0] != b.Succs[1] {
							cond := iff.Cond
							neg := false
							if u, ok := cond.(*ssa.UnOp); ok && u.Op == token.NOT {
								neg = true
								cond = u.X
							}
							if isRecoveryLoad(cond) && ((si == 0) != neg) == false {
								continue // p.recovery is true after a recovery: this edge is infeasible
							}
						}
						if seen[su] {
							continue
						}
						seen[su] = true
						if !walk(su, 0) {
							return false
						}
					}
					return true
				}
				idx := 0
				for i, ins := range call.Block().Instrs {
					if ins == ssa.Instruction(call) {
						idx = i + 1
					}
				}
				return walk(call.Block(), idx)
			}
			for _, call := range calls {
				t := targets[staticCallee(&call.Call)]
				justified := sites[call] || reportedAfter(call)
				if !emit {
					if !justified && !lifted[fn] && (fn.Parent() != nil || (fn.Object() != nil && !fn.Object().Exported())) && staticCallersOnly(c.P, fn) {
						toLift = append(toLift, fn)
					}
					continue
				}
				n++
				c.Sites++
				if lifted[fn] && !justified {
					c.OK("recover.reported", name+":call["+t+"]", call.Pos(), "helper: the obligation is decided at each of its call sites")
					continue
				}
				if !sites[call] && justified {
					c.OK("recover.reported", name+":call["+t+"]", call.Pos(), "an unconditional error report follows on every path")
					continue
				}
				c.Check(sites[call], "recover.reported", name+":call["+t+"]", call.Pos(), "an error was reported on every path to this recovery",
					"recovery without a reported error on some path: the input is damaged here but no error diagnostic has been appended (and a following `if !p.recovery` diagnostic can never fire)")
			}
		}
		return toLift
	}
	for round := 0; round < 3; round++ {
		fns := analyseAll(false)
		if len(fns) == 0 {
			break
		}
		for _, f := range fns {
			lifted[f] = true
			targets[f] = "helper " + f.Name()
		}
	}
	analyseAll(true)
	c.Floor("recover.reported sites", n, 30, "51 recovery call sites in the native parser")
}

// R7: no unknown/null-value panic (E-known).
func c15Known(c *Ctx) {
	c.Rule("R7 known: the receiver of every call of a cty.Value method that panics on unknown or null receivers (AsString, AsBigFloat, True, False, LengthInt, ElementIterator, ForEachElement, AsValueSlice/Map/Set, HasElement) in hcl, hclsyntax, json, hcldec, ext/dynblock is provably known / non-null there: under a dominating IsKnown()/IsWhollyKnown()/!IsNull() test of the same value (through Unmark/WithMarks/single-store locals), a fresh known constructor or cty constant, a conversion of such a value, an iterator key, a local/phi of such, the result of a helper all of whose error-free returns are such, or a parameter of an unexported function all of whose call sites pass such")
	e, err := newKnownEngine(c.P)
	if err != nil {
		c.CheckerFail("known", err.Error())
		return
	}
	c.Trust("go-cty v1.16.3: the explicit unknown/null panics of the accessor methods are re-derived from its SSA on every run and equal the frozen table; True/False panic implicitly on unknown receivers")
	fns := c.P.pkgFuncs("hcl", "hclsyntax", "json", "hcldec", "ext/dynblock")
	sites := e.Sites(fns)
	n := 0
	for _, s := range sites {
		name := FuncName(s.fn)
		c.Fn(name)
		c.Sites++
		n++
		key := fmt.Sprintf("%s:call[%s]", name, s.method)
		if exc, ok := knownExceptions[key]; ok && !s.ok {
			c.OK("known", key, s.pos, "named exception: "+exc)
			continue
		}
		c.Check(s.ok, "known", key, s.pos, s.why,
			fmt.Sprintf("%s() on a value that is %s: panics when the value is unknown or null", s.method, s.why))
	}
	c.Floor("known sites", n, 25, "accessor calls in the evaluators, decoders and Index/GetAttr")
}

// Named exceptions: one call site each, with the reason the receiver cannot be unknown/null.
var knownExceptions = map[string]string{}

// staticCallersOnly: every incoming call-graph edge of fn is a static call (or a call of the
// closure value itself) from a module function, and there is at least one.
func staticCallersOnly(p *Program, fn *ssa.Function) bool {
	node := p.CallGraph().Nodes[fn]
	if node == nil || len(node.In) == 0 {
		return false
	}
	for _, in := range node.In {
		if in.Site == nil || staticCallee(in.Site.Common()) != fn {
			return false
		}
	}
	return true
}

// R11 nonnil: results that are used without a nil test are never nil.
func c15NonNil(c *Ctx) {
	c.Rule("R11 nonnil: in json, hclsyntax and hclwrite, wherever a method is invoked on, a field taken of, or a pointer dereferenced from (a result of) a call of a function of the same package without a dominating nil test, that result is structurally never nil, or at least no nil constant can flow into it (results about which nothing is known — a parameter handed through, a loaded field — are not decided): every return of the callee yields a boxed concrete value, an allocation, a value under its own != nil test, or such a result of another function (greatest fixed point over recursion)")
	e := newNonNilEngine(c.P)
	n, skipped := 0, 0
	for _, s := range e.sites(c.P.pkgFuncs(c.Scope("json", "hclsyntax", "hclwrite")...)) {
		if s.undecided {
			skipped++
			continue
		}
		n++
		c.Sites++
		name := FuncName(s.fn)
		c.Fn(name)
		k, _ := funcKeyAndSig(s.callee)
		if s.callee.Parent() != nil {
			k = s.callee.Name()
		}
		key := fmt.Sprintf("%s:use[%s#%d%s]", name, k, s.idx, s.use)
		c.Check(s.ok, "nonnil", key, s.pos, "never nil", "used without a nil test, but "+s.why+": a nil pointer dereference (panic) on the input that takes that path")
	}
	c.Floor("nonnil uses", n, 30, "unchecked uses of same-package results in the front ends")
	c.Assumption(fmt.Sprintf("nonnil: %d uses of results that are neither provably non-nil nor reachable by an explicit nil (parameters with unknown callers, loaded fields) are not decided", skipped))
}

// R12 must.calls: no panicking "Must" constructor on data that comes from the input.
func c15MustCalls(c *Ctx) {
	c.Rule("R12 must.calls: in the front ends and evaluators (hcl, hclsyntax, json, hcldec, hclwrite, ext/…) no function from outside the module whose name starts with Must (cty.MustParseNumberVal, regexp.MustCompile, …) is called with an argument that is not a compile-time constant: such a function panics exactly where its plain sibling returns an error, and what the existing code does with that error (an 'Invalid number' diagnostic, say) is part of being total; a number with a huge exponent passes the JSON grammar and still fails cty's parser")
	n, total := 0, 0
	for _, fn := range c.P.pkgFuncs(c.Scope("hcl", "hclsyntax", "json", "hcldec", "hclwrite", "ext/dynblock", "ext/typeexpr", "ext/userfunc", "ext/tryfunc", "ext/customdecode", "ext/transform")...) {
		for _, b := range fn.Blocks {
			for _, ins := range b.Instrs {
				call, ok := ins.(*ssa.Call)
				if !ok {
					continue
				}
				total++
				cal := call.Call.StaticCallee()
				if cal == nil || inModule(cal) || !strings.HasPrefix(cal.Name(), "Must") || len(cal.Name()) < 5 {
					continue
				}
				allConst := true
				for _, a := range call.Call.Args {
					if _, ok := a.(*ssa.Const); !ok {
						allConst = false
					}
				}
				n++
				c.Sites++
				c.Fn(FuncName(fn))
				c.Check(allConst, "must.calls", fmt.Sprintf("%s:call[%s]", FuncName(fn), cal.Name()), call.Pos(), "constant arguments only",
					cal.Name()+" panics on an argument its plain sibling rejects with an error, and the argument is not a constant: some input reaches the panic")
			}
		}
	}
	// zero sites on the reference tree: the floor is on what was scanned
	c.Floor("must.calls calls scanned", total, 3500, "all call instructions of the packages in scope")
	_ = n
}

// R13 runelen.guard: utf8.RuneLen's -1 is handled before the result is used as a length.
func c15RuneLenGuard(c *Ctx) {
	c.Rule("R13 runelen.guard: where the result of utf8.RuneLen(r) is used in slice-bound or index arithmetic (`buf[len(buf)-l:]`), either r is structurally a valid rune (yielded by ranging over a string or by a utf8.Decode* function, at every call site for a parameter) or the use is dominated by a test of that result against -1 / 0 that leaves through the other edge: RuneLen returns -1 for surrogate halves and values above U+10FFFF, and `len(buf)-(-1)` is one past the end")
	cg := c.P.CallGraph()
	var validRune func(v ssa.Value, d int) bool
	validRune = func(v ssa.Value, d int) bool {
		if d > 4 {
			return false
		}
		switch x := v.(type) {
		case *ssa.Const:
			if k, ok := constInt(x); ok {
				return k >= 0 && k <= 0x10FFFF && !(k >= 0xD800 && k <= 0xDFFF)
			}
		case *ssa.Extract:
			switch t := x.Tuple.(type) {
			case *ssa.Next:
				return t.IsString && x.Index == 2
			case *ssa.Call:
				if cal := t.Call.StaticCallee(); cal != nil && cal.Pkg != nil && cal.Pkg.Pkg.Path() == "unicode/utf8" && strings.HasPrefix(cal.Name(), "Decode") && x.Index == 0 {
					return true
				}
			}
		case *ssa.Phi:
			for _, e := range x.Edges {
				if !validRune(e, d+1) {
					return false
				}
			}
			return true
		case *ssa.Parameter:
			fn := x.Parent()
			if fn.Object() != nil && fn.Object().Exported() {
				return false
			}
			node := cg.Nodes[fn]
			if node == nil || len(node.In) == 0 {
				return false
			}
			idx := -1
			for i, p := range fn.Params {
				if p == x {
					idx = i
				}
			}
			for _, in := range node.In {
				if in.Site == nil || idx < 0 || idx >= len(in.Site.Common().Args) || in.Site.Common().IsInvoke() {
					return false
				}
				if !validRune(in.Site.Common().Args[idx], d+1) {
					return false
				}
			}
			return true
		}
		return false
	}
	n := 0
	for _, fn := range c.P.pkgFuncs(c.Scope("hcl", "hclsyntax", "json", "hcldec", "hclwrite")...) {
		for _, b := range fn.Blocks {
			for _, ins := range b.Instrs {
				call, ok := ins.(*ssa.Call)
				if !ok {
					continue
				}
				cal := call.Call.StaticCallee()
				if cal == nil || cal.Pkg == nil || cal.Pkg.Pkg.Path() != "unicode/utf8" || cal.Name() != "RuneLen" {
					continue
				}
				// uses in bound / index arithmetic
				var uses []ssa.Instruction
				seen := map[ssa.Value]bool{}
				var fwd func(v ssa.Value)
				fwd = func(v ssa.Value) {
					if seen[v] || v.Referrers() == nil {
						return
					}
					seen[v] = true
					for _, r := range *v.Referrers() {
						switch x := r.(type) {
						case *ssa.BinOp:
							if x.Op == token.SUB || x.Op == token.ADD {
								fwd(x)
							}
						case *ssa.Convert:
							fwd(x)
						case *ssa.Slice:
							if x.Low == v || x.High == v || x.Max == v {
								uses = append(uses, x)
							}
						case *ssa.IndexAddr:
							if x.Index == v {
								uses = append(uses, x)
							}
						case *ssa.Index:
							if x.Index == v {
								uses = append(uses, x)
							}
						}
					}
				}
				fwd(call)
				if len(uses) == 0 {
					continue
				}
				n++
				c.Sites++
				c.Fn(FuncName(fn))
				key := fmt.Sprintf("%s:RuneLen[%s]", FuncName(fn), pathName(call.Call.Args[0]))
				if validRune(call.Call.Args[0], 0) {
					c.OK("runelen.guard", key, call.Pos(), "the rune comes from decoding a string: always encodable")
					continue
				}
				guarded := func(at *ssa.BasicBlock) bool {
					for _, ce := range ctlEdges(at) {
						bo, ok := ce.iff.Cond.(*ssa.BinOp)
						if !ok || bo.X != ssa.Value(call) {
							continue
						}
						k, isC := constInt(bo.Y)
						if !isC {
							continue
						}
						// the edge taken must exclude -1
						excl := false
						switch bo.Op {
						case token.EQL:
							excl = k == -1 && !ce.onTrue
						case token.NEQ:
							excl = k == -1 && ce.onTrue
						case token.LSS:
							excl = (k == 0 || k == 1) && !ce.onTrue
						case token.LEQ:
							excl = (k == -1 || k == 0) && !ce.onTrue
						case token.GTR:
							excl = (k == -1 || k == 0) && ce.onTrue
						case token.GEQ:
							excl = (k == 0 || k == 1) && ce.onTrue
						}
						if excl {
							return true
						}
					}
					return false
				}
				ok2 := true
				var badPos token.Pos
				for _, u := range uses {
					if !guarded(u.Block()) {
						ok2 = false
						badPos = u.Pos()
					}
				}
				if !badPos.IsValid() {
					badPos = call.Pos()
				}
				c.Check(ok2, "runelen.guard", key, badPos, "used as a length only after -1 was excluded",
					"the result of utf8.RuneLen is used in a slice bound without a test that excludes -1, and its argument is not known to be an encodable rune: a surrogate half or a value above U+10FFFF makes the bound exceed the slice (panic)")
			}
		}
	}
	c.Floor("runelen.guard uses", n, 1, "the \\u decoder of ParseStringLiteralToken and hclwrite.appendRune")
}
