package main

import (
	"fmt"
	"go/constant"
	"go/token"
	"go/types"
	"strings"

	"golang.org/x/tools/go/ssa"
)

func init() { register("C02", checkC02) }

func checkC02(c *Ctx) {
	c02DuplicateAttr(c)
	c02BlocksOrder(c)
	c02ItemFields(c)
	c02Labels(c)
	c02CommentNewline(c)
	c02AsHCL(c)
	c14BufferSame(c, "bom.buffer") // independence of a leading byte-order mark
	c01ReaderEscapes(c)            // quoted labels are decoded with the escape table of the specification
	c.NotCovered("acceptance of every legal rendering: that no error diagnostic is produced for a text that follows the grammar is a property of the token stream against the grammar, not of a code shape; only the peeker's layout filter (comments, newlines) is decided")
	c.NotCovered("the Ragel scanner (scan_tokens.rl): tokenisation of CRLF, BOM, comments and heredocs is trusted")
	c.Trust("only line comments (# and //) end with a newline byte: guaranteed by scan_tokens.rl, not re-derived")
}

// R1: an attribute name defined twice is rejected, never overwritten.
func c02DuplicateAttr(c *Ctx) {
	c.Rule("R1 dup.reject: every insertion into a map of type hclsyntax.Attributes made by the native parser is either the only entry of a map created for it, or sits on the not-found edge of a lookup of the same key in the same map whose found edge adds an error diagnostic and does not store — a second definition of a name is always reported and never replaces the first")
	n := 0
	for _, fn := range c.P.pkgFuncs("hclsyntax") {
		for _, b := range fn.Blocks {
			for _, ins := range b.Instrs {
				mu, ok := ins.(*ssa.MapUpdate)
				if !ok || !isNamed(mu.Map.Type(), hclsyntaxPath, "Attributes") {
					continue
				}
				n++
				c.Fn(FuncName(fn))
				c.Sites++
				key := FuncName(fn) + ":insert[Attributes]"
				// single-entry literal
				if mm, ok := mu.Map.(*ssa.MakeMap); ok {
					updates := 0
					for _, r := range *mm.Referrers() {
						if _, ok := r.(*ssa.MapUpdate); ok {
							updates++
						}
					}
					if updates == 1 && mm.Block() == b {
						c.OK("dup.reject", key, mu.Pos(), "single-entry map literal")
						continue
					}
				}
				// guarded by a lookup
				var guard *ssa.If
				var lk *ssa.Lookup
				for d := b; d != nil; d = d.Idom() {
					p := d.Idom()
					if p == nil {
						break
					}
					iff, ok := p.Instrs[len(p.Instrs)-1].(*ssa.If)
					if !ok || p.Succs[1] != d || len(d.Preds) != 1 {
						continue
					}
					ex, ok := iff.Cond.(*ssa.Extract)
					if !ok || ex.Index != 1 {
						continue
					}
					l, ok := ex.Tuple.(*ssa.Lookup)
					if !ok || !l.CommaOk || l.X != mu.Map || !(l.Index == mu.Key || sameCell(l.Index, mu.Key)) {
						continue
					}
					guard, lk = iff, l
					break
				}
				if guard == nil {
					c.Fail("dup.reject", key, mu.Pos(), "an attribute is stored into the body's attribute map without first testing that the name is not yet present: a second definition silently replaces the first")
					continue
				}
				// found edge: adds an error diagnostic, does not store into the map
				found := guard.Block().Succs[0]
				hasErr, stores := false, false
				for _, fb := range fn.Blocks {
					if !found.Dominates(fb) {
						continue
					}
					for _, in2 := range fb.Instrs {
						if al, ok := in2.(*ssa.Alloc); ok && isErrorDiagPtr(al) {
							hasErr = true
						}
						if m2, ok := in2.(*ssa.MapUpdate); ok && m2.Map == mu.Map {
							stores = true
						}
					}
				}
				_ = lk
				c.Check(hasErr && !stores && len(found.Preds) == 1, "dup.reject", key, mu.Pos(), "not-found edge of a lookup; found edge reports an error",
					"the found edge of the duplicate test "+map[bool]string{true: "overwrites the earlier definition", false: "does not report an error diagnostic"}[stores])
			}
		}
	}
	c.Floor("dup.reject insertions", n, 2, "ParseBody and parseSingleAttrBody")
}

// R2: blocks are collected unfiltered, in source order.
func c02BlocksOrder(c *Ctx) {
	c.Rule("R2 blocks.order: in parser.ParseBody every item that ParseBodyItem returns as *Block is appended (at the end) to the body's block list on the success edge of the type test, with no further condition; values of type Blocks in ParseBody are only created empty, appended to with that item, merged by phi, and stored into Body.Blocks — no filter, sort, de-duplication or prepend")
	fn := c.P.LookupFunc("hclsyntax", "parser.ParseBody")
	if fn == nil {
		c.CheckerFail("blocks.order", "anchor parser.ParseBody does not resolve")
		return
	}
	c.Fn(FuncName(fn))
	isBlocks := func(t types.Type) bool { return isNamed(t, hclsyntaxPath, "Blocks") }
	var ta *ssa.TypeAssert
	for _, b := range fn.Blocks {
		for _, ins := range b.Instrs {
			if x, ok := ins.(*ssa.TypeAssert); ok && x.CommaOk {
				if pt, ok := x.AssertedType.(*types.Pointer); ok && isNamed(pt.Elem(), hclsyntaxPath, "Block") {
					if call, ok := lookThrough(x.X).(*ssa.Extract); ok {
						if cc, ok := call.Tuple.(*ssa.Call); ok && cc.Call.StaticCallee() != nil && cc.Call.StaticCallee().Name() == "ParseBodyItem" {
							ta = x
						}
					}
				}
			}
		}
	}
	if ta == nil {
		c.Fail("blocks.order", FuncName(fn)+":block-arm", fn.Pos(), "ParseBody has no type test of ParseBodyItem's result against *Block")
		return
	}
	var item ssa.Value
	var okArm *ssa.BasicBlock
	for _, r := range *ta.Referrers() {
		if ex, ok := r.(*ssa.Extract); ok {
			if ex.Index == 0 {
				item = ex
			} else {
				for _, r2 := range *ex.Referrers() {
					if iff, ok := r2.(*ssa.If); ok {
						okArm = iff.Block().Succs[0]
					}
				}
			}
		}
	}
	appends := 0
	armAppends := false
	for _, b := range fn.Blocks {
		for _, ins := range b.Instrs {
			v, ok := ins.(ssa.Value)
			if !ok {
				// stores of Blocks values
				if st, ok := ins.(*ssa.Store); ok && isBlocks(st.Val.Type()) {
					fa, ok := st.Addr.(*ssa.FieldAddr)
					c.Check(ok && fieldVarOf(fa.X.Type(), fa.Field).Name() == "Blocks", "blocks.order", FuncName(fn)+":store", st.Pos(), "stored into Body.Blocks", "the block list is stored somewhere other than Body.Blocks")
				}
				continue
			}
			// any call that takes a Blocks value other than append
			if call, ok := ins.(*ssa.Call); ok {
				bi, isBuiltin := call.Call.Value.(*ssa.Builtin)
				takes := false
				for _, a := range call.Call.Args {
					if isBlocks(a.Type()) {
						takes = true
					}
				}
				if takes && !(isBuiltin && (bi.Name() == "append" || bi.Name() == "len")) {
					c.Fail("blocks.order", FuncName(fn)+":call["+call.Call.Value.Name()+"]", call.Pos(), "the block list is passed to "+call.Call.Value.Name()+": blocks may be reordered or filtered")
				}
				if isBuiltin && bi.Name() == "append" && isBlocks(call.Type()) {
					appends++
					good := isBlocks(call.Call.Args[0].Type())
					if sl, ok := call.Call.Args[1].(*ssa.Slice); ok {
						if al, ok := sl.X.(*ssa.Alloc); ok {
							sts := storesInto(al)
							if len(sts) != 1 || sts[0].Val != item {
								good = false
							}
						} else {
							good = false
						}
					} else {
						good = false
					}
					if b == okArm {
						armAppends = true
					}
					c.Check(good && b == okArm, "blocks.order", FuncName(fn)+":append", call.Pos(), "appends exactly the parsed *Block on the success edge",
						"the block list is extended with something other than the item just parsed, at its end, directly on the success edge of the *Block type test")
				}
				continue
			}
			if _, isPtr := v.Type().(*types.Pointer); isPtr || !isBlocks(v.Type()) {
				continue
			}
			switch x := v.(type) {
			case *ssa.Phi, *ssa.MakeSlice:
			case *ssa.Slice:
				al, ok := x.X.(*ssa.Alloc)
				c.Check(ok && len(storesInto(al)) == 0 && x.Low == nil && x.High == nil, "blocks.order", FuncName(fn)+":slice", x.Pos(), "empty literal", "the block list is re-sliced: blocks may be dropped")
			case *ssa.UnOp, *ssa.ChangeType:
			default:
				c.Fail("blocks.order", FuncName(fn)+":"+fmt.Sprintf("%T", x), x.Pos(), "unexpected producer of a block list: "+x.String())
			}
		}
	}
	c.Check(armAppends && appends == 1, "blocks.order", FuncName(fn)+":block-arm", ta.Pos(), "the *Block arm appends unconditionally", "the *Block arm of ParseBody does not append every block exactly once")
}

// R3: what the item parsers put into Attribute and Block.
func c02ItemFields(c *Ctx) {
	c.Rule("R3 item.fields: finishParsingBodyAttribute returns Attribute{Name: string(ident.Bytes), Expr: the parsed expression}; every Block returned by finishParsingBodyBlock has Type: string(ident.Bytes), Labels: the accumulated label list and (on the non-error return) Body: the result of ParseBody / parseSingleAttrBody or a fresh placeholder under diags.HasErrors(); parseSingleAttrBody keys its attribute by string(ident.Bytes)")
	fromIdent := func(fn *ssa.Function, v ssa.Value) bool {
		// string(ident.Bytes) where ident is the (spilled) Token parameter or a Token read at entry
		v = lookThrough(v)
		if u, ok := v.(*ssa.UnOp); ok && u.Op == token.MUL {
			if al, ok := u.X.(*ssa.Alloc); ok {
				sts := storesInto(al)
				if len(sts) == 1 && sts[0].Addr == ssa.Value(al) {
					v = sts[0].Val
				}
			}
		}
		cv, ok := v.(*ssa.Convert)
		if !ok {
			return false
		}
		ld, ok := cv.X.(*ssa.UnOp)
		if !ok {
			return false
		}
		fa, ok := ld.X.(*ssa.FieldAddr)
		if !ok || fieldVarOf(fa.X.Type(), fa.Field).Name() != "Bytes" {
			return false
		}
		al, ok := fa.X.(*ssa.Alloc)
		if !ok {
			return false
		}
		for _, st := range storesInto(al) {
			if st.Addr != ssa.Value(al) {
				return false
			}
			switch x := st.Val.(type) {
			case *ssa.Parameter:
				if x.Name() != "ident" && !isNamed(x.Type(), hclsyntaxPath, "Token") {
					return false
				}
			case *ssa.Call:
				if x.Block() != fn.Blocks[0] || x.Call.StaticCallee() == nil || x.Call.StaticCallee().Name() != "Read" {
					return false
				}
			default:
				return false
			}
		}
		return true
	}
	fieldStores := func(fn *ssa.Function, owner string) map[*ssa.Alloc]map[string]ssa.Value {
		out := map[*ssa.Alloc]map[string]ssa.Value{}
		for _, b := range fn.Blocks {
			for _, ins := range b.Instrs {
				st, ok := ins.(*ssa.Store)
				if !ok {
					continue
				}
				fa, ok := st.Addr.(*ssa.FieldAddr)
				if !ok {
					continue
				}
				al, ok := fa.X.(*ssa.Alloc)
				if !ok || !isNamed(al.Type().(*types.Pointer).Elem(), hclsyntaxPath, owner) {
					continue
				}
				if out[al] == nil {
					out[al] = map[string]ssa.Value{}
				}
				out[al][fieldVarOf(fa.X.Type(), fa.Field).Name()] = st.Val
			}
		}
		return out
	}
	calleeName := func(v ssa.Value) string {
		v = lookThrough(v)
		if ex, ok := v.(*ssa.Extract); ok && ex.Index == 0 {
			if call, ok := ex.Tuple.(*ssa.Call); ok && call.Call.StaticCallee() != nil {
				return call.Call.StaticCallee().Name()
			}
		}
		return ""
	}

	// attribute
	if fn := c.P.LookupFunc("hclsyntax", "parser.finishParsingBodyAttribute"); fn == nil {
		c.CheckerFail("item.fields", "anchor finishParsingBodyAttribute does not resolve")
	} else {
		c.Fn(FuncName(fn))
		fs := fieldStores(fn, "Attribute")
		c.Floor("item.fields Attribute literals", len(fs), 1, "the returned attribute")
		for _, f := range fs {
			c.Check(fromIdent(fn, f["Name"]), "item.fields", FuncName(fn)+":Attribute.Name", f["Name"].Pos(), "string(ident.Bytes)", "Attribute.Name is not the text of the identifier token")
			c.Check(calleeName(f["Expr"]) == "ParseExpression", "item.fields", FuncName(fn)+":Attribute.Expr", fn.Pos(), "result of ParseExpression", "Attribute.Expr is not the expression that was parsed after the equals sign")
		}
	}
	// block
	if fn := c.P.LookupFunc("hclsyntax", "parser.finishParsingBodyBlock"); fn == nil {
		c.CheckerFail("item.fields", "anchor finishParsingBodyBlock does not resolve")
	} else {
		c.Fn(FuncName(fn))
		fs := fieldStores(fn, "Block")
		c.Floor("item.fields Block literals", len(fs), 1, "the recovery return and the normal return")
		// label list: phi web of appends
		isLabelList := func(v ssa.Value) bool {
			seen := map[ssa.Value]bool{}
			var walk func(v ssa.Value) bool
			walk = func(v ssa.Value) bool {
				if seen[v] {
					return true
				}
				seen[v] = true
				switch x := v.(type) {
				case *ssa.Phi:
					for _, e := range x.Edges {
						if !walk(e) {
							return false
						}
					}
					return true
				case *ssa.Const:
					return x.IsNil()
				case *ssa.Call:
					if bi, ok := x.Call.Value.(*ssa.Builtin); ok && bi.Name() == "append" {
						return walk(x.Call.Args[0])
					}
				}
				return false
			}
			return walk(v)
		}
		bodyOK := func(v ssa.Value) bool {
			seen := map[ssa.Value]bool{}
			var walk func(v ssa.Value) bool
			walk = func(v ssa.Value) bool {
				if seen[v] {
					return true
				}
				seen[v] = true
				switch x := v.(type) {
				case *ssa.Phi:
					for _, e := range x.Edges {
						if !walk(e) {
							return false
						}
					}
					return true
				case *ssa.Alloc:
					return true // fresh placeholder
				case *ssa.Extract:
					n := calleeName(x)
					return n == "ParseBody" || n == "parseSingleAttrBody"
				}
				return false
			}
			return walk(v)
		}
		for _, f := range fs {
			c.Sites++
			c.Check(f["Type"] != nil && fromIdent(fn, f["Type"]), "item.fields", FuncName(fn)+":Block.Type", fn.Pos(), "string(ident.Bytes)", "Block.Type is not the text of the identifier token that opened the item")
			c.Check(f["Labels"] != nil && isLabelList(f["Labels"]), "item.fields", FuncName(fn)+":Block.Labels", fn.Pos(), "the accumulated label list", "Block.Labels is not the list accumulated (by append, in reading order) while reading the header")
			c.Check(f["Body"] != nil && bodyOK(f["Body"]), "item.fields", FuncName(fn)+":Block.Body", fn.Pos(), "parsed body or fresh placeholder", "Block.Body is not the body parsed between the braces")
		}
		// label appends: decoded quoted literal or the text of an identifier token just read
		n := 0
		for _, b := range fn.Blocks {
			for _, ins := range b.Instrs {
				call, ok := ins.(*ssa.Call)
				if !ok {
					continue
				}
				bi, ok := call.Call.Value.(*ssa.Builtin)
				if !ok || bi.Name() != "append" || !isBasicString(sliceElem(call.Type())) {
					continue
				}
				sl, ok := call.Call.Args[1].(*ssa.Slice)
				if !ok {
					continue
				}
				al, ok := sl.X.(*ssa.Alloc)
				if !ok {
					continue
				}
				for _, st := range storesInto(al) {
					n++
					okv := calleeName(st.Val) == "parseQuotedStringLiteral"
					if cv, ok := lookThrough(st.Val).(*ssa.Convert); ok {
						if ld, ok := cv.X.(*ssa.UnOp); ok {
							if fa, ok := ld.X.(*ssa.FieldAddr); ok && fieldVarOf(fa.X.Type(), fa.Field).Name() == "Bytes" && isNamed(fa.X.Type().(*types.Pointer).Elem(), hclsyntaxPath, "Token") {
								// the token just read in this arm: a Read() result stored into the cell in the same block
								if cell, ok := fa.X.(*ssa.Alloc); ok {
									for _, st2 := range storesInto(cell) {
										if rd, ok := st2.Val.(*ssa.Call); ok && st2.Block() == cv.Block() && rd.Call.StaticCallee() != nil && rd.Call.StaticCallee().Name() == "Read" {
											okv = true
										}
									}
								}
							}
						}
					}
					c.Check(okv, "item.fields", FuncName(fn)+":label", st.Pos(), "quoted label decoded by parseQuotedStringLiteral, or identifier text", "a label is taken from something other than parseQuotedStringLiteral's result or an identifier token's bytes")
				}
			}
		}
		c.Floor("item.fields label appends", n, 2, "quoted and bare labels")
	}
	// single attr body key
	if fn := c.P.LookupFunc("hclsyntax", "parser.parseSingleAttrBody"); fn != nil {
		c.Fn(FuncName(fn))
		for _, b := range fn.Blocks {
			for _, ins := range b.Instrs {
				if mu, ok := ins.(*ssa.MapUpdate); ok && isNamed(mu.Map.Type(), hclsyntaxPath, "Attributes") {
					c.Check(fromIdent(fn, mu.Key), "item.fields", FuncName(fn)+":key", mu.Pos(), "string(ident.Bytes)", "the single-line body's attribute is keyed by something other than its identifier")
				}
			}
		}
	}
}

// R4: quoted labels are decoded.
func c02Labels(c *Ctx) {
	c.Rule("R4 labels.decoded: in parser.parseQuotedStringLiteral everything written to the result buffer is either result 0 of ParseStringLiteralToken applied to the token just read, or a constant (the marker written after an error has been reported); the TokenQuotedLit arm performs that call for every such token — no path copies raw token bytes (escape processing of labels, including $${ and %%{)")
	fn := c.P.LookupFunc("hclsyntax", "parser.parseQuotedStringLiteral")
	pslt := c.P.LookupFunc("hclsyntax", "ParseStringLiteralToken")
	if fn == nil || pslt == nil {
		c.CheckerFail("labels.decoded", "anchor parseQuotedStringLiteral / ParseStringLiteralToken does not resolve")
		return
	}
	c.Fn(FuncName(fn))
	var isConstLike func(v ssa.Value, d int) bool
	isConstLike = func(v ssa.Value, d int) bool {
		if d > 4 {
			return false
		}
		switch x := v.(type) {
		case *ssa.Const:
			return true
		case *ssa.Phi:
			for _, e := range x.Edges {
				if !isConstLike(e, d+1) {
					return false
				}
			}
			return true
		}
		return false
	}
	writes, decoded := 0, 0
	for _, b := range fn.Blocks {
		for _, ins := range b.Instrs {
			call, ok := ins.(*ssa.Call)
			if !ok {
				continue
			}
			cal := call.Call.StaticCallee()
			if cal == nil || cal.Signature.Recv() == nil || !isNamed(cal.Signature.Recv().Type(), "bytes", "Buffer") || !strings.HasPrefix(cal.Name(), "Write") {
				continue
			}
			writes++
			arg := call.Call.Args[1]
			okv := isConstLike(arg, 0)
			if ex, ok := arg.(*ssa.Extract); ok && ex.Index == 0 {
				if c2, ok := ex.Tuple.(*ssa.Call); ok && c2.Call.StaticCallee() == pslt {
					okv = true
					decoded++
				}
			}
			c.Check(okv, "labels.decoded", FuncName(fn)+":write["+cal.Name()+"]", call.Pos(), "decoded text or constant marker",
				"raw text reaches the label without going through ParseStringLiteralToken: escapes ($${, %%{, backslash sequences) in a quoted label are not processed")
		}
	}
	// the QuotedLit arm: the block entered on tok.Type == TokenQuotedLit calls ParseStringLiteralToken unconditionally
	ql, _ := constIntOf(c.P, "hclsyntax", "TokenQuotedLit")
	armOK := false
	for _, b := range fn.Blocks {
		iff, ok := lastIf(b)
		if !ok {
			continue
		}
		bo, ok := iff.Cond.(*ssa.BinOp)
		if !ok || bo.Op != token.EQL {
			continue
		}
		if n, ok := constInt(bo.Y); !ok || n != ql || !isNamed(bo.Y.Type(), hclsyntaxPath, "TokenType") {
			continue
		}
		arm := b.Succs[0]
		for _, ins := range arm.Instrs {
			if call, ok := ins.(*ssa.Call); ok && call.Call.StaticCallee() == pslt {
				armOK = true
			}
		}
	}
	c.Check(armOK, "labels.decoded", FuncName(fn)+":arm[TokenQuotedLit]", fn.Pos(), "every TokenQuotedLit is handed to ParseStringLiteralToken", "the TokenQuotedLit arm does not hand every literal token to ParseStringLiteralToken before anything else is decided")
	c.Floor("labels.decoded buffer writes", writes, 1, "decoded literal and error marker")
	c.Floor("labels.decoded decoded writes", decoded, 1, "the literal arm")
	// the label returned is the accumulated buffer
	isBufMethod := func(v ssa.Value, names ...string) bool {
		call, ok := v.(*ssa.Call)
		if !ok {
			return false
		}
		cal := call.Call.StaticCallee()
		if cal == nil || cal.Signature.Recv() == nil || !isNamed(cal.Signature.Recv().Type(), "bytes", "Buffer") && !isNamed(cal.Signature.Recv().Type(), "strings", "Builder") {
			return false
		}
		for _, n := range names {
			if cal.Name() == n {
				return true
			}
		}
		return false
	}
	emptyGuarded := func(b *ssa.BasicBlock) bool {
		for d := b.Idom(); d != nil; d = d.Idom() {
			iff, ok := lastIf(d)
			if !ok {
				continue
			}
			bo, ok := iff.Cond.(*ssa.BinOp)
			if !ok || !isBufMethod(bo.X, "Len") {
				continue
			}
			k, isC := constInt(bo.Y)
			if !isC || k != 0 {
				continue
			}
			side := -1
			switch bo.Op {
			case token.EQL, token.LEQ:
				side = 0
			case token.NEQ, token.GTR:
				side = 1
			}
			if side >= 0 && len(d.Succs[side].Preds) == 1 && (d.Succs[side] == b || d.Succs[side].Dominates(b)) {
				return true
			}
		}
		return false
	}
	nret := 0
	for _, b := range fn.Blocks {
		ret, ok := b.Instrs[len(b.Instrs)-1].(*ssa.Return)
		if !ok || len(ret.Results) == 0 {
			continue
		}
		nret++
		v := ret.Results[0]
		okv := isConstLike(v, 0) || isBufMethod(v, "String") || emptyGuarded(b)
		// through a local closure that finishes the label: every return of it yields the buffer
		if ex, isEx := v.(*ssa.Extract); isEx && !okv && ex.Index == 0 {
			if call, isCall := ex.Tuple.(*ssa.Call); isCall {
				var g *ssa.Function
				if mc, ok := call.Call.Value.(*ssa.MakeClosure); ok {
					g = mc.Fn.(*ssa.Function)
				} else if cal := call.Call.StaticCallee(); cal != nil && cal.Parent() == fn {
					g = cal
				}
				if g != nil && g.Parent() == fn {
					all, any := true, false
					for _, gb := range g.Blocks {
						if gr, ok := gb.Instrs[len(gb.Instrs)-1].(*ssa.Return); ok && len(gr.Results) > 0 {
							any = true
							if !isConstLike(gr.Results[0], 0) && !isBufMethod(gr.Results[0], "String") {
								all = false
							}
						}
					}
					okv = all && any
				}
			}
		}
		if ph, isPhi := v.(*ssa.Phi); isPhi && !okv {
			okv = true
			for _, e := range ph.Edges {
				if !isConstLike(e, 0) && !isBufMethod(e, "String") {
					okv = false
				}
			}
		}
		c.Check(okv, "labels.decoded", FuncName(fn)+":return["+pathName(v)+"]", ret.Pos(), "the accumulated buffer (or a constant on an error path)",
			"a label is returned that is not the accumulated buffer: a quoted label is scanned into several literal tokens (at every $ and %), so the parts read before this return are dropped")
	}
	c.Floor("labels.decoded returns", nret, 2, "the error return and the final return")
	unicodeEscapeRule(c, "labels.decoded")
}

// unicodeEscapeRule: in ParseStringLiteralToken the code point of a \u / \U escape (the result of
// strconv.ParseUint) reaches the output only through UTF-8 encoding: it is never converted to a
// single byte unless a dominating comparison shows it is below 0x80.
func unicodeEscapeRule(c *Ctx, rule string) {
	c.Rule("escapes.unicode (" + rule + "): in ParseStringLiteralToken the number parsed by strconv.ParseUint for a \\u/\\U escape is handed to the utf8 encoder (utf8.EncodeRune/AppendRune or a rune→string conversion) and is never truncated to one byte unless a dominating comparison bounds it below 0x80")
	fn := c.P.LookupFunc("hclsyntax", "ParseStringLiteralToken")
	if fn == nil {
		c.CheckerFail(rule, "anchor ParseStringLiteralToken does not resolve")
		return
	}
	derived := map[ssa.Value]bool{}
	var work []ssa.Value
	scope := append([]*ssa.Function{fn}, moduleCallees(fn, 1, map[*ssa.Function]bool{})...)
	for _, f := range scope {
		if f != fn && fnPkg(f) != fnPkg(fn) {
			continue
		}
		for _, b := range f.Blocks {
			for _, ins := range b.Instrs {
				if call, ok := ins.(*ssa.Call); ok {
					if cal := call.Call.StaticCallee(); cal != nil && cal.Pkg != nil && cal.Pkg.Pkg.Path() == "strconv" && strings.HasPrefix(cal.Name(), "Parse") {
						derived[call] = true
						work = append(work, call)
					}
				}
			}
		}
	}
	if len(work) == 0 {
		c.CheckerFail(rule, "no strconv.Parse* call in ParseStringLiteralToken: the unicode escape decoder is not recognised")
		return
	}
	encoded := 0
	for len(work) > 0 {
		v := work[len(work)-1]
		work = work[:len(work)-1]
		for _, r := range *v.Referrers() {
			switch x := r.(type) {
			case *ssa.Extract:
				if x.Index == 0 && !derived[x] {
					derived[x] = true
					work = append(work, x)
				}
			case *ssa.Return:
				// returned by a helper: go on with that result at its call sites
				for k, rv := range x.Results {
					if rv != v {
						continue
					}
					for _, f := range scope {
						for _, b := range f.Blocks {
							for _, ins := range b.Instrs {
								call, ok := ins.(*ssa.Call)
								if !ok || call.Call.StaticCallee() != x.Parent() {
									continue
								}
								if len(x.Results) == 1 {
									if !derived[call] {
										derived[call] = true
										work = append(work, call)
									}
									continue
								}
								for _, r2 := range *call.Referrers() {
									if ex, ok := r2.(*ssa.Extract); ok && ex.Index == k && !derived[ex] {
										derived[ex] = true
										work = append(work, ex)
									}
								}
							}
						}
					}
				}
			case *ssa.Phi, *ssa.ChangeType:
				if !derived[x.(ssa.Value)] {
					derived[x.(ssa.Value)] = true
					work = append(work, x.(ssa.Value))
				}
			case *ssa.Convert:
				bt, _ := x.Type().Underlying().(*types.Basic)
				if bt != nil && bt.Kind() == types.String {
					encoded++ // string(rune)
					continue
				}
				if bt != nil && (bt.Kind() == types.Uint8 || bt.Kind() == types.Int8) {
					// truncation to one byte: only under a bound below 0x80
					bounded := false
					for d := x.Block(); d != nil; d = d.Idom() {
						iff, ok := lastIf(d)
						if !ok {
							continue
						}
						bo, ok := iff.Cond.(*ssa.BinOp)
						if !ok || !derived[bo.X] {
							continue
						}
						k, isC := constInt(bo.Y)
						if !isC {
							continue
						}
						side := -1
						switch {
						case bo.Op == token.LSS && k <= 0x80, bo.Op == token.LEQ && k <= 0x7f:
							side = 0
						case bo.Op == token.GEQ && k <= 0x80, bo.Op == token.GTR && k <= 0x7f:
							side = 1
						}
						if side >= 0 && len(d.Succs[side].Preds) == 1 && (d.Succs[side] == x.Block() || d.Succs[side].Dominates(x.Block())) {
							bounded = true
						}
					}
					c.Check(bounded, rule, FuncName(fn)+":escape[unicode].byte", x.Pos(), "truncated only below 0x80",
						"the code point of a \\u escape is truncated to a single byte without being known to be below 0x80: U+0080..U+00FF decode to invalid UTF-8 instead of the two-byte encoding")
					continue
				}
				if !derived[x] {
					derived[x] = true
					work = append(work, x)
				}
			case *ssa.Call:
				cal := x.Call.StaticCallee()
				if cal != nil && cal.Pkg != nil && cal.Pkg.Pkg.Path() == "unicode/utf8" && (cal.Name() == "EncodeRune" || cal.Name() == "AppendRune") {
					encoded++
				}
				// handed to a helper of the package: go on with its parameter
				if cal != nil && inModule(cal) && len(cal.Blocks) > 0 {
					for ai, a := range x.Call.Args {
						if a == v && ai < len(cal.Params) && !derived[cal.Params[ai]] {
							derived[cal.Params[ai]] = true
							work = append(work, cal.Params[ai])
						}
					}
				}
			}
		}
	}
	// explicit range checks of the code point: the values sent to an error must not include a valid
	// code point (0..0xD7FF, 0xE000..0x10FFFF)
	validHit := func(lo, hi int64) (int64, bool) { // a valid code point in [lo,hi]
		for _, iv := range [][2]int64{{0, 0xD7FF}, {0xE000, 0x10FFFF}} {
			a, b := lo, hi
			if a < iv[0] {
				a = iv[0]
			}
			if b > iv[1] {
				b = iv[1]
			}
			if a <= b {
				return a, true
			}
		}
		return 0, false
	}
	for _, f := range moduleCallees(fn, 1, map[*ssa.Function]bool{}) {
		for _, b := range f.Blocks {
			iff, ok := b.Instrs[len(b.Instrs)-1].(*ssa.If)
			if !ok {
				continue
			}
			bo, ok := iff.Cond.(*ssa.BinOp)
			if !ok {
				continue
			}
			boOp, k, isC := cmpWithConst(bo, derived)
			if !isC {
				continue
			}
			const top = int64(1) << 40
			// what dominating range checks of the code point already say at this block
			dlo, dhi := int64(0), top
			for d := b; d != nil && d.Idom() != nil; d = d.Idom() {
				p := d.Idom()
				pif, ok := p.Instrs[len(p.Instrs)-1].(*ssa.If)
				if !ok || len(d.Preds) != 1 || p.Succs[0] == p.Succs[1] {
					continue
				}
				pb, ok := pif.Cond.(*ssa.BinOp)
				if !ok {
					continue
				}
				pbOp, pk, isC := cmpWithConst(pb, derived)
				if !isC {
					continue
				}
				onTrue := p.Succs[0] == d
				op := pbOp
				if !onTrue {
					switch op {
					case token.GEQ:
						op = token.LSS
					case token.GTR:
						op = token.LEQ
					case token.LEQ:
						op = token.GTR
					case token.LSS:
						op = token.GEQ
					default:
						continue
					}
				}
				switch op {
				case token.GEQ:
					if pk > dlo {
						dlo = pk
					}
				case token.GTR:
					if pk+1 > dlo {
						dlo = pk + 1
					}
				case token.LEQ:
					if pk < dhi {
						dhi = pk
					}
				case token.LSS:
					if pk-1 < dhi {
						dhi = pk - 1
					}
				}
			}
			var tlo, thi int64 // values for which the condition is true
			switch boOp {
			case token.GEQ:
				tlo, thi = k, top
			case token.GTR:
				tlo, thi = k+1, top
			case token.LEQ:
				tlo, thi = 0, k
			case token.LSS:
				tlo, thi = 0, k-1
			default:
				continue
			}
			// which edge is an error arm (records an error in the successor block itself)
			for side, su := range b.Succs {
				errArm := false
				for _, ins := range su.Instrs {
					if recordsError(ins) {
						errArm = true
					}
					// in a helper: the return that says "not a code point"
					if ret, ok := ins.(*ssa.Return); ok && f != fn {
						for _, rv := range ret.Results {
							if cn, ok := rv.(*ssa.Const); ok && cn.Value != nil && cn.Value.Kind() == constant.Bool && !constant.BoolVal(cn.Value) {
								errArm = true
							}
						}
					}
				}
				if !errArm {
					continue
				}
				lo, hi := tlo, thi
				if side == 1 { // the condition is false on this edge
					if tlo == 0 {
						lo, hi = thi+1, top
					} else {
						lo, hi = 0, tlo-1
					}
				}
				if lo < dlo {
					lo = dlo
				}
				if hi > dhi {
					hi = dhi
				}
				v, hit := validHit(lo, hi)
				c.Sites++
				c.Check(!hit, rule, FuncName(f)+":escape[unicode].range", iff.Cond.Pos(), "only invalid code points are rejected",
					fmt.Sprintf("a range check of the \\u / \\U code point sends U+%04X, a valid code point, to the error arm: a string containing it is generated by the writer but rejected by the reader", v))
			}
		}
	}
	c.Check(encoded > 0, rule, FuncName(fn)+":escape[unicode].encoded", fn.Pos(), "the code point is UTF-8 encoded",
		"the parsed code point never reaches utf8.EncodeRune/AppendRune or a rune→string conversion")
}

func lastIf(b *ssa.BasicBlock) (*ssa.If, bool) {
	if len(b.Instrs) == 0 {
		return nil, false
	}
	iff, ok := b.Instrs[len(b.Instrs)-1].(*ssa.If)
	return iff, ok
}

// R5: the peeker's layout filter.
func c02CommentNewline(c *Ctx) {
	c.Rule("R5 layout.filter: in peeker.nextToken (a) a synthetic TokenNewline is produced only on the true edge of a test that the comment token's last byte is '\\n' (so an inline /* */ comment never ends an item), under includingNewlines() and with comments filtered; that true edge returns the newline unconditionally (so a line comment does end an item); (b) with comments filtered no path returns the comment token itself; (c) a TokenNewline token is returned iff includingNewlines() — skipped otherwise")
	fn := c.P.LookupFunc("hclsyntax", "peeker.nextToken")
	if fn == nil {
		c.CheckerFail("layout.filter", "anchor peeker.nextToken does not resolve")
		return
	}
	c.Fn(FuncName(fn))
	tnl, _ := constIntOf(c.P, "hclsyntax", "TokenNewline")
	tcm, _ := constIntOf(c.P, "hclsyntax", "TokenComment")
	// the token cell: local Token stored from p.Tokens[i]
	var tokCell *ssa.Alloc
	for _, b := range fn.Blocks {
		for _, ins := range b.Instrs {
			if st, ok := ins.(*ssa.Store); ok {
				if al, ok := st.Addr.(*ssa.Alloc); ok && isNamed(al.Type().(*types.Pointer).Elem(), hclsyntaxPath, "Token") {
					if ld, ok := st.Val.(*ssa.UnOp); ok {
						if _, ok := ld.X.(*ssa.IndexAddr); ok {
							tokCell = al
						}
					}
				}
			}
		}
	}
	if tokCell == nil {
		c.Undecided("layout.filter", FuncName(fn)+":tok", fn.Pos(), "the loop's current-token cell was not identified")
		return
	}
	isTokBytes := func(v ssa.Value) bool {
		ld, ok := v.(*ssa.UnOp)
		if !ok {
			return false
		}
		fa, ok := ld.X.(*ssa.FieldAddr)
		return ok && fa.X == ssa.Value(tokCell) && fieldVarOf(fa.X.Type(), fa.Field).Name() == "Bytes"
	}
	isLastByteNL := func(cond ssa.Value) bool {
		switch x := cond.(type) {
		case *ssa.BinOp:
			if x.Op != token.EQL {
				return false
			}
			for _, pr := range [][2]ssa.Value{{x.X, x.Y}, {x.Y, x.X}} {
				if n, ok := constInt(pr[1]); !ok || n != '\n' {
					continue
				}
				ld, ok := pr[0].(*ssa.UnOp)
				if !ok {
					continue
				}
				ia, ok := ld.X.(*ssa.IndexAddr)
				if !ok || !isTokBytes(ia.X) {
					continue
				}
				// index = len(tok.Bytes) - 1
				sub, ok := ia.Index.(*ssa.BinOp)
				if !ok || sub.Op != token.SUB {
					continue
				}
				if n, ok := constInt(sub.Y); !ok || n != 1 {
					continue
				}
				if ln, ok := sub.X.(*ssa.Call); ok {
					if bi, ok := ln.Call.Value.(*ssa.Builtin); ok && bi.Name() == "len" && isTokBytes(ln.Call.Args[0]) {
						return true
					}
				}
			}
		case *ssa.Call:
			if cal := x.Call.StaticCallee(); cal != nil && cal.Pkg != nil && cal.Pkg.Pkg.Path() == "bytes" && cal.Name() == "HasSuffix" && isTokBytes(x.Call.Args[0]) {
				// constant suffix "\n"
				switch a := x.Call.Args[1].(type) {
				case *ssa.Convert: // []byte("\n")
					if s, ok := a.X.(*ssa.Const); ok && s.Value != nil && s.Value.ExactString() == `"\n"` {
						return true
					}
				case *ssa.Slice: // []byte{'\n'}
					if al, ok := a.X.(*ssa.Alloc); ok {
						sts := storesInto(al)
						if len(sts) == 1 {
							if n, ok := constInt(sts[0].Val); ok && n == '\n' {
								return true
							}
						}
					}
				}
			}
		}
		return false
	}
	// the nearest dominating branch whose condition, with the truth value it has on the edge towards
	// b, states the given fact (pred is asked about the condition stripped of negations and about
	// `x != k` as the negation of `x == k`)
	trueEdgeDominates := func(b *ssa.BasicBlock, pred func(ssa.Value) bool, wantTrue bool) *ssa.BasicBlock {
		for d := b; d != nil && d.Idom() != nil; d = d.Idom() {
			p := d.Idom()
			iff, ok := lastIf(p)
			if !ok || len(d.Preds) != 1 || p.Succs[0] == p.Succs[1] {
				continue
			}
			cond, want := iff.Cond, wantTrue
			for {
				if u, ok := cond.(*ssa.UnOp); ok && u.Op == token.NOT {
					cond, want = u.X, !want
					continue
				}
				break
			}
			// x != k holds iff x == k does not
			if bo, ok := cond.(*ssa.BinOp); ok && bo.Op == token.NEQ {
				eq := *bo
				eq.Op = token.EQL
				if pred(&eq) {
					idx := 1
					if !want {
						idx = 0
					}
					if p.Succs[idx] == d {
						return p
					}
				}
				continue
			}
			idx := 0
			if !want {
				idx = 1
			}
			if p.Succs[idx] == d && pred(cond) {
				return p
			}
		}
		return nil
	}
	isIncNL := func(v ssa.Value) bool {
		call, ok := v.(*ssa.Call)
		return ok && call.Call.StaticCallee() != nil && call.Call.StaticCallee() == c.P.LookupFunc("hclsyntax", "peeker.includingNewlines")
	}
	isTypeEq := func(k int64) func(ssa.Value) bool {
		return func(v ssa.Value) bool {
			bo, ok := v.(*ssa.BinOp)
			if !ok || bo.Op != token.EQL {
				return false
			}
			n, ok := constInt(bo.Y)
			return ok && n == k && isNamed(bo.Y.Type(), hclsyntaxPath, "TokenType")
		}
	}
	isIncComments := func(v ssa.Value) bool {
		ld, ok := v.(*ssa.UnOp)
		if !ok {
			return false
		}
		fa, ok := ld.X.(*ssa.FieldAddr)
		return ok && fieldVarOf(fa.X.Type(), fa.Field).Name() == "IncludeComments"
	}
	// (a) synthetic newline returns
	synth := 0
	for _, b := range fn.Blocks {
		ret, ok := b.Instrs[len(b.Instrs)-1].(*ssa.Return)
		if !ok {
			continue
		}
		if !builtNewlineToken(ret.Results[0], tokCell, tnl, 0) {
			continue
		}
		synth++
		c.Sites++
		testBlk := trueEdgeDominates(b, isLastByteNL, true)
		c.Check(testBlk != nil, "layout.filter", FuncName(fn)+":synthetic-newline.last-byte", ret.Pos(), "only for a comment whose last byte is '\\n'",
			"a synthetic newline is produced for a comment without testing that its last byte is a newline: a /* */ comment inside an item ends the item")
		if testBlk != nil {
			c.Check(testBlk.Succs[0] == b || testBlk.Succs[1] == b, "layout.filter", FuncName(fn)+":synthetic-newline.unconditional", ret.Pos(), "a comment ending in a newline always yields the newline",
				"a comment ending in a newline does not always yield a newline token: an item followed by a line comment is not terminated")
		}
		c.Check(trueEdgeDominates(b, isIncNL, true) != nil, "layout.filter", FuncName(fn)+":synthetic-newline.mode", ret.Pos(), "only when newlines are significant", "a synthetic newline is produced inside brackets, where newlines are not significant")
		c.Check(trueEdgeDominates(b, isTypeEq(tcm), true) != nil && trueEdgeDominates(b, isIncComments, false) != nil, "layout.filter", FuncName(fn)+":synthetic-newline.comment", ret.Pos(), "only for filtered comment tokens", "a synthetic newline is produced for a token that is not a filtered comment")
	}
	c.Floor("layout.filter synthetic newline returns", synth, 1, "the line-comment conversion")
	// (b) comments filtered: no return of the token itself from the !IncludeComments edge without passing the loop
	for _, b := range fn.Blocks {
		iff, ok := lastIf(b)
		if !ok || !isIncComments(iff.Cond) {
			continue
		}
		start := b.Succs[1]
		seen := map[*ssa.BasicBlock]bool{start: true}
		work := []*ssa.BasicBlock{start}
		leak := token.NoPos
		for len(work) > 0 {
			x := work[len(work)-1]
			work = work[:len(work)-1]
			if ret, ok := x.Instrs[len(x.Instrs)-1].(*ssa.Return); ok {
				if ld, ok := ret.Results[0].(*ssa.UnOp); ok && ld.X == ssa.Value(tokCell) {
					leak = ret.Pos()
				}
			}
			for _, s := range x.Succs {
				if !seen[s] && !s.Dominates(b) { // do not go round the loop
					seen[s] = true
					work = append(work, s)
				}
			}
		}
		c.Sites++
		c.Check(!leak.IsValid(), "layout.filter", FuncName(fn)+":comment-filtered", iff.Pos(), "a filtered comment is never returned", "with comments filtered a comment token is still returned to the parser")
	}
	// (c) TokenNewline arm
	found := false
	for _, b := range fn.Blocks {
		iff, ok := lastIf(b)
		if !ok || !isTypeEq(tnl)(iff.Cond) {
			continue
		}
		arm := b.Succs[0]
		iff2, ok := lastIf(arm)
		if !ok || !isIncNL(iff2.Cond) {
			c.Fail("layout.filter", FuncName(fn)+":newline-arm", iff.Pos(), "the TokenNewline arm does not test includingNewlines()")
			found = true
			continue
		}
		found = true
		retTok := func(x *ssa.BasicBlock) bool {
			ret, ok := x.Instrs[len(x.Instrs)-1].(*ssa.Return)
			if !ok {
				return false
			}
			ld, ok := ret.Results[0].(*ssa.UnOp)
			return ok && ld.X == ssa.Value(tokCell)
		}
		c.Sites++
		c.Check(retTok(arm.Succs[0]) && !retTok(arm.Succs[1]) && arm.Succs[1].Dominates(arm) == false && reachesLoopHead(arm.Succs[1], b), "layout.filter", FuncName(fn)+":newline-arm", iff2.Pos(), "newline returned iff newlines are significant",
			"a newline token is not returned exactly when includingNewlines(): either newlines inside brackets become significant or item-terminating newlines are dropped")
	}
	c.Check(found, "layout.filter", FuncName(fn)+":newline-arm.present", fn.Pos(), "TokenNewline arm present", "nextToken has no arm for TokenNewline")
}

// builtNewlineToken: v is a Token built here (or by a helper all of whose returns build one) with
// Type set to TokenNewline.
func builtNewlineToken(v ssa.Value, tokCell *ssa.Alloc, tnl int64, depth int) bool {
	switch x := v.(type) {
	case *ssa.UnOp:
		al, ok := x.X.(*ssa.Alloc)
		if !ok || al == tokCell {
			return false
		}
		for _, st := range storesInto(al) {
			if fa, ok := st.Addr.(*ssa.FieldAddr); ok && fieldVarOf(fa.X.Type(), fa.Field).Name() == "Type" {
				if n, ok := constInt(st.Val); ok && n == tnl {
					return true
				}
			}
		}
	case *ssa.Call:
		cal := staticCallee(&x.Call)
		if cal == nil || depth > 1 || len(cal.Blocks) == 0 {
			return false
		}
		n := 0
		for _, b := range cal.Blocks {
			if ret, ok := b.Instrs[len(b.Instrs)-1].(*ssa.Return); ok {
				n++
				if len(ret.Results) == 0 || !builtNewlineToken(ret.Results[0], nil, tnl, depth+1) {
					return false
				}
			}
		}
		return n > 0
	}
	return false
}

// reachesLoopHead: from b, control returns to a block that dominates `in` without passing a Return.
func reachesLoopHead(b, in *ssa.BasicBlock) bool {
	seen := map[*ssa.BasicBlock]bool{}
	var walk func(x *ssa.BasicBlock) bool
	walk = func(x *ssa.BasicBlock) bool {
		if seen[x] {
			return true
		}
		seen[x] = true
		if x.Dominates(in) && x != in {
			return true
		}
		if _, ok := x.Instrs[len(x.Instrs)-1].(*ssa.Return); ok {
			return false
		}
		for _, s := range x.Succs {
			if !walk(s) {
				return false
			}
		}
		return len(x.Succs) > 0
	}
	return walk(b)
}

// R6: conversion to the hcl-level view.
func c02AsHCL(c *Ctx) {
	c.Rule("R6 ashcl.fields: Block.AsHCLBlock builds hcl.Block{Type: b.Type, Labels: b.Labels, Body: b.Body} and Attribute.AsHCLAttribute builds hcl.Attribute{Name: a.Name, Expr: a.Expr}; Body.PartialContent takes attributes from b.Attributes[name] through AsHCLAttribute and walks b.Blocks in order, appending AsHCLBlock of each wanted block")
	type want struct {
		fn, lit string
		fields  map[string]string
	}
	for _, w := range []want{
		{"Block.AsHCLBlock", "hcl.Block", map[string]string{"Type": "Type", "Labels": "Labels", "Body": "Body"}},
		{"Attribute.AsHCLAttribute", "hcl.Attribute", map[string]string{"Name": "Name", "Expr": "Expr"}},
	} {
		fn := c.P.LookupFunc("hclsyntax", w.fn)
		if fn == nil || len(fn.Params) == 0 {
			c.CheckerFail("ashcl.fields", "anchor "+w.fn+" does not resolve")
			continue
		}
		c.Fn(FuncName(fn))
		recv := fn.Params[0]
		litName := strings.TrimPrefix(w.lit, "hcl.")
		// (from SSA: the stores into the fields of the hcl-level struct this function allocates,
		// whether written as a composite literal or field by field)
		got := map[string]string{}
		for _, b := range fn.Blocks {
			for _, ins := range b.Instrs {
				st, ok := ins.(*ssa.Store)
				if !ok {
					continue
				}
				fa, ok := st.Addr.(*ssa.FieldAddr)
				if !ok || !isNamed(fa.X.Type(), modPath, litName) {
					continue
				}
				if _, isAlloc := fa.X.(*ssa.Alloc); !isAlloc {
					continue
				}
				fv := fieldVarOf(fa.X.Type(), fa.Field)
				if fv == nil {
					continue
				}
				desc := "?"
				val := st.Val
				for {
					switch x := val.(type) {
					case *ssa.MakeInterface:
						val = x.X
						continue
					case *ssa.ChangeInterface:
						val = x.X
						continue
					case *ssa.ChangeType:
						val = x.X
						continue
					}
					break
				}
				if ld, ok := val.(*ssa.UnOp); ok && ld.Op == token.MUL {
					if f2, ok := ld.X.(*ssa.FieldAddr); ok && (f2.X == ssa.Value(recv) || isSpillOf(f2.X, recv)) {
						if sv := fieldVarOf(f2.X.Type(), f2.Field); sv != nil {
							desc = recv.Name() + "." + sv.Name()
						}
					}
				}
				if old, dup := got[fv.Name()]; dup && old != desc {
					desc = "conflicting"
				}
				got[fv.Name()] = desc
			}
		}
		for f, src := range w.fields {
			c.Sites++
			c.Check(got[f] == recv.Name()+"."+src, "ashcl.fields", "hclsyntax."+w.fn+":"+f, fn.Pos(), f+" = "+got[f], fmt.Sprintf("%s of the hcl-level view is %q, not the parsed %s.%s", f, got[f], recv.Name(), src))
		}
	}
	// PartialContent: block loop
	fn := c.P.LookupFunc("hclsyntax", "Body.PartialContent")
	if fn == nil {
		c.CheckerFail("ashcl.fields", "anchor Body.PartialContent does not resolve")
		return
	}
	c.Fn(FuncName(fn))
	n := 0
	for _, b := range fn.Blocks {
		for _, ins := range b.Instrs {
			call, ok := ins.(*ssa.Call)
			if !ok {
				continue
			}
			bi, ok := call.Call.Value.(*ssa.Builtin)
			if !ok || bi.Name() != "append" || !isNamed(call.Type(), modPath, "Blocks") {
				continue
			}
			n++
			good := false
			if sl, ok := call.Call.Args[1].(*ssa.Slice); ok {
				if al, ok := sl.X.(*ssa.Alloc); ok {
					sts := storesInto(al)
					if len(sts) == 1 {
						if c2, ok := sts[0].Val.(*ssa.Call); ok && c2.Call.StaticCallee() != nil && c2.Call.StaticCallee().Name() == "AsHCLBlock" {
							// receiver: element of b.Blocks at the range index
							if ld, ok := c2.Call.Args[0].(*ssa.UnOp); ok {
								if ia, ok := ld.X.(*ssa.IndexAddr); ok {
									if src, ok := ia.X.(*ssa.UnOp); ok {
										if fa, ok := src.X.(*ssa.FieldAddr); ok && fieldVarOf(fa.X.Type(), fa.Field).Name() == "Blocks" {
											if isRangeIndex(ia.Index) {
												good = true
											}
										}
									}
								}
							}
						}
					}
				}
			}
			// the walk over b.Blocks is the outermost loop around the append: an enclosing loop
			// (e.g. over the schema's block types) would group the result by its own order
			if good {
				var hdr *ssa.BasicBlock
				if sl, ok := call.Call.Args[1].(*ssa.Slice); ok {
					if al, ok := sl.X.(*ssa.Alloc); ok {
						if c2, ok := storesInto(al)[0].Val.(*ssa.Call); ok {
							if ld, ok := c2.Call.Args[0].(*ssa.UnOp); ok {
								if ia, ok := ld.X.(*ssa.IndexAddr); ok {
									hdr = rangeHeader(ia.Index)
								}
							}
						}
					}
				}
				for _, scc := range sccBlocks(fn.Blocks, nil) {
					in := false
					for _, sb := range scc {
						if sb == b {
							in = true
						}
					}
					if !in || len(scc) < 2 || hdr == nil {
						continue
					}
					for _, sb := range scc {
						if sb == hdr || !isLoopHeader(sb) {
							continue
						}
						if !hdr.Dominates(sb) {
							good = false
						}
					}
				}
			}
			c.Check(good, "ashcl.fields", FuncName(fn)+":append[Blocks]", call.Pos(), "appends AsHCLBlock of b.Blocks[i], i ascending, in one pass", "the content's block list is not built by appending each wanted block in one ascending pass over b.Blocks (an enclosing loop groups the blocks by something other than source order)")
		}
	}
	c.Floor("ashcl.fields block appends", n, 1, "PartialContent's block loop")
}

// isRangeIndex: the index of a `for range slice` loop: phi(-1, phi+1), used either as the phi or
// as the incremented value.
func isRangeIndex(v ssa.Value) bool {
	var phi *ssa.Phi
	var inc *ssa.BinOp
	switch x := v.(type) {
	case *ssa.Phi:
		phi = x
	case *ssa.BinOp:
		inc = x
		if x.Op != token.ADD {
			return false
		}
		if n, ok := constInt(x.Y); !ok || n != 1 {
			return false
		}
		p, ok := x.X.(*ssa.Phi)
		if !ok {
			return false
		}
		phi = p
	default:
		return false
	}
	init := false
	for _, e := range phi.Edges {
		if n, ok := constInt(e); ok && n == -1 {
			init = true
			continue
		}
		bo, ok := e.(*ssa.BinOp)
		if !ok || bo.Op != token.ADD || bo.X != ssa.Value(phi) || (inc != nil && bo != inc) {
			return false
		}
		if n, ok := constInt(bo.Y); !ok || n != 1 {
			return false
		}
	}
	return init
}

// rangeHeader: the block holding the range-index phi that idx (the phi or phi+1) belongs to.
func rangeHeader(idx ssa.Value) *ssa.BasicBlock {
	switch x := idx.(type) {
	case *ssa.Phi:
		return x.Block()
	case *ssa.BinOp:
		if p, ok := x.X.(*ssa.Phi); ok {
			return p.Block()
		}
	}
	return nil
}

// isLoopHeader: the block starts a range loop (a range-index phi, or the Next of a map/string range).
func isLoopHeader(b *ssa.BasicBlock) bool {
	for _, ins := range b.Instrs {
		switch x := ins.(type) {
		case *ssa.Phi:
			if isRangeIndex(x) {
				return true
			}
		case *ssa.Next:
			return true
		}
	}
	return false
}

// rune.truncate: a rune is turned into a single byte only when it is known to be ASCII.
func runeTruncateRule(c *Ctx, rule string, pkgs ...string) {
	c.Rule(rule + " rune.truncate: in " + fmt.Sprint(pkgs) + " a value of type rune (int32) is converted to a byte only under a dominating comparison that bounds it below 0x80 (or equates it with an ASCII constant): a character above U+007F written as one byte is not UTF-8")
	n := 0
	for _, fn := range c.P.pkgFuncs(pkgs...) {
		for _, b := range fn.Blocks {
			for _, ins := range b.Instrs {
				cv, ok := ins.(*ssa.Convert)
				if !ok {
					continue
				}
				to, ok1 := cv.Type().Underlying().(*types.Basic)
				from, ok2 := cv.X.Type().Underlying().(*types.Basic)
				if !ok1 || !ok2 || to.Kind() != types.Uint8 || from.Kind() != types.Int32 {
					continue
				}
				if _, isC := cv.X.(*ssa.Const); isC {
					continue
				}
				n++
				c.Sites++
				c.Fn(FuncName(fn))
				bounded := false
				for d := b; d != nil && d.Idom() != nil; d = d.Idom() {
					p := d.Idom()
					iff, ok := p.Instrs[len(p.Instrs)-1].(*ssa.If)
					if !ok || len(d.Preds) != 1 || p.Succs[0] == p.Succs[1] {
						continue
					}
					bo, ok := iff.Cond.(*ssa.BinOp)
					if !ok || bo.X != cv.X {
						continue
					}
					k, isC := constInt(bo.Y)
					if !isC {
						continue
					}
					onTrue := p.Succs[0] == d
					switch {
					case onTrue && bo.Op == token.LSS && k <= 0x80, onTrue && bo.Op == token.LEQ && k <= 0x7f, onTrue && bo.Op == token.EQL && k < 0x80,
						!onTrue && bo.Op == token.GEQ && k <= 0x80, !onTrue && bo.Op == token.GTR && k <= 0x7f:
						bounded = true
					}
				}
				c.Check(bounded, rule, FuncName(fn)+":byte(rune)["+pathName(cv.X)+"]", cv.Pos(), "only for ASCII",
					"a rune is converted to a single byte without being known to be below 0x80: characters U+0080..U+00FF (é, ü, £ …) are written as one raw byte, which is not valid UTF-8")
			}
		}
	}
	_ = n
}

// cmpWithConst: bo compares a derived value with an integer constant; the operator is returned as
// if the derived value were on the left (`0xD800 <= n` reads n >= 0xD800).
func cmpWithConst(bo *ssa.BinOp, derived map[ssa.Value]bool) (token.Token, int64, bool) {
	if derived[bo.X] {
		k, ok := constInt(bo.Y)
		return bo.Op, k, ok
	}
	if derived[bo.Y] {
		k, ok := constInt(bo.X)
		op := bo.Op
		switch op {
		case token.LSS:
			op = token.GTR
		case token.LEQ:
			op = token.GEQ
		case token.GTR:
			op = token.LSS
		case token.GEQ:
			op = token.LEQ
		}
		return op, k, ok
	}
	return 0, 0, false
}
