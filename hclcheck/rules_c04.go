package main

import (
	"fmt"
	"go/token"
	"go/types"
	"sort"
	"strings"

	"golang.org/x/tools/go/ssa"
)

func init() { register("C04", checkC04) }

type bodyImpl struct {
	named  *types.Named
	pkg    string
	hidden []*types.Var // hidden-set fields
	fields []*types.Var // all fields
}

func discoverBodies(c *Ctx) []bodyImpl {
	hclPkg := c.P.Pkg("")
	bodyI := hclPkg.Types.Scope().Lookup("Body").Type().Underlying().(*types.Interface)
	var out []bodyImpl
	for _, pk := range []string{"", "hclsyntax", "json", "ext/dynblock"} {
		pkg := c.P.Pkg(pk)
		if pkg == nil {
			continue
		}
		sc := pkg.Types.Scope()
		for _, n := range sc.Names() {
			tn, ok := sc.Lookup(n).(*types.TypeName)
			if !ok || types.IsInterface(tn.Type()) {
				continue
			}
			named, ok := tn.Type().(*types.Named)
			if !ok {
				continue
			}
			if !types.Implements(named, bodyI) && !types.Implements(types.NewPointer(named), bodyI) {
				continue
			}
			bi := bodyImpl{named: named, pkg: shortPkg(pkg.PkgPath)}
			if st, ok := named.Underlying().(*types.Struct); ok {
				for i := 0; i < st.NumFields(); i++ {
					f := st.Field(i)
					bi.fields = append(bi.fields, f)
					if _, isMap := f.Type().Underlying().(*types.Map); isMap && strings.HasPrefix(f.Name(), "hidden") {
						bi.hidden = append(bi.hidden, f)
					}
				}
			}
			out = append(out, bi)
		}
	}
	sort.Slice(out, func(i, j int) bool {
		return out[i].pkg+out[i].named.Obj().Name() < out[j].pkg+out[j].named.Obj().Name()
	})
	return out
}

func (c *Ctx) method(bi bodyImpl, name string) *ssa.Function {
	return c.P.LookupFunc(strings.TrimPrefix(bi.pkg, "hcl"), bi.named.Obj().Name()+"."+name)
}

func lookupMethod(c *Ctx, bi bodyImpl, name string) *ssa.Function {
	pk := bi.pkg
	if pk == "hcl" {
		pk = ""
	}
	return c.P.LookupFunc(pk, bi.named.Obj().Name()+"."+name)
}

func checkC04(c *Ctx) {
	bodies := discoverBodies(c)
	c.Floor("body implementations", len(bodies), 5, "hclsyntax.Body, json.body, hcl.mergedBodies, dynblock.expandBody, dynblock.unknownBody")
	nHidden := 0
	for _, bi := range bodies {
		if len(bi.hidden) > 0 {
			nHidden++
		}
	}
	c.Floor("bodies with hidden sets", nHidden, 3, "hclsyntax.Body, json.body, dynblock.expandBody")
	c.Rule("R1 hidden.fresh: in PartialContent of every Body implementation with hidden-set fields, each hidden map of the returned remainder is a map made in that call into which the receiver's corresponding map is copied by a range loop (fresh superset)")
	c.Rule("R9 hidden.selffeed: in PartialContent, inside a loop over the body's own items (blocks, JSON properties) the hidden set being built for the remainder is not both consulted and extended: an item must be skipped because an EARLIER call consumed its name (the receiver's set), never because this call has just matched another item of the same name — several blocks of one type, or one block type spread over several JSON properties, are all returned")
	c.Rule("R2 hidden.readonly: no method of such a type updates or deletes from a map loaded from the receiver's hidden-set fields")
	c.Rule("R3 remainder.complete: the remainder literal built in PartialContent copies every other field of the receiver (source items, ranges, expansion state, marks)")
	c.Rule("R4 hidden.honoured: each of Content, PartialContent and JustAttributes reads the hidden attribute set (directly or through a callee it hands the receiver to)")
	c.Rule("R5 content.shared: Content is implemented as PartialContent plus a leftover report, or both go through the same helpers (their sets of module callees agree apart from the underlying body's Content/PartialContent)")
	c.Rule("R12 remainder.threaded: a Body implementation without hidden sets that wraps another body (its PartialContent calls PartialContent on a Body-typed field of the receiver and returns a value of its own type) puts the inner call's remainder (result 1) into that field of the body it returns — never the wrapped body itself, which still holds what this call consumed")
	c.Rule("R11 leftover.source: the loops of Content that decide by a hidden-set lookup which items are left over range over the same receiver item sources (a field, or the result of a receiver method) as PartialContent extracts from")
	c.Rule("R10 hidden.filter: in every method of such a type, inside a loop that looks an item's name up in a hidden set, every insertion into the result of that kind (a store into an hcl.Attributes map; an append to hcl.Blocks) is dominated by the not-hidden edge of such a lookup")
	nFilter := 0
	for _, bi := range bodies {
		tname := bi.pkg + "." + bi.named.Obj().Name()
		if len(bi.hidden) > 0 {
			nFilter += c04HiddenFilter(c, bi, tname)
		}
		pc := lookupMethod(c, bi, "PartialContent")
		co := lookupMethod(c, bi, "Content")
		ja := lookupMethod(c, bi, "JustAttributes")
		if pc == nil || co == nil || ja == nil {
			c.CheckerFail("body", "methods of "+tname+" do not resolve")
			continue
		}
		c.Fn(FuncName(pc))
		c.Fn(FuncName(co))
		c.Fn(FuncName(ja))
		c04ContentShared(c, bi, tname, co, pc)
		if len(bi.hidden) == 0 {
			c04RemainderThreaded(c, bi, tname, pc)
			continue
		}
		c04LeftoverSource(c, bi, tname, co, pc)
		c04HiddenFresh(c, bi, tname, pc)
		c04SelfFeed(c, bi, tname, pc)
		c04ReadOnly(c, bi, tname)
		c04RemainderComplete(c, bi, tname, pc)
		c04Honoured(c, bi, tname, map[string]*ssa.Function{"Content": co, "PartialContent": pc, "JustAttributes": ja})
	}
	c.Floor("hidden.filter insertions", nFilter, 7, "filtered insertions in hclsyntax.Body, json.body and dynblock.expandBody")
	appendSharedRule(c, "append.shared", c.Scope("hcl", "hclsyntax", "json", "ext/dynblock", "hcldec")...)
	c04MergedRequired(c)
	c18LabelCount(c) // a generated block matches the header schema it was made for
	c04CopyIntoEmpty(c)
	c04DeadFieldStore(c)
	c.NotCovered("source order per block type, label-count diagnostics, and the two-step ≡ one-step law as a value equality")
	c.NotCovered("JSON-specific extraction (deep attribute collection, array-of-objects bodies)")
}

// recvField reports whether v is a load of field fv of fn's receiver.
func recvFieldLoad(fn *ssa.Function, v ssa.Value, fv *types.Var) bool {
	u, ok := v.(*ssa.UnOp)
	if !ok || u.Op != token.MUL {
		return false
	}
	fa, ok := u.X.(*ssa.FieldAddr)
	if !ok || fieldVarOf(fa.X.Type(), fa.Field) != fv {
		return false
	}
	return len(fn.Params) > 0 && (fa.X == ssa.Value(fn.Params[0]) || isSpillOf(fa.X, fn.Params[0]))
}

func complitsOf(fn *ssa.Function, named *types.Named) []*ssa.Alloc {
	var out []*ssa.Alloc
	for _, b := range fn.Blocks {
		for _, ins := range b.Instrs {
			if al, ok := ins.(*ssa.Alloc); ok && namedOf(al.Type()) == named && strings.Contains(al.Comment, "complit") {
				out = append(out, al)
			}
		}
	}
	return out
}

func fieldStores(al *ssa.Alloc, fv *types.Var) []*ssa.Store {
	var out []*ssa.Store
	for _, r := range *al.Referrers() {
		fa, ok := r.(*ssa.FieldAddr)
		if !ok || fieldVarOf(fa.X.Type(), fa.Field) != fv {
			continue
		}
		for _, r2 := range *fa.Referrers() {
			if st, ok := r2.(*ssa.Store); ok && st.Addr == ssa.Value(fa) {
				out = append(out, st)
			}
		}
	}
	return out
}

func c04HiddenFresh(c *Ctx, bi bodyImpl, tname string, pc *ssa.Function) {
	lits := complitsOf(pc, bi.named)
	if len(lits) == 0 {
		c.Fail("hidden.fresh", tname+".PartialContent:remainder", pc.Pos(), "no remainder literal of type "+tname+" is built in PartialContent")
		return
	}
	for _, al := range lits {
		for _, h := range bi.hidden {
			key := fmt.Sprintf("%s.PartialContent:remainder.%s", tname, h.Name())
			sts := fieldStores(al, h)
			if len(sts) == 0 {
				c.Fail("hidden.fresh", key, al.Pos(), "the remainder does not set "+h.Name()+": items consumed so far become visible again")
				continue
			}
			ok := true
			why := ""
			for _, st := range sts {
				mm, isMake := st.Val.(*ssa.MakeMap)
				if !isMake {
					// the map lives in a local cell (captured by a closure): every value the cell holds
					if os := originsOf(st.Val, nil); len(os) == 1 {
						if m2, ok := os[0].(*ssa.MakeMap); ok {
							mm, isMake = m2, true
						}
					}
				}
				if !isMake {
					// built by a helper method of the same receiver that returns a fresh copy
					if freshCopyFromHelper(pc, st.Val, h) {
						continue
					}
					ok = false
					why = "the remainder's " + h.Name() + " is not a map made in this call (it aliases another body's set)"
					continue
				}
				// copy loop: MapUpdate into mm (or a load of the remainder's field) with a key
				// obtained by ranging over the receiver's field h
				copied := false
				for _, b := range pc.Blocks {
					for _, ins := range b.Instrs {
						mu, isMU := ins.(*ssa.MapUpdate)
						if !isMU {
							continue
						}
						target := mu.Map == ssa.Value(mm)
						if !target {
							if os := originsOf(mu.Map, nil); len(os) == 1 && os[0] == ssa.Value(mm) {
								target = true
							}
						}
						if u, isLd := mu.Map.(*ssa.UnOp); isLd && u.Op == token.MUL {
							if fa, isFA := u.X.(*ssa.FieldAddr); isFA && fa.X == ssa.Value(al) && fieldVarOf(fa.X.Type(), fa.Field) == h {
								target = true
							}
						}
						if !target {
							continue
						}
						if ex, isEx := mu.Key.(*ssa.Extract); isEx {
							if nx, isNext := ex.Tuple.(*ssa.Next); isNext {
								if rg, isRange := nx.Iter.(*ssa.Range); isRange && recvFieldLoad(pc, rg.X, h) {
									copied = true
								}
							}
						}
					}
				}
				if !copied {
					ok = false
					why = "the receiver's " + h.Name() + " is not copied into the remainder's set: items hidden by an earlier PartialContent become visible again"
				}
			}
			c.Check(ok, "hidden.fresh", key, al.Pos(), "fresh map, receiver's set copied in", why)
		}
	}
}

// freshCopyFromHelper: v is a result of a method called on pc's receiver, and every return of
// that method yields, at that result, a map made there into which the receiver's field h is
// copied by a range loop.
func freshCopyFromHelper(pc *ssa.Function, v ssa.Value, h *types.Var) bool {
	idx := 0
	var call *ssa.Call
	switch x := v.(type) {
	case *ssa.Extract:
		call, _ = x.Tuple.(*ssa.Call)
		idx = x.Index
	case *ssa.Call:
		call = x
	}
	if call == nil {
		return false
	}
	cal := call.Call.StaticCallee()
	if cal == nil || len(cal.Blocks) == 0 || len(call.Call.Args) == 0 {
		return false
	}
	if cal.Signature.Recv() == nil {
		// a set-copying function of the package handed the receiver's field: every return is a
		// map made there into which the keys of the parameter are copied by a range loop
		pi := -1
		for i, a := range call.Call.Args {
			if recvFieldLoad(pc, a, h) {
				pi = i
			}
		}
		if pi < 0 || pi >= len(cal.Params) || !inModule(cal) {
			return false
		}
		n := 0
		for _, b := range cal.Blocks {
			ret, ok := b.Instrs[len(b.Instrs)-1].(*ssa.Return)
			if !ok {
				continue
			}
			n++
			if idx >= len(ret.Results) {
				return false
			}
			mm, ok := lookThrough(ret.Results[idx]).(*ssa.MakeMap)
			if !ok {
				return false
			}
			copied := false
			for _, b2 := range cal.Blocks {
				for _, ins := range b2.Instrs {
					mu, ok := ins.(*ssa.MapUpdate)
					if !ok || mu.Map != ssa.Value(mm) {
						continue
					}
					if ex, ok := mu.Key.(*ssa.Extract); ok {
						if nx, ok := ex.Tuple.(*ssa.Next); ok {
							if rg, ok := nx.Iter.(*ssa.Range); ok && rg.X == ssa.Value(cal.Params[pi]) {
								copied = true
							}
						}
					}
				}
			}
			if !copied {
				return false
			}
		}
		return n > 0
	}
	if a := call.Call.Args[0]; a != ssa.Value(pc.Params[0]) && !isSpillOf(a, pc.Params[0]) {
		return false
	}
	n := 0
	for _, b := range cal.Blocks {
		ret, ok := b.Instrs[len(b.Instrs)-1].(*ssa.Return)
		if !ok {
			continue
		}
		n++
		if idx >= len(ret.Results) {
			return false
		}
		mm, ok := lookThrough(ret.Results[idx]).(*ssa.MakeMap)
		if !ok {
			return false
		}
		copied := false
		for _, b2 := range cal.Blocks {
			for _, ins := range b2.Instrs {
				mu, ok := ins.(*ssa.MapUpdate)
				if !ok || mu.Map != ssa.Value(mm) {
					continue
				}
				if ex, ok := mu.Key.(*ssa.Extract); ok {
					if nx, ok := ex.Tuple.(*ssa.Next); ok {
						if rg, ok := nx.Iter.(*ssa.Range); ok && recvFieldLoad(cal, rg.X, h) {
							copied = true
						}
					}
				}
			}
		}
		if !copied {
			return false
		}
	}
	return n > 0
}

func c04SelfFeed(c *Ctx, bi bodyImpl, tname string, pc *ssa.Function) {
	// the maps that become the remainder's hidden sets
	fresh := map[ssa.Value]string{}
	for _, al := range complitsOf(pc, bi.named) {
		for _, h := range bi.hidden {
			for _, st := range fieldStores(al, h) {
				if mm, ok := st.Val.(*ssa.MakeMap); ok {
					fresh[mm] = h.Name()
				}
			}
		}
	}
	isFresh := func(v ssa.Value) (string, bool) {
		if n, ok := fresh[v]; ok {
			return n, true
		}
		// loaded back from the remainder literal's field
		if u, ok := v.(*ssa.UnOp); ok && u.Op == token.MUL {
			if fa, ok := u.X.(*ssa.FieldAddr); ok {
				if al, ok := fa.X.(*ssa.Alloc); ok && namedOf(al.Type()) == bi.named {
					for _, h := range bi.hidden {
						if fieldVarOf(fa.X.Type(), fa.Field) == h {
							return h.Name(), true
						}
					}
				}
			}
		}
		return "", false
	}
	recv := pc.Params[0]
	fromReceiver := func(v ssa.Value) bool {
		seen := map[ssa.Value]bool{}
		var walk func(v ssa.Value, d int) bool
		walk = func(v ssa.Value, d int) bool {
			if v == nil || seen[v] || d > 8 {
				return false
			}
			seen[v] = true
			if v == ssa.Value(recv) || isSpillOf(v, recv) {
				return true
			}
			switch x := v.(type) {
			case *ssa.UnOp:
				return walk(x.X, d+1)
			case *ssa.FieldAddr:
				return walk(x.X, d+1)
			case *ssa.Extract:
				return walk(x.Tuple, d+1)
			case *ssa.Call:
				for _, a := range x.Call.Args {
					if walk(a, d+1) {
						return true
					}
				}
			case *ssa.Phi:
				for _, e := range x.Edges {
					if walk(e, d+1) {
						return true
					}
				}
			}
			return false
		}
		return walk(v, 0)
	}
	n := 0
	for _, scc := range sccBlocks(pc.Blocks, nil) {
		if len(scc) < 2 {
			continue
		}
		// what the loop iterates over
		overItems := false
		for _, b := range scc {
			for _, ins := range b.Instrs {
				switch x := ins.(type) {
				case *ssa.IndexAddr:
					if isRangeIndex(x.Index) && fromReceiver(x.X) {
						overItems = true
					}
				case *ssa.Next:
					if rg, ok := x.Iter.(*ssa.Range); ok && fromReceiver(rg.X) {
						overItems = true
					}
				}
			}
		}
		if !overItems {
			continue
		}
		looked, updated := map[string]token.Pos{}, map[string]token.Pos{}
		for _, b := range scc {
			for _, ins := range b.Instrs {
				switch x := ins.(type) {
				case *ssa.Lookup:
					if h, ok := isFresh(x.X); ok {
						looked[h] = x.Pos()
					}
				case *ssa.MapUpdate:
					if h, ok := isFresh(x.Map); ok {
						// the copy loop over the receiver's own hidden set is not an item loop
						updated[h] = x.Pos()
					}
				}
			}
		}
		for h, pos := range looked {
			n++
			_, fed := updated[h]
			c.Check(!fed, "hidden.selffeed", tname+".PartialContent:loop["+h+"]", pos, "the set consulted in the item loop is not extended in it",
				"the item loop skips items by looking them up in the "+h+" set it is itself extending: after one item of a name has been matched, later items of the same name are dropped (neither returned, reported nor left in the remainder)")
		}
	}
	_ = n
}

func c04ReadOnly(c *Ctx, bi bodyImpl, tname string) {
	n := 0
	for _, fn := range c.P.pkgFuncs(bi.pkg) {
		top := fn
		for top.Parent() != nil {
			top = top.Parent()
		}
		if top.Signature.Recv() == nil || namedOf(top.Signature.Recv().Type()) != bi.named {
			continue
		}
		for _, b := range fn.Blocks {
			for _, ins := range b.Instrs {
				var m ssa.Value
				switch x := ins.(type) {
				case *ssa.MapUpdate:
					m = x.Map
				case *ssa.Call:
					if bi2, ok := x.Call.Value.(*ssa.Builtin); ok && (bi2.Name() == "delete" || bi2.Name() == "clear") {
						m = x.Call.Args[0]
					}
				}
				if m == nil {
					continue
				}
				for _, h := range bi.hidden {
					if recvFieldLoad(top, m, h) || (fn != top && loadedField(m) == h) {
						n++
						c.Fail("hidden.readonly", fmt.Sprintf("%s:write[%s]", FuncName(fn), h.Name()), ins.Pos(), "the receiver's own "+h.Name()+" is modified in place: the body a caller still holds changes under it (and concurrent callers race)")
					}
				}
			}
		}
	}
	if n == 0 {
		c.OK("hidden.readonly", tname+":methods", token.NoPos, "no method writes the receiver's hidden sets")
	}
}

func c04RemainderComplete(c *Ctx, bi bodyImpl, tname string, pc *ssa.Function) {
	hidden := map[*types.Var]bool{}
	for _, h := range bi.hidden {
		hidden[h] = true
	}
	for _, al := range complitsOf(pc, bi.named) {
		for _, f := range bi.fields {
			if hidden[f] {
				continue
			}
			key := fmt.Sprintf("%s.PartialContent:remainder.%s", tname, f.Name())
			ok := false
			for _, st := range fieldStores(al, f) {
				if recvFieldLoad(pc, st.Val, f) {
					ok = true
				}
			}
			c.Check(ok, "remainder.complete", key, al.Pos(), "copied from the receiver",
				"the remainder does not carry the receiver's "+f.Name()+": the body returned for further processing has lost part of its state")
		}
	}
}

func c04Honoured(c *Ctx, bi bodyImpl, tname string, ms map[string]*ssa.Function) {
	var attrHidden *types.Var
	for _, h := range bi.hidden {
		if strings.Contains(strings.ToLower(h.Name()), "attr") {
			attrHidden = h
		}
	}
	if attrHidden == nil {
		c.CheckerFail("hidden.honoured", tname+" has no hidden attribute set")
		return
	}
	var readsHidden func(fn *ssa.Function, depth int, seen map[*ssa.Function]bool) bool
	readsHidden = func(fn *ssa.Function, depth int, seen map[*ssa.Function]bool) bool {
		if fn == nil || seen[fn] || depth > 3 {
			return false
		}
		seen[fn] = true
		for _, b := range fn.Blocks {
			for _, ins := range b.Instrs {
				if fa, ok := ins.(*ssa.FieldAddr); ok && fieldVarOf(fa.X.Type(), fa.Field) == attrHidden {
					// a read: the address is loaded
					for _, r := range *fa.Referrers() {
						if u, ok := r.(*ssa.UnOp); ok && u.Op == token.MUL {
							return true
						}
					}
				}
				if call, ok := ins.(*ssa.Call); ok {
					if cal := call.Call.StaticCallee(); cal != nil && cal.Signature.Recv() != nil && namedOf(cal.Signature.Recv().Type()) == bi.named {
						if readsHidden(cal, depth+1, seen) {
							return true
						}
					}
				}
			}
		}
		return false
	}
	// the hidden block set, where the type has one: JustAttributes reports blocks ("not allowed here"),
	// so it must not report the ones an earlier PartialContent consumed
	var blockHidden *types.Var
	for _, h := range bi.hidden {
		if strings.Contains(strings.ToLower(h.Name()), "block") {
			blockHidden = h
		}
	}
	if blockHidden != nil {
		saved := attrHidden
		attrHidden = blockHidden
		fn := ms["JustAttributes"]
		ok := readsHidden(fn, 0, map[*ssa.Function]bool{})
		c.Check(ok, "hidden.honoured", tname+".JustAttributes:reads["+blockHidden.Name()+"]", fn.Pos(), "hidden block set consulted",
			"JustAttributes never consults "+blockHidden.Name()+": a block already consumed by an earlier PartialContent is reported as unexpected when the remaining body is read in attributes mode (gohcl's `remain` field of type hcl.Attributes does exactly that)")
		attrHidden = saved
	}
	for _, name := range []string{"Content", "PartialContent", "JustAttributes"} {
		fn := ms[name]
		ok := readsHidden(fn, 0, map[*ssa.Function]bool{})
		c.Check(ok, "hidden.honoured", tname+"."+name+":reads["+attrHidden.Name()+"]", fn.Pos(), "hidden attribute set consulted",
			name+" never consults "+attrHidden.Name()+": attributes already consumed by an earlier PartialContent are returned (or reported) again")
	}
}

func c04ContentShared(c *Ctx, bi bodyImpl, tname string, co, pc *ssa.Function) {
	callees := func(fn *ssa.Function) map[string]bool {
		out := map[string]bool{}
		for _, b := range fn.Blocks {
			for _, ins := range b.Instrs {
				call, ok := ins.(*ssa.Call)
				if !ok {
					continue
				}
				if cal := call.Call.StaticCallee(); cal != nil && inModule(cal) && cal.Signature.Recv() != nil && namedOf(cal.Signature.Recv().Type()) == bi.named && extractionHelper(cal) {
					out[cal.Name()] = true
				}
			}
		}
		return out
	}
	cc, pcc := callees(co), callees(pc)
	key := tname + ".Content:shared"
	if cc["PartialContent"] {
		c.OK("content.shared", key, co.Pos(), "Content calls PartialContent")
		return
	}
	delete(cc, "Content")
	delete(pcc, "PartialContent")
	var only []string
	for k := range cc {
		if !pcc[k] {
			only = append(only, "Content only: "+k)
		}
	}
	for k := range pcc {
		if !cc[k] {
			only = append(only, "PartialContent only: "+k)
		}
	}
	sort.Strings(only)
	if len(cc) == 0 && len(pcc) == 0 {
		c.Fail("content.shared", key, co.Pos(), "Content and PartialContent share no helper and Content does not call PartialContent: two independent extraction implementations")
		return
	}
	c.Check(len(only) == 0, "content.shared", key, co.Pos(), "Content and PartialContent go through the same helpers",
		"Content and PartialContent use different helpers ("+strings.Join(only, "; ")+"): exhaustive and partial processing can extract differently")
}

// extractionHelper: the method takes part in extracting content under a schema: it returns
// a schema, content, blocks or attributes value of package hcl (helpers that only build
// the remaining body's bookkeeping do not).
func extractionHelper(fn *ssa.Function) bool {
	mention := func(t types.Type) bool {
		for i := 0; i < 3; i++ {
			switch x := t.(type) {
			case *types.Pointer:
				t = x.Elem()
				continue
			case *types.Slice:
				t = x.Elem()
				continue
			}
			break
		}
		for _, n := range []string{"BodySchema", "BodyContent", "Blocks", "Attributes", "Block", "Attribute", "BlockHeaderSchema", "AttributeSchema"} {
			if isNamed(t, modPath, n) {
				return true
			}
		}
		return false
	}
	sig := fn.Signature
	for i := 0; i < sig.Results().Len(); i++ {
		if mention(sig.Results().At(i).Type()) {
			return true
		}
	}
	return false
}

// R6: merged bodies ask every child with a schema in which nothing is required.
func c04MergedRequired(c *Ctx) {
	c.Rule("R6 merged.required: in mergedBodies.mergedContent the schema handed to each child's Content/PartialContent is built so that every attribute schema put into it has Required stored as false (any one child may supply a required attribute; the check for required attributes is done on the merged result)")
	fn := c.P.LookupFunc("", "mergedBodies.mergedContent")
	if fn == nil {
		c.CheckerFail("merged.required", "anchor mergedBodies.mergedContent does not resolve")
		return
	}
	c.Fn(FuncName(fn))
	hclPkg := c.P.Pkg("")
	bsT := namedOf(hclPkg.Types.Scope().Lookup("BodySchema").Type())
	var schemaAlloc *ssa.Alloc
	for _, al := range complitsOf(fn, bsT) {
		schemaAlloc = al
	}
	if schemaAlloc == nil {
		c.Fail("merged.required", FuncName(fn)+":schema", fn.Pos(), "no fresh BodySchema is built for the children: they are asked with the caller's schema, so a required attribute must be present in every child")
		return
	}
	// every call of Content/PartialContent on a child gets the fresh schema
	nCalls := 0
	for _, b := range fn.Blocks {
		for _, ins := range b.Instrs {
			call, ok := ins.(*ssa.Call)
			if !ok || !call.Call.IsInvoke() || (call.Call.Method.Name() != "Content" && call.Call.Method.Name() != "PartialContent") {
				continue
			}
			nCalls++
			c.Check(len(call.Call.Args) == 1 && call.Call.Args[0] == ssa.Value(schemaAlloc), "merged.required", FuncName(fn)+":call["+call.Call.Method.Name()+"].schema", call.Pos(),
				"child is asked with the relaxed schema", "a child body is asked with a schema other than the relaxed copy")
		}
	}
	// what flows into schema.Attributes
	var attrsField *types.Var
	st := bsT.Underlying().(*types.Struct)
	for i := 0; i < st.NumFields(); i++ {
		if st.Field(i).Name() == "Attributes" {
			attrsField = st.Field(i)
		}
	}
	sts := fieldStores(schemaAlloc, attrsField)
	if len(sts) == 0 {
		c.Fail("merged.required", FuncName(fn)+":schema.Attributes", schemaAlloc.Pos(), "the relaxed schema never receives the attribute schemas")
		return
	}
	for _, s := range sts {
		ok, why := relaxedAttrs(s.Val, schemaAlloc, attrsField, map[ssa.Value]bool{})
		c.Check(ok, "merged.required", FuncName(fn)+":schema.Attributes", s.Pos(), "every element has Required = false", why)
	}
	c.Floor("merged.required child calls", nCalls, 2, "body.Content and body.PartialContent")
}

// relaxedAttrs: v is a slice every element of which is an AttributeSchema with Required stored false.
func relaxedAttrs(v ssa.Value, schema *ssa.Alloc, attrsField *types.Var, seen map[ssa.Value]bool) (bool, string) {
	if seen[v] {
		return true, ""
	}
	seen[v] = true
	switch x := v.(type) {
	case *ssa.Const:
		return true, ""
	case *ssa.Phi:
		for _, e := range x.Edges {
			if ok, why := relaxedAttrs(e, schema, attrsField, seen); !ok {
				return false, why
			}
		}
		return true, ""
	case *ssa.UnOp:
		// load of schema.Attributes itself (the running value)
		if fa, ok := x.X.(*ssa.FieldAddr); ok && fa.X == ssa.Value(schema) && fieldVarOf(fa.X.Type(), fa.Field) == attrsField {
			return true, ""
		}
	case *ssa.Call:
		if bi, ok := x.Call.Value.(*ssa.Builtin); ok && bi.Name() == "append" {
			if ok, why := relaxedAttrs(x.Call.Args[0], schema, attrsField, seen); !ok {
				return false, why
			}
			// appended elements: a varargs slice of a local array
			if sl, ok := x.Call.Args[1].(*ssa.Slice); ok {
				if arr, ok := sl.X.(*ssa.Alloc); ok {
					for _, st := range storesInto(arr) {
						if !requiredFalse(st.Val) {
							return false, "an attribute schema is appended to the children's schema without Required being set to false: a required attribute must then be present in every merged body"
						}
					}
					return true, ""
				}
			}
			return false, "attribute schemas are appended to the children's schema from a slice whose elements keep their Required flag"
		}
	}
	return false, "the children's schema takes its attribute schemas from a value whose elements keep their Required flag (copy of the caller's slice)"
}

// requiredFalse: v is a load of a local AttributeSchema into which Required=false was stored.
func requiredFalse(v ssa.Value) bool {
	u, ok := v.(*ssa.UnOp)
	if !ok || u.Op != token.MUL {
		return false
	}
	al, ok := u.X.(*ssa.Alloc)
	if !ok {
		return false
	}
	for _, st := range storesInto(al) {
		if fa, ok := st.Addr.(*ssa.FieldAddr); ok {
			if fv := fieldVarOf(fa.X.Type(), fa.Field); fv != nil && fv.Name() == "Required" {
				if cst, ok := st.Val.(*ssa.Const); ok && cst.Value != nil && cst.Value.String() == "false" {
					return true
				}
			}
		}
	}
	return false
}

// R7: copy into a zero-length destination copies nothing.
func c04CopyIntoEmpty(c *Ctx) {
	c.Rule("R7 copy.empty: in the body/schema code (hcl, hclsyntax, json, ext/dynblock, hcldec) no copy(dst, src) has a destination made with length 0 (it would copy nothing: e.g. the caller's attribute schemas silently dropped from an extended schema)")
	n := 0
	for _, fn := range c.P.pkgFuncs(c.Scope("hcl", "hclsyntax", "json", "ext/dynblock", "hcldec")...) {
		for _, b := range fn.Blocks {
			for _, ins := range b.Instrs {
				call, ok := ins.(*ssa.Call)
				if !ok {
					continue
				}
				bi, ok := call.Call.Value.(*ssa.Builtin)
				if !ok || bi.Name() != "copy" {
					continue
				}
				n++
				c.Fn(FuncName(fn))
				dst := call.Call.Args[0]
				bad := false
				if ms, ok := dst.(*ssa.MakeSlice); ok {
					if z, ok := constInt(ms.Len); ok && z == 0 {
						bad = true
					}
				}
				c.Check(!bad, "copy.empty", FuncName(fn)+":copy["+typeStr(dst.Type())+"]", call.Pos(), "destination has room",
					"copy into a slice made with length 0 copies nothing: the source elements are silently dropped")
			}
		}
	}
	c.Floor("copy.empty sites", n, 2, "extendSchema copies of Blocks and Attributes")
}

// R8: assignments to a field of a range-loop copy have no effect.
func c04DeadFieldStore(c *Ctx) {
	c.Rule("R8 rangecopy.store: no store to a field of a local struct copy (range variable or `x := elem`) whose value is never read again: such an assignment does not reach the slice element it appears to update")
	n, bad := 0, 0
	for _, fn := range c.P.pkgFuncs(c.Scope("hcl", "hclsyntax", "json", "ext/dynblock", "hcldec")...) {
		for _, b := range fn.Blocks {
			for _, ins := range b.Instrs {
				al, ok := ins.(*ssa.Alloc)
				if !ok || al.Heap {
					continue
				}
				if _, isStruct := al.Type().(*types.Pointer).Elem().Underlying().(*types.Struct); !isStruct {
					continue
				}
				if strings.Contains(al.Comment, "complit") {
					continue
				}
				// referrers: whole stores, field stores, and any reads?
				fieldStoresN, reads := 0, 0
				var pos token.Pos
				for _, r := range *al.Referrers() {
					switch x := r.(type) {
					case *ssa.Store:
						if x.Addr != ssa.Value(al) {
							reads++
						}
					case *ssa.FieldAddr:
						for _, r2 := range *x.Referrers() {
							if st, ok := r2.(*ssa.Store); ok && st.Addr == ssa.Value(x) {
								fieldStoresN++
								pos = st.Pos()
							} else {
								reads++
							}
						}
					case *ssa.DebugRef:
					default:
						reads++
					}
				}
				if fieldStoresN == 0 {
					continue
				}
				n++
				if reads == 0 {
					bad++
					c.Fn(FuncName(fn))
					c.Fail("rangecopy.store", FuncName(fn)+":local["+al.Comment+"]", pos, "a field of the local copy `"+al.Comment+"` is assigned but the copy is never read: the assignment has no effect on the element it was copied from")
				}
			}
		}
	}
	if bad == 0 {
		c.OK("rangecopy.store", "all", token.NoPos, fmt.Sprintf("%d local struct copies with field stores are all read afterwards", n))
	}
	c.Floor("rangecopy.store candidates", n, 1, "mergedAttrS in mergedContent")
}

// R10 hidden.filter: in every method of a Body implementation, inside a loop that looks an item's
// name up in a hidden set, every insertion into the result of that kind (a store into an
// hcl.Attributes map for the attribute set, an append to hcl.Blocks for the block set) lies on the
// not-hidden side of such a lookup.
func c04HiddenFilter(c *Ctx, bi bodyImpl, tname string) int {
	kindOf := func(h *types.Var) string {
		if strings.Contains(strings.ToLower(h.Name()), "attr") {
			return "attrs"
		}
		return "blocks"
	}
	// predicate helpers: a method of the type that returns the found bit of a hidden-set lookup
	hiddenPred := map[*ssa.Function]string{}
	for _, h := range c.P.pkgFuncs(bi.pkg) {
		if h.Parent() != nil || h.Signature.Recv() == nil || namedOf(h.Signature.Recv().Type()) != bi.named || h.Signature.Results().Len() != 1 {
			continue
		}
		if bt, ok := h.Signature.Results().At(0).Type().Underlying().(*types.Basic); !ok || bt.Kind() != types.Bool {
			continue
		}
		kind, okAll := "", true
		for _, hb := range h.Blocks {
			r, ok := hb.Instrs[len(hb.Instrs)-1].(*ssa.Return)
			if !ok {
				continue
			}
			ex, ok := r.Results[0].(*ssa.Extract)
			if !ok || ex.Index != 1 {
				okAll = false
				continue
			}
			lk, ok := ex.Tuple.(*ssa.Lookup)
			if !ok {
				okAll = false
				continue
			}
			found := false
			if u, ok := lk.X.(*ssa.UnOp); ok && u.Op == token.MUL {
				if fa, ok := u.X.(*ssa.FieldAddr); ok {
					fv := fieldVarOf(fa.X.Type(), fa.Field)
					for _, hf := range bi.hidden {
						if fv == hf {
							kind, found = kindOf(hf), true
						}
					}
				}
			}
			if !found {
				okAll = false
			}
		}
		if okAll && kind != "" {
			hiddenPred[h] = kind
		}
	}
	n := 0
	for _, fn := range c.P.pkgFuncs(bi.pkg) {
		root := fn
		for root.Parent() != nil {
			root = root.Parent()
		}
		if root.Signature.Recv() == nil || namedOf(root.Signature.Recv().Type()) != bi.named {
			continue
		}
		// maps that become hidden sets of a remainder built here
		fresh := map[ssa.Value]*types.Var{}
		for _, al := range complitsOf(fn, bi.named) {
			for _, h := range bi.hidden {
				for _, st := range fieldStores(al, h) {
					fresh[st.Val] = h
				}
			}
		}
		hiddenSet := func(v ssa.Value) *types.Var {
			if h, ok := fresh[v]; ok {
				return h
			}
			if u, ok := v.(*ssa.UnOp); ok && u.Op == token.MUL {
				if fa, ok := u.X.(*ssa.FieldAddr); ok {
					fv := fieldVarOf(fa.X.Type(), fa.Field)
					for _, h := range bi.hidden {
						if fv == h {
							return h
						}
					}
				}
			}
			return nil
		}
		for _, scc := range sccBlocks(fn.Blocks, nil) {
			if len(scc) < 2 {
				continue
			}
			// not-hidden regions per kind
			regions := map[string][]*ssa.BasicBlock{}
			lookups := map[string]token.Pos{}
			undecided := ""
			foundBits := map[string][]ssa.Value{}
			for _, b := range scc {
				for _, ins := range b.Instrs {
					if call, ok := ins.(*ssa.Call); ok {
						if k, isPred := hiddenPred[call.Call.StaticCallee()]; isPred && call.Call.StaticCallee() != nil {
							lookups[k] = call.Pos()
							for _, rr := range *call.Referrers() {
								var iff *ssa.If
								neg := false
								switch y := rr.(type) {
								case *ssa.If:
									iff = y
								case *ssa.UnOp:
									if y.Op == token.NOT {
										for _, r3 := range *y.Referrers() {
											if i3, ok := r3.(*ssa.If); ok {
												iff, neg = i3, true
											}
										}
									}
								}
								if iff == nil {
									continue
								}
								side := 1
								if neg {
									side = 0
								}
								if succ := iff.Block().Succs[side]; len(succ.Preds) == 1 {
									regions[k] = append(regions[k], succ)
								}
							}
						}
						continue
					}
					lk, ok := ins.(*ssa.Lookup)
					if !ok || !lk.CommaOk {
						continue
					}
					h := hiddenSet(lk.X)
					if h == nil {
						continue
					}
					k := kindOf(h)
					lookups[k] = lk.Pos()
					// the found bit and the branches on it
					for _, r := range *lk.Referrers() {
						ex, ok := r.(*ssa.Extract)
						if !ok || ex.Index != 1 {
							continue
						}
						foundBits[k] = append(foundBits[k], ex)
						for _, rr := range *ex.Referrers() {
							var iff *ssa.If
							neg := false
							switch y := rr.(type) {
							case *ssa.If:
								iff = y
							case *ssa.UnOp:
								if y.Op == token.NOT {
									for _, r3 := range *y.Referrers() {
										if i3, ok := r3.(*ssa.If); ok {
											iff, neg = i3, true
										}
									}
								}
							}
							if iff == nil {
								// used as a value (`exists && !hidden` in a switch case, a local): decided below
								// by evaluating the branch conditions with the found bit assumed true
								continue
							}
							side := 1 // not found: false edge
							if neg {
								side = 0
							}
							succ := iff.Block().Succs[side]
							if len(succ.Preds) == 1 {
								regions[k] = append(regions[k], succ)
							}
						}
					}
				}
			}
			if len(lookups) == 0 {
				continue
			}
			for _, b := range scc {
				for _, ins := range b.Instrs {
					kind := ""
					var pos token.Pos
					switch x := ins.(type) {
					case *ssa.MapUpdate:
						if mt, ok := x.Map.Type().Underlying().(*types.Map); ok {
							if pt, ok := mt.Elem().(*types.Pointer); ok {
								if nt := namedOf(pt.Elem()); nt != nil && nt.Obj().Name() == "Attribute" && nt.Obj().Pkg().Path() == modPath {
									kind, pos = "attrs", x.Pos()
								}
							}
						}
					case *ssa.Call:
						if bt, ok := x.Call.Value.(*ssa.Builtin); ok && bt.Name() == "append" {
							if nt := namedOf(x.Type()); nt != nil && nt.Obj().Name() == "Blocks" && nt.Obj().Pkg().Path() == modPath {
								kind, pos = "blocks", x.Pos()
							}
						}
					}
					if kind == "" {
						continue
					}
					if _, has := lookups[kind]; !has {
						continue
					}
					n++
					c.Sites++
					key := fmt.Sprintf("%s:%s", FuncName(fn), kind)
					if undecided != "" {
						c.Undecided("hidden.filter", key, pos, undecided)
						continue
					}
					ok := false
					for _, r := range regions[kind] {
						if r == b || r.Dominates(b) {
							ok = true
						}
					}
					if !ok && len(foundBits[kind]) > 0 {
						// with every lookup of this kind answering "hidden", the insertion must be unreachable
						bv := map[ssa.Value]bool{}
						for _, fb := range foundBits[kind] {
							bv[fb] = true
						}
						run := (&condAtoms{boolVals: bv}).run(fn, 0)
						if !run.reach[b] {
							ok = true
						}
					}
					c.Check(ok, "hidden.filter", key, pos, "inserted only on the not-hidden side of the lookup",
						"an item is put into the result on a path that has not found its name absent from the hidden set, in a loop that filters by that set: items consumed by an earlier PartialContent are returned again by a later call on the remaining body")
				}
			}
		}
	}
	return n
}

// R11 leftover.source: the loops of Content that decide, by a hidden-set lookup, which items are
// left over range over the same item sources of the receiver (a field, or the result of a receiver
// method) as the extraction in PartialContent does.
func c04LeftoverSource(c *Ctx, bi bodyImpl, tname string, co, pc *ssa.Function) {
	isHidden := func(fv *types.Var) bool {
		for _, h := range bi.hidden {
			if h == fv {
				return true
			}
		}
		return false
	}
	var describe func(fn *ssa.Function, v ssa.Value, d int) string
	describe = func(fn *ssa.Function, v ssa.Value, d int) string {
		if v == nil || d > 8 {
			return ""
		}
		switch x := v.(type) {
		case *ssa.UnOp:
			if x.Op == token.MUL {
				if fa, ok := x.X.(*ssa.FieldAddr); ok {
					if inner := describe(fn, fa.X, d+1); inner != "" && inner != "recv" {
						return inner
					}
					if fa.X == ssa.Value(fn.Params[0]) || isSpillOf(fa.X, fn.Params[0]) {
						fv := fieldVarOf(fa.X.Type(), fa.Field)
						if fv != nil && !isHidden(fv) {
							return "field " + fv.Name()
						}
					}
					return ""
				}
				if al, ok := x.X.(*ssa.Alloc); ok {
					if st := reachingStore(al, x); st != nil {
						return describe(fn, st.Val, d+1)
					}
				}
				return describe(fn, x.X, d+1)
			}
		case *ssa.FieldAddr:
			return describe(fn, &ssa.UnOp{Op: token.MUL, X: x}, d+1)
		case *ssa.Field:
			return describe(fn, x.X, d+1)
		case *ssa.TypeAssert:
			return describe(fn, x.X, d+1)
		case *ssa.Extract:
			return describe(fn, x.Tuple, d+1)
		case *ssa.ChangeType:
			return describe(fn, x.X, d+1)
		case *ssa.MakeInterface:
			return describe(fn, x.X, d+1)
		case *ssa.Call:
			if cal := x.Call.StaticCallee(); cal != nil && cal.Signature.Recv() != nil && namedOf(cal.Signature.Recv().Type()) == bi.named {
				return "method " + cal.Name()
			}
		case *ssa.Phi:
			for _, e := range x.Edges {
				if s := describe(fn, e, d+1); s != "" {
					return s
				}
			}
		}
		return ""
	}
	hiddenLookup := func(v ssa.Value) bool {
		if u, ok := v.(*ssa.UnOp); ok && u.Op == token.MUL {
			if fa, ok := u.X.(*ssa.FieldAddr); ok {
				return isHidden(fieldVarOf(fa.X.Type(), fa.Field))
			}
		}
		return false
	}
	sources := func(fn *ssa.Function, onlyFiltered bool) map[string]token.Pos {
		out := map[string]token.Pos{}
		for _, scc := range sccBlocks(fn.Blocks, nil) {
			if len(scc) < 2 {
				continue
			}
			filtered := false
			for _, b := range scc {
				for _, ins := range b.Instrs {
					if lk, ok := ins.(*ssa.Lookup); ok && lk.CommaOk && hiddenLookup(lk.X) {
						filtered = true
					}
				}
			}
			if onlyFiltered && !filtered {
				continue
			}
			for _, b := range scc {
				for _, ins := range b.Instrs {
					switch x := ins.(type) {
					case *ssa.IndexAddr:
						if isRangeIndex(x.Index) {
							if s := describe(fn, x.X, 0); s != "" {
								out[s] = x.Pos()
							}
						}
					case *ssa.Next:
						if rg, ok := x.Iter.(*ssa.Range); ok {
							if s := describe(fn, rg.X, 0); s != "" {
								out[s] = rg.Pos()
							}
						}
					case *ssa.Lookup:
						if !onlyFiltered && !hiddenLookup(x.X) {
							if s := describe(fn, x.X, 0); s != "" {
								out[s] = x.Pos()
							}
						}
					}
				}
			}
		}
		return out
	}
	left := sources(co, true)
	if len(left) == 0 {
		return
	}
	have := sources(pc, false)
	var names []string
	for s := range left {
		names = append(names, s)
	}
	sort.Strings(names)
	for _, s := range names {
		_, ok := have[s]
		var all []string
		for h := range have {
			all = append(all, h)
		}
		sort.Strings(all)
		c.Check(ok, "leftover.source", tname+".Content:over["+s+"]", left[s], "PartialContent extracts from the same source",
			"Content decides what is left over by ranging over "+s+" of the receiver, which PartialContent does not extract from (it uses "+strings.Join(all, ", ")+"): items PartialContent can see are never reported as unexpected, or the reverse")
	}
}

// R12 remainder.threaded
func c04RemainderThreaded(c *Ctx, bi bodyImpl, tname string, pc *ssa.Function) {
	recv := pc.Params[0]
	isRecv := func(v ssa.Value) bool {
		if v == ssa.Value(recv) || isSpillOf(v, recv) {
			return true
		}
		// the cell a value receiver is spilled into
		if al, ok := v.(*ssa.Alloc); ok {
			n, from := 0, false
			for _, r := range *al.Referrers() {
				if st, ok := r.(*ssa.Store); ok && st.Addr == ssa.Value(al) {
					n++
					from = st.Val == ssa.Value(recv)
				}
			}
			return n == 1 && from
		}
		return false
	}
	// inner call: PartialContent invoked on a Body-typed field of the receiver
	var inner *ssa.Call
	var field *types.Var
	for _, b := range pc.Blocks {
		for _, ins := range b.Instrs {
			call, ok := ins.(*ssa.Call)
			if !ok || !call.Call.IsInvoke() || call.Call.Method.Name() != "PartialContent" {
				continue
			}
			switch x := call.Call.Value.(type) {
			case *ssa.Field:
				if isRecv(x.X) {
					inner, field = call, fieldVarOf(x.X.Type(), x.Field)
				}
			case *ssa.UnOp:
				if fa, ok := x.X.(*ssa.FieldAddr); ok && x.Op == token.MUL && isRecv(fa.X) {
					inner, field = call, fieldVarOf(fa.X.Type(), fa.Field)
				}
			}
		}
	}
	if inner == nil || field == nil {
		return
	}
	n := 0
	for _, al := range complitsOf(pc, bi.named) {
		for _, st := range fieldStores(al, field) {
			n++
			c.Sites++
			v := st.Val
			if mi, ok := v.(*ssa.MakeInterface); ok {
				v = mi.X
			}
			ex, ok := v.(*ssa.Extract)
			okv := ok && ex.Tuple == ssa.Value(inner) && ex.Index == 1
			c.Check(okv, "remainder.threaded", tname+".PartialContent:remainder."+field.Name(), st.Pos(), "the wrapped body's remainder",
				"the body returned for further processing wraps "+pathName(st.Val)+" instead of the remainder of the inner PartialContent call: it still contains the items this call has just consumed, so an exhaustive second step reports them as unexpected (or returns them twice)")
		}
	}
	// the wrapper may be built by a method of the type that is handed the inner remainder
	for _, b := range pc.Blocks {
		for _, ins := range b.Instrs {
			call, ok := ins.(*ssa.Call)
			if !ok {
				continue
			}
			h := call.Call.StaticCallee()
			if h == nil || h == pc || len(h.Blocks) == 0 || h.Signature.Recv() == nil || namedOf(h.Signature.Recv().Type()) != bi.named {
				continue
			}
			// only a call whose result is the body that PartialContent returns
			isReturned := false
			for _, rb := range pc.Blocks {
				if ret, ok := rb.Instrs[len(rb.Instrs)-1].(*ssa.Return); ok && len(ret.Results) >= 2 {
					v := ret.Results[1]
					if mi, ok := v.(*ssa.MakeInterface); ok {
						v = mi.X
					}
					if v == ssa.Value(call) {
						isReturned = true
					}
				}
			}
			if !isReturned {
				continue
			}
			lits := complitsOf(h, bi.named)
			if len(lits) == 0 {
				continue
			}
			for _, al := range lits {
				for _, st := range fieldStores(al, field) {
					n++
					c.Sites++
					v := st.Val
					if mi, ok := v.(*ssa.MakeInterface); ok {
						v = mi.X
					}
					okv := false
					for k, par := range h.Params {
						if v == ssa.Value(par) && k < len(call.Call.Args) {
							if ex, ok := call.Call.Args[k].(*ssa.Extract); ok && ex.Tuple == ssa.Value(inner) && ex.Index == 1 {
								okv = true
							}
						}
					}
					c.Check(okv, "remainder.threaded", tname+".PartialContent:remainder."+field.Name(), call.Pos(), "the wrapped body's remainder (through "+h.Name()+")",
						"the body returned for further processing is built by "+h.Name()+" from something other than the remainder of the inner PartialContent call: it still contains the items this call has just consumed")
				}
			}
		}
	}
	if n == 0 {
		c.Sites++
		c.Undecided("remainder.threaded", tname+".PartialContent:remainder."+field.Name(), pc.Pos(), "the wrapper's remainder literal was not found")
	}
}
