package main

import (
	"fmt"
	"go/constant"
	"go/token"
	"go/types"
	"sort"
	"strings"

	"golang.org/x/tools/go/ssa"
)

// E-taint (C19): interprocedural, context-insensitive taint analysis.
//
//   C  "content": the value is, or was computed from, the content of an evaluated
//      cty value (every cty.Value that is not a fresh constant counts: any of them
//      may be marked);
//   T  "type of an evaluated value": a cty.Type obtained from such a value; its
//      *name* is public, but its attribute names come from evaluated object keys
//      and become C when extracted or formatted.
// Sinks: stores into hcl.Diagnostic.Summary / Detail.
// Trusted clean: error values and err.Error() (cty conversion errors name types
// and target attributes; function errors are outside the property), booleans,
// lengths, type friendly names.

type taintBits uint8

const (
	tC taintBits = 1 // Go data (or a value rebuilt from it) derived from evaluated content
	tT taintBits = 2 // cty.Type of an evaluated value
	tV taintBits = 4 // an evaluated cty value (or a container of such): content once read or formatted
)

// normalize drops the bits a value of this type cannot carry.
func normalize(t taintBits, typ types.Type) taintBits {
	if t == 0 {
		return 0
	}
	switch typ.Underlying().(type) {
	case *types.Basic:
		t &^= tV | tT
	}
	if isCtyTypeT(typ) {
		t &= tT
	}
	return t
}

type taintEngine struct {
	p       *Program
	fns     []*ssa.Function
	inScope map[*ssa.Function]bool
	val     map[ssa.Value]taintBits
	why     map[ssa.Value]ssa.Value // provenance: operand that brought the taint
	param   map[*ssa.Parameter]taintBits
	ret     map[*ssa.Function]taintBits
	cell    map[cellKey]taintBits
	cellWhy map[cellKey]ssa.Value
}

type cellKey struct {
	root ssa.Value
	path string
}

func newTaintEngine(p *Program, fns []*ssa.Function) *taintEngine {
	e := &taintEngine{p: p, fns: fns, inScope: map[*ssa.Function]bool{}, val: map[ssa.Value]taintBits{}, why: map[ssa.Value]ssa.Value{},
		param: map[*ssa.Parameter]taintBits{}, ret: map[*ssa.Function]taintBits{}, cell: map[cellKey]taintBits{}, cellWhy: map[cellKey]ssa.Value{}}
	for _, f := range fns {
		e.inScope[f] = true
	}
	e.run()
	return e
}

func isBoolType(t types.Type) bool {
	b, ok := t.Underlying().(*types.Basic)
	return ok && b.Kind() == types.Bool
}

func isErrorType(t types.Type) bool {
	n, ok := types.Unalias(t).(*types.Named)
	return ok && n.Obj().Pkg() == nil && n.Obj().Name() == "error"
}

func isCtyTypeT(t types.Type) bool {
	return isNamed(t, ctyPath, "Type") && !isCtyValue(t)
}

// ctyConstantCtor: package-level cty constructors; the result is clean iff all operands are.
var ctyTypeCleanMethods = map[string]bool{
	"FriendlyName": true, "FriendlyNameForConstraint": true, "Equals": true, "HasDynamicTypes": true, "HasAttribute": true,
	"IsPrimitiveType": true, "IsListType": true, "IsSetType": true, "IsMapType": true, "IsTupleType": true, "IsObjectType": true,
	"IsCollectionType": true, "IsCapsuleType": true, "AttributeOptional": true, "Length": true,
}
var ctyTypeKeepT = map[string]bool{
	"ElementType": true, "AttributeType": true, "TupleElementTypes": true, "TupleElementType": true, "ListElementType": true,
	"SetElementType": true, "MapElementType": true, "WithoutOptionalAttributesDeep": true,
}
var ctyValueCleanMethods = map[string]bool{
	"IsNull": true, "IsKnown": true, "IsWhollyKnown": true, "IsMarked": true, "HasMark": true, "ContainsMarked": true,
	"LengthInt": true, "CanIterateElements": true, "HasWhollyKnownType": true, "Marks": true,
}

func (e *taintEngine) get(v ssa.Value) taintBits {
	if v == nil {
		return 0
	}
	switch x := v.(type) {
	case *ssa.Const, *ssa.Function, *ssa.Builtin:
		return 0
	case *ssa.Parameter:
		t := e.param[x]
		if valueLike(x.Type()) {
			t |= tV
		}
		return t
	case *ssa.Global:
		return 0
	}
	return e.val[v]
}

func (e *taintEngine) set(v ssa.Value, t taintBits, from ssa.Value) bool {
	if isBoolType(v.Type()) {
		return false
	}
	t = normalize(t, v.Type())
	old := e.val[v]
	if old|t != old {
		e.val[v] = old | t
		if from != nil && e.why[v] == nil {
			e.why[v] = from
		}
		return true
	}
	return false
}

func (e *taintEngine) run() {
	cg := e.p.CallGraph()
	for iter := 0; iter < 50; iter++ {
		changed := false
		for _, fn := range e.fns {
			for _, b := range fn.Blocks {
				for _, ins := range b.Instrs {
					if e.step(fn, ins, cg) {
						changed = true
					}
				}
			}
		}
		if !changed {
			break
		}
	}
}

func (e *taintEngine) unionOps(ins ssa.Instruction) (taintBits, ssa.Value) {
	var t taintBits
	var from ssa.Value
	for _, op := range ins.Operands(nil) {
		if *op == nil {
			continue
		}
		if ot := e.get(*op); ot != 0 {
			if t|ot != t && from == nil {
				from = *op
			}
			t |= ot
		}
	}
	return t, from
}

func (e *taintEngine) step(fn *ssa.Function, ins ssa.Instruction, cgIgnored interface{}) bool {
	switch x := ins.(type) {
	case *ssa.Store:
		t := e.get(x.Val)
		if t == 0 {
			return false
		}
		// field-sensitive cells: a tainted string stored into one field does not
		// taint the other fields of the object
		k := addrCell(x.Addr)
		if e.cell[k]|t != e.cell[k] {
			e.cell[k] |= t
			if e.cellWhy[k] == nil {
				e.cellWhy[k] = x.Val
			}
			return true
		}
		return false
	case *ssa.MapUpdate:
		ch := false
		// keys and values are kept apart: looking a value up by a tainted key does
		// not make the value content
		if kt := e.get(x.Key); kt != 0 {
			for _, m := range []ssa.Value{x.Map, memRootVal(x.Map)} {
				k := cellKey{m, "<key>"}
				if e.cell[k]|kt != e.cell[k] {
					e.cell[k] |= kt
					if e.cellWhy[k] == nil {
						e.cellWhy[k] = x.Key
					}
					ch = true
				}
			}
		}
		if vt := e.get(x.Value); vt != 0 {
			if e.set(x.Map, vt, x.Value) {
				ch = true
			}
			if u, ok := x.Map.(*ssa.UnOp); ok && u.Op == token.MUL {
				if e.set(memRoot(u.X), vt, x.Value) {
					ch = true
				}
			}
		}
		return ch
	case *ssa.Return:
		var t taintBits
		for _, r := range x.Results {
			t |= e.get(r)
		}
		if e.ret[fn]|t != e.ret[fn] {
			e.ret[fn] |= t
			return true
		}
		return false
	}
	v, ok := ins.(ssa.Value)
	if !ok {
		return false
	}
	var t taintBits
	var from ssa.Value
	switch x := v.(type) {
	case *ssa.UnOp:
		if x.Op == token.MUL {
			k := addrCell(x.X)
			t = e.cell[k]
			from = e.cellWhy[k]
			root := k.root
			// a whole-object store (`*p = v`) taints every field read back from it
			for pre := k.path; pre != ""; {
				i := strings.LastIndexAny(pre, ".[")
				if i < 0 {
					break
				}
				pre = pre[:i]
				pk := cellKey{root, pre}
				if ct := e.cell[pk]; ct != 0 {
					t |= ct
					if from == nil {
						from = e.cellWhy[pk]
					}
				}
			}
			if g, ok := root.(*ssa.Global); ok && g.Pkg != nil && isCtyPackage(g.Pkg.Pkg) {
				t = 0
			} else if valueLike(x.Type()) {
				// a value read from memory we did not build here (receiver field,
				// context variable table, …): evaluated content
				if _, local := root.(*ssa.Alloc); !local {
					t |= tV
				}
			}
			if _, isFV := root.(*ssa.FreeVar); isFV && k.path == "" {
				t |= e.val[root]
			}
			if strings.HasPrefix(k.path, "[*]") {
				// element of a slice value: the slice as a whole carries the taint
				if rt := e.get(root); rt != 0 {
					t |= rt
					if from == nil {
						from = root
					}
				}
			}
		} else {
			t, from = e.unionOps(ins)
		}
	case *ssa.FieldAddr:
		return false // addresses carry no taint; cells do
	case *ssa.Field:
		t, from = e.get(x.X), x.X
	case *ssa.Slice:
		t, from = e.get(x.X), x.X
		k := cellKey{x.X, "[*]"}
		if ct := e.cell[k]; ct != 0 {
			t |= ct
			from = e.cellWhy[k]
		}
	case *ssa.Call:
		return e.call(fn, x)
	case *ssa.MakeSlice, *ssa.MakeMap, *ssa.MakeChan, *ssa.Alloc:
		return false
	case *ssa.IndexAddr:
		return false
	case *ssa.Index:
		t, from = e.get(x.X), x.X
	case *ssa.Lookup:
		t, from = e.get(x.X), x.X
		if valueLike(x.Type()) {
			t |= tV
		}
	case *ssa.BinOp:
		if isNilConst(x.X) || isNilConst(x.Y) {
			return false
		}
		t, from = e.unionOps(ins)
	case *ssa.Extract:
		t, from = e.get(x.Tuple), x.Tuple
		if nx, ok := x.Tuple.(*ssa.Next); ok && x.Index == 1 {
			t &^= tV // the key of a table of values is a name; content keys arrive as tC
			if rg, ok := nx.Iter.(*ssa.Range); ok {
				for _, m := range []ssa.Value{rg.X, memRootVal(rg.X)} {
					k := cellKey{m, "<key>"}
					if kt := e.cell[k]; kt != 0 {
						t |= kt
						if from == nil {
							from = e.cellWhy[k]
						}
					}
				}
			}
		}
		if call, ok := x.Tuple.(*ssa.Call); ok {
			// per-result taint for calls whose results differ: (Value, Diagnostics)
			if !valueLike(x.Type()) && (isDiagnosticsType(x.Type()) || isBoolType(x.Type())) {
				t = 0
			}
			_ = call
		}
	default:
		t, from = e.unionOps(ins)
	}
	if isDiagnosticsType(v.Type()) {
		t = 0
	}
	if isBoxedError(v) && !isErrorType(v.Type()) {
		t = 0 // an error boxed for formatting prints err.Error(): trusted clean
	}
	if t == 0 {
		return false
	}
	return e.set(v, t, from)
}

func (e *taintEngine) call(fn *ssa.Function, x *ssa.Call) bool {
	ci := calleeOf(&x.Call)
	args := x.Call.Args
	var argT taintBits
	var from ssa.Value
	changed0 := false
	external := !strings.HasPrefix(ci.name, "builtin.") && ci.pkg != nil && !strings.HasPrefix(ci.pkg.Path(), modPath) && !isCtyPackage(ci.pkg)
	for _, a := range args {
		at := e.get(a)
		if external {
			// an error passed to a formatting function prints err.Error(): trusted clean
			if isErrorType(a.Type()) || isBoxedError(a) {
				at = 0
			}
			// pointer to a local object (bytes.Buffer, strings.Builder): its content
			if al := localPtrRoot(a); al != nil {
				at |= e.cell[cellKey{al, ""}]
			}
		}
		if at != 0 {
			if from == nil {
				from = a
			}
			argT |= at
		}
	}
	if external && argT != 0 {
		// the callee may write what it was given through its pointer arguments
		for _, a := range args {
			if al := localPtrRoot(a); al != nil {
				k := cellKey{al, ""}
				if e.cell[k]|tC != e.cell[k] {
					e.cell[k] |= tC
					if e.cellWhy[k] == nil {
						e.cellWhy[k] = from
					}
					changed0 = true
				}
			}
		}
	}
	if x.Call.IsInvoke() {
		if at := e.get(x.Call.Value); at != 0 {
			argT |= at
			if from == nil {
				from = x.Call.Value
			}
		}
	}
	changed := changed0
	resT := taintBits(0)
	switch {
	case strings.HasPrefix(ci.name, "builtin."):
		switch ci.name {
		case "builtin.len", "builtin.cap":
			return false
		case "builtin.append", "builtin.copy":
			resT = argT
			if ci.name == "builtin.copy" && len(args) == 2 {
				if e.set(memRootVal(args[0]), e.get(args[1]), args[1]) {
					changed = true
				}
			}
		default:
			resT = argT
		}
	case ci.name == "Error" && (x.Call.IsInvoke() && isErrorType(x.Call.Value.Type())):
		return false // err.Error(): trusted clean
	case ci.isCtyTypeMethod():
		recvT := taintBits(0)
		if len(args) > 0 {
			recvT = e.get(args[0])
		}
		switch {
		case ctyTypeCleanMethods[ci.name]:
			return false
		case ctyTypeKeepT[ci.name]:
			resT = recvT & tT
		default:
			// AttributeTypes, GoString, TestConformance, OptionalAttributes, …: names
			if recvT&tT != 0 {
				resT = tC
			}
		}
	case ci.isCtyValueMethod():
		switch {
		case ci.name == "Type":
			resT = tT // type of an evaluated value
			if len(args) > 0 && e.get(args[0]) == 0 {
				resT = 0
			}
			if resT != 0 && e.set(x, resT, from) {
				return true
			}
			return false
		case ctyValueCleanMethods[ci.name]:
			return false
		case ci.name == "AsValueMap":
			resT = argT &^ tT
			if argT != 0 {
				k := cellKey{x, "<key>"}
				if e.cell[k]|tC != e.cell[k] {
					e.cell[k] |= tC // keys of an evaluated map/object are content
					e.cellWhy[k] = from
					changed = true
				}
			}
		default:
			if valueLike(x.Type()) {
				resT = argT &^ tT
			} else if argT != 0 {
				resT = tC // content query: AsString, AsBigFloat, GoString, …
			}
		}
	case isCtyPackage(ci.pkg):
		// constructors and helpers of go-cty: clean iff all operands are clean
		resT = argT
		if ci.pkg.Path() == ctyPath+"/convert" && (ci.name == "MismatchMessage" || ci.name == "GetConversionUnsafe" || ci.name == "GetConversion") {
			if ci.name == "MismatchMessage" && argT&tT != 0 {
				resT = tC
			} else if ci.name != "MismatchMessage" {
				resT = 0
			}
		}
		if isCtyTypeT(x.Type()) {
			resT = argT & tT
		}
	default:
		// module or other callees
		callees := e.callees(fn, x)
		if len(callees) > 0 {
			for _, cal := range callees {
				if !e.inScope[cal] {
					// module function outside the analysed packages, or external: union
					if !inModule(cal) {
						if argT != 0 {
							if valueLike(x.Type()) {
								resT |= tV | (argT & tC)
							} else {
								resT |= tC // formatting / conversion of content into Go data
							}
						}
					} else {
						resT |= argT
					}
					continue
				}
				// bind arguments to parameters
				params := cal.Params
				actual := args
				if x.Call.IsInvoke() {
					actual = append([]ssa.Value{x.Call.Value}, args...)
				}
				for i, p := range params {
					if i >= len(actual) {
						break
					}
					at := e.get(actual[i])
					if at != 0 && e.param[p]|at != e.param[p] {
						e.param[p] |= at
						if e.why[p] == nil {
							e.why[p] = actual[i]
						}
						changed = true
					}
				}
				// closure bindings
				if mc, ok := x.Call.Value.(*ssa.MakeClosure); ok {
					for i, bnd := range mc.Bindings {
						if i < len(cal.FreeVars) {
							if bt := e.get(bnd); bt != 0 {
								if e.set(cal.FreeVars[i], bt, bnd) {
									changed = true
								}
							}
						}
					}
				}
				resT |= e.ret[cal]
			}
		} else {
			// unknown callee (function value from outside, external interface)
			if argT != 0 {
				if valueLike(x.Type()) {
					resT = tV | (argT & tC)
				} else {
					resT = tC
				}
			}
		}
		if valueLike(x.Type()) {
			resT |= tV // evaluation results are values
		}
	}
	if isCtyTypeT(x.Type()) {
		resT &= tT
	}
	if isDiagnosticsType(x.Type()) {
		resT = 0
	}
	if resT != 0 && e.set(x, resT, from) {
		changed = true
	}
	return changed
}

func memRootVal(v ssa.Value) ssa.Value {
	if u, ok := v.(*ssa.UnOp); ok && u.Op == token.MUL {
		return memRoot(u.X)
	}
	return memRoot(v)
}

func (e *taintEngine) callees(fn *ssa.Function, x *ssa.Call) []*ssa.Function {
	if f := staticCallee(&x.Call); f != nil {
		return []*ssa.Function{f}
	}
	var out []*ssa.Function
	if node := e.p.CallGraph().Nodes[fn]; node != nil {
		for _, ed := range node.Out {
			if ed.Site == x && ed.Callee.Func != nil {
				out = append(out, ed.Callee.Func)
			}
		}
	}
	sort.Slice(out, func(i, j int) bool { return FuncName(out[i]) < FuncName(out[j]) })
	return out
}

// chain renders the provenance of a tainted value.
func (e *taintEngine) chain(v ssa.Value) []string {
	var out []string
	seen := map[ssa.Value]bool{}
	for i := 0; v != nil && i < 12 && !seen[v]; i++ {
		seen[v] = true
		pos := token.NoPos
		if ins, ok := v.(ssa.Instruction); ok {
			pos = ins.Pos()
		} else {
			pos = v.Pos()
		}
		desc := valueDesc(v)
		if p, ok := v.(*ssa.Parameter); ok {
			desc = "parameter " + p.Name() + " of " + FuncName(p.Parent())
		}
		out = append(out, fmt.Sprintf("%s: %s", e.p.Position(pos), desc))
		v = e.why[v]
	}
	return out
}

type taintSink struct {
	fn      *ssa.Function
	pos     token.Pos
	field   string
	summary string
	val     ssa.Value
	tainted bool
	guard   string
}

// Sinks enumerates the stores into Diagnostic.Summary / Detail in the analysed functions.
func (e *taintEngine) Sinks() []taintSink {
	var out []taintSink
	for _, fn := range e.fns {
		for _, b := range fn.Blocks {
			for _, ins := range b.Instrs {
				st, ok := ins.(*ssa.Store)
				if !ok {
					continue
				}
				fa, ok := st.Addr.(*ssa.FieldAddr)
				if !ok || !isNamed(fa.X.Type(), modPath, "Diagnostic") {
					continue
				}
				fv := fieldVarOf(fa.X.Type(), fa.Field)
				if fv == nil || (fv.Name() != "Summary" && fv.Name() != "Detail") {
					continue
				}
				sk := taintSink{fn: fn, pos: st.Pos(), field: fv.Name(), summary: diagSummaryOf(fa.X), val: st.Val, tainted: e.get(st.Val)&tC != 0}
				if sk.tainted {
					if ok, why := e.guarded(st.Block(), st.Val); ok {
						sk.tainted = false
						sk.guard = why
					} else {
						sk.guard = why // the reason the guards do not cover it
					}
				}
				out = append(out, sk)
			}
		}
	}
	return out
}

// diagSummaryOf: the constant Summary stored into the same Diagnostic object, if any.
func diagSummaryOf(obj ssa.Value) string {
	refs := obj.Referrers()
	if refs == nil {
		return "?"
	}
	for _, r := range *refs {
		fa, ok := r.(*ssa.FieldAddr)
		if !ok {
			continue
		}
		fv := fieldVarOf(fa.X.Type(), fa.Field)
		if fv == nil || fv.Name() != "Summary" {
			continue
		}
		for _, r2 := range *fa.Referrers() {
			if st, ok := r2.(*ssa.Store); ok {
				if c, ok := st.Val.(*ssa.Const); ok && c.Value != nil && c.Value.Kind() == constant.String {
					return constant.StringVal(c.Value)
				}
				return "<computed>"
			}
		}
	}
	return "?"
}

// addrCell maps an address expression to its abstract cell: the root object and
// the field path (array/slice elements collapse to "[*]").
func addrCell(addr ssa.Value) cellKey {
	path := ""
	for {
		switch x := addr.(type) {
		case *ssa.FieldAddr:
			name := fmt.Sprint(x.Field)
			if fv := fieldVarOf(x.X.Type(), x.Field); fv != nil {
				name = fv.Name()
			}
			path = "." + name + path
			addr = x.X
		case *ssa.IndexAddr:
			path = "[*]" + path
			addr = x.X
		default:
			return cellKey{addr, path}
		}
	}
}

// isBoxedError: an error converted to interface{} (for a formatting call), also
// when it sits in a varargs slice element.
func isBoxedError(v ssa.Value) bool {
	switch x := v.(type) {
	case *ssa.ChangeInterface:
		return isErrorType(x.X.Type())
	case *ssa.MakeInterface:
		return isErrorType(x.X.Type())
	}
	return false
}

// localPtrRoot: the local object a pointer argument (possibly boxed into an
// interface such as io.Writer) points to.
func localPtrRoot(a ssa.Value) *ssa.Alloc {
	for {
		switch x := a.(type) {
		case *ssa.MakeInterface:
			a = x.X
			continue
		case *ssa.ChangeInterface:
			a = x.X
			continue
		}
		break
	}
	if _, isPtr := a.Type().Underlying().(*types.Pointer); !isPtr {
		return nil
	}
	al, _ := memRoot(a).(*ssa.Alloc)
	return al
}

// ---- mark guards (sanitizers) ---------------------------------------------------------
//
// A diagnostic may print content when the code has established that the value it
// comes from carries no marks: the sink is dominated by the false edge of
// S.IsMarked() / S.ContainsMarked(), or by "len(marks) == 0" for the marks peeled
// off S. A shallow test (IsMarked, Unmark) only covers content read from S itself;
// content reached by descending into S (elements, attributes, error paths) needs
// a deep test (ContainsMarked, UnmarkDeep*).

func normSubject(v ssa.Value) ssa.Value {
	for i := 0; i < 8; i++ {
		switch x := v.(type) {
		case *ssa.Extract:
			if x.Index == 0 {
				v = x.Tuple
				continue
			}
		case *ssa.ChangeType:
			v = x.X
			continue
		}
		break
	}
	return v
}

type markGuards struct {
	deep, shallow map[ssa.Value]bool
}

func collectGuards(b *ssa.BasicBlock) markGuards {
	g := markGuards{map[ssa.Value]bool{}, map[ssa.Value]bool{}}
	for cur := b; cur != nil; cur = cur.Idom() {
		idom := cur.Idom()
		if idom == nil {
			break
		}
		iff, ok := idom.Instrs[len(idom.Instrs)-1].(*ssa.If)
		if !ok || len(cur.Preds) != 1 {
			continue
		}
		onTrue := idom.Succs[0] == cur
		cond := iff.Cond
		if u, ok := cond.(*ssa.UnOp); ok && u.Op == token.NOT {
			cond = u.X
			onTrue = !onTrue
		}
		switch c := cond.(type) {
		case *ssa.Call:
			ci := calleeOf(&c.Call)
			if !onTrue && len(c.Call.Args) > 0 {
				if strippedCopy(c.Call.Args[0], map[ssa.Value]bool{}, 0) != nil {
					// asked of the copy Unmark() returned: always unmarked, the test proves nothing
					continue
				}
				if (ci.isCtyValueMethod("ContainsMarked") || ci.isCtyValueMethod("IsMarked")) && failedPlaceholder(b, c.Call.Args[0]) {
					// asked of the result of an evaluation whose diagnostics were not found free
					// of errors: a failed evaluation returns a placeholder, which need not carry
					// the marks of the values it stands for (its type still names their keys)
					continue
				}
				switch {
				case ci.isCtyValueMethod("ContainsMarked"):
					g.deep[normSubject(c.Call.Args[0])] = true
				case ci.isCtyValueMethod("IsMarked"):
					g.shallow[normSubject(c.Call.Args[0])] = true
				}
			}
		case *ssa.BinOp:
			// len(marks) == 0 (true edge) / len(marks) > 0, != 0 (false edge)
			lenOf := func(v ssa.Value) ssa.Value {
				if call, ok := v.(*ssa.Call); ok {
					if bi, ok := call.Call.Value.(*ssa.Builtin); ok && bi.Name() == "len" {
						return call.Call.Args[0]
					}
				}
				return nil
			}
			zero := func(v ssa.Value) bool { n, ok := constInt(v); return ok && n == 0 }
			var m ssa.Value
			if zero(c.Y) {
				m = lenOf(c.X)
			}
			if m == nil {
				continue
			}
			noMarks := (c.Op == token.EQL && onTrue) || ((c.Op == token.GTR || c.Op == token.NEQ) && !onTrue)
			if !noMarks {
				continue
			}
			if ex, ok := m.(*ssa.Extract); ok && ex.Index == 1 {
				if call, ok := ex.Tuple.(*ssa.Call); ok && len(call.Call.Args) > 0 {
					ci := calleeOf(&call.Call)
					switch {
					case ci.isCtyValueMethod("UnmarkDeep", "UnmarkDeepWithPaths"):
						g.deep[normSubject(call.Call.Args[0])] = true
					case ci.isCtyValueMethod("Unmark"):
						g.shallow[normSubject(call.Call.Args[0])] = true
					}
				}
			}
		}
	}
	return g
}

// failedPlaceholder: v is the value result of a call that also returns hcl.Diagnostics
// (an evaluation), and block b is not dominated by the false edge of HasErrors() on
// diagnostics that include that call's.
func failedPlaceholder(b *ssa.BasicBlock, v ssa.Value) bool {
	for {
		if ct, ok := v.(*ssa.ChangeType); ok {
			v = ct.X
			continue
		}
		break
	}
	ex, ok := v.(*ssa.Extract)
	if !ok || ex.Index != 0 {
		return false
	}
	call, ok := ex.Tuple.(*ssa.Call)
	if !ok {
		return false
	}
	var dg ssa.Value
	for _, r := range *call.Referrers() {
		if e2, ok := r.(*ssa.Extract); ok && e2.Index != 0 && isDiagnosticsType(e2.Type()) {
			dg = e2
		}
	}
	if dg == nil {
		res := call.Call.Signature().Results()
		for i := 0; i < res.Len(); i++ {
			if isDiagnosticsType(res.At(i).Type()) {
				return true // the diagnostics were discarded
			}
		}
		return false
	}
	for cur := b; cur != nil; cur = cur.Idom() {
		idom := cur.Idom()
		if idom == nil {
			break
		}
		iff, ok := idom.Instrs[len(idom.Instrs)-1].(*ssa.If)
		if !ok || len(cur.Preds) != 1 {
			continue
		}
		onTrue := idom.Succs[0] == cur
		cond := iff.Cond
		if u, ok := cond.(*ssa.UnOp); ok && u.Op == token.NOT {
			cond = u.X
			onTrue = !onTrue
		}
		hc, ok := cond.(*ssa.Call)
		if !ok || onTrue || len(hc.Call.Args) == 0 {
			continue
		}
		if cal := hc.Call.StaticCallee(); cal == nil || cal.Name() != "HasErrors" {
			continue
		}
		if diagFlowsInto(dg, hc.Call.Args[0], map[ssa.Value]bool{}) {
			return false
		}
	}
	return true
}

var descendingValueMethods = map[string]bool{"Index": true, "GetAttr": true, "ElementIterator": true, "AsValueMap": true, "AsValueSlice": true,
	"AsValueSet": true, "ForEachElement": true, "Element": true, "LengthInt": false,
	// attribute names taken from a value's type come from object keys at any depth
	"Type": true}

// guarded reports whether every origin of the tainted sink value is covered by a
// mark guard that dominates the sink.
func (e *taintEngine) guarded(sinkBlock *ssa.BasicBlock, val ssa.Value) (bool, string) {
	type item struct {
		v         ssa.Value
		descended bool
		b         *ssa.BasicBlock // guards are those dominating b
		// viaCtx: the value was bound to a variable of a child evaluation context in which the
		// printed value was then evaluated. Its own marks travel with it into the evaluation
		// result (and are covered by the guard on that result); what can be lost are marks
		// stripped (Unmark) from a collection before its elements were bound.
		viaCtx bool
	}
	guardCache := map[*ssa.BasicBlock]markGuards{}
	guardsAt := func(b *ssa.BasicBlock) markGuards {
		if g, ok := guardCache[b]; ok {
			return g
		}
		g := collectGuards(b)
		guardCache[b] = g
		return g
	}
	seen := map[item]bool{}
	work := []item{{val, false, sinkBlock, false}}
	covered := 0
	for len(work) > 0 {
		it := work[len(work)-1]
		work = work[:len(work)-1]
		if it.v == nil || seen[it] || e.get(it.v) == 0 {
			continue
		}
		seen[it] = true
		g := guardsAt(it.b)
		// a value computed in a block is also under the guards dominating that block
		var g2 markGuards
		if ins, ok := it.v.(ssa.Instruction); ok && ins.Block() != nil && ins.Block() != it.b {
			g2 = guardsAt(ins.Block())
		}
		n := normSubject(it.v)
		coveredHere := g.deep[n] || g.deep[it.v] || g2.deep[n] || g2.deep[it.v] ||
			((g.shallow[n] || g.shallow[it.v] || g2.shallow[n] || g2.shallow[it.v]) && !it.descended)
		if coveredHere {
			covered++
			if !it.viaCtx {
				// the guarded value may be the result of an evaluation in a child scope built
				// here: what was bound in that scope is a further origin
				for _, ec := range evalCallsUp(it.v) {
					for _, v := range childScopeBindings(ec) {
						work = append(work, item{v, false, it.b, true})
					}
				}
			}
			continue
		}
		ctx := it.b
		if ins, ok := it.v.(ssa.Instruction); ok && ins.Block() != nil && !it.viaCtx {
			// operands are evaluated where the instruction is: keep the more
			// specific (dominated) context
			if it.b.Dominates(ins.Block()) {
				ctx = ins.Block()
			}
		}
		push := func(v ssa.Value, d bool, b *ssa.BasicBlock) {
			work = append(work, item{v, it.descended || d, b, it.viaCtx})
		}
		if it.viaCtx {
			// walking up from a child-scope variable: only an Unmark on the way strips marks
			var call *ssa.Call
			if ex, ok := it.v.(*ssa.Extract); ok && ex.Index == 0 {
				call, _ = ex.Tuple.(*ssa.Call)
			}
			if call != nil && calleeOf(&call.Call).isCtyValueMethod("Unmark", "UnmarkDeep", "UnmarkDeepWithPaths") && len(call.Call.Args) > 0 {
				subj := normSubject(call.Call.Args[0])
				gs := guardsAt(it.b)
				if gs.shallow[subj] || gs.deep[subj] || gs.shallow[call.Call.Args[0]] || gs.deep[call.Call.Args[0]] {
					covered++
					continue
				}
				return false, "the marks stripped from " + valueDesc(call.Call.Args[0]) + " before its elements were bound in the child scope are not tested"
			}
		}
		switch x := it.v.(type) {
		case *ssa.Parameter, *ssa.FreeVar, *ssa.Global:
			return false, "origin " + valueDesc(it.v) + " is not covered by a mark guard"
		case *ssa.Phi:
			for i, ed := range x.Edges {
				pb := x.Block().Preds[i]
				if it.viaCtx {
					push(ed, false, it.b)
					continue
				}
				// the guards of the incoming edge: those dominating the predecessor
				// (the context is kept if it is more specific)
				if it.b != x.Block() && x.Block().Dominates(it.b) && !pb.Dominates(it.b) {
					push(ed, false, pb)
				} else {
					push(ed, false, pb)
				}
			}
		case *ssa.Extract:
			push(x.Tuple, false, ctx)
		case *ssa.UnOp:
			if x.Op != token.MUL {
				push(x.X, false, ctx)
				continue
			}
			root := memRoot(x.X)
			al, ok := root.(*ssa.Alloc)
			if !ok {
				return false, "origin " + valueDesc(it.v) + " is not covered by a mark guard"
			}
			for _, st := range storesInto(al) {
				push(st.Val, false, st.Block())
			}
		case *ssa.Slice:
			if al, ok := x.X.(*ssa.Alloc); ok {
				for _, st := range storesInto(al) {
					push(st.Val, false, st.Block())
				}
			} else {
				push(x.X, false, ctx)
			}
		case *ssa.Call:
			ci := calleeOf(&x.Call)
			if !it.viaCtx {
				for _, v := range childScopeBindings(x) {
					work = append(work, item{v, false, it.b, true})
				}
			}
			d := ci.isCtyValueMethod() && descendingValueMethods[ci.name]
			if ci.name == "Element" || ci.name == "Next" {
				d = true
			}
			any := false
			for _, op := range x.Operands(nil) {
				if *op != nil && e.get(*op) != 0 {
					push(*op, d, ctx)
					any = true
				}
			}
			if !any {
				return false, "origin " + valueDesc(it.v) + " is not covered by a mark guard"
			}
		case *ssa.Lookup:
			push(x.X, true, ctx)
		case *ssa.Index:
			push(x.X, true, ctx)
		case *ssa.Range:
			push(x.X, true, ctx)
		case *ssa.Next:
			push(x.Iter, true, ctx)
		case *ssa.TypeAssert:
			push(x.X, isErrorType(x.X.Type()), ctx)
		default:
			any := false
			if ins, ok := it.v.(ssa.Instruction); ok {
				for _, op := range ins.Operands(nil) {
					if *op != nil && e.get(*op) != 0 {
						push(*op, false, ctx)
						any = true
					}
				}
			}
			if !any {
				return false, "origin " + valueDesc(it.v) + " is not covered by a mark guard"
			}
		}
	}
	if covered == 0 {
		return false, ""
	}
	return true, "every origin of the printed content is under a dominating no-marks test"
}

func storesInto(al *ssa.Alloc) []*ssa.Store {
	var out []*ssa.Store
	var walk func(v ssa.Value)
	walk = func(v ssa.Value) {
		refs := v.Referrers()
		if refs == nil {
			return
		}
		for _, r := range *refs {
			switch x := r.(type) {
			case *ssa.Store:
				if x.Addr == v {
					out = append(out, x)
				}
			case *ssa.FieldAddr:
				walk(x)
			case *ssa.IndexAddr:
				walk(x)
			}
		}
	}
	walk(al)
	return out
}

// childScopeBindings: for a call X.Value(cctx) (or a decoder taking cctx) where cctx is a child
// evaluation context created in this function, the values stored into cctx.Variables.
func childScopeBindings(call *ssa.Call) []ssa.Value {
	var out []ssa.Value
	for _, a := range call.Call.Args {
		pt, ok := a.Type().(*types.Pointer)
		if !ok || !isNamed(pt.Elem(), modPath, "EvalContext") {
			continue
		}
		c2, ok := a.(*ssa.Call)
		if !ok {
			continue
		}
		if cal := c2.Call.StaticCallee(); cal == nil || cal.Name() != "NewChild" {
			continue
		}
		fn := call.Parent()
		for _, b := range fn.Blocks {
			for _, ins := range b.Instrs {
				mu, ok := ins.(*ssa.MapUpdate)
				if !ok {
					continue
				}
				ld, ok := mu.Map.(*ssa.UnOp)
				if !ok {
					continue
				}
				fa, ok := ld.X.(*ssa.FieldAddr)
				if !ok || fa.X != ssa.Value(c2) {
					continue
				}
				if fv := fieldVarOf(fa.X.Type(), fa.Field); fv != nil && fv.Name() == "Variables" {
					out = append(out, mu.Value)
				}
			}
		}
	}
	return out
}

// evalCallsUp: calls that take an *hcl.EvalContext (Expression.Value, custom decoders) from whose
// result v is computed by value-preserving steps (Unmark, conversions, tuple extraction, phis).
func evalCallsUp(v ssa.Value) []*ssa.Call {
	var out []*ssa.Call
	seen := map[ssa.Value]bool{}
	var walk func(v ssa.Value, d int)
	walk = func(v ssa.Value, d int) {
		if v == nil || seen[v] || d > 14 {
			return
		}
		seen[v] = true
		switch x := v.(type) {
		case *ssa.Extract:
			walk(x.Tuple, d+1)
		case *ssa.ChangeType:
			walk(x.X, d+1)
		case *ssa.Phi:
			for _, e := range x.Edges {
				walk(e, d+1)
			}
		case *ssa.Call:
			hasCtx := false
			for _, a := range x.Call.Args {
				if pt, ok := a.Type().(*types.Pointer); ok && isNamed(pt.Elem(), modPath, "EvalContext") {
					hasCtx = true
				}
			}
			if hasCtx {
				out = append(out, x)
				return
			}
			for _, a := range x.Call.Args {
				if isCtyValue(a.Type()) {
					walk(a, d+1)
				}
			}
		}
	}
	walk(v, 0)
	return out
}
