package main

import (
	"go/constant"
	"go/token"
	"strings"

	"golang.org/x/tools/go/ssa"
)

// ctlEdges: the branch edges that every execution reaching block b has taken since the values
// they test were last defined: the edges on b's dominator chain, plus — when one of those tests
// compares a phi of constants (a status flag, a message that stays "" while nothing is wrong)
// and the outcome excludes some of the phi's incoming edges — the edges common to all the
// predecessors that remain feasible. (A path from such a predecessor to b cannot redefine the
// values its own dominators tested without passing the phi again: the phi's block dominates b.)
type ctlEdge struct {
	iff    *ssa.If
	onTrue bool
}

var ctlEdgeMemo = map[*ssa.BasicBlock][]ctlEdge{}
var ctlEdgeBusy = map[*ssa.BasicBlock]bool{}

func ctlEdges(b *ssa.BasicBlock) []ctlEdge {
	if r, ok := ctlEdgeMemo[b]; ok {
		return r
	}
	if ctlEdgeBusy[b] {
		return nil
	}
	ctlEdgeBusy[b] = true
	defer delete(ctlEdgeBusy, b)
	var out []ctlEdge
	have := map[ctlEdge]bool{}
	add := func(e ctlEdge) {
		if !have[e] {
			have[e] = true
			out = append(out, e)
		}
	}
	for d := b; d != nil; d = d.Idom() {
		idom := d.Idom()
		if idom == nil {
			break
		}
		iff, ok := idom.Instrs[len(idom.Instrs)-1].(*ssa.If)
		if !ok || len(d.Preds) != 1 || idom.Succs[0] == idom.Succs[1] {
			continue
		}
		onTrue := idom.Succs[0] == d
		add(ctlEdge{iff, onTrue})
		// a test of a phi of constants
		phi, feasible := phiOutcome(iff.Cond, onTrue)
		if phi == nil {
			continue
		}
		var common map[ctlEdge]bool
		n := 0
		for i, ok := range feasible {
			if !ok {
				continue
			}
			n++
			p := phi.Block().Preds[i]
			set := map[ctlEdge]bool{}
			for _, e := range ctlEdges(p) {
				set[e] = true
			}
			// the edge p → phi block itself
			if pif, ok := p.Instrs[len(p.Instrs)-1].(*ssa.If); ok && p.Succs[0] != p.Succs[1] {
				set[ctlEdge{pif, p.Succs[0] == phi.Block()}] = true
			}
			if common == nil {
				common = set
			} else {
				for e := range common {
					if !set[e] {
						delete(common, e)
					}
				}
			}
		}
		if n == 0 || n == len(feasible) {
			continue
		}
		for e := range common {
			add(e)
		}
	}
	ctlEdgeMemo[b] = out
	return out
}

// phiOutcome: cond tests a phi all of whose incoming values are decidable against the test;
// returns the phi and, per incoming edge, whether it is compatible with the outcome.
func phiOutcome(cond ssa.Value, onTrue bool) (*ssa.Phi, []bool) {
	for {
		u, ok := cond.(*ssa.UnOp)
		if !ok || u.Op != token.NOT {
			break
		}
		cond, onTrue = u.X, !onTrue
	}
	if phi, ok := cond.(*ssa.Phi); ok {
		// a boolean flag
		out := make([]bool, len(phi.Edges))
		for i, e := range phi.Edges {
			cn, ok := e.(*ssa.Const)
			if !ok || cn.Value == nil || cn.Value.Kind() != constant.Bool {
				return nil, nil
			}
			out[i] = constant.BoolVal(cn.Value) == onTrue
		}
		return phi, out
	}
	bo, ok := cond.(*ssa.BinOp)
	if !ok || (bo.Op != token.EQL && bo.Op != token.NEQ) {
		return nil, nil
	}
	phi, ok := bo.X.(*ssa.Phi)
	k, ok2 := bo.Y.(*ssa.Const)
	if !ok || !ok2 {
		phi, ok = bo.Y.(*ssa.Phi)
		k, ok2 = bo.X.(*ssa.Const)
		if !ok || !ok2 {
			return nil, nil
		}
	}
	if k.Value == nil {
		return nil, nil
	}
	wantEqual := (bo.Op == token.EQL) == onTrue
	out := make([]bool, len(phi.Edges))
	for i, e := range phi.Edges {
		eq, known := false, false
		switch x := e.(type) {
		case *ssa.Const:
			if x.Value != nil && x.Value.Kind() == k.Value.Kind() {
				eq, known = constant.Compare(x.Value, token.EQL, k.Value), true
			}
		case *ssa.Call:
			// fmt.Sprintf with a constant format that contains literal text is never ""
			if cal := x.Call.StaticCallee(); cal != nil && cal.Pkg != nil && cal.Pkg.Pkg.Path() == "fmt" && cal.Name() == "Sprintf" && k.Value.Kind() == constant.String && constant.StringVal(k.Value) == "" {
				if f, ok := x.Call.Args[0].(*ssa.Const); ok && f.Value != nil && f.Value.Kind() == constant.String {
					lit := constant.StringVal(f.Value)
					if len(lit) > 0 && !strings.HasPrefix(lit, "%") {
						eq, known = false, true
					}
				}
			}
		}
		if !known {
			return nil, nil
		}
		out[i] = eq == wantEqual
	}
	return phi, out
}
