package main

import (
	"fmt"
	"go/constant"
	"go/token"
	"go/types"
	"sort"
	"strings"

	"golang.org/x/tools/go/ssa"
)

// C16 — struct encoding and decoding are inverse; decoding never panics on configuration content.
//
// The round trip itself is a relation between run-time values driven by reflection and is out of
// reach (DESIGN §5). Decided here are the shape-level conditions it rests on inside gohcl:
// the encoder and the decoder read the same tag tables and accept the same Go kinds for block
// fields, the schema is derived from the same tables, and the explicit panics and the constant
// indexing of the decoder are decided by the Go target type, never by configuration content.

func init() { register("C16", checkC16) }

const gohclPath = modPath + "/gohcl"

func checkC16(c *Ctx) {
	look := func(n string) *ssa.Function {
		f := c.P.LookupFunc("gohcl", n)
		if f == nil {
			c.CheckerFail("anchors", "gohcl."+n+" does not resolve")
		}
		return f
	}
	encBody, encBlock := look("EncodeIntoBody"), look("EncodeAsBlock")
	decBody, decExpr := look("DecodeBody"), look("DecodeExpression")
	schema := look("ImpliedBodySchema")
	popBody, decStruct := look("populateBody"), look("decodeBodyToStruct")
	if encBody == nil || encBlock == nil || decBody == nil || decExpr == nil || schema == nil || popBody == nil || decStruct == nil {
		return
	}
	allowed := map[string]bool{gohclPath: true}
	if c.Thorough() {
		allowed[modPath+"/hclsimple"] = true // thorough: the file-level front end of gohcl as well
	}
	inGohcl := func(f *ssa.Function) bool { return fnPkg(f) != nil && allowed[fnPkg(f).Path()] }
	reach := func(roots ...*ssa.Function) []*ssa.Function {
		seen := map[*ssa.Function]bool{}
		var out []*ssa.Function
		var walk func(f *ssa.Function)
		walk = func(f *ssa.Function) {
			if f == nil || seen[f] || !inGohcl(f) || len(f.Blocks) == 0 {
				return
			}
			seen[f] = true
			out = append(out, f)
			for _, b := range f.Blocks {
				for _, ins := range b.Instrs {
					if cc, ok := ins.(ssa.CallInstruction); ok {
						walk(staticCallee(cc.Common()))
					}
					if mc, ok := ins.(*ssa.MakeClosure); ok {
						if fn, ok := mc.Fn.(*ssa.Function); ok {
							walk(fn)
						}
					}
				}
			}
			for _, an := range f.AnonFuncs {
				walk(an)
			}
		}
		for _, r := range roots {
			walk(r)
		}
		sort.Slice(out, func(i, j int) bool { return out[i].Pos() < out[j].Pos() })
		return out
	}
	enc := reach(encBody, encBlock)
	dec := reach(decBody, decExpr)
	sch := reach(schema)
	for _, f := range append(append(append([]*ssa.Function{}, enc...), dec...), sch...) {
		c.Fn(FuncName(f))
	}

	// G1 tags.agree
	c.Rule("G1 tags.agree (writer/reader tables): the functions reachable inside gohcl from EncodeIntoBody/EncodeAsBlock, those reachable from DecodeBody, and ImpliedBodySchema each read the fieldTags tables Attributes, Blocks and Labels; ImpliedBodySchema also reads Optional (to compute Required) — a tag kind one side handles and another ignores cannot round-trip")
	tagReads := func(fns []*ssa.Function) map[string]bool {
		out := map[string]bool{}
		for _, f := range fns {
			if buildsFieldTags(f) {
				continue // the table builder reads what it is building
			}
			for _, b := range f.Blocks {
				for _, ins := range b.Instrs {
					switch x := ins.(type) {
					case *ssa.FieldAddr:
						if pt, ok := x.X.Type().Underlying().(*types.Pointer); ok && isNamed(pt.Elem(), gohclPath, "fieldTags") {
							if fv := fieldVarOf(x.X.Type(), x.Field); fv != nil {
								// a read: the address is loaded (not only stored into)
								for _, r := range *x.Referrers() {
									if u, ok := r.(*ssa.UnOp); ok && u.Op == token.MUL {
										out[fv.Name()] = true
									}
								}
							}
						}
					case *ssa.Field:
						if isNamed(x.X.Type(), gohclPath, "fieldTags") {
							if fv := fieldVarOf(x.X.Type(), x.Field); fv != nil {
								out[fv.Name()] = true
							}
						}
					}
				}
			}
		}
		return out
	}
	sides := []struct {
		name string
		fns  []*ssa.Function
		want []string
	}{
		{"encode", enc, []string{"Attributes", "Blocks", "Labels"}},
		{"decode", dec, []string{"Attributes", "Blocks", "Labels", "Remain"}},
		{"schema", sch, []string{"Attributes", "Blocks", "Labels", "Optional", "Remain"}},
	}
	for _, s := range sides {
		got := tagReads(s.fns)
		for _, w := range s.want {
			c.Sites++
			c.Check(got[w], "tags.agree", "gohcl:"+s.name+":"+w, s.fns[0].Pos(), s.name+" side reads fieldTags."+w,
				"the "+s.name+" side of gohcl never reads fieldTags."+w+": fields with that tag kind are handled by the other sides only and do not survive a round trip")
		}
	}

	// G2 kinds.agree
	c.Rule("G2 kinds.agree: every reflect.Kind that decodeBodyToStruct compares a block field's type with (slice, pointer) is also compared in populateBody: a field shape the decoder fills and the encoder does not recognise is encoded as the wrong thing or panics")
	dk, ek := kindConstsAll(c.P.expandedFuncs(decStruct)), kindConstsAll(c.P.expandedFuncs(popBody))
	var dks []int64
	for k := range dk {
		dks = append(dks, k)
	}
	sort.Slice(dks, func(i, j int) bool { return dks[i] < dks[j] })
	for _, k := range dks {
		c.Sites++
		_, inEnc := ek[k]
		c.Check(inEnc, "kinds.agree", fmt.Sprintf("gohcl:kind#%d", k), dk[k], "encoder tests the same kind",
			fmt.Sprintf("decodeBodyToStruct tests a block field for reflect.Kind %d, populateBody never does: the encoder does not recognise a field shape the decoder fills", k))
	}
	c.Floor("kinds.agree decoder kinds", len(dks), 2, "reflect.Slice and reflect.Ptr in the block loop of decodeBodyToStruct")

	// G3 decode.panics
	c.Rule("G3 decode.panics: every explicit panic in the functions reachable inside gohcl from DecodeBody, DecodeExpression and ImpliedBodySchema is controlled only by branch conditions whose backward slice (through operands, call arguments and receivers, within the function) contains no configuration content — no value of type hcl.Body, hcl.Expression, *hcl.Attribute, hcl.Attributes, *hcl.Block, hcl.Blocks, *hcl.BodyContent, hcl.Diagnostics, hcl.Traversal or cty.Value: a panic decided by the Go target type is a programming error the property excludes, one decided by content is a crash on input")
	nPanics := 0
	decRoots := []*ssa.Function{decBody, decExpr, schema}
	if c.Thorough() {
		for _, n := range []string{"Decode", "DecodeFile"} {
			if f := c.P.LookupFunc("hclsimple", n); f != nil {
				decRoots = append(decRoots, f)
				c.Fn(FuncName(f))
			} else {
				c.CheckerFail("anchors", "hclsimple."+n+" does not resolve")
			}
		}
	}
	decAll := reach(decRoots...)
	for _, f := range decAll {
		for _, b := range f.Blocks {
			for _, ins := range b.Instrs {
				p, ok := ins.(*ssa.Panic)
				if !ok {
					continue
				}
				nPanics++
				c.Sites++
				key := FuncName(f) + ":panic"
				edges := ctlEdges(b)
				if len(edges) == 0 && b != f.Blocks[0] {
					// joined paths: use every If that can reach b without being post-dominated — conservatively all Ifs that reach b
					edges = allReachingIfs(f, b)
				}
				if len(edges) == 0 {
					c.Fail("decode.panics", key, p.Pos(), "unconditional panic in a function of the decoding path")
					continue
				}
				bad := ""
				for _, ce := range edges {
					if w := contentInSlice(ce.iff.Cond); w != "" {
						bad = w
						break
					}
				}
				c.Check(bad == "", "decode.panics", key, p.Pos(), "decided by the Go target type only",
					"this panic is controlled by a condition computed from configuration content ("+bad+"): decoding some configuration panics instead of returning diagnostics")
			}
		}
	}
	c.Floor("decode.panics explicit panics", nPanics, 5, "DecodeBody, decodeBodyToValue, DecodeExpression, getFieldTags")

	// G4 decode.index
	c.Rule("G4 decode.index: in the decoding functions of gohcl every constant or last-element index into a sequence taken from configuration content (hcl.Blocks, block labels, label ranges) is proven by dominating length comparisons (the bounded.index engine of C15, here without the contradiction exemption: every such site must be proven)")
	nIdx := 0
	for _, f := range dec {
		for _, s := range boundsSites(f) {
			if s.skip || s.variable {
				continue
			}
			if !contentSeq(s.x.Type()) {
				continue
			}
			nIdx++
			c.Sites++
			c.Check(s.ok, "decode.index", fmt.Sprintf("%s:%s", FuncName(f), s.desc), s.pos, s.why,
				fmt.Sprintf("%s needs len ≥ %d but %s: decoding a configuration with fewer such items panics (index out of range)", s.desc, s.need, s.why))
		}
	}
	c.Floor("decode.index sites", nIdx, 2, "blocks[0], blocks[1] in decodeBodyToStruct")
	c.NotCovered("the inverse law itself (encode then decode reproduces the value), the layout and escaping of the generated source (C11, C12), JSON equivalence, implicit panics of reflect (Set with a mismatched type) and gocty, and the variable index blockTags.Labels[li], which relies on the schema having been derived from the same struct (ImpliedBodySchema) — an invariant across functions")
	c.Trust("reflect and gocty semantics; panics inside them are not analysed")
}

// kindConsts: the reflect.Kind constants a function compares something with.
func kindConsts(fn *ssa.Function) map[int64]token.Pos {
	out := map[int64]token.Pos{}
	isKind := func(t types.Type) bool { return isNamed(t, "reflect", "Kind") }
	for _, b := range fn.Blocks {
		for _, ins := range b.Instrs {
			bo, ok := ins.(*ssa.BinOp)
			if !ok || (bo.Op != token.EQL && bo.Op != token.NEQ) {
				continue
			}
			for _, v := range []ssa.Value{bo.X, bo.Y} {
				if k, ok := v.(*ssa.Const); ok && isKind(k.Type()) && k.Value != nil && k.Value.Kind() == constant.Int {
					n, _ := constant.Int64Val(k.Value)
					if _, have := out[n]; !have {
						out[n] = bo.Pos()
					}
				}
			}
		}
	}
	return out
}

func contentType(t types.Type) string {
	if pt, ok := t.(*types.Pointer); ok {
		t = pt.Elem()
	}
	for _, n := range []string{"Body", "Expression", "Attribute", "Attributes", "Block", "Blocks", "BodyContent", "Diagnostics", "Diagnostic", "Traversal"} {
		if isNamed(t, modPath, n) {
			return "hcl." + n
		}
	}
	if isCtyValue(t) {
		return "cty.Value"
	}
	if sl, ok := t.Underlying().(*types.Slice); ok {
		if pt, ok := sl.Elem().(*types.Pointer); ok && (isNamed(pt.Elem(), modPath, "Block") || isNamed(pt.Elem(), modPath, "Diagnostic")) {
			return "[]*hcl." + namedOf(pt.Elem()).Obj().Name()
		}
	}
	return ""
}

func contentSeq(t types.Type) bool {
	if contentType(t) != "" {
		return true
	}
	return false
}

// contentInSlice: the backward slice of v contains a value of a configuration-content type.
func contentInSlice(v ssa.Value) string {
	seen := map[ssa.Value]bool{}
	found := ""
	var walk func(x ssa.Value, d int)
	walk = func(x ssa.Value, d int) {
		if x == nil || seen[x] || found != "" || d > 60 {
			return
		}
		seen[x] = true
		if w := contentType(x.Type()); w != "" {
			found = w + " " + strings.TrimSpace(x.Name())
			return
		}
		switch y := x.(type) {
		case *ssa.Parameter, *ssa.Const, *ssa.Global, *ssa.FreeVar, *ssa.Function, *ssa.Builtin:
			return
		case *ssa.Alloc:
			for _, st := range storesInto(y) {
				walk(st.Val, d+1)
			}
			return
		case *ssa.Call:
			if y.Call.IsInvoke() {
				walk(y.Call.Value, d+1)
			}
			for _, a := range y.Call.Args {
				walk(a, d+1)
			}
			return
		}
		if ins, ok := x.(ssa.Instruction); ok {
			for _, op := range ins.Operands(nil) {
				if op != nil && *op != nil {
					walk(*op, d+1)
				}
			}
		}
	}
	walk(v, 0)
	return found
}

// allReachingIfs: for a block with several predecessors, the Ifs from which it is reachable on
// one edge and avoidable on the other (both outcomes recorded conservatively as controlling).
func allReachingIfs(f *ssa.Function, b *ssa.BasicBlock) []ctlEdge {
	var out []ctlEdge
	for _, x := range f.Blocks {
		iff, ok := x.Instrs[len(x.Instrs)-1].(*ssa.If)
		if !ok || x.Succs[0] == x.Succs[1] {
			continue
		}
		r0 := reachesBlock(x.Succs[0], b)
		r1 := reachesBlock(x.Succs[1], b)
		if r0 != r1 {
			out = append(out, ctlEdge{iff, r0})
		}
	}
	return out
}

func reachesBlock(from, to *ssa.BasicBlock) bool {
	seen := map[*ssa.BasicBlock]bool{}
	stack := []*ssa.BasicBlock{from}
	for len(stack) > 0 {
		x := stack[len(stack)-1]
		stack = stack[:len(stack)-1]
		if x == to {
			return true
		}
		if seen[x] {
			continue
		}
		seen[x] = true
		stack = append(stack, x.Succs...)
	}
	return false
}

func buildsFieldTags(f *ssa.Function) bool {
	for _, b := range f.Blocks {
		for _, ins := range b.Instrs {
			if al, ok := ins.(*ssa.Alloc); ok {
				if pt, ok := al.Type().(*types.Pointer); ok && isNamed(pt.Elem(), gohclPath, "fieldTags") {
					return true
				}
			}
		}
	}
	return false
}

func kindConstsAll(fns []*ssa.Function) map[int64]token.Pos {
	out := map[int64]token.Pos{}
	for _, f := range fns {
		for k, pos := range kindConsts(f) {
			if _, have := out[k]; !have {
				out[k] = pos
			}
		}
	}
	return out
}
