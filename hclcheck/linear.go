package main

import (
	"fmt"
	"go/token"
	"go/types"
	"sort"
	"strings"

	"golang.org/x/tools/go/ssa"
)

// E-linear: linear use of hclwrite.inputTokens (C10).
//
// Every inputTokens value produced in the hclwrite loader (parameters, results
// of Partition*/parse* calls, phis) must be consumed exactly once on every path
// from its definition to a function exit: by .Tokens() (whose result is appended
// to the syntax tree), by being passed to another loader function, or by being
// returned. Len() and Types() are not consumption. In addition the appends to one
// children list must follow token order (positions are paths in the partition
// tree), and the Partition* helpers must tile their input with Slice calls.

const hclwritePath = modPath + "/hclwrite"

func isInputTokens(t types.Type) bool {
	if _, ptr := t.(*types.Pointer); ptr {
		return false
	}
	return isNamed(t, hclwritePath, "inputTokens")
}

type linUse struct {
	ins    ssa.Instruction
	kind   string          // consume | peek | okcall | phi | undecided
	edgeTo *ssa.BasicBlock // for phi uses: the phi's block (use happens on the edge pred→edgeTo)
	pred   *ssa.BasicBlock
	desc   string
}

type linProblem struct {
	pos  token.Pos
	key  string
	msg  string
	path []string
}

func classifyLinUse(v ssa.Value, ref ssa.Instruction) []linUse {
	switch x := ref.(type) {
	case *ssa.Call:
		ci := calleeOf(&x.Call)
		isRecvOrArg := false
		for _, a := range x.Call.Args {
			if a == v {
				isRecvOrArg = true
			}
		}
		if !isRecvOrArg {
			return nil
		}
		switch ci.name {
		case "Len", "Types":
			if ci.recvT != nil && isInputTokens(ci.recvT) {
				return []linUse{{ins: ref, kind: "peek", desc: ci.name + "()"}}
			}
		case "PartitionTypeOk":
			return []linUse{{ins: ref, kind: "okcall", desc: ci.name + "()"}}
		}
		if ci.static != nil && inModule(ci.static) {
			return []linUse{{ins: ref, kind: "consume", desc: ci.name + "()"}}
		}
		return []linUse{{ins: ref, kind: "undecided", desc: "call of " + ci.name}}
	case *ssa.Return:
		return []linUse{{ins: ref, kind: "consume", desc: "return"}}
	case *ssa.Phi:
		var out []linUse
		for i, e := range x.Edges {
			if e == v {
				out = append(out, linUse{ins: ref, kind: "phi", edgeTo: x.Block(), pred: x.Block().Preds[i], desc: "assigned to " + x.Comment})
			}
		}
		return out
	case *ssa.DebugRef:
		return nil
	}
	return []linUse{{ins: ref, kind: "undecided", desc: fmt.Sprintf("%T", ref)}}
}

func valName(v ssa.Value) string {
	switch x := v.(type) {
	case *ssa.Parameter:
		return "param[" + x.Name() + "]"
	case *ssa.Phi:
		return "phi[" + x.Comment + "]"
	case *ssa.Extract:
		if call, ok := x.Tuple.(*ssa.Call); ok {
			ci := calleeOf(&call.Call)
			n := ci.name + "(" + argDesc(call) + ")"
			n = strings.TrimSuffix(n, "()")
			if tup, ok := call.Type().(*types.Tuple); ok && x.Index < tup.Len() && tup.At(x.Index).Name() != "" {
				return fmt.Sprintf("%s.%s", n, tup.At(x.Index).Name())
			}
			return fmt.Sprintf("%s#%d", n, x.Index)
		}
	case *ssa.Call:
		return calleeOf(&x.Call).name + "()"
	}
	return v.Name()
}

// checkLinear analyses one loader function.
func checkLinear(p *Program, fn *ssa.Function) (checked []string, problems []linProblem) {
	fname := FuncName(fn)
	// values
	var vals []ssa.Value
	for _, par := range fn.Params {
		if isInputTokens(par.Type()) {
			vals = append(vals, par)
		}
	}
	for _, b := range fn.Blocks {
		for _, ins := range b.Instrs {
			v, ok := ins.(ssa.Value)
			if !ok {
				continue
			}
			if isInputTokens(v.Type()) {
				vals = append(vals, v)
			}
			// discarded tuple components
			if call, ok := ins.(*ssa.Call); ok {
				if tup, ok := call.Type().(*types.Tuple); ok {
					have := map[int]bool{}
					for _, r := range *call.Referrers() {
						if ex, ok := r.(*ssa.Extract); ok {
							have[ex.Index] = true
						}
					}
					for i := 0; i < tup.Len(); i++ {
						if isInputTokens(tup.At(i).Type()) && !have[i] {
							problems = append(problems, linProblem{call.Pos(), fmt.Sprintf("%s:%s()#%d", fname, calleeOf(&call.Call).name, i),
								"token partition result is discarded: its tokens are lost from the syntax tree", nil})
						}
					}
				}
			}
		}
	}
	for _, v := range vals {
		key := fname + ":" + valName(v)
		checked = append(checked, key)
		var uses []linUse
		emptyEdges := map[[2]*ssa.BasicBlock]int{} // edges on which the value is known to be empty
		var collect func(alias ssa.Value)
		collect = func(alias ssa.Value) {
			refs := alias.Referrers()
			if refs == nil {
				return
			}
			seenRef := map[ssa.Instruction]bool{}
			for _, r := range *refs {
				if seenRef[r] {
					continue
				}
				seenRef[r] = true
				// spilled value: `*cell = v` with loads of cell standing for v
				if st, ok := r.(*ssa.Store); ok && st.Val == alias {
					if al, ok := st.Addr.(*ssa.Alloc); ok {
						single := true
						for _, r2 := range *al.Referrers() {
							if st2, ok := r2.(*ssa.Store); ok && st2 != st && st2.Addr == al {
								single = false
							}
						}
						if single {
							for _, r2 := range *al.Referrers() {
								if ld, ok := r2.(*ssa.UnOp); ok && ld.Op == token.MUL {
									collect(ld)
								}
							}
							continue
						}
					}
				}
				us := classifyLinUse(alias, r)
				for _, u := range us {
					if u.kind == "peek" && u.desc == "Len()" {
						// `if v.Len() > 0 { append(v.Tokens()) }`: on the other edge v is empty
						lenCall := r.(*ssa.Call)
						for _, r2 := range *lenCall.Referrers() {
							bo, ok := r2.(*ssa.BinOp)
							if !ok {
								continue
							}
							z, isZero := constInt(bo.Y)
							if !isZero || z != 0 || bo.X != ssa.Value(lenCall) {
								continue
							}
							for _, r3 := range *bo.Referrers() {
								iff, ok := r3.(*ssa.If)
								if !ok {
									continue
								}
								switch bo.Op {
								case token.GTR, token.NEQ:
									emptyEdges[[2]*ssa.BasicBlock{iff.Block(), iff.Block().Succs[1]}]++
								case token.EQL, token.LEQ:
									emptyEdges[[2]*ssa.BasicBlock{iff.Block(), iff.Block().Succs[0]}]++
								}
							}
						}
					}
				}
				uses = append(uses, us...)
			}
		}
		collect(v)
		// results of an ok-call carry tokens only when ok is true
		if ex, ok := v.(*ssa.Extract); ok {
			if call, ok := ex.Tuple.(*ssa.Call); ok && calleeOf(&call.Call).name == "PartitionTypeOk" {
				for _, r := range *call.Referrers() {
					ex2, ok := r.(*ssa.Extract)
					if !ok || !isBoolType(ex2.Type()) {
						continue
					}
					for _, r2 := range *ex2.Referrers() {
						if iff, ok := r2.(*ssa.If); ok {
							emptyEdges[[2]*ssa.BasicBlock{iff.Block(), iff.Block().Succs[1]}]++
						}
					}
				}
			}
		}
		undec := false
		for _, u := range uses {
			if u.kind == "undecided" {
				problems = append(problems, linProblem{u.ins.Pos(), key, "use of a token partition that the rule does not understand (" + u.desc + ")", nil})
				undec = true
			}
		}
		if undec {
			continue
		}
		// forward counting from the definition
		var defBlock *ssa.BasicBlock
		defIdx := -1
		if ins, ok := v.(ssa.Instruction); ok {
			defBlock = ins.Block()
			for i, x := range defBlock.Instrs {
				if x == ins {
					defIdx = i
				}
			}
		} else {
			defBlock = fn.Blocks[0]
		}
		useAt := map[ssa.Instruction][]linUse{}
		edgeUse := map[[2]*ssa.BasicBlock]int{}
		okFalse := map[[2]*ssa.BasicBlock]int{} // edges on which an ok-call's consumption is undone
		for _, u := range uses {
			switch u.kind {
			case "consume", "okcall":
				useAt[u.ins] = append(useAt[u.ins], u)
			case "phi":
				edgeUse[[2]*ssa.BasicBlock{u.pred, u.edgeTo}]++
			}
			if u.kind == "okcall" {
				// find `if ok` on the call's last result
				call := u.ins.(*ssa.Call)
				for _, r := range *call.Referrers() {
					ex, ok := r.(*ssa.Extract)
					if !ok || !isBoolType(ex.Type()) {
						continue
					}
					for _, r2 := range *ex.Referrers() {
						if iff, ok := r2.(*ssa.If); ok {
							okFalse[[2]*ssa.BasicBlock{iff.Block(), iff.Block().Succs[1]}]++
						}
					}
				}
			}
		}
		// state: bitmask of possible counts (bit0: 0, bit1: 1, bit2: >=2)
		bump := func(m uint8) uint8 {
			var n uint8
			if m&1 != 0 {
				n |= 2
			}
			if m&2 != 0 {
				n |= 4
			}
			if m&4 != 0 {
				n |= 4
			}
			return n
		}
		unbump := func(m uint8) uint8 {
			var n uint8
			if m&2 != 0 {
				n |= 1
			}
			if m&4 != 0 {
				n |= 2 | 4
			}
			if m&1 != 0 {
				n |= 1
			}
			return n
		}
		in := map[*ssa.BasicBlock]uint8{}
		var exits []struct {
			pos  token.Pos
			mask uint8
		}
		var firstDouble token.Pos
		var work []*ssa.BasicBlock
		process := func(b *ssa.BasicBlock, from int, m uint8) {
			for i := from; i < len(b.Instrs); i++ {
				ins := b.Instrs[i]
				if us, ok := useAt[ins]; ok {
					for range us {
						m = bump(m)
						if m&4 != 0 && !firstDouble.IsValid() {
							firstDouble = ins.Pos()
						}
					}
				}
				if r, ok := ins.(*ssa.Return); ok {
					em := m
					if em&1 != 0 && isErrorReturn(r) {
						// loading is abandoned with an error: no tree is produced, nothing is lost from it
						em = (em &^ 1) | 2
					}
					exits = append(exits, struct {
						pos  token.Pos
						mask uint8
					}{r.Pos(), em})
				}
			}
			for _, su := range b.Succs {
				n := m
				for k := 0; k < edgeUse[[2]*ssa.BasicBlock{b, su}]; k++ {
					n = bump(n)
				}
				for k := 0; k < okFalse[[2]*ssa.BasicBlock{b, su}]; k++ {
					n = unbump(n)
				}
				if emptyEdges[[2]*ssa.BasicBlock{b, su}] > 0 && n&1 != 0 {
					// empty on this edge: nothing to lose; count it as consumed
					n = (n &^ 1) | 2
				}
				if su == defBlock && defIdx >= 0 {
					// back at the definition: a new instance starts; this one must be settled
					exits = append(exits, struct {
						pos  token.Pos
						mask uint8
					}{blockPos(b), n})
					continue
				}
				if phi, ok := v.(*ssa.Phi); ok && su == phi.Block() {
					exits = append(exits, struct {
						pos  token.Pos
						mask uint8
					}{blockPos(b), n})
					continue
				}
				if old, ok := in[su]; !ok || old|n != old {
					in[su] = old | n
					work = append(work, su)
				}
			}
		}
		process(defBlock, defIdx+1, 1)
		steps := 0
		for len(work) > 0 && steps < 10000 {
			steps++
			b := work[len(work)-1]
			work = work[:len(work)-1]
			process(b, 0, in[b])
		}
		bad0, bad2 := token.NoPos, token.NoPos
		for _, e := range exits {
			if e.mask&1 != 0 && !bad0.IsValid() {
				bad0 = e.pos
			}
			if e.mask&4 != 0 && !bad2.IsValid() {
				bad2 = e.pos
			}
		}
		pos := v.Pos()
		if !pos.IsValid() {
			if ins, ok := v.(ssa.Instruction); ok {
				pos = blockPos(ins.Block())
			}
		}
		if bad0.IsValid() {
			problems = append(problems, linProblem{pos, key, "token partition is not consumed on some path (its tokens are lost from the syntax tree)", []string{"unconsumed at the exit/loop edge near " + p.Position(bad0)}})
		}
		if bad2.IsValid() {
			problems = append(problems, linProblem{pos, key, "token partition is consumed twice on some path (its tokens are duplicated in the syntax tree)", []string{"second consumption at " + p.Position(firstDouble)}})
		}
	}
	return
}

// ---- order of appends --------------------------------------------------------------

type tokPos struct {
	root ssa.Value
	path []int
}

func (a tokPos) known() bool { return a.root != nil }

// cmpPos: -1 a before b, +1 a after b, 0 unknown/overlapping.
func cmpPos(a, b tokPos, rootRank map[ssa.Value]int) int {
	if !a.known() || !b.known() {
		return 0
	}
	if a.root != b.root {
		ra, oka := rootRank[a.root]
		rb, okb := rootRank[b.root]
		if oka && okb && ra != rb {
			if ra < rb {
				return -1
			}
			return 1
		}
		return 0
	}
	for i := 0; i < len(a.path) && i < len(b.path); i++ {
		if a.path[i] != b.path[i] {
			if a.path[i] < b.path[i] {
				return -1
			}
			return 1
		}
	}
	return 0
}

// positionOf: the place of an inputTokens or *node value in the partition tree.
func positionOf(v ssa.Value, depth int) tokPos {
	if depth > 12 {
		return tokPos{}
	}
	switch x := v.(type) {
	case *ssa.Parameter:
		if isInputTokens(x.Type()) {
			return tokPos{root: x}
		}
	case *ssa.Extract:
		call, ok := x.Tuple.(*ssa.Call)
		if !ok {
			return tokPos{}
		}
		// the partitioned operand: first inputTokens argument
		for _, a := range call.Call.Args {
			if isInputTokens(a.Type()) {
				base := positionOf(a, depth+1)
				if !base.known() {
					return tokPos{}
				}
				return tokPos{base.root, append(append([]int{}, base.path...), x.Index)}
			}
		}
	case *ssa.Call:
		ci := calleeOf(&x.Call)
		// values derived from one partition: Tokens(), newX(tokens), newNode(content)
		switch ci.name {
		case "Tokens":
			if len(x.Call.Args) > 0 {
				return positionOf(x.Call.Args[0], depth+1)
			}
		}
		if ci.static != nil && inModule(ci.static) && strings.HasPrefix(ci.name, "new") {
			for _, a := range x.Call.Args {
				if p := positionOf(a, depth+1); p.known() {
					return p
				}
			}
		}
	case *ssa.MakeInterface:
		return positionOf(x.X, depth+1)
	case *ssa.UnOp:
		if x.Op == token.MUL {
			if ia, ok := x.X.(*ssa.IndexAddr); ok {
				return positionOf(ia.X, depth+1)
			}
		}
	case *ssa.Slice:
		return positionOf(x.X, depth+1)
	}
	return tokPos{}
}

type appendEvent struct {
	ins  *ssa.Call
	list ssa.Value
	pos  tokPos
	what string
}

var appendMethods = map[string]bool{"AppendUnstructuredTokens": true, "AppendNode": true, "Append": true, "appendItemNode": true, "appendItem": true}

// checkAppendOrder verifies that appends to one list follow token order on every path.
func checkAppendOrder(p *Program, fn *ssa.Function, rootRank map[ssa.Value]int) (n int, problems []linProblem) {
	fname := FuncName(fn)
	events := map[ssa.Instruction]appendEvent{}
	for _, b := range fn.Blocks {
		for _, ins := range b.Instrs {
			call, ok := ins.(*ssa.Call)
			if !ok {
				continue
			}
			ci := calleeOf(&call.Call)
			if !appendMethods[ci.name] || ci.static == nil || !inModule(ci.static) || len(call.Call.Args) < 2 {
				continue
			}
			events[ins] = appendEvent{call, normList(call.Call.Args[0]), positionOf(call.Call.Args[1], 0), ci.name}
			n++
		}
	}
	if len(events) == 0 {
		return
	}
	// dataflow: per list, set of possible last appended events
	type state map[ssa.Value]map[*ssa.Call]bool
	clone := func(s state) state {
		n := state{}
		for k, m := range s {
			n[k] = map[*ssa.Call]bool{}
			for c := range m {
				n[k][c] = true
			}
		}
		return n
	}
	in := map[*ssa.BasicBlock]state{fn.Blocks[0]: {}}
	work := []*ssa.BasicBlock{fn.Blocks[0]}
	reported := map[[2]*ssa.Call]bool{}
	steps := 0
	for len(work) > 0 && steps < 20000 {
		steps++
		b := work[len(work)-1]
		work = work[:len(work)-1]
		st := clone(in[b])
		for _, ins := range b.Instrs {
			ev, ok := events[ins]
			if !ok {
				continue
			}
			for last := range st[ev.list] {
				le := events[last]
				if cmpPos(ev.pos, le.pos, rootRank) < 0 && !reported[[2]*ssa.Call{last, ev.ins}] {
					reported[[2]*ssa.Call{last, ev.ins}] = true
					problems = append(problems, linProblem{ev.ins.Pos(), fmt.Sprintf("%s:%s[%s]", fname, ev.what, describePos(ev.pos)),
						"tokens are appended out of source order: this append places " + describePos(ev.pos) + " after " + describePos(le.pos) + " (appended at " + p.Position(last.Pos()) + "), although it precedes it in the source",
						nil})
				}
			}
			st[ev.list] = map[*ssa.Call]bool{ev.ins: true}
		}
		for _, su := range b.Succs {
			cur, ok := in[su]
			if !ok {
				in[su] = clone(st)
				work = append(work, su)
				continue
			}
			changed := false
			for k, m := range st {
				if cur[k] == nil {
					cur[k] = map[*ssa.Call]bool{}
				}
				for c := range m {
					if !cur[k][c] {
						cur[k][c] = true
						changed = true
					}
				}
			}
			if changed {
				work = append(work, su)
			}
		}
	}
	sort.Slice(problems, func(i, j int) bool { return problems[i].pos < problems[j].pos })
	return
}

func normList(v ssa.Value) ssa.Value {
	if u, ok := v.(*ssa.UnOp); ok && u.Op == token.MUL {
		// loads of the same children field of the same object are the same list
		return v
	}
	return v
}

func describePos(p tokPos) string {
	if !p.known() {
		return "?"
	}
	s := valName(p.root)
	for _, i := range p.path {
		s += fmt.Sprintf("/%d", i)
	}
	return s
}

// paramOrder derives the relative source order of the inputTokens parameters of
// fn from its call sites: the arguments must be results of one partition call.
func paramOrder(p *Program, fn *ssa.Function) map[ssa.Value]int {
	rank := map[ssa.Value]int{}
	node := p.CallGraph().Nodes[fn]
	if node == nil {
		return rank
	}
	first := true
	for _, in := range node.In {
		if in.Site == nil {
			continue
		}
		args := in.Site.Common().Args
		cur := map[ssa.Value]int{}
		var tuple ssa.Value
		ok := true
		for i, par := range fn.Params {
			if !isInputTokens(par.Type()) || i >= len(args) {
				continue
			}
			ex, isEx := args[i].(*ssa.Extract)
			if !isEx {
				ok = false
				break
			}
			if tuple == nil {
				tuple = ex.Tuple
			} else if tuple != ex.Tuple {
				ok = false
				break
			}
			cur[par] = ex.Index
		}
		if !ok {
			return map[ssa.Value]int{}
		}
		if first {
			rank = cur
			first = false
		} else {
			for k, v := range cur {
				if rank[k] != v {
					return map[ssa.Value]int{}
				}
			}
		}
	}
	return rank
}

// checkTiling: a Partition* helper that calls Slice on its receiver must tile it:
// the first slice starts at 0, each next one starts where the previous ended, the
// last ends at len(it.nativeTokens).
func checkTiling(p *Program, fn *ssa.Function) (isSlicer bool, problems []linProblem) {
	if fn.Signature.Recv() == nil || !isInputTokens(fn.Signature.Recv().Type()) || fn.Name() == "Slice" {
		return false, nil
	}
	fname := FuncName(fn)
	recv := fn.Params[0]
	// group Slice calls by the return instruction they feed
	type sl struct {
		call *ssa.Call
	}
	var slices []*ssa.Call
	for _, b := range fn.Blocks {
		for _, ins := range b.Instrs {
			if call, ok := ins.(*ssa.Call); ok {
				ci := calleeOf(&call.Call)
				if ci.name == "Slice" && len(call.Call.Args) == 3 && isSpillOf(call.Call.Args[0], recv) {
					slices = append(slices, call)
				}
			}
		}
	}
	if len(slices) == 0 {
		// delegation: the parts are those of another tiling helper applied to the same receiver,
		// all handed on
		return tilesByDelegation(p, fn, recv)
	}
	isLenNative := func(v ssa.Value) bool {
		call, ok := v.(*ssa.Call)
		if !ok {
			return false
		}
		if cal := call.Call.StaticCallee(); cal != nil && len(call.Call.Args) == 1 && isSpillOf(call.Call.Args[0], recv) && returnsLenNative(cal) {
			return true // it.Len()
		}
		bi, ok := call.Call.Value.(*ssa.Builtin)
		if !ok || bi.Name() != "len" {
			return false
		}
		if f, ok := call.Call.Args[0].(*ssa.Field); ok && isSpillOf(f.X, recv) {
			fv := fieldVarOf(f.X.Type(), f.Field)
			return fv != nil && fv.Name() == "nativeTokens"
		}
		if u, ok := call.Call.Args[0].(*ssa.UnOp); ok {
			if fa, ok := u.X.(*ssa.FieldAddr); ok {
				if al, ok := fa.X.(*ssa.Alloc); ok {
					for _, r := range *al.Referrers() {
						if st, ok := r.(*ssa.Store); ok && st.Addr == al && st.Val == ssa.Value(recv) {
							fv := fieldVarOf(fa.X.Type(), fa.Field)
							return fv != nil && fv.Name() == "nativeTokens"
						}
					}
				}
			}
		}
		return false
	}
	var sameIdx func(a, b ssa.Value) bool
	sameIdx = func(a, b ssa.Value) bool {
		if a == b {
			return true
		}
		ca, ok1 := a.(*ssa.Const)
		cb, ok2 := b.(*ssa.Const)
		if ok1 && ok2 && ca.Value != nil && cb.Value != nil {
			return ca.Int64() == cb.Int64()
		}
		// i+1 computed twice
		ba, ok1 := a.(*ssa.BinOp)
		bb, ok2 := b.(*ssa.BinOp)
		if ok1 && ok2 && ba.Op == bb.Op && sameIdx(ba.X, bb.X) && sameIdx(ba.Y, bb.Y) {
			return true
		}
		return false
	}
	// slices that are in the same block form one partition (the helpers build all
	// parts of one result next to each other)
	byBlock := map[*ssa.BasicBlock][]*ssa.Call{}
	var order []*ssa.BasicBlock
	for _, c := range slices {
		if len(byBlock[c.Block()]) == 0 {
			order = append(order, c.Block())
		}
		byBlock[c.Block()] = append(byBlock[c.Block()], c)
	}
	for _, b := range order {
		group := byBlock[b]
		key := fmt.Sprintf("%s:tiling", fname)
		if z, ok := constInt(group[0].Call.Args[1]); !ok || z != 0 {
			problems = append(problems, linProblem{group[0].Pos(), key, "the first part does not start at index 0: leading tokens are lost", nil})
		}
		for i := 1; i < len(group); i++ {
			if !sameIdx(group[i].Call.Args[1], group[i-1].Call.Args[2]) {
				problems = append(problems, linProblem{group[i].Pos(), key, fmt.Sprintf("part %d does not start where part %d ends: tokens are lost or duplicated between them", i, i-1), nil})
			}
		}
		if !isLenNative(group[len(group)-1].Call.Args[2]) {
			problems = append(problems, linProblem{group[len(group)-1].Pos(), key, "the last part does not end at len(it.nativeTokens): trailing tokens are lost", nil})
		}
	}
	return true, problems
}

// returnsLenNative: a method of inputTokens whose only statement returns len(it.nativeTokens).
func returnsLenNative(fn *ssa.Function) bool {
	if fn.Signature.Recv() == nil || !isInputTokens(fn.Signature.Recv().Type()) || len(fn.Blocks) != 1 {
		return false
	}
	ret, ok := fn.Blocks[0].Instrs[len(fn.Blocks[0].Instrs)-1].(*ssa.Return)
	if !ok || len(ret.Results) != 1 {
		return false
	}
	call, ok := ret.Results[0].(*ssa.Call)
	if !ok {
		return false
	}
	bi, ok := call.Call.Value.(*ssa.Builtin)
	if !ok || bi.Name() != "len" {
		return false
	}
	for _, lf := range []*types.Var{loadedField(call.Call.Args[0])} {
		if lf != nil && lf.Name() == "nativeTokens" {
			return true
		}
	}
	if f, ok := call.Call.Args[0].(*ssa.Field); ok {
		if fv := fieldVarOf(f.X.Type(), f.Field); fv != nil && fv.Name() == "nativeTokens" {
			return true
		}
	}
	return false
}

var tilingMemo = map[*ssa.Function]int{} // 1 in progress, 2 slicer without problems, 3 not

// tilesByDelegation: fn (a method of inputTokens without Slice calls of its own) obtains its
// parts from another verified tiling helper called on its own receiver and hands every part on.
func tilesByDelegation(p *Program, fn *ssa.Function, recv *ssa.Parameter) (bool, []linProblem) {
	// pure pass-through only: exactly one call that takes an inputTokens value; anything more
	// elaborate (a helper composed of several partitions) is left to the linear rule
	nCalls := 0
	for _, b := range fn.Blocks {
		for _, ins := range b.Instrs {
			if call, ok := ins.(*ssa.Call); ok {
				for _, a := range call.Call.Args {
					if isInputTokens(a.Type()) {
						nCalls++
						break
					}
				}
			}
		}
	}
	if nCalls != 1 {
		return false, nil
	}
	found := false
	for _, b := range fn.Blocks {
		for _, ins := range b.Instrs {
			call, ok := ins.(*ssa.Call)
			if !ok {
				continue
			}
			cal := call.Call.StaticCallee()
			if cal == nil || cal == fn || cal.Signature.Recv() == nil || !isInputTokens(cal.Signature.Recv().Type()) || len(call.Call.Args) == 0 || !isSpillOf(call.Call.Args[0], recv) {
				continue
			}
			switch tilingMemo[cal] {
			case 0:
				tilingMemo[cal] = 1
				ok2, probs := checkTiling(p, cal)
				if ok2 && len(probs) == 0 {
					tilingMemo[cal] = 2
				} else {
					tilingMemo[cal] = 3
				}
			}
			if tilingMemo[cal] != 2 {
				continue
			}
			// every inputTokens result of the call is used (handed on), none discarded
			tup, isTup := call.Type().(*types.Tuple)
			if !isTup {
				continue
			}
			used := map[int]bool{}
			for _, r := range *call.Referrers() {
				if ex, ok := r.(*ssa.Extract); ok && len(*ex.Referrers()) > 0 {
					used[ex.Index] = true
				}
			}
			all := true
			for i := 0; i < tup.Len(); i++ {
				if isInputTokens(tup.At(i).Type()) && !used[i] {
					all = false
				}
			}
			if all {
				found = true
			} else {
				return true, []linProblem{{call.Pos(), FuncName(fn) + ":tiling", "a part returned by " + cal.Name() + " is discarded: its tokens are lost", nil}}
			}
		}
	}
	return found, nil
}

// isSpillOf: v is the parameter itself or a load of the local cell it was spilled to.
func isSpillOf(v ssa.Value, par *ssa.Parameter) bool {
	if v == ssa.Value(par) {
		return true
	}
	u, ok := v.(*ssa.UnOp)
	if !ok || u.Op != token.MUL {
		return false
	}
	al, ok := u.X.(*ssa.Alloc)
	if !ok {
		return false
	}
	n, from := 0, false
	for _, r := range *al.Referrers() {
		if st, ok := r.(*ssa.Store); ok && st.Addr == al {
			n++
			from = st.Val == ssa.Value(par)
		}
	}
	return n == 1 && from
}

// argDesc describes the distinguishing (non-token) arguments of a partition call.
func argDesc(call *ssa.Call) string {
	var parts []string
	for _, a := range call.Call.Args {
		if isInputTokens(a.Type()) {
			continue
		}
		switch x := a.(type) {
		case *ssa.Const:
			parts = append(parts, x.Value.String())
		case *ssa.UnOp:
			if fa, ok := x.X.(*ssa.FieldAddr); ok {
				if fv := fieldVarOf(fa.X.Type(), fa.Field); fv != nil {
					parts = append(parts, fv.Name())
					continue
				}
			}
			parts = append(parts, "_")
		case *ssa.Call:
			parts = append(parts, calleeOf(&x.Call).name+"()")
		default:
			parts = append(parts, "_")
		}
	}
	return strings.Join(parts, ",")
}
