package main

import (
	"fmt"
	"go/token"
	"go/types"
	"sort"
	"strings"

	"golang.org/x/tools/go/ssa"
)

// staticCellKey: the store-key ("root.path") of an address built from FieldAddr on a local Alloc.
func staticCellKey(addr ssa.Value) (string, bool) {
	var path []string
	for {
		switch x := addr.(type) {
		case *ssa.FieldAddr:
			fv := fieldVarOf(x.X.Type(), x.Field)
			if fv == nil {
				return "", false
			}
			path = append([]string{fv.Name()}, path...)
			addr = x.X
			continue
		case *ssa.Alloc:
			return x.Name() + "." + strings.Join(path, "."), true
		}
		return "", false
	}
}

func cloneSx(m *sxMachine) *sxMachine {
	n := &sxMachine{fn: m.fn, names: m.names, reg: map[ssa.Value]sxVal{}, mem: map[string]sxVal{}}
	for k, v := range m.reg {
		n.reg[k] = v
	}
	for k, v := range m.mem {
		n.mem[k] = v
	}
	return n
}

// c14LinformSSA decides emitToken's bookkeeping on the SSA form.
func c14LinformSSA(c *Ctx) {
	c.Rule("R1 linform: (*tokenAccum).emitToken, executed symbolically on its SSA form (integers as linear forms over f.Pos.*, f.StartByte, startOfs, endOfs; the grapheme cluster as a concrete model over {\"\\n\", \"\\r\\n\", \"\\r\", other bytes, lengths 1–3}): the appended Token has Bytes = f.Bytes[startOfs:endOfs], Range.Start = (f.Pos.Line, f.Pos.Column + startOfs + f.StartByte − f.Pos.Byte, startOfs + f.StartByte), Range.End.Byte = endOfs + f.StartByte; Range.End's line and column are the values of two loop variables that start at the start position's line and column and that each iteration over the clusters of exactly those bytes updates as Line+1 / Column=1 for the clusters \"\\n\" and \"\\r\\n\" and Column+1 otherwise; each iteration drops exactly the scanned cluster; f.Pos is set to the same end position")
	fn := c.P.LookupFunc("hclsyntax", "tokenAccum.emitToken")
	if fn == nil {
		c.CheckerFail("linform", "anchor (*tokenAccum).emitToken does not resolve")
		return
	}
	name := "hclsyntax.tokenAccum.emitToken"
	c.Fn(FuncName(fn))
	undecided := func(why string) { c.Undecided("linform", name+":symbolic-execution", fn.Pos(), why) }
	// the one loop
	var scc []*ssa.BasicBlock
	for _, comp := range sccBlocks(fn.Blocks, nil) {
		if len(comp) > 1 {
			if scc != nil {
				undecided("more than one loop")
				return
			}
			scc = comp
		}
	}
	if scc == nil {
		undecided("no loop over the clusters")
		return
	}
	inLoop := map[*ssa.BasicBlock]bool{}
	for _, b := range scc {
		inLoop[b] = true
	}
	var header *ssa.BasicBlock
	for _, b := range scc {
		for _, p := range b.Preds {
			if !inLoop[p] {
				header = b
			}
		}
	}
	if header == nil || len(header.Succs) != 2 {
		undecided("the loop has no recognisable header")
		return
	}
	bodyIdx, exitIdx := 0, 1
	if !inLoop[header.Succs[0]] {
		bodyIdx, exitIdx = 1, 0
	}
	if inLoop[header.Succs[exitIdx]] {
		undecided("the loop is not left from its header")
		return
	}
	// phase 1: straight-line code before the loop
	if len(fn.Params) != 4 {
		undecided("emitToken no longer has the parameters (receiver, type, start offset, end offset)")
		return
	}
	// expected forms are written with the canonical names f / ty / startOfs / endOfs
	names := map[*ssa.Parameter]string{fn.Params[0]: "f", fn.Params[1]: "ty", fn.Params[2]: "startOfs", fn.Params[3]: "endOfs"}
	m0 := &sxMachine{fn: fn, names: names, reg: map[ssa.Value]sxVal{}, mem: map[string]sxVal{}}
	_, from := m0.run(fn.Blocks[0], nil, func(_, to *ssa.BasicBlock) bool { return to == header }, nil)
	if m0.err != "" || from == nil {
		undecided("before the loop: " + m0.err)
		return
	}
	// loop-carried state: header phis and the local cells stored inside the loop
	var phis []*ssa.Phi
	for _, ins := range header.Instrs {
		if p, ok := ins.(*ssa.Phi); ok {
			phis = append(phis, p)
		}
	}
	cells := map[string]bool{}
	for _, b := range scc {
		for _, ins := range b.Instrs {
			if st, ok := ins.(*ssa.Store); ok {
				if k, ok := staticCellKey(st.Addr); ok {
					cells[k] = true
				} else {
					undecided("a store inside the loop to memory other than a local field")
					return
				}
			}
		}
	}
	type lvar struct {
		key   string
		phi   *ssa.Phi
		bytes bool
		init  sxVal
	}
	var vars []*lvar
	for _, p := range phis {
		lv := &lvar{key: "phi:" + p.Comment, phi: p}
		for k, pred := range header.Preds {
			if pred == from {
				lv.init = m0.val(p.Edges[k])
			}
		}
		_, lv.bytes = lv.init.(sxBytes)
		vars = append(vars, lv)
	}
	var cellKeys []string
	for k := range cells {
		cellKeys = append(cellKeys, k)
	}
	sort.Strings(cellKeys)
	for _, k := range cellKeys {
		v, ok := m0.mem[k]
		if !ok {
			v = sxConst(0)
		}
		vars = append(vars, &lvar{key: k, init: v})
	}
	// the header tests that bytes remain
	condOK := false
	if iff, ok := lastIf(header); ok {
		if bo, ok := iff.Cond.(*ssa.BinOp); ok {
			for _, pr := range [][2]ssa.Value{{bo.X, bo.Y}, {bo.Y, bo.X}} {
				call, isCall := pr[0].(*ssa.Call)
				z, isZ := constInt(pr[1])
				if !isCall || !isZ || z != 0 {
					continue
				}
				if bi, ok := call.Call.Value.(*ssa.Builtin); ok && bi.Name() == "len" {
					if ph, ok := call.Call.Args[0].(*ssa.Phi); ok && ph.Block() == header {
						nonEmptyOnTrue := (bo.Op == token.GTR && pr[0] == bo.X) || (bo.Op == token.LSS && pr[0] == bo.Y) || bo.Op == token.NEQ
						emptyOnTrue := bo.Op == token.EQL || (bo.Op == token.LEQ && pr[0] == bo.X)
						if (nonEmptyOnTrue && bodyIdx == 0) || (emptyOnTrue && bodyIdx == 1) {
							condOK = true
						}
					}
				}
			}
		}
	}
	c.Check(condOK, "linform", name+":loop.condition", header.Instrs[len(header.Instrs)-1].Pos(), "the loop runs while bytes remain", "the cluster loop is not controlled by `len(remaining bytes) > 0`")
	// phase 2: one iteration per cluster model
	models := [][]byte{}
	alphabet := []byte{'\n', '\r', 'x'}
	for _, a := range alphabet {
		models = append(models, []byte{a})
		for _, b := range alphabet {
			models = append(models, []byte{a, b})
		}
	}
	models = append(models, []byte("x\nx"), []byte("\r\nx"))
	type upd map[string]string
	updates := map[string]upd{} // var key -> model -> new value
	for _, lv := range vars {
		updates[lv.key] = upd{}
	}
	for _, model := range models {
		m := cloneSx(m0)
		m.model = model
		for _, lv := range vars {
			var sym sxVal = sxSym("L:" + lv.key)
			if lv.bytes {
				sym = sxBytes{base: "$b", lo: sxConst(0)}
			}
			if lv.phi != nil {
				m.reg[lv.phi] = sym
			} else {
				m.mem[lv.key] = sym
			}
		}
		md := model
		m.scan = func(arg0 sxVal) (sxVal, string) {
			bs, ok := arg0.(sxBytes)
			if !ok || bs.base != "$b" || bs.hi != "" || !bs.lo.isConst() || bs.lo.c != 0 {
				return nil, "the cluster scanner is not applied to the remaining bytes of the token (" + sxString(arg0) + ")"
			}
			return sxTuple{[]sxVal{sxSym("adv"), sxModel{md}, sxOpaque{"err"}}}, ""
		}
		// header's own instructions, then the body, until the back edge
		_, back := m.run(header, nil, func(f, to *ssa.BasicBlock) bool { return to == header }, map[*ssa.BasicBlock]int{header: bodyIdx})
		if m.err != "" || back == nil {
			undecided(fmt.Sprintf("cluster %q: %s", model, m.err))
			return
		}
		for _, lv := range vars {
			var nv sxVal
			if lv.phi != nil {
				for k, pred := range header.Preds {
					if pred == back {
						nv = m.val(lv.phi.Edges[k])
					}
				}
			} else {
				nv = m.mem[lv.key]
			}
			updates[lv.key][string(model)] = sxString(nv)
		}
	}
	isNL := func(model string) bool { return model == "\n" || model == "\r\n" }
	classify := func(lv *lvar) string {
		self := sxSym("L:" + lv.key)
		kinds := map[string]bool{"line": true, "column": true, "same": true, "bytes": lv.bytes}
		for model, got := range updates[lv.key] {
			if lv.bytes {
				if got != sxString(sxBytes{base: "$b", lo: sxSym("adv")}) {
					kinds["bytes"] = false
				}
				continue
			}
			inc := self.add(sxConst(1), 1).String()
			if isNL(model) {
				kinds["line"] = kinds["line"] && got == inc
				kinds["column"] = kinds["column"] && got == sxConst(1).String()
			} else {
				kinds["line"] = kinds["line"] && got == self.String()
				kinds["column"] = kinds["column"] && got == inc
			}
			kinds["same"] = kinds["same"] && got == self.String()
		}
		for _, k := range []string{"bytes", "same", "line", "column"} {
			if kinds[k] {
				return k
			}
		}
		return "other"
	}
	var lineVar, colVar, bytesVar *lvar
	for _, lv := range vars {
		switch classify(lv) {
		case "line":
			if lineVar != nil {
				c.Fail("linform", name+":loop.line", fn.Pos(), "two loop variables are advanced like a line counter")
			}
			lineVar = lv
		case "column":
			if colVar != nil {
				c.Fail("linform", name+":loop.column", fn.Pos(), "two loop variables are advanced like a column counter")
			}
			colVar = lv
		case "bytes":
			bytesVar = lv
		case "same":
		default:
			var ex []string
			for model, got := range updates[lv.key] {
				ex = append(ex, fmt.Sprintf("%q→%s", model, got))
			}
			sort.Strings(ex)
			c.Fail("linform", name+":loop.update["+lv.key+"]", fn.Pos(), "the loop variable "+lv.key+" is updated neither like a line counter (+1 on \"\\n\"/\"\\r\\n\", else unchanged), nor like a column counter (=1 on a newline cluster, else +1), nor left unchanged: "+strings.Join(ex, ", "))
		}
	}
	c.Check(lineVar != nil, "linform", name+":loop.line", fn.Pos(), "a line counter: +1 exactly on the clusters \"\\n\" and \"\\r\\n\"", "no loop variable is advanced as the line counter (+1 exactly on the clusters \"\\n\" and \"\\r\\n\")")
	c.Check(colVar != nil, "linform", name+":loop.column", fn.Pos(), "a column counter: 1 after a newline cluster, +1 otherwise", "no loop variable is advanced as the column counter (1 after a newline cluster, +1 otherwise)")
	c.Check(bytesVar != nil, "linform", name+":loop.advance", fn.Pos(), "each iteration drops exactly the scanned cluster", "the remaining bytes are not advanced by exactly the scanned cluster (b = b[advance:])")
	if lineVar == nil || colVar == nil || bytesVar == nil {
		return
	}
	// phase 3: after the loop
	m := cloneSx(m0)
	for _, lv := range vars {
		var sym sxVal = sxSym("E:" + lv.key)
		if lv.bytes {
			sym = sxBytes{base: "$rest", lo: sxConst(0)}
		}
		if lv.phi != nil {
			m.reg[lv.phi] = sym
		} else {
			m.mem[lv.key] = sym
		}
	}
	_, ret := m.run(header, nil, nil, map[*ssa.BasicBlock]int{header: exitIdx})
	if m.err != "" || ret == nil {
		undecided("after the loop: " + m.err)
		return
	}
	if len(m.appended) != 1 {
		undecided(fmt.Sprintf("%d values are appended after the loop, expected the one Token", len(m.appended)))
		return
	}
	tok, ok := m.appended[0].(sxStruct)
	if !ok {
		undecided("the appended value is not a Token struct")
		return
	}
	field := func(v sxVal, path ...string) string {
		for _, p := range path {
			st, ok := v.(sxStruct)
			if !ok {
				return "?"
			}
			v = st.f[p]
		}
		return sxString(v)
	}
	startCol := "-f.Pos.Byte +f.Pos.Column +f.StartByte +startOfs"
	want := func(key, got, exp string) {
		c.Sites++
		c.Check(got == exp, "linform", name+":"+key, fn.Pos(), key+" = "+exp, key+" = "+got+", but the property prescribes "+exp)
	}
	want("Token.Bytes", field(tok, "Bytes"), "f.Bytes[+startOfs:+endOfs]")
	want("Token.Type", field(tok, "Type"), "+ty")
	want("Range.Filename", field(tok, "Range", "Filename"), "?f.Filename")
	want("Range.Start.Byte", field(tok, "Range", "Start", "Byte"), "+f.StartByte +startOfs")
	want("Range.Start.Line", field(tok, "Range", "Start", "Line"), "+f.Pos.Line")
	want("Range.Start.Column", field(tok, "Range", "Start", "Column"), startCol)
	want("Range.End.Byte", field(tok, "Range", "End", "Byte"), "+endOfs +f.StartByte")
	want("Range.End.Line", field(tok, "Range", "End", "Line"), "+E:"+lineVar.key)
	want("Range.End.Column", field(tok, "Range", "End", "Column"), "+E:"+colVar.key)
	want("line@loop-entry", sxString(lineVar.init), "+f.Pos.Line")
	want("column@loop-entry", sxString(colVar.init), startCol)
	want("cluster-loop.bytes", sxString(bytesVar.init), "f.Bytes[+startOfs:+endOfs]")
	// f.Pos is threaded
	pos := m.memLoad("f", "Pos", fn.Params[0].Type().(*types.Pointer).Elem().Underlying().(*types.Struct).Field(2).Type())
	want("thread[f.Pos].Line", field(pos, "Line"), "+E:"+lineVar.key)
	want("thread[f.Pos].Column", field(pos, "Column"), "+E:"+colVar.key)
	want("thread[f.Pos].Byte", field(pos, "Byte"), "+endOfs +f.StartByte")
}
