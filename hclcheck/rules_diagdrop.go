package main

import (
	"go/token"

	"golang.org/x/tools/go/ssa"
)

// diagDropSites: for every call in fns that yields hcl.Diagnostics, whether some path from the call
// to a return never uses them (append, return, pass on, store, test).
type diagDrop struct {
	fn      *ssa.Function
	call    *ssa.Call
	pos     token.Pos
	dropped bool // never referenced at all
	partial bool // referenced, but some path to a return passes none of the references
	exit    token.Pos
	callee  string
}

func diagDropSites(p *Program, fns []*ssa.Function) []diagDrop {
	var out []diagDrop
	for _, fn := range fns {
		for _, b := range fn.Blocks {
			for i, ins := range b.Instrs {
				call, ok := ins.(*ssa.Call)
				if !ok {
					continue
				}
				// the diagnostics value(s) of the call
				var dvals []ssa.Value
				hasDiags := false
				if isDiagnosticsType(call.Type()) {
					hasDiags = true
					dvals = append(dvals, call)
				} else if tup, ok := call.Type().(interface{ Len() int }); ok && tup != nil {
					_ = tup
				}
				if call.Call.Signature().Results().Len() > 1 {
					res := call.Call.Signature().Results()
					for k := 0; k < res.Len(); k++ {
						if isDiagnosticsType(res.At(k).Type()) {
							hasDiags = true
							for _, r := range *call.Referrers() {
								if ex, ok := r.(*ssa.Extract); ok && ex.Index == k {
									dvals = append(dvals, ex)
								}
							}
						}
					}
				}
				if !hasDiags {
					continue
				}
				if bi, ok := call.Call.Value.(*ssa.Builtin); ok && bi.Name() == "append" {
					continue
				}
				ci := calleeOf(&call.Call)
				d := diagDrop{fn: fn, call: call, pos: call.Pos(), callee: ci.name}
				uses := map[ssa.Instruction]bool{}
				for _, dv := range dvals {
					if refs := dv.Referrers(); refs != nil {
						for _, r := range *refs {
							if _, isDbg := r.(*ssa.DebugRef); isDbg {
								continue
							}
							uses[r] = true
						}
					}
				}
				if len(uses) == 0 {
					d.dropped = true
					out = append(out, d)
					continue
				}
				stop := func(x ssa.Instruction) bool { return uses[x] }
				// phi uses happen on edges: treat the phi's block entry as the use
				if pos, escapes := reachesReturnAvoiding(b, i+1, stop, nil); escapes {
					d.partial = true
					d.exit = pos
				}
				out = append(out, d)
			}
		}
	}
	return out
}

// Named exceptions: one call each, with the reason the diagnostics may be left out on some path.
var diagsKeptExceptions = map[string]string{
	"hclsyntax.(*ConditionalExpr).Value:diags[Value]":  "by design a conditional reports the diagnostics of a result expression only when that result is the one selected (the other may fail legitimately, as in `x != null ? x.attr : d`); on the null-condition path no result is selected. (The type-mismatch path, which used to replace a failed result's own error by a type error, keeps them since fix 329ec4e.)",
	"hclsyntax.(*BinaryOpExpr).Value:diags[<dynamic>]": "Operation.ShortCircuit returns (cty.NilVal, nil) when it does not force a result; its diagnostics belong to the forced result only (documented at the call)",
}

// R8 (C15): diagnostics obtained from a callee are not lost on some paths only.
func c15DiagsKept(c *Ctx) {
	diagsKeptRule(c, "R8", 150, "hcl", "hclsyntax", "json", "hcldec", "ext/dynblock", "hclwrite", "gohcl", "ext/typeexpr", "ext/userfunc", "ext/tryfunc")
}

func diagsKeptRule(c *Ctx, rn string, floor int, pkgs ...string) {
	c.Rule(rn + " diags.kept: in every function of the module that itself returns hcl.Diagnostics, the diagnostics a callee returned are, once used at all (an explicit `_` is a decision), used on EVERY path from the call to a return — appended, returned, passed on or tested; diagnostics merged only inside one branch are silently dropped on the others, so damaged input is reported clean")
	fns := c.P.pkgFuncs(pkgs...)
	n := 0
	for _, d := range diagDropSites(c.P, fns) {
		returnsDiags := false
		res := d.fn.Signature.Results()
		for k := 0; k < res.Len(); k++ {
			if isDiagnosticsType(res.At(k).Type()) {
				returnsDiags = true
			}
		}
		if !returnsDiags || d.dropped {
			continue
		}
		n++
		c.Sites++
		c.Fn(FuncName(d.fn))
		key := FuncName(d.fn) + ":diags[" + d.callee + "]"
		if why, ok := diagsKeptExceptions[key]; ok && d.partial {
			c.OK("diags.kept", key, d.pos, "named exception: "+why)
			c.Assumption("diags.kept exception " + key + ": " + why)
			continue
		}
		c.Check(!d.partial, "diags.kept", key, d.pos, "used on every path",
			"the diagnostics returned by "+d.callee+" are used on some paths but not on the path to the return at "+c.P.Position(d.exit)+": problems found by the callee are dropped there")
	}
	c.Floor("diags.kept calls", n, floor, "calls returning diagnostics in functions that return diagnostics")
}
