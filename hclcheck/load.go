package main

import (
	_ "embed"
	"encoding/json"
	"fmt"
	"go/ast"
	"go/token"
	"go/types"
	"os"
	"sort"
	"strings"

	"golang.org/x/tools/go/callgraph"
	"golang.org/x/tools/go/callgraph/cha"
	"golang.org/x/tools/go/callgraph/vta"
	"golang.org/x/tools/go/packages"
	"golang.org/x/tools/go/ssa"
	"golang.org/x/tools/go/ssa/ssautil"
)

const modPath = "github.com/hashicorp/hcl/v2"

// Program is the loaded, type-checked and SSA-built repository.
type Program struct {
	Repo     string
	Fset     *token.FileSet
	Pkgs     map[string]*packages.Package // by import path (module + deps)
	ModPkgs  []*packages.Package          // packages of the module, sorted
	SSA      *ssa.Program
	SSAPkgs  map[string]*ssa.Package
	cg       *callgraph.Graph
	cgVTA    *callgraph.Graph
	allFuncs map[*ssa.Function]bool
	funcDecl map[*types.Func]*ast.FuncDecl
	declPkg  map[*ast.FuncDecl]*packages.Package
}

func loadProgram(repo string, extraEnv []string, tags string) (*Program, error) {
	env := os.Environ()
	// Environment forced inside the loader (see DESIGN §2.1).
	filtered := env[:0:0]
	for _, e := range env {
		if strings.HasPrefix(e, "GOFLAGS=") || strings.HasPrefix(e, "GOPROXY=") || strings.HasPrefix(e, "GOWORK=") {
			continue
		}
		filtered = append(filtered, e)
	}
	filtered = append(filtered, "GOFLAGS=-mod=mod", "GOPROXY=off", "GOWORK=off")
	filtered = append(filtered, extraEnv...)
	cfg := &packages.Config{
		Mode:  packages.LoadAllSyntax,
		Dir:   repo,
		Env:   filtered,
		Tests: false,
	}
	if tags != "" {
		cfg.BuildFlags = []string{"-tags=" + tags}
	}
	pkgs, err := packages.Load(cfg, "./...")
	if err != nil {
		return nil, fmt.Errorf("packages.Load: %w", err)
	}
	if len(pkgs) == 0 {
		return nil, fmt.Errorf("zero packages loaded from %s", repo)
	}
	p := &Program{Repo: repo, Pkgs: map[string]*packages.Package{}, SSAPkgs: map[string]*ssa.Package{},
		funcDecl: map[*types.Func]*ast.FuncDecl{}, declPkg: map[*ast.FuncDecl]*packages.Package{}}
	var errs []string
	packages.Visit(pkgs, nil, func(pkg *packages.Package) {
		p.Pkgs[pkg.PkgPath] = pkg
		if strings.HasPrefix(pkg.PkgPath, modPath) {
			for _, e := range pkg.Errors {
				errs = append(errs, e.Error())
			}
			if pkg.IllTyped {
				errs = append(errs, pkg.PkgPath+": ill-typed")
			}
		}
	})
	if len(errs) > 0 {
		sort.Strings(errs)
		return nil, fmt.Errorf("type-check errors in repository packages:\n  %s", strings.Join(errs, "\n  "))
	}
	for _, pkg := range pkgs {
		if strings.HasPrefix(pkg.PkgPath, modPath) {
			p.ModPkgs = append(p.ModPkgs, pkg)
		}
	}
	sort.Slice(p.ModPkgs, func(i, j int) bool { return p.ModPkgs[i].PkgPath < p.ModPkgs[j].PkgPath })
	if len(p.ModPkgs) == 0 {
		return nil, fmt.Errorf("no packages of module %s found", modPath)
	}
	p.Fset = pkgs[0].Fset
	prog, ssaPkgs := ssautil.AllPackages(pkgs, ssa.InstantiateGenerics)
	prog.Build()
	p.SSA = prog
	for i, sp := range ssaPkgs {
		if sp != nil {
			p.SSAPkgs[pkgs[i].PkgPath] = sp
		}
	}
	for _, sp := range prog.AllPackages() {
		if sp.Pkg != nil {
			if _, ok := p.SSAPkgs[sp.Pkg.Path()]; !ok {
				p.SSAPkgs[sp.Pkg.Path()] = sp
			}
		}
	}
	for _, pkg := range p.Pkgs {
		if !strings.HasPrefix(pkg.PkgPath, modPath) && !strings.Contains(pkg.PkgPath, "zclconf/go-cty") {
			continue
		}
		for _, f := range pkg.Syntax {
			for _, d := range f.Decls {
				if fd, ok := d.(*ast.FuncDecl); ok {
					if obj, ok := pkg.TypesInfo.Defs[fd.Name].(*types.Func); ok {
						p.funcDecl[obj] = fd
						p.declPkg[fd] = pkg
					}
				}
			}
		}
	}
	return p, nil
}

// Pkg returns a module package by path suffix ("" = root, "hclsyntax", "ext/dynblock").
func (p *Program) Pkg(suffix string) *packages.Package {
	path := modPath
	if suffix != "" {
		path += "/" + suffix
	}
	return p.Pkgs[path]
}

func (p *Program) SSAPkg(suffix string) *ssa.Package {
	path := modPath
	if suffix != "" {
		path += "/" + suffix
	}
	return p.SSAPkgs[path]
}

// Position renders a position relative to the repo root.
func (p *Program) Position(pos token.Pos) string {
	if !pos.IsValid() {
		return "-"
	}
	ps := p.Fset.Position(pos)
	f := ps.Filename
	if strings.HasPrefix(f, p.Repo+"/") {
		f = f[len(p.Repo)+1:]
	} else if i := strings.Index(f, "/pkg/mod/"); i >= 0 {
		f = f[i+len("/pkg/mod/"):]
	}
	return fmt.Sprintf("%s:%d", f, ps.Line)
}

// AllFuncs returns every function (incl. anonymous and methods) known to SSA.
func (p *Program) AllFuncs() map[*ssa.Function]bool {
	if p.allFuncs == nil {
		p.allFuncs = ssautil.AllFunctions(p.SSA)
	}
	return p.allFuncs
}

// CallGraph returns the CHA call graph. CHA is the open-world choice for a
// library: arguments of exported entry points come from outside the module, so a
// type-flow refinement (VTA) would prune edges to implementers that only callers
// outside the module construct.
func (p *Program) CallGraph() *callgraph.Graph {
	if p.cg == nil {
		p.cg = cha.CallGraph(p.SSA)
	}
	return p.cg
}

// CallGraphVTA returns the VTA-refined graph (closed world; for precision only).
func (p *Program) CallGraphVTA() *callgraph.Graph {
	if p.cgVTA == nil {
		p.cgVTA = vta.CallGraph(p.AllFuncs(), p.CallGraph())
	}
	return p.cgVTA
}

// inModule reports whether fn belongs to a package of the module.
func inModule(fn *ssa.Function) bool {
	pk := fnPkg(fn)
	return pk != nil && strings.HasPrefix(pk.Path(), modPath)
}

func fnPkg(fn *ssa.Function) *types.Package {
	for f := fn; f != nil; f = f.Parent() {
		if f.Pkg != nil {
			return f.Pkg.Pkg
		}
		if f.Origin() != nil && f.Origin().Pkg != nil {
			return f.Origin().Pkg.Pkg
		}
	}
	if fn.Object() != nil {
		return fn.Object().Pkg()
	}
	return nil
}

// shortPkg returns the module-relative package name ("hcl" for root).
func shortPkg(path string) string {
	if path == modPath {
		return "hcl"
	}
	if strings.HasPrefix(path, modPath+"/") {
		return path[len(modPath)+1:]
	}
	if i := strings.Index(path, "zclconf/go-cty/"); i >= 0 {
		return path[i+len("zclconf/go-cty/"):]
	}
	return path
}

// FuncName is a stable display name: "hclsyntax.(*ForExpr).Value", closures "...$1".
func FuncName(fn *ssa.Function) string {
	if fn == nil {
		return "<nil>"
	}
	if fn.Parent() != nil {
		return FuncName(fn.Parent()) + "$" + strings.TrimPrefix(fn.Name()[strings.LastIndex(fn.Name(), "$"):], "$")
	}
	pk := fnPkg(fn)
	pn := "?"
	if pk != nil {
		pn = shortPkg(pk.Path())
	}
	if recv := fn.Signature.Recv(); recv != nil {
		t := recv.Type()
		star := ""
		if pt, ok := t.(*types.Pointer); ok {
			t = pt.Elem()
			star = "*"
		}
		tn := t.String()
		if nt, ok := t.(*types.Named); ok {
			tn = nt.Obj().Name()
		}
		if star != "" {
			return fmt.Sprintf("%s.(*%s).%s", pn, tn, fn.Name())
		}
		return fmt.Sprintf("%s.%s.%s", pn, tn, fn.Name())
	}
	return pn + "." + fn.Name()
}

// LookupFunc finds a package-level function or method: name is "Func" or "Type.Method"
// (pointer or value receiver).
func (p *Program) LookupFunc(pkgSuffix, name string) *ssa.Function {
	if fn := p.lookupFuncByName(pkgSuffix, name); fn != nil {
		return fn
	}
	return p.lookupRenamed(pkgSuffix, name)
}

// anchorTable: for every declared function of the module as it was when the rules were written
// (package suffix → "Func" / "Type.Method" → signature with receiver). Generated by
// `hclcheck -dump-anchors`; used only to recognise an anchor that has been renamed.
//
//go:embed anchors.json
var anchorJSON []byte

var anchorTable map[string]map[string]string

// Renamed records the anchors that were resolved by signature (old name → new name).
var Renamed = map[string]string{}

func funcKeyAndSig(fn *ssa.Function) (string, string) {
	key := fn.Name()
	if recv := fn.Signature.Recv(); recv != nil {
		t := recv.Type()
		if pt, ok := t.(*types.Pointer); ok {
			t = pt.Elem()
		}
		if nt, ok := t.(*types.Named); ok {
			key = nt.Obj().Name() + "." + fn.Name()
		}
	}
	// parameter and result types only (names may change with the function's name)
	var ps, rs []string
	for i := 0; i < fn.Signature.Params().Len(); i++ {
		ps = append(ps, types.TypeString(fn.Signature.Params().At(i).Type(), nil))
	}
	for i := 0; i < fn.Signature.Results().Len(); i++ {
		rs = append(rs, types.TypeString(fn.Signature.Results().At(i).Type(), nil))
	}
	sig := "func(" + strings.Join(ps, ", ") + ") (" + strings.Join(rs, ", ") + ")"
	if fn.Signature.Variadic() {
		sig += " variadic"
	}
	if recv := fn.Signature.Recv(); recv != nil {
		sig = types.TypeString(recv.Type(), nil) + " " + sig
	}
	return key, sig
}

// declaredFuncs: the declared (non-synthetic, non-closure) functions and methods of a package.
func (p *Program) declaredFuncs(pkgSuffix string) map[string]*ssa.Function {
	out := map[string]*ssa.Function{}
	sp := p.SSAPkg(pkgSuffix)
	if sp == nil {
		return out
	}
	for fn := range p.AllFuncs() {
		if fn.Pkg != sp || fn.Parent() != nil || fn.Synthetic != "" || fn.Object() == nil {
			continue
		}
		if fn.Origin() != nil && fn.Origin() != fn {
			continue
		}
		k, _ := funcKeyAndSig(fn)
		out[k] = fn
	}
	return out
}

// lookupRenamed: name does not resolve. If the table knows its former signature and exactly one
// function of the package with that signature (and receiver) has a name the table does not know,
// that function is the renamed anchor.
func (p *Program) lookupRenamed(pkgSuffix, name string) *ssa.Function {
	if anchorTable == nil {
		anchorTable = map[string]map[string]string{}
		_ = json.Unmarshal(anchorJSON, &anchorTable)
	}
	known := anchorTable[pkgSuffix]
	want, ok := known[name]
	if !ok {
		return nil
	}
	recvPrefix := ""
	if i := strings.Index(name, "."); i >= 0 {
		recvPrefix = name[:i+1]
	}
	var cands []*ssa.Function
	for k, fn := range p.declaredFuncs(pkgSuffix) {
		if _, old := known[k]; old {
			continue
		}
		if recvPrefix != "" && !strings.HasPrefix(k, recvPrefix) {
			continue
		}
		if recvPrefix == "" && strings.Contains(k, ".") {
			continue
		}
		if _, sig := funcKeyAndSig(fn); sig == want {
			cands = append(cands, fn)
		}
	}
	if len(cands) != 1 {
		return nil
	}
	k, _ := funcKeyAndSig(cands[0])
	Renamed[pkgSuffix+"."+name] = k
	return cands[0]
}

func (p *Program) lookupFuncByName(pkgSuffix, name string) *ssa.Function {
	sp := p.SSAPkg(pkgSuffix)
	if sp == nil {
		return nil
	}
	if i := strings.Index(name, "."); i >= 0 {
		tn, mn := name[:i], name[i+1:]
		t := sp.Type(tn)
		if t == nil {
			return nil
		}
		for _, typ := range []types.Type{t.Type(), types.NewPointer(t.Type())} {
			ms := p.SSA.MethodSets.MethodSet(typ)
			for i := 0; i < ms.Len(); i++ {
				if ms.At(i).Obj().Name() == mn {
					fn := p.SSA.MethodValue(ms.At(i))
					if fn != nil && fn.Synthetic != "" {
						// wrapper: find the declared one
						if f2 := p.SSA.FuncValue(ms.At(i).Obj().(*types.Func)); f2 != nil {
							return f2
						}
					}
					if fn != nil {
						return fn
					}
				}
			}
		}
		return nil
	}
	return sp.Func(name)
}

// FuncDecl returns the syntax of a declared function.
func (p *Program) FuncDecl(fn *ssa.Function) *ast.FuncDecl {
	if fn == nil {
		return nil
	}
	if obj, ok := fn.Object().(*types.Func); ok {
		return p.funcDecl[obj]
	}
	return nil
}

func (p *Program) FuncDeclOf(obj *types.Func) *ast.FuncDecl { return p.funcDecl[obj] }

// LookupDecl finds the AST declaration + package for pkgSuffix / "Func" or "Type.Method".
func (p *Program) LookupDecl(pkgSuffix, name string) (*ast.FuncDecl, *packages.Package) {
	pkg := p.Pkg(pkgSuffix)
	if pkg == nil {
		return nil, nil
	}
	if fd := p.lookupDeclByName(pkg, name); fd != nil {
		return fd, pkg
	}
	// renamed anchor: resolve through the SSA function
	if fn := p.lookupRenamed(pkgSuffix, name); fn != nil {
		if fd := p.FuncDecl(fn); fd != nil {
			return fd, pkg
		}
	}
	return nil, nil
}

func (p *Program) lookupDeclByName(pkg *packages.Package, name string) *ast.FuncDecl {
	tn, mn := "", name
	if i := strings.Index(name, "."); i >= 0 {
		tn, mn = name[:i], name[i+1:]
	}
	for _, f := range pkg.Syntax {
		for _, d := range f.Decls {
			fd, ok := d.(*ast.FuncDecl)
			if !ok || fd.Name.Name != mn {
				continue
			}
			if tn == "" {
				if fd.Recv == nil {
					return fd
				}
				continue
			}
			if fd.Recv == nil || len(fd.Recv.List) == 0 {
				continue
			}
			if recvTypeName(fd.Recv.List[0].Type) == tn {
				return fd
			}
		}
	}
	return nil
}

func recvTypeName(e ast.Expr) string {
	for {
		switch x := e.(type) {
		case *ast.StarExpr:
			e = x.X
		case *ast.ParenExpr:
			e = x.X
		case *ast.IndexExpr:
			e = x.X
		case *ast.Ident:
			return x.Name
		default:
			return ""
		}
	}
}

// ReachableFrom computes the set of functions reachable from roots in the call graph,
// restricted by keep (nil = all).
func (p *Program) ReachableFrom(roots []*ssa.Function, keep func(*ssa.Function) bool) map[*ssa.Function]bool {
	cg := p.CallGraph()
	seen := map[*ssa.Function]bool{}
	var stack []*ssa.Function
	push := func(f *ssa.Function) {
		if f == nil || seen[f] {
			return
		}
		if keep != nil && !keep(f) {
			return
		}
		seen[f] = true
		stack = append(stack, f)
	}
	for _, r := range roots {
		push(r)
	}
	for len(stack) > 0 {
		f := stack[len(stack)-1]
		stack = stack[:len(stack)-1]
		if n := cg.Nodes[f]; n != nil {
			for _, e := range n.Out {
				push(e.Callee.Func)
			}
		}
		// closures defined in f are considered reachable (they are created there)
		for _, af := range f.AnonFuncs {
			push(af)
		}
	}
	return seen
}
