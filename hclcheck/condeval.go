package main

import (
	"go/constant"
	"go/token"

	"golang.org/x/tools/go/ssa"
)

// E-condeval: which blocks of a function can be reached under an assignment of truth values to a
// few named atoms (calls of one predicate, comparisons of a string with given constants). Branch
// conditions are evaluated through negation, value-form && / || (phis), and boolean helper
// functions of the module (evaluated the same way, atoms recognised inside them); anything else is
// free (both edges are taken). Used to decide "this block is reached only when atom A holds and
// atom B does not" without reading source text.
type condAtoms struct {
	// assumed concrete facts (for infeasibility proofs): the length of one sequence and the value of
	// string subjects named by their structural path
	lenSeq   func(ssa.Value) bool // is this value the sequence whose length is assumed?
	lenVal   int64
	hasLen   bool
	strVals  map[string]string // pathName of a string value → assumed value ("\x00other" = none of the constants)
	pred     *ssa.Function     // calls of this function are atom "P"
	strEq    map[string]string // constant string → atom name: (x == const) is that atom
	assign   map[string]bool   // atom → value
	helpers  map[*ssa.Function]int
	boolVals map[ssa.Value]bool // assumed values of individual boolean SSA values
}

type tri int

const (
	triUnknown tri = iota
	triTrue
	triFalse
)

func triOf(b bool) tri {
	if b {
		return triTrue
	}
	return triFalse
}

func (t tri) not() tri {
	switch t {
	case triTrue:
		return triFalse
	case triFalse:
		return triTrue
	}
	return triUnknown
}

type condRun struct {
	a         *condAtoms
	fn        *ssa.Function
	edgeReach map[[2]*ssa.BasicBlock]bool
	reach     map[*ssa.BasicBlock]bool
	depth     int
}

func (a *condAtoms) run(fn *ssa.Function, depth int) *condRun {
	r := &condRun{a: a, fn: fn, edgeReach: map[[2]*ssa.BasicBlock]bool{}, reach: map[*ssa.BasicBlock]bool{}, depth: depth}
	if len(fn.Blocks) == 0 {
		return r
	}
	// iterate: phis depend on which incoming edges are reachable
	for iter := 0; iter < 4; iter++ {
		before := len(r.edgeReach)
		r.reach = map[*ssa.BasicBlock]bool{}
		var walk func(b *ssa.BasicBlock)
		walk = func(b *ssa.BasicBlock) {
			if r.reach[b] {
				return
			}
			r.reach[b] = true
			succs := []int{}
			if iff, ok := b.Instrs[len(b.Instrs)-1].(*ssa.If); ok && len(b.Succs) == 2 {
				switch r.eval(iff.Cond, 0) {
				case triTrue:
					succs = []int{0}
				case triFalse:
					succs = []int{1}
				default:
					succs = []int{0, 1}
				}
			} else {
				for i := range b.Succs {
					succs = append(succs, i)
				}
			}
			for _, i := range succs {
				r.edgeReach[[2]*ssa.BasicBlock{b, b.Succs[i]}] = true
				walk(b.Succs[i])
			}
		}
		walk(fn.Blocks[0])
		if len(r.edgeReach) == before && iter > 0 {
			break
		}
	}
	return r
}

func (r *condRun) eval(v ssa.Value, d int) tri {
	if d > 10 {
		return triUnknown
	}
	if r.a.boolVals != nil {
		if bv, has := r.a.boolVals[v]; has {
			return triOf(bv)
		}
	}
	switch x := v.(type) {
	case *ssa.Const:
		if x.Value != nil && x.Value.Kind() == constant.Bool {
			return triOf(constant.BoolVal(x.Value))
		}
	case *ssa.UnOp:
		if x.Op == token.NOT {
			return r.eval(x.X, d+1).not()
		}
	case *ssa.BinOp:
		// a comparison of the assumed length with a constant
		if r.a.hasLen {
			if lx, c, ok := lenMinus(x.X); ok && r.a.lenSeq(lx) {
				if k, isC := constIntVal(x.Y); isC {
					l := r.a.lenVal - c
					switch x.Op {
					case token.EQL:
						return triOf(l == k)
					case token.NEQ:
						return triOf(l != k)
					case token.LSS:
						return triOf(l < k)
					case token.LEQ:
						return triOf(l <= k)
					case token.GTR:
						return triOf(l > k)
					case token.GEQ:
						return triOf(l >= k)
					}
				}
			}
		}
		if x.Op == token.EQL || x.Op == token.NEQ {
			for _, pr := range [][2]ssa.Value{{x.X, x.Y}, {x.Y, x.X}} {
				if cn, ok := pr[1].(*ssa.Const); ok && cn.Value != nil && cn.Value.Kind() == constant.String && r.a.strVals != nil {
					if av, has := r.a.strVals[pathName(pr[0])]; has {
						t := triOf(av == constant.StringVal(cn.Value))
						if x.Op == token.NEQ {
							t = t.not()
						}
						return t
					}
				}
				if cn, ok := pr[1].(*ssa.Const); ok && cn.Value != nil && cn.Value.Kind() == constant.String {
					if atom, ok := r.a.strEq[constant.StringVal(cn.Value)]; ok {
						if val, has := r.a.assign[atom]; has {
							t := triOf(val)
							if x.Op == token.NEQ {
								t = t.not()
							}
							return t
						}
					}
				}
			}
		}
	case *ssa.Phi:
		// value-form condition: the edges that can be taken decide
		res := tri(-1)
		for i, e := range x.Edges {
			if !r.edgeReach[[2]*ssa.BasicBlock{x.Block().Preds[i], x.Block()}] {
				continue
			}
			ev := r.eval(e, d+1)
			if res == -1 {
				res = ev
			} else if res != ev {
				return triUnknown
			}
		}
		if res == -1 {
			return triUnknown
		}
		return res
	case *ssa.Call:
		cal := x.Call.StaticCallee()
		if cal == nil {
			return triUnknown
		}
		if cal == r.a.pred {
			if val, has := r.a.assign["P"]; has {
				return triOf(val)
			}
			return triUnknown
		}
		// a boolean helper of the module: what it can return under the assignment
		if inModule(cal) && len(cal.Blocks) > 0 && r.depth < 2 && cal != r.fn && cal.Signature.Results().Len() == 1 {
			sub := r.a.run(cal, r.depth+1)
			res := tri(-1)
			for _, b := range cal.Blocks {
				if !sub.reach[b] {
					continue
				}
				ret, ok := b.Instrs[len(b.Instrs)-1].(*ssa.Return)
				if !ok || len(ret.Results) != 1 {
					continue
				}
				ev := sub.eval(ret.Results[0], 0)
				if res == -1 {
					res = ev
				} else if res != ev {
					return triUnknown
				}
			}
			if res == -1 {
				return triUnknown
			}
			return res
		}
	}
	return triUnknown
}
